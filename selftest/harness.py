"""Self-test of the checkers: every registered edit is applied to a scratch copy of localcider/ (outside
/repo and /verif), the property's checker is pointed at the copy, and the copy is removed.

  breaking edit  (kind 'break') -> the checker must exit 1 and name the edited construct
  preserving edit (kind 'keep') -> the checker must exit 0 (or 2 when marked undecided-by-design)

This measures the checker, not the property: it never changes the exit code of a registered command."""
import contextlib
import io
import json
import multiprocessing
import os
import random
import shutil
import sys
import tempfile
import time

HERE = os.path.dirname(os.path.dirname(os.path.abspath(__file__)))
REPO = "/repo"


def _load():
    from selftest import mutants
    return mutants.MUTANTS


def _apply(scratch, m):
    path = os.path.join(scratch, m["file"])
    if not os.path.exists(path):
        return "file absent"
    with open(path) as fh:
        src = fh.read()
    edits = m.get("edits") or [(m["old"], m["new"])]
    for old, new in edits:
        if m.get("regex"):
            import re
            src, k = re.subn(old, new, src, flags=re.S)
            if k != m.get("count", 1):
                return "anchor absent (%d regex matches)" % k
            continue
        if src.count(old) != m.get("count", 1):
            return "anchor absent (%d occurrences)" % src.count(old)
        src = src.replace(old, new)
    try:
        import warnings
        with warnings.catch_warnings():
            warnings.simplefilter("ignore")
            compile(src, path, "exec")
    except SyntaxError as e:
        return "mutant does not compile: %s" % e
    with open(path, "w") as fh:
        fh.write(src)
    return None


def _one(job):
    m, pid = job
    sys.path.insert(0, HERE)
    scratch = tempfile.mkdtemp(prefix="lcsa_selftest_")
    try:
        shutil.copytree(os.path.join(REPO, "localcider"), os.path.join(scratch, "localcider"),
                        ignore=shutil.ignore_patterns("tests", "__pycache__", "*.pyc"))
        for extra in ("webpage.MD",):
            if os.path.exists(os.path.join(REPO, extra)):
                shutil.copy(os.path.join(REPO, extra), os.path.join(scratch, extra))
        err = _apply(scratch, m)
        if err:
            return {"id": m["id"], "pid": pid, "status": "skipped", "why": err}
        import importlib
        chk = importlib.machinery.SourceFileLoader("lcsa_check_main", os.path.join(HERE, "check")).load_module()
        buf = io.StringIO()
        t0 = time.time()
        with contextlib.redirect_stdout(buf):
            rc, ck = chk.run_property(pid, "quick", scratch, 0, evidence_dir=os.path.join(scratch, "_ev"), quiet=True)
        out = buf.getvalue()
        kind = m.get("kind", "break")
        named = [v["construct"] + " " + v["rule"] for v in ck.violations][:4]
        if kind == "break":
            status = "killed" if rc == 1 else ("undecided" if rc == 2 else "SURVIVED")
        else:
            ok = (rc == 0) or (rc == 2 and m.get("undecided_ok"))
            status = "silent" if ok else "FALSE-ALARM(rc=%d)" % rc
        return {"id": m["id"], "pid": pid, "status": status, "rc": rc, "named": named,
                "wall": round(time.time() - t0, 2), "tail": out.strip().splitlines()[-3:] if status.isupper() or "FALSE" in status or status == "undecided" else []}
    finally:
        shutil.rmtree(scratch, ignore_errors=True)


def run(pids=None, seed=0, budget_s=None, workers=16):
    muts = _load()
    jobs = []
    for m in muts:
        for pid in m["props"]:
            if pids is None or pid in pids:
                jobs.append((m, pid))
    random.Random(seed).shuffle(jobs)
    if not jobs:
        return []
    with multiprocessing.Pool(min(workers, len(jobs))) as pool:
        res = pool.map(_one, jobs, chunksize=1)
    return sorted(res, key=lambda r: (r["pid"], r["id"]))


def summarize(res):
    s = {"tried": 0, "killed": 0, "survived": 0, "undecided": 0, "preserving_tried": 0,
         "preserving_silent": 0, "false_alarms": 0, "skipped": 0}
    for r in res:
        st = r["status"]
        if st == "skipped":
            s["skipped"] += 1
        elif st in ("killed", "SURVIVED", "undecided"):
            s["tried"] += 1
            s["killed"] += st == "killed"
            s["survived"] += st == "SURVIVED"
            s["undecided"] += st == "undecided"
        else:
            s["preserving_tried"] += 1
            s["preserving_silent"] += st == "silent"
            s["false_alarms"] += st != "silent"
    return s


def run_for_property(pid, ck, seed):
    """thorough tier: record the self-test outcome in the evidence; never touches the exit code"""
    res = run({pid}, seed)
    s = summarize(res)
    ck.extra["selftest"] = s
    ck.extra["selftest_misses"] = [r for r in res if r["status"] in ("SURVIVED", "undecided") or "FALSE" in r["status"]][:20]
    for r in res:
        if r["status"] == "SURVIVED" or "FALSE" in r["status"]:
            print("SELFTEST-MISS property=%s edit=%s status=%s" % (pid, r["id"], r["status"]))
    print("%s SELFTEST tried=%d killed=%d undecided=%d survived=%d preserving=%d/%d skipped=%d" % (
        pid, s["tried"], s["killed"], s["undecided"], s["survived"], s["preserving_silent"],
        s["preserving_tried"], s["skipped"]))


def main(pid, seed):
    res = run({pid} if pid else None, seed)
    bad = 0
    for r in res:
        flag = r["status"] in ("SURVIVED",) or "FALSE" in r["status"]
        bad += flag
        print("%-6s %-44s %-18s %s %s" % (r["pid"], r["id"], r["status"], r.get("named", r.get("why", ""))[:2] if not isinstance(r.get("named", ""), str) else r.get("why", ""), " | ".join(r.get("tail", []))[:300]))
    s = summarize(res)
    print(json.dumps(s))
    return 1 if bad else 0
