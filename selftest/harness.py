"""Self-test of the checkers: every registered edit is applied to a scratch copy of localcider/ (outside
/repo and /verif), the property's checker is pointed at the copy, and the copy is removed.

  breaking edit  (kind 'break') -> the checker must exit 1 and name the edited construct
  preserving edit (kind 'keep') -> the checker must exit 0 (or 2 when marked undecided-by-design)

This measures the checker, not the property: it never changes the exit code of a registered command."""
import contextlib
import io
import json
import multiprocessing
import os
import random
import shutil
import sys
import tempfile
import time

HERE = os.path.dirname(os.path.dirname(os.path.abspath(__file__)))
REPO = "/repo"


def _load():
    from selftest import mutants
    return mutants.MUTANTS


def _apply(scratch, m):
    path = os.path.join(scratch, m["file"])
    if not os.path.exists(path):
        return "file absent"
    with open(path) as fh:
        src = fh.read()
    edits = m.get("edits") or [(m["old"], m["new"])]
    for old, new in edits:
        if m.get("regex"):
            import re
            src, k = re.subn(old, new, src, flags=re.S)
            if k != m.get("count", 1):
                return "anchor absent (%d regex matches)" % k
            continue
        if src.count(old) != m.get("count", 1):
            return "anchor absent (%d occurrences)" % src.count(old)
        src = src.replace(old, new)
    try:
        import warnings
        with warnings.catch_warnings():
            warnings.simplefilter("ignore")
            compile(src, path, "exec")
    except SyntaxError as e:
        return "mutant does not compile: %s" % e
    with open(path, "w") as fh:
        fh.write(src)
    return None


def _one(job):
    m, pid = job
    sys.path.insert(0, HERE)
    scratch = tempfile.mkdtemp(prefix="lcsa_selftest_")
    try:
        shutil.copytree(os.path.join(REPO, "localcider"), os.path.join(scratch, "localcider"),
                        ignore=shutil.ignore_patterns("tests", "__pycache__", "*.pyc"))
        for extra in ("webpage.MD",):
            if os.path.exists(os.path.join(REPO, extra)):
                shutil.copy(os.path.join(REPO, extra), os.path.join(scratch, extra))
        err = _apply(scratch, m)
        if err:
            return {"id": m["id"], "pid": pid, "status": "skipped", "why": err}
        import importlib
        chk = importlib.machinery.SourceFileLoader("lcsa_check_main", os.path.join(HERE, "check")).load_module()
        buf = io.StringIO()
        t0 = time.time()
        with contextlib.redirect_stdout(buf):
            rc, ck = chk.run_property(pid, "quick", scratch, 0, evidence_dir=os.path.join(scratch, "_ev"), quiet=True)
        out = buf.getvalue()
        kind = m.get("kind", "break")
        named = [v["construct"] + " " + v["rule"] for v in ck.violations][:4]
        if kind == "break":
            status = "killed" if rc == 1 else ("undecided" if rc == 2 else "SURVIVED")
        else:
            ok = (rc == 0) or (rc == 2 and m.get("undecided_ok"))
            status = "silent" if ok else "FALSE-ALARM(rc=%d)" % rc
        return {"id": m["id"], "pid": pid, "status": status, "rc": rc, "named": named,
                "wall": round(time.time() - t0, 2), "tail": out.strip().splitlines()[-3:] if status.isupper() or "FALSE" in status or status == "undecided" else []}
    finally:
        shutil.rmtree(scratch, ignore_errors=True)


def run(pids=None, seed=0, budget_s=None, workers=16):
    muts = _load()
    jobs = []
    for m in muts:
        for pid in m["props"]:
            if pids is None or pid in pids:
                jobs.append((m, pid))
    random.Random(seed).shuffle(jobs)
    if not jobs:
        return []
    with multiprocessing.Pool(min(workers, len(jobs))) as pool:
        res = pool.map(_one, jobs, chunksize=1)
    return sorted(res, key=lambda r: (r["pid"], r["id"]))


def summarize(res):
    s = {"tried": 0, "killed": 0, "survived": 0, "undecided": 0, "preserving_tried": 0,
         "preserving_silent": 0, "false_alarms": 0, "skipped": 0}
    for r in res:
        st = r["status"]
        if st == "skipped":
            s["skipped"] += 1
        elif st in ("killed", "SURVIVED", "undecided"):
            s["tried"] += 1
            s["killed"] += st == "killed"
            s["survived"] += st == "SURVIVED"
            s["undecided"] += st == "undecided"
        else:
            s["preserving_tried"] += 1
            s["preserving_silent"] += st == "silent"
            s["false_alarms"] += st != "silent"
    return s


def run_for_property(pid, ck, seed):
    """thorough tier: record the self-test outcome in the evidence; never touches the exit code"""
    res = run({pid}, seed)
    s = summarize(res)
    ck.extra["selftest"] = s
    ck.extra["selftest_misses"] = [r for r in res if r["status"] in ("SURVIVED", "undecided") or "FALSE" in r["status"]][:20]
    for r in res:
        if r["status"] == "SURVIVED" or "FALSE" in r["status"]:
            print("SELFTEST-MISS property=%s edit=%s status=%s" % (pid, r["id"], r["status"]))
    print("%s SELFTEST tried=%d killed=%d undecided=%d survived=%d preserving=%d/%d skipped=%d" % (
        pid, s["tried"], s["killed"], s["undecided"], s["survived"], s["preserving_silent"],
        s["preserving_tried"], s["skipped"]))


def _one_patch(job):
    """apply a stored patch (seeded breaking change / preserving change) to a scratch copy of the working tree and run one property's check"""
    name, kind, patch, pid = job
    import subprocess
    sys.path.insert(0, HERE)
    scratch = tempfile.mkdtemp(prefix="lcsa_corpus_")
    try:
        shutil.copytree(os.path.join(REPO, "localcider"), os.path.join(scratch, "localcider"), ignore=shutil.ignore_patterns("__pycache__", "*.pyc"))
        for extra in ("webpage.MD",):
            if os.path.exists(os.path.join(REPO, extra)):
                shutil.copy(os.path.join(REPO, extra), os.path.join(scratch, extra))
        r = subprocess.run("patch --binary -s -p1 < %s" % patch, cwd=scratch, shell=True, capture_output=True, text=True)
        if r.returncode != 0:
            return {"name": name, "kind": kind, "status": "skipped", "why": "patch does not apply to the working tree"}
        import importlib
        chk = importlib.machinery.SourceFileLoader("lcsa_check_main", os.path.join(HERE, "check")).load_module()
        buf = io.StringIO()
        with contextlib.redirect_stdout(buf):
            rc, ck = chk.run_property(pid, "quick", scratch, 0, evidence_dir=os.path.join(scratch, "_ev"), quiet=True)
        if kind == "seeded":
            status = "reported" if rc == 1 else ("undecided" if rc == 2 else "SILENT")
        else:
            status = "silent" if rc == 0 else ("undecided" if rc == 2 else "FALSE-ALARM")
        fresh = ck.fresh_violations() if hasattr(ck, "fresh_violations") else ck.violations
        return {"name": name, "kind": kind, "status": status, "rule": (fresh[0]["rule"] + " @ " + fresh[0]["construct"].split(":")[-1]) if fresh else ""}
    finally:
        shutil.rmtree(scratch, ignore_errors=True)


def run_corpora(pid, ck, workers=16):
    """thorough tier: this property's check against (a) the sub-agent written breaking changes filed under the property and (b) every
    behaviour-preserving change (refactorings, correct optimisations, repaired twins).  Recorded in the evidence; never touches the exit code."""
    import json
    jobs = []
    sroot = os.path.join(HERE, "seeded")
    for n in sorted(os.listdir(sroot)) if os.path.isdir(sroot) else []:
        pf, mf = os.path.join(sroot, n, "patch.diff"), os.path.join(sroot, n, "meta.json")
        if os.path.isfile(pf) and os.path.isfile(mf) and json.load(open(mf)).get("property") == pid:
            jobs.append((n, "seeded", pf, pid))
    proot = os.path.join(HERE, "preserving")
    for n in sorted(os.listdir(proot)) if os.path.isdir(proot) else []:
        pf = os.path.join(proot, n, "patch.diff")
        if os.path.isfile(pf):
            jobs.append((n, "preserving", pf, pid))
    if not jobs:
        return
    with multiprocessing.Pool(min(workers, len(jobs))) as pool:
        res = pool.map(_one_patch, jobs, chunksize=1)
    sd = [r for r in res if r["kind"] == "seeded"]
    pr = [r for r in res if r["kind"] == "preserving"]
    summ = {"seeded_tried": sum(r["status"] != "skipped" for r in sd), "seeded_reported": sum(r["status"] == "reported" for r in sd),
            "seeded_undecided": sum(r["status"] == "undecided" for r in sd), "seeded_silent": [r["name"] for r in sd if r["status"] == "SILENT"],
            "preserving_tried": sum(r["status"] != "skipped" for r in pr), "preserving_silent": sum(r["status"] == "silent" for r in pr),
            "preserving_undecided": sum(r["status"] == "undecided" for r in pr), "false_alarms": [r["name"] for r in pr if r["status"] == "FALSE-ALARM"],
            "skipped": sum(r["status"] == "skipped" for r in res),
            "seeded_detail": {r["name"]: (r["status"] + (": " + r["rule"] if r.get("rule") else "")) for r in sd}}
    ck.extra["corpora"] = summ
    for r in res:
        if r["status"] in ("FALSE-ALARM",):
            print("CORPUS-FALSE-ALARM property=%s change=%s" % (pid, r["name"]))
    print("%s CORPORA seeded: %d/%d reported, %d undecided, silent=%s | preserving: %d/%d silent, %d undecided, false alarms=%s" % (
        pid, summ["seeded_reported"], summ["seeded_tried"], summ["seeded_undecided"], summ["seeded_silent"], summ["preserving_silent"], summ["preserving_tried"],
        summ["preserving_undecided"], summ["false_alarms"]))


def main(pid, seed):
    res = run({pid} if pid else None, seed)
    bad = 0
    for r in res:
        flag = r["status"] in ("SURVIVED",) or "FALSE" in r["status"]
        bad += flag
        print("%-6s %-44s %-18s %s %s" % (r["pid"], r["id"], r["status"], r.get("named", r.get("why", ""))[:2] if not isinstance(r.get("named", ""), str) else r.get("why", ""), " | ".join(r.get("tail", []))[:300]))
    s = summarize(res)
    print(json.dumps(s))
    return 1 if bad else 0
