"""Registry of edits for the self-test.  Each edit is a textual replacement that must match exactly
`count` times (default 1) in the named file of the tree under test; otherwise it is skipped and counted.
kind 'break': behaviour-breaking, still compiles, chosen so that the 42 pinned tests do not notice
kind 'keep' : behaviour-preserving rewrite that must not raise an alarm"""

S = "localcider/backend/sequence.py"
A = "localcider/backend/data/aminoacids.py"
R = "localcider/backend/restable.py"
RES = "localcider/backend/residue.py"
P = "localcider/sequenceParameters.py"
C = "localcider/backend/sequenceComplexity.py"
F = "localcider/backend/seqfileparser.py"
PL = "localcider/backend/plotting.py"
PLOTS = "localcider/plots.py"
WL = "localcider/backend/wang_landau.py"

MUTANTS = []


def m(id, props, file, old, new, kind="break", **kw):
    MUTANTS.append(dict(id=id, props=props, file=file, old=old, new=new, kind=kind, **kw))


# ------------------------------------------------------------------ C04 (tables, folds)
m("c04-trp-kd-sign", ["C04"], A, "'TRP': -0.9,", "'TRP': 0.9,")
m("c04-arg-mw", ["C04"], A, "'R': 174.2", "'R': 147.2")
m("c04-cys-ppii", ["C04"], A, "'CYS': 0.25,", "'CYS': 0.52,")
m("c04-arg-charge0", ["C04", "C02", "C05"], A, "             'ARG': 1}", "             'ARG': 0}")
m("c04-cys-negative", ["C04", "C05"], A, "             'CYS': 0,", "             'CYS': -1,")
m("c04-disorder-drop-R", ["C04"], S, "D = ['T', 'A', 'G', 'R', 'D',", "D = ['T', 'A', 'G', 'D',")
m("c04-mw-water-N", ["C04"], S, "(18.0 * ( len(self.seq)-1 ))", "(18.0 * ( len(self.seq) ))")
m("c04-hydro-div-Nm1", ["C04"], S, "ans += ww[translate[self.seq[idx]]] / self.len", "ans += ww[translate[self.seq[idx]]] / (self.len - 1)")
m("c04-fer-no-P", ["C04"], S, "return (self.countPos() + self.countNeg() + self.seq.count('P')) / (self.len + 0.0)",
  "return (self.countPos() + self.countNeg() + self.seq.count('G')) / (self.len + 0.0)")
m("c04-ppii-keys-swapped", ["C04"], RES, "'creamer':PPII_Creamer,", "'creamer':PPII_Kallenbach,")
m("c04-skeleton-order", ["C04"], A, "        res.append(PPII_Dict_Hilser[res[1]])\n        res.append(PPII_Dict_Creamer[res[1]])",
  "        res.append(PPII_Dict_Creamer[res[1]])\n        res.append(PPII_Dict_Hilser[res[1]])")
m("c04-uversky-range-skip-first", ["C04"], S, "        for idx in range(0, self.len):\n            ans += normalizedKD", "        for idx in range(1, self.len):\n            ans += normalizedKD")
m("c04-api-misroute", ["C04"], P, "return self.SeqObj.meanWWHydropathy()", "return self.SeqObj.meanHydropathy()")
m("c04-special-case-W", ["C04"], S, "            total = total + MWTable[r]\n", "            total = total + (MWTable[r] if r != 'W' else 186.2)\n")
m("c04-ncpr-plus", ["C04", "C08"], S, "return (self.countPos() - self.countNeg()) / (self.len + 0.0)", "return (self.countPos() + self.countNeg()) / (self.len + 0.0)")
# preserving
m("c04-keep-sum-then-divide", ["C04"], S, "        ans = 0\n        for i in range(0, self.len):\n            ans += lkupTab.lookUpHydropathy(self.seq[i]) / self.len\n        return ans",
  "        ans = 0\n        for i in range(0, self.len):\n            ans += lkupTab.lookUpHydropathy(self.seq[i])\n        return ans / float(len(self.seq))", kind="keep")
m("c04-keep-direct-iteration", ["C04"], S, "        for idx in range(0, self.len):\n            ans += ww[translate[self.seq[idx]]] / self.len",
  "        for res in self.seq:\n            ans += ww[translate[res]] / self.len", kind="keep")
m("c04-keep-dict-reorder", ["C04"], A, "    return {'C': 8.5,\n            'Y': 10.1,", "    return {'Y': 10.1,\n            'C': 8.5,", kind="keep")
m("c04-keep-tuple-for-list", ["C04"], S, "D = ['T', 'A', 'G', 'R', 'D', 'H', 'Q', 'K', 'S', 'E', 'P']", "D = ('P', 'T', 'A', 'G', 'R', 'D', 'H', 'Q', 'K', 'S', 'E')", kind="keep")
