"""Registry of edits for the self-test.  Each edit is a textual replacement that must match exactly
`count` times (default 1) in the named file of the tree under test; otherwise it is skipped and counted.
kind 'break': behaviour-breaking, still compiles, chosen so that the 42 pinned tests do not notice
kind 'keep' : behaviour-preserving rewrite that must not raise an alarm"""

S = "localcider/backend/sequence.py"
A = "localcider/backend/data/aminoacids.py"
R = "localcider/backend/restable.py"
RES = "localcider/backend/residue.py"
P = "localcider/sequenceParameters.py"
C = "localcider/backend/sequenceComplexity.py"
F = "localcider/backend/seqfileparser.py"
PL = "localcider/backend/plotting.py"
PLOTS = "localcider/plots.py"
WL = "localcider/backend/wang_landau.py"

MUTANTS = []


def m(id, props, file, old, new, kind="break", **kw):
    MUTANTS.append(dict(id=id, props=props, file=file, old=old, new=new, kind=kind, **kw))


# ------------------------------------------------------------------ C04 (tables, folds)
m("c04-trp-kd-sign", ["C04"], A, "'TRP': -0.9,", "'TRP': 0.9,")
m("c04-arg-mw", ["C04"], A, "'R': 174.2", "'R': 147.2")
m("c04-cys-ppii", ["C04"], A, "'CYS': 0.25,", "'CYS': 0.52,")
m("c04-arg-charge0", ["C04", "C02", "C05"], A, "             'ARG': 1}", "             'ARG': 0}")
m("c04-cys-negative", ["C04", "C05"], A, "             'CYS': 0,", "             'CYS': -1,")
m("c04-disorder-drop-R", ["C04"], S, "D = ['T', 'A', 'G', 'R', 'D',", "D = ['T', 'A', 'G', 'D',")
m("c04-mw-water-N", ["C04"], S, "(18.0 * ( len(self.seq)-1 ))", "(18.0 * ( len(self.seq) ))")
m("c04-hydro-div-Nm1", ["C04"], S, "ans += ww[translate[self.seq[idx]]] / self.len", "ans += ww[translate[self.seq[idx]]] / (self.len - 1)")
m("c04-fer-no-P", ["C04"], S, "return (self.countPos() + self.countNeg() + self.seq.count('P')) / (self.len + 0.0)",
  "return (self.countPos() + self.countNeg() + self.seq.count('G')) / (self.len + 0.0)")
m("c04-ppii-keys-swapped", ["C04"], RES, "'creamer':PPII_Creamer,", "'creamer':PPII_Kallenbach,")
m("c04-skeleton-order", ["C04"], A, "        res.append(PPII_Dict_Hilser[res[1]])\n        res.append(PPII_Dict_Creamer[res[1]])",
  "        res.append(PPII_Dict_Creamer[res[1]])\n        res.append(PPII_Dict_Hilser[res[1]])")
m("c04-uversky-range-skip-first", ["C04"], S, "        for idx in range(0, self.len):\n            ans += normalizedKD", "        for idx in range(1, self.len):\n            ans += normalizedKD")
m("c04-api-misroute", ["C04"], P, "return self.SeqObj.meanWWHydropathy()", "return self.SeqObj.meanHydropathy()")
m("c04-special-case-W", ["C04"], S, "            total = total + MWTable[r]\n", "            total = total + (MWTable[r] if r != 'W' else 186.2)\n")
m("c04-ncpr-plus", ["C04", "C08"], S, "return (self.countPos() - self.countNeg()) / (self.len + 0.0)", "return (self.countPos() + self.countNeg()) / (self.len + 0.0)")
# preserving
m("c04-keep-sum-then-divide", ["C04"], S, "        ans = 0\n        for i in range(0, self.len):\n            ans += lkupTab.lookUpHydropathy(self.seq[i]) / self.len\n        return ans",
  "        ans = 0\n        for i in range(0, self.len):\n            ans += lkupTab.lookUpHydropathy(self.seq[i])\n        return ans / float(len(self.seq))", kind="keep")
m("c04-keep-direct-iteration", ["C04"], S, "        for idx in range(0, self.len):\n            ans += ww[translate[self.seq[idx]]] / self.len",
  "        for res in self.seq:\n            ans += ww[translate[res]] / self.len", kind="keep")
m("c04-keep-dict-reorder", ["C04"], A, "    return {'C': 8.5,\n            'Y': 10.1,", "    return {'Y': 10.1,\n            'C': 8.5,", kind="keep")
m("c04-keep-tuple-for-list", ["C04"], S, "D = ['T', 'A', 'G', 'R', 'D', 'H', 'Q', 'K', 'S', 'E', 'P']", "D = ('P', 'T', 'A', 'G', 'R', 'D', 'H', 'Q', 'K', 'S', 'E')", kind="keep")

# ------------------------------------------------------------------ C02 (delta)
m("c02-blob-5-7", ["C02"], S, "return (self.deltaForm(5) + self.deltaForm(6)) / 2", "return (self.deltaForm(5) + self.deltaForm(7)) / 2")
m("c02-div-3", ["C02"], S, "return (self.deltaForm(5) + self.deltaForm(6)) / 2", "return (self.deltaForm(5) + self.deltaForm(6)) / 3")
m("c02-last-blob-dropped", ["C02", "C05"], S, "        for i in range(0, nblobs):\n\n            # get the blob charge pattern list", "        for i in range(0, nblobs - 1):\n\n            # get the blob charge pattern list")
m("c02-first-blob-dropped", ["C02", "C05"], S, "        for i in range(0, nblobs):\n\n            # get the blob charge pattern list", "        for i in range(1, nblobs):\n\n            # get the blob charge pattern list")
m("c02-bneg-le", ["C02"], S, "            bneg = np.where(blob < 0)[0].size", "            bneg = np.where(blob <= 0)[0].size")
m("c02-abs-not-square", ["C02", "C05"], S, "                bsig = bncpr**2 / bfcr\n\n            # calculate the square deviation", "                bsig = abs(bncpr) / bfcr\n\n            # calculate the square deviation")
m("c02-uncharged-blob-1", ["C02"], S, "            if(bfcr == 0):\n                bsig = 0\n            else:\n                bsig = bncpr**2 / bfcr\n\n            # calculate the square", "            if(bfcr == 0):\n                bsig = 1\n            else:\n                bsig = bncpr**2 / bfcr\n\n            # calculate the square")
m("c02-div-nblobs-minus-1", ["C02"], S, "ans += (sigma - bsig)**2 / nblobs", "ans += (sigma - bsig)**2 / (nblobs - 1)")
m("c02-sigma-guard", ["C02"], S, "        if(self.countNeut() == self.len):\n            return 0", "        if(self.countNeut() == 0):\n            return 0")
m("c02-window-short", ["C02", "C05"], S, "            blob = self.chargePattern[i:(i + bloblen)]\n\n            # calculate a bunch", "            blob = self.chargePattern[i:(i + bloblen - 1)]\n\n            # calculate a bunch")
m("c02-reads-fcr-blob", ["C02"], S, "            bfcr = (bpos + bneg) / (bloblen + 0.0)\n\n            if(bfcr == 0):\n                bsig = 0\n            else:\n                bsig = bncpr**2 / bfcr\n\n            # calculate the square", "            bfcr = (bpos + bneg) / (bloblen + 1.0)\n\n            if(bfcr == 0):\n                bsig = 0\n            else:\n                bsig = bncpr**2 / bfcr\n\n            # calculate the square")
m("c02-short-seq-special", ["C02"], S, "        sigma = self.sigma()\n        nblobs = self.len - bloblen + 1\n        ans = 0\n", "        sigma = self.sigma()\n        nblobs = self.len - bloblen + 1\n        ans = 0\n        if nblobs == 1:\n            return 0\n")
m("c02-api-deltamax", ["C02"], P, "        return self.SeqObj.delta()", "        return self.SeqObj.deltaMax()")
m("c02-keep-hoist", ["C02"], S, "            bncpr = (bpos - bneg) / (bloblen + 0.0)\n            bfcr = (bpos + bneg) / (bloblen + 0.0)\n\n            if(bfcr == 0):\n                bsig = 0\n            else:\n                bsig = bncpr**2 / bfcr\n\n            # calculate the square",
  "            wl = float(bloblen)\n            bfcr = (bneg + bpos) / wl\n            bncpr = (bpos - bneg) / wl\n\n            if bpos + bneg == 0:\n                bsig = 0\n            else:\n                bsig = (bncpr * bncpr) / bfcr\n\n            # calculate the square", kind="keep")
m("c02-keep-div-outside", ["C02"], S, "            ans += (sigma - bsig)**2 / nblobs\n\n        return ans", "            ans += (sigma - bsig)**2\n\n        return ans / nblobs if nblobs > 0 else ans", kind="keep", undecided_ok=True)
m("c02-keep-half", ["C02"], S, "return (self.deltaForm(5) + self.deltaForm(6)) / 2", "return 0.5 * (self.deltaForm(6) + self.deltaForm(5))", kind="keep")

# ------------------------------------------------------------------ C08 (phase region)
m("c08-lt-to-le-025", ["C08"], S, "        if(fcr < .25):", "        if(fcr <= .25):")
m("c08-le-to-lt-035", ["C08"], S, "elif(fcr >= .25 and fcr <= .35):", "elif(fcr >= .25 and fcr < .35):")
m("c08-abs-dropped", ["C08"], S, "elif(fcr > .35 and abs(ncpr) < 0.35):", "elif(fcr > .35 and ncpr < 0.35):")
m("c08-ncpr-le", ["C08"], S, "elif(fcr > .35 and abs(ncpr) < 0.35):", "elif(fcr > .35 and abs(ncpr) <= 0.35):")
m("c08-4-5-exchanged", ["C08"], S, "                    \"Algorithm bug when coping with phase plot regions\")\n            return 5", "                    \"Algorithm bug when coping with phase plot regions\")\n            return 4")
m("c08-fplus-ge", ["C08"], S, "        elif(self.Fplus() > 0.35):", "        elif(self.Fplus() > 0.36):")
m("c08-two-roundings", ["C08"], S, "            return (self.countPos() + self.countNeg()) / (self.len + 0.0)\n        \n    #", "            return self.Fplus() + self.Fminus()\n        \n    #")
m("c08-threshold-03", ["C08"], S, "elif(fcr >= .25 and fcr <= .35):", "elif(fcr >= .25 and fcr <= .3):")
m("c08-annotation-swapped", ["C08"], S, "            return 'Negatively Charged Swollen Coils'\n        elif(region == 5):\n            return 'Positively Charged Swollen Coils'", "            return 'Positively Charged Swollen Coils'\n        elif(region == 5):\n            return 'Negatively Charged Swollen Coils'")
m("c08-len-special", ["C08"], S, "        fcr = self.FCR()\n        ncpr = self.NCPR()\n", "        fcr = self.FCR()\n        ncpr = self.NCPR()\n        if self.len > 1000:\n            return 3\n")
m("c08-keep-nested", ["C08"], S, "        elif(fcr >= .25 and fcr <= .35):\n            return 2", "        elif(fcr <= .35):\n            return 2", kind="keep")
m("c08-keep-float-cast", ["C08"], S, "        return self.countPos() / (self.len + 0.0)", "        return self.countPos() / float(self.len)", kind="keep")

# ------------------------------------------------------------------ C01 (kappa)
m("c01-sentinel-0", ["C01"], S, "kappa is not a valid/relevant parameter\")\n            return -1", "kappa is not a valid/relevant parameter\")\n            return 0")
m("c01-cond-on-delta", ["C01"], S, "        if self.deltaMax() == 0:\n            warning_message(", "        if self.delta() == 0:\n            warning_message(")
m("c01-ratio-inverted", ["C01"], S, "kappaVal = self.delta() / self.deltaMax()", "kappaVal = self.deltaMax() / self.delta()")
m("c01-clamp-1.5", ["C01"], S, "if kappaVal > 1.0 and kappaVal < 1.1:", "if kappaVal > 1.0 and kappaVal < 1.5:")
m("c01-clamp-removed", ["C01"], S, "if kappaVal > 1.0 and kappaVal < 1.1:\n                return 1.0", "if kappaVal > 1.0 and kappaVal < 1.1:\n                return kappaVal")
m("c01-silent-clip", ["C01"], S, "            if kappaVal > 1.0 and kappaVal < 1.1:\n                return 1.0\n            else:\n                return kappaVal", "            if kappaVal > 1.0:\n                return 1.0\n            else:\n                return kappaVal")
m("c01-getdelta-misroute", ["C01", "C02"], P, "        return self.SeqObj.delta()", "        return self.SeqObj.deltaMax()")
m("c01-minus-one-on-small", ["C01"], S, "            kappaVal = self.delta() / self.deltaMax()\n", "            kappaVal = self.delta() / self.deltaMax()\n            if kappaVal < 0.001:\n                return -1\n")
m("c01-delta-signed", ["C01"], S, "ans += (sigma - bsig)**2 / nblobs", "ans += (sigma - bsig)**3 / nblobs")
m("c01-keep-le-zero", ["C01"], S, "        if self.deltaMax() == 0:\n            warning_message(", "        if self.deltaMax() <= 0:\n            warning_message(", kind="keep")
m("c01-keep-restructure", ["C01"], S, "            if kappaVal > 1.0 and kappaVal < 1.1:\n                return 1.0\n            else:\n                return kappaVal", "            if 1.0 < kappaVal < 1.1:\n                kappaVal = 1.0\n            return kappaVal", kind="keep")

# ------------------------------------------------------------------ C07 (SCD)
_scd = "total = total + float(self.chargePattern[m-1])*float(self.chargePattern[n-1])*np.power((m-n),0.5)"
m("c07-exponent-1", ["C07"], S, _scd, _scd.replace("0.5)", "1)"))
m("c07-exponent-neg", ["C07"], S, _scd, _scd.replace("0.5)", "-0.5)"))
m("c07-m-plus-n", ["C07", "C05"], S, _scd, _scd.replace("(m-n)", "(m+n)"))
m("c07-abs-product", ["C07", "C05"], S, _scd, "total = total + abs(float(self.chargePattern[m-1])*float(self.chargePattern[n-1]))*np.power((m-n),0.5)")
m("c07-missing-div", ["C07"], S, "        return total/self.len\n", "        return total\n")
m("c07-div-N2", ["C07"], S, "        return total/self.len\n", "        return total/(self.len*self.len)\n")
m("c07-range-skip-last", ["C07", "C05"], S, "for m in range(2,self.len+1):", "for m in range(2,self.len):")
m("c07-inner-skip-adjacent", ["C07", "C05"], S, "for n in range(1,m):", "for n in range(1,m-1):")
m("c07-offbyone-index", ["C07"], S, _scd, _scd.replace("self.chargePattern[n-1]", "self.chargePattern[n]"))
m("c07-init-1", ["C07"], S, "        total=0\n        for m in range(2,self.len+1):", "        total=1\n        for m in range(2,self.len+1):")
m("c07-keep-zero-based", ["C07"], S, "        for m in range(2,self.len+1):\n            for n in range(1,m):\n                " + _scd,
  "        for i in range(1, self.len):\n            for j in range(0, i):\n                total += self.chargePattern[i] * self.chargePattern[j] * (i - j) ** 0.5", kind="keep")
m("c07-keep-swapped-roles", ["C07"], S, "        for m in range(2,self.len+1):\n            for n in range(1,m):\n                " + _scd,
  "        for n in range(1, self.len):\n            for m in range(n + 1, self.len + 1):\n                total = total + self.chargePattern[n-1] * self.chargePattern[m-1] * np.sqrt(m - n)", kind="keep")

# ------------------------------------------------------------------ C09 (pH)
m("c09-drop-C", ["C09"], S, "if res in ['E', 'D', 'Y', 'C']:", "if res in ['E', 'D', 'Y']:")
m("c09-drop-R", ["C09"], S, "if res in ['K','R','H']:", "if res in ['K','H']:")
m("c09-pka-R", ["C09"], A, "            'R': 12.5}", "            'R': 12.0}")
m("c09-pka-C", ["C09"], A, "    return {'C': 8.5,", "    return {'C': 8.3,")
m("c09-sign-flip-acid", ["C09"], S, "(negative_numerator / (1+np.power(10, (pKa_lookup[res] - pH))))", "(negative_numerator / (1+np.power(10, (pH - pKa_lookup[res]))))")
m("c09-normalize-by-N", ["C09"], S, "                total = float(total)/countable_residues", "                total = float(total)/self.len")
m("c09-total-mode-net", ["C09"], S, "        if mode == 'TOTAL':\n            negative_numerator=1.0", "        if mode == 'TOTAL':\n            negative_numerator=-1.0")
m("c09-ph-ge-14-rejected", ["C09"], P, "        if pH > 14.0:", "        if pH >= 14.0:")
m("c09-ph-neg-allowed", ["C09"], P, "        if pH < 0.0:", "        if pH < -1.0:")
m("c09-wrapper-no-verify", ["C09"], P, "        if pH is not None:\n            self.__verify_pH(pH)\n\n        return self.SeqObj.NCPR(pH)", "        return self.SeqObj.NCPR(pH)")
m("c09-threshold-0.2", ["C09"], S, "        threshold=0.02 #", "        threshold=0.2 #")
m("c09-return-min", ["C09"], S, "            else:\n                return mid_pH\n", "            else:\n                return min_pH\n")
m("c09-breakcount-stuck", ["C09"], S, "            breakcount=breakcount+1\n", "            breakcount=breakcount+0\n")
m("c09-no-error-escape", ["C09"], S, "                errorcount=errorcount+1\n", "                errorcount=errorcount+0\n")
m("c09-fer-no-pro", ["C09"], S, "return (self.charge_at_pH(pH, mode='TOTAL') + self.seq.count('P')) / (self.len + 0.0)", "return (self.charge_at_pH(pH, mode='TOTAL')) / (self.len + 0.0)")
m("c09-fcr-net", ["C09"], S, "            return self.charge_at_pH(pH, mode='TOTAL') / (self.len + 0.0)", "            return self.charge_at_pH(pH) / (self.len + 0.0)")
m("c09-charge-on-stale-mid", ["C09"], S, "            protein_charge = self.charge_at_pH(mid_pH, normalize=True)\n", "            protein_charge = self.charge_at_pH(min_pH, normalize=True)\n")
m("c09-one-sided", ["C09"], S, "            elif protein_charge < -threshold:\n                max_pH = mid_pH", "            elif protein_charge < -threshold * 10:\n                max_pH = mid_pH")
m("c09-keep-elif", ["C09"], S, "            if res in ['E', 'D', 'Y', 'C']:\n                total = total+(negative", "            elif res in ('C', 'Y', 'E', 'D'):\n                total = total+(negative", kind="keep")
m("c09-keep-pow-op", ["C09"], S, "total = total+(1 / (1+np.power(10, (pH - pKa_lookup[res]))))", "total += 1.0 / (1 + 10 ** (pH - pKa_lookup[res]))", kind="keep")

# ------------------------------------------------------------------ C10 (window profiles)
m("c10-ncpr-guard-removed(F4)", ["C10"], S, "        self.__check_window_to_length(bloblen)\n\n        # detemrine the number of blobs", "        # detemrine the number of blobs")
m("c10-sigma-guard-removed", ["C10"], S, "        varies over blob-sized regions along the sequence\n        \"\"\"\n\n        self.__check_window_to_length(bloblen)\n\n        nblobs = self.len - bloblen + 1\n\n        # determine the flanking positions over which we don't calculate \n        # sigma", "        varies over blob-sized regions along the sequence\n        \"\"\"\n\n        nblobs = self.len - bloblen + 1\n\n        # determine the flanking positions over which we don't calculate \n        # sigma")
m("c10-guard-le", ["C10", "C11"], S, "        if len(self.seq) < bloblen:\n            raise SequenceException('Trying to use a window", "        if len(self.seq) <= bloblen:\n            raise SequenceException('Trying to use a window")
m("c10-even-flank", ["C10"], S, "            flank_start = flank - 1\n            flank_end   = flank \n\n        blobsig = [0] * nblobs", "            flank_start = flank\n            flank_end   = flank - 1\n\n        blobsig = [0] * nblobs")
m("c10-pads-exchanged", ["C10"], S, "[0]*flank_start + blobfcr + [0]*flank_end", "[0]*flank_end + blobfcr + [0]*flank_start")
m("c10-arange-0", ["C10"], S, "return np.vstack((np.arange(1, self.len + 1), [0]*flank_start + blobsig + [0]*flank_end))", "return np.vstack((np.arange(0, self.len), [0]*flank_start + blobsig + [0]*flank_end))")
m("c10-sigma-last-window", ["C10"], S, "        for i in np.arange(0, nblobs):\n            blob = self.chargePattern[i:(i + bloblen)]\n            bpos = len(np.where(blob > 0)[0])\n            bneg = len(np.where(blob < 0)[0])\n\n            bncpr", "        for i in np.arange(0, nblobs - 1):\n            blob = self.chargePattern[i:(i + bloblen)]\n            bpos = len(np.where(blob > 0)[0])\n            bneg = len(np.where(blob < 0)[0])\n\n            bncpr")
m("c10-density-div-wm1", ["C10"], S, "blob_density[i] = sum(blob)/float(bloblen)", "blob_density[i] = sum(blob)/float(bloblen - 1)")
m("c10-hydro-kd-not-uversky", ["C10"], S, "        KDU = aminoacids.get_KD_uversky()\n", "        KDU = aminoacids.get_KD_shifted()\n")
m("c10-fcr-minus", ["C10"], S, "blobfcr[i] = (bpos + bneg) / (bloblen + 0.0)", "blobfcr[i] = (bpos - bneg) / (bloblen + 0.0)")
m("c10-window-shifted", ["C10"], S, "            blob = hydrochain[i:(i + bloblen)]\n            blobhydro[i] = sum(blob) / float(bloblen)", "            blob = hydrochain[i + 1:(i + bloblen + 1)]\n            blobhydro[i] = sum(blob) / float(bloblen)")
m("c10-groups-sorted", ["C10"], S, "        for group in grps[1:]:\n            tmp = self.linearDenistyOfAAs(bloblen, group)", "        for group in sorted(grps[1:]):\n            tmp = self.linearDenistyOfAAs(bloblen, group)")
m("c10-default-group-polar", ["C10"], S, "grps.append(['Q','N','S','T','G','H','C'])", "grps.append(['Q','N','S','T','G','H'])")
m("c10-api-fcr-for-ncpr", ["C10"], P, "        return(self.SeqObj.linearDistOfNCPR(blobLen))", "        return(self.SeqObj.linearDistOfFCR(blobLen))")
m("c10-density-else-one", ["C10"], S, "                target_seq.append(0.0)", "                target_seq.append(0.5)")
m("c10-keep-floordiv", ["C10"], S, "        flank = int(bloblen/2)\n\n        # if bloblen is odd", "        flank = bloblen // 2\n\n        # if bloblen is odd", kind="keep")
m("c10-keep-parity-test", ["C10"], S, "        # if bloblen is odd\n        if 2*flank+nblobs == self.len:", "        # if bloblen is odd\n        if bloblen % 2 == 1:", kind="keep", undecided_ok=True)

# ------------------------------------------------------------------ C12 (reduced alphabets)
m("c12-move-C-size6", ["C12"], C, "                elif x in ('P', 'H', 'C'):\n                    aa.append('P')", "                elif x in ('P', 'H'):\n                    aa.append('P')")
m("c12-move-T-size8", ["C12"], C, "                elif x in ('S', 'T'):\n                    aa.append('S')\n                elif x in ('F', 'Y', 'W'):\n                    aa.append('F')\n                elif x in ('E', 'D', 'N', 'Q'):\n                    aa.append('E')\n                elif x in ('H'):", "                elif x in ('S'):\n                    aa.append('S')\n                elif x in ('F', 'Y', 'W'):\n                    aa.append('F')\n                elif x in ('E', 'D', 'N', 'Q'):\n                    aa.append('E')\n                elif x in ('H', 'T'):")
m("c12-rep-nonmember", ["C12"], C, "                if x in ('L', 'M'):\n                    aa.append('L')", "                if x in ('L', 'M'):\n                    aa.append('I')")
m("c12-alphabet-out-of-step", ["C12"], C, "        six    = ['L', 'A', 'P', 'F', 'E', 'K']", "        six    = ['L', 'A', 'P', 'F', 'E', 'R']")
m("c12-double-append", ["C12"], C, "                elif x in ('V', 'I'):\n                    aa.append('V')", "                elif x in ('V', 'I'):\n                    aa.append('V')\n                    aa.append('V')")
m("c12-size-7-accepted", ["C12"], C, "        if alphabetSize not in [2, 3, 4, 5, 6, 8, 10, 11, 12, 15, 18, 20]:", "        if alphabetSize not in [2, 3, 4, 5, 6, 7, 8, 10, 11, 12, 15, 18, 20]:")
m("c12-user-no-value-check", ["C12"], C, "                if converted not in TWENTY_AAs:", "                if converted not in TWENTY_AAs and converted != 'X':")
m("c12-user-validate-19", ["C12"], C, "            for x in TWENTY_AAs:\n                try:", "            for x in TWENTY_AAs[:-1]:\n                try:")
m("c12-swap-ED-size12", ["C12"], C, "                elif x in ('E', 'Q'):\n                    aa.append('E')\n                elif x in ('D', 'N'):\n                    aa.append('D')", "                elif x in ('E', 'D'):\n                    aa.append('E')\n                elif x in ('Q', 'N'):\n                    aa.append('D')")
m("c12-api-drops-user", ["C12"], S, "        return self.ComplexityObject.reduce_alphabet(\n            self.seq, alphabetSize, userAlphabet)", "        return self.ComplexityObject.reduce_alphabet(\n            self.seq, alphabetSize)")
m("c12-keep-set-literal", ["C12"], C, "                if x in ('L', 'M'):\n                    aa.append('L')", "                if x in {'M', 'L'}:\n                    aa.append('L')", kind="keep")
m("c12-keep-H-string", ["C12"], C, "                elif x in ('H'):", "                elif x == 'H':", kind="keep")

# ------------------------------------------------------------------ C13 (construction)
m("c13-no-validate", ["C13"], P, "self.SeqObj = Sequence(sequence, validateSeq=True)", "self.SeqObj = Sequence(sequence)")
m("c13-upper-after", ["C13"], S, "            seq = seq.upper()\n            seq = self.validateSequence(seq)", "            seq = self.validateSequence(seq)\n            seq = seq.upper()")
m("c13-whitelist-BXU", ["C13"], S, "        AAs = list(data.aminoacids.ONE_TO_THREE.keys())\n        pos = 0", "        AAs = list(data.aminoacids.ONE_TO_THREE.keys()) + ['B', 'X', 'U']\n        pos = 0")
m("c13-space-only", ["C13"], S, "                if i.isspace():", "                if i == ' ':")
m("c13-dash-dropped", ["C13"], S, "                if i.isspace():", "                if i.isspace() or i == '-':")
m("c13-blank-accepted", ["C13"], S, "        prolineContent = float(processed.count(\"P\")) / float(len(processed))\n        if prolineContent > 0.15:", "        prolineContent = float(processed.count(\"P\")) / max(1.0, float(len(processed)))\n        if prolineContent > 0.15:")
m("c13-len-from-raw", ["C13"], S, "        self.seq = seq.upper()\n        self.len = len(seq)\n", "        self.seq = seq.upper()\n        self.len = len(seq) if not validateSeq else len(seq) + seq.count('P') * 0 + (1 if 'WWW' in seq else 0)\n")
m("c13-typecheck-isinstance-any", ["C13"], "localcider/backend/backendtools.py", "        if objclass == typeHere:\n            return True\n        else:\n            return False", "        if objclass == typeHere:\n            return True\n        else:\n            return hasattr(obj, 'upper')")
m("c13-keeps-digit", ["C13"], S, "            if i not in AAs:\n\n                # if we find whitespace", "            if i not in AAs and not i.isdigit():\n\n                # if we find whitespace")
m("c13-get-length-len-field", ["C13"], P, "        return len(self.SeqObj.seq)\n\n    #...................................................................................#\n    def get_mean_hydropathy", "        return len(self.SeqObj.seq) + 0\n\n    #...................................................................................#\n    def get_mean_hydropathy", kind="keep", undecided_ok=True)
m("c13-duplicate-letters", ["C13"], S, "                processed = processed + i\n", "                processed = processed + i + (i if pos == 77 else '')\n")
m("c13-keep-elif-structure", ["C13"], S, "            if i not in AAs:\n\n                # if we find whitespace\n                if i.isspace():", "            if i in AAs:\n                processed = processed + i\n                continue\n            if i not in AAs:\n\n                # if we find whitespace\n                if i.isspace():", kind="keep")

# ------------------------------------------------------------------ C14 (file parser)
m("c14-digits-kept-error", ["C14"], F, "                elif i in \"1234567890\":", "                elif i in \"123456789\":")
m("c14-skip-O-U", ["C14"], F, "                if i == \" \":\n", "                if i == \" \" or i in \"OU\":\n")
m("c14-star-anywhere", ["C14"], F, "        if seq[-1] == \"*\":\n            return seq[0:-1]", "        if \"*\" in seq:\n            return seq.replace(\"*\", \"\")")
m("c14-two-stars-ok", ["C14"], F, "        if number_of_asterisk > 1:", "        if number_of_asterisk > 2:")
m("c14-second-header-ok", ["C14"], F, "                if header:\n                    raise SequenceFileParserException(", "                if False:\n                    raise SequenceFileParserException(")
m("c14-join-with-space", ["C14"], F, "                seq = seq + line\n", "                seq = seq + \" \" + line\n")
m("c14-prepend", ["C14"], F, "                seq = seq + line\n", "                seq = line + seq\n")
m("c14-tab-skipped", ["C14"], F, "                if i == \" \":\n", "                if i == \" \" or i == \"\\t\":\n")
m("c14-no-final-validation", ["C14"], F, "        seq = self.__final_validation(seq)\n", "        seq = seq\n")
m("c14-header-anywhere", ["C14"], F, "            if line[0] == \">\":", "            if \">\" in line:", undecided_ok=True)
m("c14-strip-last-two", ["C14"], F, "            return seq[0:-1]", "            return seq[0:-2]")
m("c14-file-branch-raw", ["C14"], P, "            self.SeqObj = Sequence(parserMachine.parseSeqFile(sequenceFile))", "            self.SeqObj = Sequence(open(sequenceFile).read().strip())")
m("c14-keep-count-var", ["C14"], F, "        if number_of_asterisk == 0:\n            return seq", "        if number_of_asterisk < 1:\n            return seq", kind="keep")
m("c14-keep-else", ["C14"], F, "            elif len(line) > 0:\n", "            else:\n", kind="keep")
