#!/venv/bin/python
"""tools/twin.py <seeded dir name> <file relative to repo> <old text> <new text> [<old2> <new2> ...]
Build the *repaired twin* of a seeded breaking change: the sub-agent's patch plus a small textual correction that removes the defect but keeps
the refactoring.  Kept under /verif/preserving/T-<name>/ only if the seed's own demo.py passes on it and the 42 pinned tests still pass.
The twins are the sharpest false-alarm probes available: same new code shape as a real defect, correct behaviour."""
import json
import os
import shutil
import subprocess
import sys

HERE = os.path.dirname(os.path.dirname(os.path.abspath(__file__)))
sys.path.insert(0, os.path.join(HERE, "tools"))
import seed as S   # noqa: E402


def main():
    name, rel = sys.argv[1], sys.argv[2]
    pairs = list(zip(sys.argv[3::2], sys.argv[4::2]))
    sd = os.path.join(HERE, "seeded", name)
    clean = S.scratch()
    twin = S.scratch(os.path.join(sd, "patch.diff"))
    try:
        path = os.path.join(twin, rel)
        src = open(path, newline="").read()
        for old, new in pairs:
            old, new = old.encode().decode("unicode_escape"), new.encode().decode("unicode_escape")
            if src.count(old) != 1:
                raise SystemExit("anchor occurs %d times: %r" % (src.count(old), old))
            src = src.replace(old, new)
        open(path, "w", newline="").write(src)
        rc, out = S.run_demo(twin, os.path.join(sd, "demo.py"))
        lost = S.run_suite(twin)
        print("demo on twin rc=%d, baseline tests lost=%s" % (rc, lost))
        if rc != 0 or lost:
            print(out[-400:])
            raise SystemExit(2)
        for junk in ("_junit.xml", ".pytest_cache"):
            for root in (clean, twin):
                p = os.path.join(root, junk)
                if os.path.isdir(p):
                    shutil.rmtree(p)
                elif os.path.exists(p):
                    os.remove(p)
        r = subprocess.run(["diff", "-ruN", "--exclude=__pycache__", "--exclude=tmpfiles", "a/localcider", "b/localcider"], capture_output=True,
                           cwd=_link(clean, twin))          # bytes: CRLF files must keep their line ends in the patch
        dst = os.path.join(HERE, "preserving", "T-" + name)
        os.makedirs(dst, exist_ok=True)
        open(os.path.join(dst, "patch.diff"), "wb").write(r.stdout)
        json.dump({"kind": "repaired twin of seeded/%s" % name, "summary": "seeded change %s with its defect corrected (%s); the seed's demo.py passes on it" % (
            name, "; ".join("%r -> %r" % p for p in pairs)), "demo": "seeded/%s/demo.py" % name, "suite": "42 baseline tests pass"},
            open(os.path.join(dst, "meta.json"), "w"), indent=1)
        print("KEPT", dst)
    finally:
        shutil.rmtree(clean, ignore_errors=True)
        shutil.rmtree(twin, ignore_errors=True)
        shutil.rmtree(_LINK[0], ignore_errors=True) if _LINK else None


_LINK = []


def _link(clean, twin):
    import tempfile
    d = tempfile.mkdtemp(prefix="lcsa_twin_")
    os.symlink(clean, os.path.join(d, "a"))
    os.symlink(twin, os.path.join(d, "b"))
    _LINK.append(d)
    return d


if __name__ == "__main__":
    main()
