#!/venv/bin/python
"""maintain /verif/seeded: verify a sub-agent's seeded change and run the checks against it.

  tools/seed.py verify <dir>   dir holds patch.diff, demo.py, meta.json : applies the patch to a scratch export of /repo HEAD,
                               runs the pinned test suite (must keep the 42 baseline tests passing) and the demo with and
                               without the patch (must fail / pass)
  tools/seed.py check <dir>    runs every property's quick check against the patched scratch copy; prints which fire
  tools/seed.py all            check every /verif/seeded/* and rewrite seeded/RESULTS.json
Scratch copies live under mktemp -d and are removed."""
import json
import os
import shutil
import subprocess
import sys
import tempfile
import xml.etree.ElementTree as ET

HERE = os.path.dirname(os.path.dirname(os.path.abspath(__file__)))
PIDS = ["C%02d" % i for i in range(1, 21)]


def scratch(patch=None):
    d = tempfile.mkdtemp(prefix="lcsa_seed_")
    subprocess.run("git -C /repo archive HEAD | tar -x -C %s" % d, shell=True, check=True)
    if patch:
        r = subprocess.run(["git", "apply", "--whitespace=nowarn", os.path.abspath(patch)], cwd=d, capture_output=True, text=True)
        if r.returncode != 0:
            # scratch export is not a git repo: use patch(1)
            r = subprocess.run("patch --binary -p1 < %s" % os.path.abspath(patch), cwd=d, shell=True, capture_output=True, text=True)
            if r.returncode != 0:
                shutil.rmtree(d)
                raise SystemExit("patch does not apply: " + r.stdout + r.stderr)
    return d


def run_suite(d):
    x = os.path.join(d, "_junit.xml")
    subprocess.run(["/venv/bin/python", "-m", "pytest", "-q", "-p", "no:cacheprovider", "--timeout=900", "--continue-on-collection-errors",
                    "--junitxml=" + x], cwd=d, capture_output=True, text=True)
    base = set(json.load(open("/root/.vp/BASELINE.json"))["stable_pass"])
    ok = set()
    for tc in ET.parse(x).iter("testcase"):
        if not any(c.tag in ("failure", "error", "skipped") for c in tc):
            ok.add(tc.get("classname") + "::" + tc.get("name"))
    return sorted(base - ok)


def run_demo(d, demo):
    r = subprocess.run(["/venv/bin/python", os.path.abspath(demo)], cwd=d, capture_output=True, text=True, timeout=900,
                       env=dict(os.environ, MPLBACKEND="Agg", PYTHONPATH=d))
    return r.returncode, (r.stdout + r.stderr)[-600:]


def verify(sd):
    patch, demo = os.path.join(sd, "patch.diff"), os.path.join(sd, "demo.py")
    clean = scratch()
    mut = scratch(patch)
    try:
        rc0, out0 = run_demo(clean, demo)
        rc1, out1 = run_demo(mut, demo)
        missing = run_suite(mut)
    finally:
        shutil.rmtree(clean, ignore_errors=True)
        shutil.rmtree(mut, ignore_errors=True)
    res = {"demo_unchanged_rc": rc0, "demo_with_change_rc": rc1, "baseline_tests_lost": missing,
           "confirmed": rc0 == 0 and rc1 != 0 and not missing, "demo_tail_with_change": out1[-300:]}
    return res


def check(sd, pids=PIDS):
    patch = os.path.join(sd, "patch.diff")
    mut = scratch(patch)
    out = {}
    try:
        for pid in pids:
            r = subprocess.run([os.path.join(HERE, "check"), pid, "--root", mut, "--evidence-dir", os.path.join(mut, "_ev")],
                               capture_output=True, text=True, cwd=HERE)
            first = ""
            if r.returncode != 0:
                lines = [l for l in r.stdout.splitlines() if l.startswith(("  rule=", "ANALYSIS-ERROR"))]
                first = lines[0].strip()[:200] if lines else ""
            out[pid] = {"rc": r.returncode, "first": first}
    finally:
        shutil.rmtree(mut, ignore_errors=True)
    return out


def main():
    cmd = sys.argv[1]
    if cmd == "verify":
        print(json.dumps(verify(sys.argv[2]), indent=1))
    elif cmd == "check":
        res = check(sys.argv[2])
        for pid, r in res.items():
            if r["rc"]:
                print(pid, r["rc"], r["first"])
    elif cmd == "preserving":
        sys.exit(preserving(sys.argv[2:]))
    elif cmd == "all":
        root = os.path.join(HERE, "seeded")
        results = {}
        names = [n for n in sorted(os.listdir(root)) if os.path.isfile(os.path.join(root, n, "patch.diff"))]
        import multiprocessing
        with multiprocessing.Pool(16) as pool:
            allres = dict(zip(names, pool.map(check, [os.path.join(root, n) for n in names])))
        for name in names:
            sd = os.path.join(root, name)
            meta = json.load(open(os.path.join(sd, "meta.json")))
            res = allres[name]
            target = meta.get("property")
            caught = sorted(p for p, r in res.items() if r["rc"] == 1)
            undec = sorted(p for p, r in res.items() if r["rc"] == 2)
            results[name] = {"property": target, "caught_by": caught, "undecided_in": undec, "target_rc": res.get(target, {}).get("rc"),
                             "target_report": res.get(target, {}).get("first")}
            print("%-14s target=%s rc=%s caught_by=%s undecided=%s" % (name, target, results[name]["target_rc"], caught, undec))
        with open(os.path.join(root, "RESULTS.json"), "w") as fh:
            json.dump(results, fh, indent=1, sort_keys=True)


def preserving(only=()):
    """behaviour-preserving refactorings (sub-agent written, equivalence demonstrated by their equiv.py): no check may answer 1.
    With case names given, only those are run and their rows replace the ones in RESULTS.json"""
    root = os.path.join(HERE, "preserving")
    names = [n for n in sorted(os.listdir(root)) if os.path.isfile(os.path.join(root, n, "patch.diff")) and (not only or n in only)]
    import multiprocessing
    with multiprocessing.Pool(16) as pool:
        allres = dict(zip(names, pool.map(check, [os.path.join(root, n) for n in names])))
    results, bad = {}, 0
    if only and os.path.exists(os.path.join(root, "RESULTS.json")):
        results = json.load(open(os.path.join(root, "RESULTS.json")))
    for name in names:
        res = allres[name]
        alarms = sorted(p for p, r in res.items() if r["rc"] == 1)
        undec = sorted(p for p, r in res.items() if r["rc"] == 2)
        bad += len(alarms)
        results[name] = {"false_alarms": alarms, "undecided_in": undec, "reports": {p: res[p]["first"] for p in alarms + undec}}
        print("%-8s %s alarms=%s undecided=%s" % (name, "FALSE-ALARM" if alarms else "ok", alarms, undec))
        for p in alarms:
            print("     ", p, res[p]["first"])
    with open(os.path.join(root, "RESULTS.json"), "w") as fh:
        json.dump(results, fh, indent=1, sort_keys=True)
    return 1 if bad else 0


if __name__ == "__main__":
    main()
