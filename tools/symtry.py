#!/venv/bin/python
import sys; sys.path.insert(0,'/verif')
from lcsa.model import Program, Undecided
from lcsa.sym import Evaluator, fmt_conds
from lcsa.alg import Rat
prog=Program(sys.argv[1] if len(sys.argv)>1 and sys.argv[1].startswith('/') else '/repo')
names=[a for a in sys.argv[1:] if not a.startswith('/')]
for nm in names:
    ev=Evaluator(prog, positive=("N","w"))
    args={}
    if ':' in nm:
        nm,argstr=nm.split(':',1)
        for kv in argstr.split(','):
            k,v=kv.split('=')
            try: args[k]=Rat.const(int(v))
            except ValueError:
                args[k]= Rat.atom(v[1:]) if v.startswith('@') else v
    f=prog.fn('backend/sequence.py','Sequence.'+nm)
    try:
        for p in ev.run_function(f,args):
            print(nm,'|',fmt_conds(p.conds),'|',p.kind,'|',p.value if not hasattr(p.value,'rows') else [type(r).__name__ for r in p.value.rows])
        for i,w in enumerate(ev.wsums): print('   WS%d'%i, w['lo'],w['hi'],w.get('window'),[(fmt_conds(c),t) for c,t in w['pieces']])
        if ev.eltables: print('   eltables',{k:{a:str(b) for a,b in list(v.items())[:4]} for k,v in ev.eltables.items()})
    except Undecided as e:
        print(nm,'UNDECIDED',e)
