#!/venv/bin/python
"""regenerate the generated blocks of DESIGN.md (between <!-- GEN:<name>:BEGIN --> / <!-- GEN:<name>:END -->) from
seeded/RESULTS.json, seeded/*/meta.json and preserving/RESULTS.json"""
import json
import os
import re

HERE = os.path.dirname(os.path.dirname(os.path.abspath(__file__)))


def short(s, n=150):
    s = " ".join(s.split())
    return s if len(s) <= n else s[:n - 1].rsplit(" ", 1)[0] + " …"


def seeded_table():
    res = json.load(open(os.path.join(HERE, "seeded", "RESULTS.json")))
    rows = ["| change | what it breaks (sub-agent's summary, shortened) | own check | reported by | rule that reports it (own check) |",
            "|---|---|---|---|---|"]
    n = caught_own = caught_any = 0
    for name in sorted(res):
        r = res[name]
        meta = json.load(open(os.path.join(HERE, "seeded", name, "meta.json")))
        own = {0: "silent (0)", 1: "VIOLATION", 2: "undecided (2)"}[r["target_rc"]]
        rep = r.get("target_report") or ""
        m = re.search(r"rule=(\S+) construct=\S+?:(\S+) slot=(\S+)", rep)
        rule = "%s @ %s [%s]" % (m.group(1), m.group(2), short(m.group(3), 40)) if m else (short(rep.replace("ANALYSIS-ERROR property=%s undecided: " % r["property"], ""), 110) if rep else "")
        others = [p for p in r["caught_by"] if p != r["property"]]
        by = ", ".join(([r["property"]] if r["target_rc"] == 1 else []) + others) or "—"
        rows.append("| %s | %s | %s | %s | %s |" % (name, short(meta.get("summary", ""), 170).replace("|", "/"), own, by, rule.replace("|", "/")))
        n += 1
        caught_own += r["target_rc"] == 1
        caught_any += bool(r["caught_by"])
    missed = [k for k in sorted(res) if not res[k]["caught_by"]]
    silent = [k for k in missed if res[k]["target_rc"] == 0 and not res[k]["undecided_in"]]
    head = ("%d seeded changes; **%d** reported (exit 1) by the check of the property they were written against, **%d** by at least one check; "
            "the other %d make the target check answer *undecided* (exit 2: %s)%s.\n\n"
            % (n, caught_own, caught_any, len(missed) - len(silent), ", ".join(k for k in missed if k not in silent) or "none",
               ("; **silent everywhere: %s**" % ", ".join(silent)) if silent else "; none passes every check silently"))
    return head + "\n".join(rows)


def preserving_table():
    p = os.path.join(HERE, "preserving", "RESULTS.json")
    res = json.load(open(p))
    n = len(res)
    alarms = {k: v["false_alarms"] for k, v in res.items() if v["false_alarms"]}
    undec = {k: v["undecided_in"] for k, v in res.items() if v["undecided_in"]}
    out = ["%d behaviour-preserving refactorings × 20 checks = %d runs: **%d false alarms**, %d runs undecided (exit 2) in %d refactorings, the rest exit 0."
           % (n, n * 20, sum(len(v) for v in alarms.values()), sum(len(v) for v in undec.values()), len(undec)), ""]
    out += ["| refactoring | what it rewrites | checks that answer undecided |", "|---|---|---|"]
    for k in sorted(res):
        mp = os.path.join(HERE, "preserving", k, "meta.json")
        summ = json.load(open(mp)).get("summary", "") if os.path.exists(mp) else ""
        out.append("| %s | %s | %s |" % (k, short(summ, 160).replace("|", "/"), ", ".join(res[k]["undecided_in"]) or "—"))
    return "\n".join(out)


def rules_table():
    rows = ["| id | level | obligations | rules applied on the current tree (obligations per rule) |", "|---|---|---|---|"]
    for i in range(1, 21):
        pid = "C%02d" % i
        p = os.path.join(HERE, "evidence", pid + ".json")
        if not os.path.exists(p):
            continue
        e = json.load(open(p))
        c = e["coverage"]
        ra = c.get("rules_applied", {})
        rows.append("| %s | %s | %d | %s |" % (pid, e["level"], c["obligations"], ", ".join("%s %d" % kv for kv in sorted(ra.items(), key=lambda kv: -kv[1]))))
    return "\n".join(rows)


def main():
    path = os.path.join(HERE, "DESIGN.md")
    s = open(path).read()
    for name, fn in (("seeded", seeded_table), ("preserving", preserving_table), ("rules", rules_table)):
        b, e = "<!-- GEN:%s:BEGIN -->" % name, "<!-- GEN:%s:END -->" % name
        if b in s and e in s:
            i, j = s.index(b) + len(b), s.index(e)
            s = s[:i] + "\n" + fn() + "\n" + s[j:]
    open(path, "w").write(s)


if __name__ == "__main__":
    main()
