#!/venv/bin/python
"""regenerate MANIFEST.json from the table below (keeps it valid at all times)"""
import json, os, sys
HERE = os.path.dirname(os.path.dirname(os.path.abspath(__file__)))
sys.path.insert(0, HERE)
from props.claims import CLAIMS, NOT_APPLICABLE, ENGINES   # noqa

checks = []
for pid in sorted(CLAIMS):
    c = CLAIMS[pid]
    checks.append({
        "property_id": pid,
        "quick_cmd": "./check %s --tier quick" % pid,
        "thorough_cmd": "./check %s --tier thorough" % pid,
        "evidence_file": "/verif/evidence/%s.json" % pid,
        "replay_cmd_template": "./check --replay {path}",
        "engine": "lcsa",
        "level_claimed": {"category": c.get("category", "other"), "text": c["text"], "design_ref": "DESIGN.md section 4, " + pid},
        "level_note": c["note"],
        "technique": c["technique"],
    })
man = {
    "version": 1,
    "setup_cmd": "/venv/bin/python -c \"import ast, fractions, json; print('lcsa: standard library only, nothing to build')\"",
    "hooks": {"guard": "LOCALCIDER_VERIF", "enable": "none - static analysis needs no instrumentation of /repo (no hook commits)",
              "baseline_off_cmd": "cd /repo && /venv/bin/python -m pytest -ra -q -p no:cacheprovider --timeout=900 --continue-on-collection-errors",
              "source_commits": [], "add_only": True},
    "engines": ENGINES,
    "checks": checks,
    "notes": "Static analysis only (stdlib ast). exit 0 = all obligations extracted and discharged; exit 1 + VIOLATION = an extracted obligation contradicts the specification; exit 2 + ANALYSIS-ERROR = undecided (anchor vanished / unknown shape). Seven genuine defects were repaired by 'fix:' commits in /repo, two are recorded in KNOWN_FINDINGS.json (see DESIGN.md section 5).",
    "not_applicable": [{"property_id": p, "reason": r} for p, r in sorted(NOT_APPLICABLE.items()) if p not in CLAIMS],
}
with open(os.path.join(HERE, "MANIFEST.json"), "w") as fh:
    json.dump(man, fh, indent=1)
print("MANIFEST.json: %d checks, %d not applicable" % (len(checks), len(man["not_applicable"])))
