#!/bin/bash
# tools/seedimport.sh C09 A [D09 = worktree id, default the property id]  : verify the sub-agent's change myself, then keep it as /verif/seeded/C09-A
ID=$1; X=$2; W=${3:-$1}; SRC=/tmp/seed/${W}_out/$X; DST=/verif/seeded/$ID-$X
[ -f $SRC/patch.diff ] || { echo "no patch in $SRC"; exit 1; }
TMP=$(mktemp)
/verif/tools/seed.py verify $SRC > $TMP 2>/dev/null
/venv/bin/python - "$SRC" "$DST" "$TMP" "$ID" <<'PY'
import json,sys,os,shutil
src,dst,tmp,pid=sys.argv[1:5]
try: res=json.load(open(tmp))
except Exception as e:
    print("verify failed:",e); sys.exit(1)
print(pid, os.path.basename(src), "unchanged_rc=%s with_change_rc=%s tests_lost=%s confirmed=%s" % (res["demo_unchanged_rc"],res["demo_with_change_rc"],res["baseline_tests_lost"],res["confirmed"]))
if not res["confirmed"]:
    print(res.get("demo_tail_with_change","")[-300:]); sys.exit(2)
os.makedirs(dst,exist_ok=True)
shutil.copy(os.path.join(src,"patch.diff"),dst); shutil.copy(os.path.join(src,"demo.py"),dst)
try: m=json.load(open(os.path.join(src,"meta.json")))
except Exception as e: m={"summary":"(sub-agent meta unreadable: %s)"%e}
m["property"]=pid
res.pop("demo_tail_with_change",None)
m["verified_by_me"]={"how":"tools/seed.py verify: patch applied to a scratch export of /repo HEAD; the pinned suite keeps the 42 baseline tests passing; demo.py exits 0 on the unchanged tree and non-zero with the change","result":res}
json.dump(m,open(os.path.join(dst,"meta.json"),"w"),indent=1)
print("KEPT",dst)
PY
rm -f $TMP
