"""C14 - sequence files parse to exactly their residues.

Decides: the per-character table of the sequence-line filter (amino-acid letter / space / '*' / digit / anything else),
the '*' post-validation table over the number of asterisks and the last character, the line loop's decision table with
the header typestate (blank -> skipped, first '>' line -> header, second -> rejected, other -> filtered and appended on the
right), the plumbing from the opened file to the loop and from the loop to the result, and that the file branch of both
constructors builds the object from the parser's output (a word over the 20 upper-case letters is a fixed point of C13's
validation, so the object state equals that of the string branch)."""
import ast

from lcsa.alg import Rat
from lcsa.model import Undecided, unparse, is_self_attr
from lcsa.sym import Evaluator, Path, ObjV, SeqV, StrMapV, AStr, WinV, _Frame, LETTERS, fmt_conds
from lcsa.dt import compare_rows
from props.common import SEQ, SP

FP = "backend/seqfileparser.py"
FP_PATH = "localcider/backend/seqfileparser.py"
UNIVERSE = [chr(i) for i in range(0, 256)] + [" ", "　", "А", "Ω"]
DIGITS = "0123456789"


def run(ck, prog):
    from props.common import check_memos
    ck.attempt(check_memos, ck, prog)
    ck.explanation = (
        "The per-character filter is folded over a 260-character universe; the asterisk validation and the line loop "
        "are enumerated into decision tables with the unknown line as an abstract string (its stripped length a numeric "
        "atom, `first char is '>'` / `last char is '*'` uninterpreted booleans, the header flag a two-valued typestate) "
        "and compared with the stated tables by exact feasibility.")
    ck.attempt(_parser_state, ck, prog)
    ck.attempt(_valid_seq, ck, prog)
    ck.attempt(_final, ck, prog)
    ck.attempt(_line_loop, ck, prog)
    ck.attempt(_ctor_branches, ck, prog)


def _parser_state(ck, prog):
    """STATE-carry: what a parse returns must come from this file alone.  (i) FLOW typestate per field of the parser object that parseSeqFile
    (with the methods it calls on itself) writes: a use of the field before this call has assigned it reads what an earlier call left behind -
    including a call that was abandoned by a `raise`.  (ii) whether the parser objects that parse files are created for the one call or shared
    (module level / stored).  Carried state on a shared parser is the violation; on a fresh one it is unobservable."""
    from lcsa import flow
    from lcsa.eff import Effects
    from lcsa.model import is_self_attr
    f = prog.fn(FP, "SequenceFileParser.parseSeqFile")
    E = Effects(prog)
    written = {a.split(".")[0] for a in E.sum[f.key].self_writes}
    carried = {}
    for fld in sorted(written):
        u = flow.used_before_assigned(f.body(), fld)
        if u is not None:
            carried[fld] = f.loc(u)
    # who parses: receivers of parseSeqFile calls anywhere in the package
    shared, fresh = [], []
    for g in prog.all_funcs():
        for n in ast.walk(g.node):
            if isinstance(n, ast.Call) and isinstance(n.func, ast.Attribute) and n.func.attr == "parseSeqFile":
                callee = prog.resolve_call(g, n)
                if callee is None or callee.key != f.key:
                    continue
                r = n.func.value
                local_new = isinstance(r, ast.Name) and any(isinstance(a, ast.Assign) and len(a.targets) == 1 and isinstance(a.targets[0], ast.Name) and a.targets[0].id == r.id
                                                            and isinstance(a.value, ast.Call) and prog.class_of_ctor(g.mod, a.value) == "SequenceFileParser" for a in ast.walk(g.node)) \
                    and r.id not in g.params()
                inline_new = isinstance(r, ast.Call) and prog.class_of_ctor(g.mod, r) == "SequenceFileParser"
                (fresh if (local_new or inline_new) else shared).append(g.loc(n))
    ck.shape(bool(shared or fresh), "a call of SequenceFileParser.parseSeqFile somewhere in the package", f.loc())
    construct = FP_PATH + ":SequenceFileParser.parseSeqFile"
    ck.ob("STATE-carry", construct, not (carried and shared), expected="a parser that outlives one call keeps nothing from the previous file (every field is assigned before it is used)",
          found={"used_before_assigned": carried, "parsers_that_outlive_a_call": shared} if (carried and shared) else {"fields": sorted(written), "fresh_parsers": len(fresh), "shared": len(shared)},
          slot="leftover-state", where=f.loc(), note="a file rejected half-way leaves its fragments behind; the next file is parsed on top of them")
    if carried and not shared:
        ck.info("parseSeqFile uses %s before assigning it, but every parser is created for one call (unobservable)" % sorted(carried))
    ck.count("parseSeqFile call sites", len(shared) + len(fresh))


def _valid_seq(ck, prog):
    f = prog.fn(FP, "SequenceFileParser.__validSeq")
    construct = FP_PATH + ":SequenceFileParser.__validSeq"
    ev = Evaluator(prog)
    ev.universe = UNIVERSE
    param = f.params()[1]
    from lcsa.sym import FlagDependent
    try:
        paths = ev.run_function(f, {param: SeqV("seq")}, ObjV("SequenceFileParser"))
    except FlagDependent as fd:
        # what happens to a character depends on a flag an earlier character set: both treatments are reachable, at most one is the required one
        c = fd.letter

        def cls(sg):
            if sg[0] == "raise":
                return ("raise", None)
            texts = [t for _, t in sg[3]] + [t for _, t in sg[2]]
            txt = next((t for t in texts if t not in (None, "[]")), "")
            return ("drop", "") if txt in ("", "[]") else ("keep", txt)
        want = ("keep", c) if (c in LETTERS or c == "*") else (("drop", "") if (c == " " or c in DIGITS) else ("raise", None))
        got = {"at first": cls(fd.first), "once %s" % fd.valuation: cls(fd.later)}
        ck.shape(any(v[0] != want[0] for v in got.values()), "__validSeq: treatment of %r varies with %s in a way lcsa cannot classify" % (c, fd.valuation), f.loc())
        ck.ob("PART-filter", construct, False, expected=want, found=got, slot="char U+%04X" % ord(c), where=f.loc(),
              note="letter kept, space and digits skipped, '*' kept for the later check, anything else rejected - wherever in the line it stands")
        return
    live = [p for p in paths if p.kind == "return"]
    if len(live) != 1 or not isinstance(live[0].value, StrMapV):
        raise Undecided("__validSeq does not return the filtered string it built", f.loc())
    out = live[0].value.table
    raises = ev.last_loop["raises"]
    n = 0
    for c in UNIVERSE:
        if c in LETTERS or c == "*":
            want = ("keep", c)
        elif c == " " or c in DIGITS:
            want = ("drop", "")
        else:
            want = ("raise", None)
        got = ("raise", None) if c in raises else (("drop", "") if out.get(c) == "" else ("keep", out.get(c)))
        ck.ob("PART-filter", construct, got == want, expected=want, found=got, slot="char U+%04X" % ord(c), where=f.loc(),
              note="letter kept, space and digits skipped, '*' kept for the later check, anything else rejected")
        n += 1
    ck.count("character classes decided", n)
    ck.floor("character classes decided", n, 256)


def _final(ck, prog):
    f = prog.fn(FP, "SequenceFileParser.__final_validation")
    construct = FP_PATH + ":SequenceFileParser.__final_validation"
    ev = Evaluator(prog, positive=())
    ev.universe = LETTERS + "*"
    param = f.params()[1]
    rows = []
    for p in ev.run_function(f, {param: SeqV("seq")}, ObjV("SequenceFileParser")):
        if p.kind == "raise":
            o = "raise"
        elif isinstance(p.value, SeqV):
            o = "unchanged"
        elif isinstance(p.value, WinV) and p.value.lo.equals(Rat.const(0)) and p.value.hi.equals(Rat.const(-1)):
            o = "strip-last"
        else:
            o = "other:%r" % (p.value,)
        rows.append((p.conds, o))
    k = Rat.atom("cnt[*]")
    last = ("opaque", "seq[-1]=='*'")
    spec = [([("cmp", k, "==", Rat.const(0))], "unchanged"),
            ([("cmp", k, ">=", Rat.const(2))], "raise"),
            ([("cmp", k, "==", Rat.const(1)), last], "strip-last"),
            ([("cmp", k, "==", Rat.const(1)), ("not", last)], "raise")]
    # the last character can only be '*' if the string contains one:  [seq[-1]=='*'] <= cnt[*]
    from lcsa.lin import Lin
    link = [Lin({"?seq[-1]=='*'": 1, "cnt[*]": -1}, 0, "<="), Lin({"cnt[*]": -1}, 0, "<=")]
    mis = compare_rows(rows, spec, domain=link, positive=(), int_atoms={"cnt[*]", "?seq[-1]=='*'", "trail[*]"})
    ck.ob("DT-asterisk", construct, mis is None,
          expected="no '*': unchanged; two or more: rejected; exactly one: stripped if last, else rejected",
          found=mis or "equivalent", slot="table", where=f.loc())
    ck.count("asterisk rows", len(rows))


def _line_loop(ck, prog):
    f = prog.fn(FP, "SequenceFileParser.parseSeqFile")
    construct = FP_PATH + ":SequenceFileParser.parseSeqFile"
    body = f.body()
    loops = [s for s in body if isinstance(s, ast.For)]
    if len(loops) != 1:
        raise Undecided("parseSeqFile: expected one line loop", f.loc())
    loop = loops[0]
    # ---- the asterisk rule speaks about the complete word: applied to the partial word inside the line loop it trims a `*` that merely ends a line
    fv0 = prog.fn(FP, "SequenceFileParser.__final_validation")
    inside = [n for n in ast.walk(loop) if isinstance(n, ast.Call) and prog.resolve_call(f, n) is fv0]
    accs = {s_.targets[0].id for s_ in body[:body.index(loop)] if isinstance(s_, ast.Assign) and isinstance(s_.targets[0], ast.Name)
            and isinstance(s_.value, ast.Constant) and s_.value.value == ""}
    for n in inside:
        if n.args and isinstance(n.args[0], ast.Name) and n.args[0].id in accs:
            ck.ob("ORDER", construct, False, expected="__final_validation is applied once, to the concatenation of all lines (after the loop)",
                  found=unparse(n), slot="final-validation-in-loop", where=f.loc(n),
                  note="a '*' at the end of a line that is not the last line is then treated as the terminal '*' and silently dropped")
    if any(n.args and isinstance(n.args[0], ast.Name) and n.args[0].id in accs for n in inside):
        return
    # ---- plumbing: with open(filename) as fh: content = fh.readlines(); for line in content
    src_ok = False
    for s in body:
        if isinstance(s, ast.With) and len(s.items) == 1:
            it = s.items[0]
            if isinstance(it.context_expr, ast.Call) and getattr(it.context_expr.func, "id", None) == "open" \
                    and it.context_expr.args and unparse(it.context_expr.args[0]) == f.params()[1] \
                    and isinstance(it.optional_vars, ast.Name):
                fh = it.optional_vars.id
                complete = (fh + ".readlines()", "list(%s)" % fh, fh + ".read().splitlines()", fh + ".read().split('\\n')", "%s.read().split('\\n')" % fh)
                for t in s.body:
                    if isinstance(t, ast.Assign) and isinstance(t.targets[0], ast.Name) and isinstance(loop.iter, ast.Name) and loop.iter.id == t.targets[0].id:
                        v = t.value
                        if unparse(v) in complete:
                            src_ok = True
                        elif isinstance(v, ast.Subscript) and isinstance(v.slice, ast.Slice) and unparse(v.value) in complete:
                            # every line of the file minus a slice: a file without a final newline loses its last sequence line
                            lo_, hi_ = v.slice.lower, v.slice.upper
                            whole = (lo_ is None or unparse(lo_) == "0") and hi_ is None and v.slice.step is None
                            ck.ob("PROV", construct, whole, expected="the loop runs over ALL lines of the file", found=unparse(v), slot="lines-source", where=f.loc(t),
                                  note="the last piece of read().split('\\n') is empty only when the file ends in a newline")
                            src_ok = True
    if not src_ok:
        # other ways to read the lines (iterating the handle, read().splitlines()) are not decided here
        direct = isinstance(loop.iter, ast.Name) and any(isinstance(s0, ast.With) and any(x is loop for x in ast.walk(s0)) and isinstance(s0.items[0].optional_vars, ast.Name)
                                                         and s0.items[0].optional_vars.id == loop.iter.id and unparse(s0.items[0].context_expr.args[0]) == f.params()[1]
                                                         for s0 in body if isinstance(s0, ast.With) and s0.items and isinstance(s0.items[0].context_expr, ast.Call) and s0.items[0].context_expr.args)
        ck.shape(direct, "parseSeqFile: lines read with open(<argument>) ... readlines()", f.loc(loop))
        src_ok = True
    ck.ob("PROV", construct, src_ok, expected="the loop runs over the lines of the file named by the argument, in file order",
          found=unparse(loop.iter), slot="lines-source", where=f.loc(loop))
    # ---- initial state
    init = {}
    for s in body[:body.index(loop)]:
        if isinstance(s, ast.Assign) and isinstance(s.targets[0], ast.Name) and isinstance(s.value, ast.Constant):
            init[s.targets[0].id] = s.value.value
    flag = [n for n, v in init.items() if v is False]
    acc = [n for n, v in init.items() if v == ""]
    ck.shape(len(flag) == 1 and len(acc) == 1, "parseSeqFile: one header flag (False) and one string accumulator ('') before the loop", f.loc())
    H, S = flag[0], acc[0]
    var = loop.target.id
    vs_key = FP + ":SequenceFileParser.__validSeq"
    rows_all = {}
    for h in (False, True):
        ev = Evaluator(prog, positive=())
        ev.opaque_calls[vs_key] = lambda b: AStr("valid(%s)" % (b["sequence"].tag if isinstance(b.get("sequence"), AStr) else "?"))
        env = {"self": ObjV("SequenceFileParser"), var: AStr("line"), H: h, S: AStr("S")}
        fr = _Frame(f, 0)
        res = ev.exec_block(loop.body, [Path([], "live", None, env)], fr)
        rows = []
        for p in res:
            kind = {"live": "next", "continue": "next"}.get(p.kind, p.kind)
            if kind == "next":
                o = ("next", p.env.get(H), repr(p.env.get(S)))
            else:
                o = (kind,)
            rows.append((p.conds, o))
        rows_all[h] = rows
        ln = Rat.atom("len(line.strip())")
        gt = ("opaque", "line.strip()[0]=='>'")
        appended = repr(AStr("(S + valid(line.strip()))"))
        spec = [([("cmp", ln, "==", Rat.const(0))], ("next", h, repr(AStr("S")))),
                ([("cmp", ln, ">", Rat.const(0)), gt], ("raise",) if h else ("next", True, repr(AStr("S")))),
                ([("cmp", ln, ">", Rat.const(0)), ("not", gt)], ("next", h, appended))]
        mis = compare_rows(rows, spec, positive=())
        ck.ob("DT-lines", construct, mis is None,
              expected="blank line skipped; '>' line: header once, second rejected; other line filtered and appended on the right",
              found=mis or "equivalent", slot="line-table[header=%s]" % h, where=f.loc(loop))
        ck.count("line-loop paths", len(rows))
    ck.sample({"line_table_header_False": [(fmt_conds(c), repr(o)) for c, o in rows_all[False]]})
    # ---- after the loop: seq = self.__final_validation(seq); return seq
    fv = prog.fn(FP, "SequenceFileParser.__final_validation")
    post = body[body.index(loop) + 1:]
    final_ok = False
    ret_ok = False
    cur = S
    for s in post:
        if isinstance(s, ast.Assign) and isinstance(s.value, ast.Call) and prog.resolve_call(f, s.value) is fv \
                and len(s.value.args) == 1 and unparse(s.value.args[0]) == cur and isinstance(s.targets[0], ast.Name):
            cur = s.targets[0].id
            final_ok = True
        if isinstance(s, ast.Return):
            ret_ok = s.value is not None and unparse(s.value) == cur
    fv_calls = [n for n in ast.walk(f.node) if isinstance(n, ast.Call) and prog.resolve_call(f, n) is fv]
    if not (final_ok and ret_ok):
        # `return self.__final_validation(seq)` in one expression
        rets = [n for n in ast.walk(f.node) if isinstance(n, ast.Return) and n.value is not None]
        if len(rets) == 1 and isinstance(rets[0].value, ast.Call) and prog.resolve_call(f, rets[0].value) is fv and unparse(rets[0].value.args[0]) == S:
            final_ok = ret_ok = True
    # every way out after the loop hands back the validated word: a return of the raw concatenation (under a flag, say) skips the asterisk rule
    fv_assign = [s_ for s_ in post if isinstance(s_, ast.Assign) and isinstance(s_.value, ast.Call) and prog.resolve_call(f, s_.value) is fv]
    for s_ in post:
        for r in ast.walk(s_):
            if isinstance(r, ast.Return) and r.value is not None and isinstance(r.value, ast.Name) and r.value.id == S \
                    and not any(a.lineno < r.lineno and isinstance(a.targets[0], ast.Name) and a.targets[0].id == S for a in fv_assign):
                ck.ob("ORDER", construct, False, expected="return __final_validation(<concatenated lines>) on every path", found=unparse(r), slot="result-unvalidated@%d" % (r.lineno - f.node.lineno),
                      where=f.loc(r), note="this return hands back the concatenated lines without the asterisk rule having been applied")
    ck.shape(final_ok and ret_ok or not fv_calls, "parseSeqFile: result flows through __final_validation in a recognised way", f.loc())
    ck.ob("ORDER", construct, final_ok and ret_ok, expected="return __final_validation(<concatenated lines>)",
          found={"final_validation_calls": len(fv_calls)}, slot="result", where=f.loc())


def _ctor_branches(ck, prog):
    parse = prog.fn(FP, "SequenceFileParser.parseSeqFile")
    for rel, qual in ((SP, "SequenceParameters.__init__"), ("sequencePermutants.py", "SequencePermutants.__init__")):
        f = prog.fn(rel, qual)
        construct = f.mod.relpath + ":" + f.qual
        found = []
        types = prog.local_types(f)
        for n in ast.walk(f.node):
            if isinstance(n, ast.Call) and prog.class_of_ctor(f.mod, n) == "Sequence" and n.args \
                    and isinstance(n.args[0], ast.Call):
                inner = n.args[0]
                callee = prog.resolve_call(f, inner, types)
                found.append((unparse(n), callee is parse and len(inner.args) >= 1 and unparse(inner.args[0]) == "sequenceFile"))
        if len(found) != 1:
            # parser output may be held in a local first
            for n in ast.walk(f.node):
                if isinstance(n, ast.Call) and prog.class_of_ctor(f.mod, n) == "Sequence" and n.args and isinstance(n.args[0], ast.Name):
                    vals = [a.value for a in ast.walk(f.node) if isinstance(a, ast.Assign) and isinstance(a.targets[0], ast.Name) and a.targets[0].id == n.args[0].id]
                    if len(vals) == 1 and isinstance(vals[0], ast.Call) and prog.resolve_call(f, vals[0], types) is parse:
                        found.append((unparse(n), len(vals[0].args) >= 1 and unparse(vals[0].args[0]) == "sequenceFile"))
        ck.shape(len(found) == 1, "%s: one Sequence(<parser output>) construction" % f.qual, f.loc())
        ck.ob("BIND", construct, found[0][1], expected="Sequence(parseSeqFile(sequenceFile))", found=[x[0] for x in found], slot="file-branch", where=f.loc())
