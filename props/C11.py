"""C11 - complexity profiles: window count, locality, dispatch, WF = entropy.

Decides: type dispatch (case-insensitive, unknown type rejected, each type routed to its own measure with arguments
bound by name), the window guard on all three entry points, K = floor((N-w)/s)+1 via the counting-loop summary
(step starts at 0, `while step <= N-w`, exactly one value appended and step += s on every path), the WF value
-sum p*log_{|A|} p over the window's counts for alphabets of two and three letters, locality of all three measures
(every read of the reduced sequence lies inside [step, step+w)), and that the reduction applied first is C12's.
Does NOT decide: positions strictly increasing within 1..N; values within [0,1]."""
import ast

from lcsa.alg import Rat
from lcsa.lin import Lin, feasible
from lcsa.model import Undecided, unparse
from lcsa.ref import ref_program
from lcsa.dt import compare_rows
from lcsa.sym import Evaluator, Path, ObjV, SeqV, ListAcc, _Frame, fmt_conds
from lcsa import bind
from props.common import SEQ, SP, SEQ_PATH
from props.C10 import _guard

CX = "backend/sequenceComplexity.py"
CX_PATH = "localcider/backend/sequenceComplexity.py"
W, S_, N = Rat.atom("w"), Rat.atom("s"), Rat.atom("N")


def run(ck, prog):
    from props.common import check_memos
    ck.attempt(check_memos, ck, prog)
    ck.explanation = (
        "Dispatch is decided by evaluating get_linear_complexity for every relevant type string with the three "
        "backends as uninterpreted calls; bindings through the three layers are resolved call by call. Each measure's "
        "while-loop is summarised as a counting loop; the WF body is evaluated for one generic window (counts as atoms, "
        "one path per subset of letters present) and compared with the entropy reference; locality is decided by exact "
        "linear feasibility on every subscript of the reduced sequence.")
    ck.assumptions += ["'positions strictly increasing within 1..N' and 'values in [0,1]' are NOT decided",
                       "window, step and word sizes are positive integers"]
    ck.attempt(_dispatch, ck, prog)
    ck.attempt(_layers, ck, prog)
    for m in ("CWF", "LC", "LZW"):
        ck.attempt(_counting_loop, ck, prog, m)
        ck.attempt(_locality, ck, prog, m)
    ck.attempt(_entropy, ck, prog)
    ck.attempt(_alphabet_is_sequence_independent, ck, prog)
    ck.floor("measures summarised", ck.analysed.get("measures summarised", 0), 3)


def _dispatch(ck, prog):
    f = prog.fn(SP, "SequenceParameters.get_linear_complexity")
    construct = f.mod.relpath + ":" + f.qual
    route = {"WF": "get_linear_WF_complexity", "LC": "get_linear_LC_complexity", "LZW": "get_linear_LZW_complexity"}
    cases = [("WF", "WF"), ("wf", "WF"), ("Wf", "WF"), ("LC", "LC"), ("lc", "LC"), ("LZW", "LZW"), ("lzw", "LZW"),
             ("RHP", None), ("", None), ("XX", None), ("WFX", None), ("L", None)]
    for given, want in cases:
        ev = Evaluator(prog)
        for k, meth in route.items():
            ev.opaque_calls[SEQ + ":Sequence." + meth] = (lambda kk: (lambda b: "CALL:" + kk))(k)
        rows = ev.run_function(f, {"complexityType": given}, ObjV("SequenceParameters"))
        got = None
        if len(rows) == 1:
            got = rows[0].value if rows[0].kind == "return" else "raise"
        exp = ("CALL:" + want) if want else "raise"
        ck.ob("DT-dispatch", construct, got == exp, expected=exp, found=got if got is not None else [(p.kind, repr(p.value)) for p in rows],
              slot="type=%r" % given, where=f.loc(), note="case-insensitive; anything outside {WF, LC, LZW} is rejected")
    # bindings of the three forwarding calls
    names = {"WF": {"alphabetSize": "alphabetSize", "userAlphabet": "userAlphabet", "blobLen": "windowSize", "stepSize": "stepSize"},
             "LZW": {"alphabetSize": "alphabetSize", "userAlphabet": "userAlphabet", "blobLen": "windowSize", "stepSize": "stepSize"},
             "LC": {"alphabetSize": "alphabetSize", "userAlphabet": "userAlphabet", "blobLen": "windowSize", "stepSize": "stepSize",
                    "wordSize": "wordSize"}}
    # ... decided on the evaluated call first (whatever the dispatch is written like): every parameter of the wrapper is a distinct atom and the
    # backend entry points are uninterpreted calls that report what they were bound to
    evaluated = set()
    own_params = [p_ for p_ in f.params()[1:] if p_ != "complexityType"]
    for k, meth in route.items():
        ev = Evaluator(prog)
        for k2, meth2 in route.items():
            ev.opaque_calls[SEQ + ":Sequence." + meth2] = (lambda kk: (lambda b: ("CALL", kk, {x: repr(v) for x, v in b.items() if x != "self"})))(k2)
        args = {"complexityType": k}
        for p_ in own_params:
            args[p_] = Rat.atom("P:" + p_)
        try:
            rows = ev.run_function(f, args, ObjV("SequenceParameters"))
        except Undecided:
            continue
        rets = [r_ for r_ in rows if r_.kind == "return"]
        if not rets or len(rows) != len(rets) or not all(isinstance(r_.value, tuple) and len(r_.value) == 3 and r_.value[0] == "CALL" for r_ in rets) \
                or len({repr(r_.value) for r_ in rets}) != 1:
            continue
        _, kk, bound = rets[0].value
        if kk != k:
            continue                      # (reported by DT-dispatch above)
        evaluated.add(k)
        for own, formal in names[k].items():
            got_b = bound.get(formal)
            ck.ob("BIND", construct, got_b == repr(Rat.atom("P:" + own)), expected="%s -> %s" % (own, formal), found="%s -> %s" % (got_b, formal), slot="%s:%s" % (k, own), where=f.loc())
    if evaluated == set(route):
        ck.ob("BIND", construct, True, expected=["LC", "LZW", "WF"], found=sorted(evaluated), slot="three-backends", where=f.loc())
        return
    seen = set(evaluated)
    for n in ast.walk(f.node):
        if isinstance(n, ast.Call):
            callee, b = bind.bind(prog, f, n)
            if callee is None or callee.mod.rel != SEQ or not callee.name.startswith("get_linear_"):
                continue
            k = callee.name.split("_")[2]
            if k in evaluated:
                continue
            seen.add(k)
            for own, formal in names[k].items():
                a = b.get(formal)
                ck.ob("BIND", construct, isinstance(a, ast.Name) and a.id == own, expected="%s -> %s" % (own, formal),
                      found="%s -> %s" % (unparse(a) if a is not None else None, formal), slot="%s:%s" % (k, own), where=f.loc(n))
    # a route the evaluator did not follow and no resolvable call shows is not a verdict
    ck.shape(seen == {"WF", "LC", "LZW"}, "get_linear_complexity: forwarding calls to the three backends found %s" % sorted(seen), f.loc())
    ck.ob("BIND", construct, True, expected=["LC", "LZW", "WF"], found=sorted(seen), slot="three-backends", where=f.loc())


def _layers(ck, prog):
    red = prog.fn(CX, "SequenceComplexity.reduce_alphabet")
    idxv = prog.fn(CX, "SequenceComplexity.get_indexed_complexity_vector")
    for k, meas in (("WF", "CWF"), ("LC", "LC"), ("LZW", "LZW")):
        f = prog.fn(SEQ, "Sequence.get_linear_%s_complexity" % k)
        construct = SEQ_PATH + ":" + f.qual
        # the wrapper evaluated with the backend measure as an uninterpreted call: which windows does it answer?
        gpaths = None
        try:
            gev = Evaluator(prog, positive=("N", "w"))
            gev.int_atoms = {"w"}
            gev.opaque_calls[CX + ":SequenceComplexity.get_%s_complexity" % k] = (lambda kk: (lambda b: "MEASURE:" + kk))(k)
            gargs = {p_: Rat.atom("a:" + p_) for p_ in f.params()[1:]}
            gargs["windowSize"] = Rat.atom("w")
            gpaths = gev.run_function(f, gargs, ObjV("Sequence"))
        except Undecided:
            gpaths = None
        _guard(ck, prog, f, construct, "complexity-" + k, wparam="windowSize", paths=gpaths)
        if gpaths is not None:
            from lcsa.dt import feasible_with as _fw
            rej = [p_ for p_ in gpaths if p_.kind == "raise" and _fw(list(p_.conds) + [("cmp", N, ">=", Rat.atom("w"))], [Lin({"w": -1}, 1, "<=")], {"N", "w"}, int_atoms={"N", "w"}) is not None]
            ck.ob("MUST-window-guard", construct, not rej, expected="every window 1 <= w <= N is answered (a window as long as the sequence gives one value)",
                  found=[(fmt_conds(p_.conds), p_.value) for p_ in rej][:3] or "answered", slot="complexity-%s:total" % k, where=f.loc())
        g = prog.fn(CX, "SequenceComplexity.get_%s_complexity" % k)
        want = {"alphabetSize": "alphabetSize", "userAlphabet": "userAlphabet", "windowSize": "windowSize", "stepSize": "stepSize"}
        if k == "LC":
            want["wordSize"] = "wordSize"
        ck.last_forward = None
        bind.check_wrapper(ck, prog, "BIND", SEQ, f.qual, g.key, argmap=want)
        ff, fcall = ck.last_forward if getattr(ck, "last_forward", None) else (f, None)
        for r in ([fcall] if fcall is not None else [r_.value for r_ in bind.returns_of(f) if isinstance(r_.value, ast.Call)]):
            _, b = bind.bind(prog, ff, r)
            a = b.get("sequence") if b else None
            ck.shape(a is not None, "%s: sequence argument bound" % f.qual, ff.loc(r))
            ck.ob("BIND", construct, unparse(a) == "self.seq", expected="sequence = self.seq", found=unparse(a), slot="sequence", where=ff.loc(r))
        # inside the complexity object: reduce first, measure on the REDUCED sequence with the returned alphabet, index with the original length
        gconstruct = CX_PATH + ":" + g.qual
        m = prog.fn(CX, "SequenceComplexity." + meas)
        calls = {"reduce": [], "measure": [], "index": []}
        for n in ast.walk(g.node):
            if isinstance(n, ast.Call):
                c = prog.resolve_call(g, n)
                if c is red:
                    calls["reduce"].append(n)
                elif c is m:
                    calls["measure"].append(n)
                elif c is idxv:
                    calls["index"].append(n)
        ck.shape(all(len(v) == 1 for v in calls.values()), "%s: one reduce_alphabet call, one %s call, one indexing call" % (g.qual, meas), g.loc())
        rcall, mcall, icall = calls["reduce"][0], calls["measure"][0], calls["index"][0]
        tgt = next((a.targets[0] for a in ast.walk(g.node) if isinstance(a, ast.Assign) and a.value is rcall), None)
        ck.shape(isinstance(tgt, ast.Tuple) and len(tgt.elts) == 2, "%s: (reduced, alphabet) = reduce_alphabet(...)" % g.qual, g.loc(rcall))
        rseq, alpha = [unparse(e) for e in tgt.elts]
        _, rb = bind.bind(prog, g, rcall)
        ck.ob("ORDER", gconstruct, {x: unparse(rb.get(x)) if rb.get(x) is not None else None for x in ("sequence", "alphabetSize", "userAlphabet")}
              == {"sequence": "sequence", "alphabetSize": "alphabetSize", "userAlphabet": "userAlphabet"},
              expected="reduce_alphabet(sequence, alphabetSize, userAlphabet)", found=unparse(rcall), slot="reduce-first", where=g.loc(rcall))
        _, mb = bind.bind(prog, g, mcall)
        wantm = {"sequence": rseq, "alphabet": alpha, "windowSize": "windowSize", "stepSize": "stepSize"}
        if k == "LC":
            wantm["wordSize"] = "wordSize"
        ck.ob("ORDER", gconstruct, {x: unparse(mb.get(x)) if mb.get(x) is not None else None for x in wantm} == wantm,
              expected="%s(<reduced sequence>, <its alphabet>, windowSize, stepSize%s)" % (meas, ", wordSize" if k == "LC" else ""), found=unparse(mcall),
              slot="measure-on-reduced", where=g.loc(mcall), note="each value must depend only on its window AFTER alphabet reduction")
        vec = next((unparse(a.targets[0]) for a in ast.walk(g.node) if isinstance(a, ast.Assign) and a.value is mcall), None)
        _, ib = bind.bind(prog, g, icall)
        got_i = [unparse(ib.get("complexity_vector")) if ib.get("complexity_vector") is not None else None,
                 unparse(ib.get("seq_len")).replace(" ", "") if ib.get("seq_len") is not None else None]
        ok_vec = got_i[0] == vec or (vec is None and got_i[0] == unparse(mcall))
        ck.ob("ORDER", gconstruct, ok_vec and got_i[1] == "len(sequence)", expected="indexed with the measure's values and the ORIGINAL sequence length", found=got_i,
              slot="indexed", where=g.loc(icall))


def _measure(prog, name):
    f = prog.fn(CX, "SequenceComplexity." + name)
    body = f.body()
    loops = [s for s in body if isinstance(s, ast.While)]
    if len(loops) != 1:
        raise Undecided("%s: expected one while loop" % name, f.loc())
    return f, body, loops[0]


def _counting_loop(ck, prog, name):
    f, body, loop = _measure(prog, name)
    construct = CX_PATH + ":" + f.qual
    ev = Evaluator(prog, positive=("N", "w", "s"))
    fr = _Frame(f, 0)
    env = {"self": ObjV("SequenceComplexity"), "sequence": SeqV("seq"), "windowSize": W, "stepSize": S_,
           "wordSize": Rat.atom("k"), "alphabet": ["L", "E"]}
    init = {}
    for s in body[:body.index(loop)]:
        if isinstance(s, ast.Assign) and isinstance(s.targets[0], ast.Name):
            init[s.targets[0].id] = s.value
    rets = [s for s in body if isinstance(s, ast.Return)]
    out = unparse(rets[0].value) if len(rets) == 1 else None
    # other locals fixed before the loop (a hoisted bound, say) are evaluated once; the ones the loop rebinds are not taken over
    rebound = {x.id for s in loop.body for x in ast.walk(s) if isinstance(x, ast.Name) and isinstance(x.ctx, ast.Store)}
    for nm, val in init.items():
        if nm not in rebound and nm != out and nm not in env:
            try:
                env[nm] = ev.eval(val, env, fr)
            except Undecided:
                pass
    # counter: the name compared in the loop test
    t = loop.test
    okt = False
    ctr = None
    if isinstance(t, ast.Compare) and len(t.ops) == 1 and isinstance(t.left, ast.Name):
        ctr = t.left.id
        e2 = dict(env)
        e2[ctr] = Rat.atom("step")
        c = ev.cond(t, e2, fr)
        want = ("cmp", Rat.atom("step"), "<=", N - W)
        from lcsa.dt import compare_rows as cr
        okt = cr([([c], 1), ([("not", c) if not isinstance(c, bool) else (not c)], 0)],
                 [([want], 1), ([("not", want)], 0)], positive=("N", "w", "s")) is None
    ck.ob("LOOP-count", construct, okt, expected="while step <= N - w", found=unparse(t), slot="guard", where=f.loc(loop),
          note="with step = 0, s, 2s, ... this gives K = floor((N-w)/s) + 1 windows")
    oki = ctr in init and isinstance(init[ctr], ast.Constant) and init[ctr].value == 0
    ck.ob("LOOP-count", construct, bool(oki), expected="step starts at 0", found=unparse(init[ctr]) if ctr in init else None,
          slot="init", where=f.loc())
    oko = out in init and isinstance(init[out], ast.List) and not init[out].elts
    ck.ob("LOOP-count", construct, bool(oko), expected="result list starts empty and is what is returned", found=out, slot="result-list",
          where=f.loc())
    # appends and increments: top-level structure of the loop body
    n_app, inc_ok, cond_apps = 0, False, []

    def appends_in(stmts, guarded):
        nonlocal n_app
        for s in stmts:
            if isinstance(s, ast.Expr) and isinstance(s.value, ast.Call) and isinstance(s.value.func, ast.Attribute) \
                    and s.value.func.attr == "append" and unparse(s.value.func.value) == out:
                if guarded is None:
                    n_app += 1
                else:
                    cond_apps.append(guarded)
            elif isinstance(s, ast.If):
                appends_in(s.body, s.test)
                appends_in(s.orelse, ast.UnaryOp(op=ast.Not(), operand=s.test))
            elif isinstance(s, (ast.For, ast.While)):
                for x in ast.walk(s):
                    if isinstance(x, ast.Call) and isinstance(x.func, ast.Attribute) and x.func.attr == "append" \
                            and unparse(x.func.value) == out:
                        cond_apps.append("inside an inner loop")
    appends_in(loop.body, None)
    # a conditional append is fine only if its condition is implied by w >= 1
    for g in cond_apps:
        if isinstance(g, str):
            n_app = -99
            continue
        c = ev.cond(g, env, fr)
        if c is True:
            n_app += 1
        elif c is False:
            pass
        else:
            from lcsa.dt import feasible_with
            if feasible_with([("not", c)], [Lin({"w": -1}, 1, "<=")], {"N", "w", "s"}) is None:
                n_app += 1
            else:
                n_app = -99
    ck.ob("LOOP-count", construct, n_app == 1, expected="exactly one value appended per window on every path", found=n_app,
          slot="one-append", where=f.loc(loop))
    last = loop.body[-1]
    if isinstance(last, ast.AugAssign) and isinstance(last.op, ast.Add) and unparse(last.target) == ctr:
        inc_ok = unparse(last.value) == "stepSize"
    elif isinstance(last, ast.Assign) and unparse(last.targets[0]) == ctr:
        inc_ok = unparse(last.value).replace(" ", "") in (ctr + "+stepSize", "stepSize+" + ctr)
    others = [s for s in loop.body[:-1] for x in ast.walk(s) if isinstance(x, (ast.Assign, ast.AugAssign))
              and any(unparse(tt) == ctr for tt in (x.targets if isinstance(x, ast.Assign) else [x.target]))]
    jumps = [x for s in loop.body for x in ast.walk(s) if isinstance(x, (ast.Continue, ast.Break))
             and not _inside_inner_loop(loop, x)]
    ck.ob("LOOP-count", construct, inc_ok and not others and not jumps, expected="step += stepSize once, at the end of every iteration",
          found=unparse(last), slot="increment", where=f.loc(last))
    ck.count("measures summarised")


def _inside_inner_loop(outer, node):
    for s in ast.walk(outer):
        if s is not outer and isinstance(s, (ast.For, ast.While)):
            if any(x is node for x in ast.walk(s)):
                return True
    return False


def _locality(ck, prog, name):
    """every subscript of the (reduced) sequence inside the loop body lies within [step, step + w)"""
    f, body, loop = _measure(prog, name)
    construct = CX_PATH + ":" + f.qual
    ev = Evaluator(prog, positive=("N", "w", "s", "k"))
    fr = _Frame(f, 0)
    seqp = f.params()[1]
    ctr = loop.test.left.id if isinstance(loop.test, ast.Compare) and isinstance(loop.test.left, ast.Name) else "step"
    base_env = {"self": ObjV("SequenceComplexity"), "windowSize": W, "stepSize": S_, "wordSize": Rat.atom("k"),
                ctr: Rat.atom("step")}
    found = []

    def visit(stmts, env, cons):
        env = dict(env)
        for s in stmts:
            # subscripts in this statement (not descending into nested loops: handled with their own constraints)
            tops = [s] if not isinstance(s, (ast.For, ast.While, ast.If)) else ([s.iter] if isinstance(s, ast.For) else [s.test])
            for t in tops:
                for n in ast.walk(t):
                    if isinstance(n, ast.Subscript) and isinstance(n.value, ast.Name) and n.value.id == seqp:
                        found.append((n, dict(env), list(cons)))
            # comprehensions inside this statement behave like loops over their generators
            for comp in [n for n in ast.walk(s) if isinstance(n, (ast.ListComp, ast.SetComp, ast.GeneratorExp, ast.DictComp))] \
                    if not isinstance(s, (ast.For, ast.While, ast.If)) else []:
                e2, c2 = dict(env), list(cons)
                okc = True
                for gen in comp.generators:
                    try:
                        r = ev.eval(gen.iter, e2, fr)
                    except Exception:
                        r = None
                    if hasattr(r, "lo") and hasattr(r, "hi") and isinstance(gen.target, ast.Name):
                        v = "i:" + gen.target.id
                        e2[gen.target.id] = Rat.atom(v)
                        c2 += [_le(r.lo, Rat.atom(v)), _le(Rat.atom(v), r.hi - Rat.const(1))]
                    else:
                        okc = False
                for n in ast.walk(comp):
                    if isinstance(n, ast.Subscript) and isinstance(n.value, ast.Name) and n.value.id == seqp:
                        # replace the entry recorded with the statement-level environment
                        found[:] = [x for x in found if x[0] is not n]
                        found.append((n, dict(e2) if okc else None, list(c2)))
            if isinstance(s, ast.Assign) and len(s.targets) == 1 and isinstance(s.targets[0], ast.Name):
                try:
                    v = ev.eval(s.value, env, fr)
                    env[s.targets[0].id] = v if isinstance(v, Rat) else None
                except Exception:
                    env[s.targets[0].id] = None
            elif isinstance(s, ast.For) and isinstance(s.target, ast.Name):
                r = None
                try:
                    r = ev.eval(s.iter, env, fr)
                except Exception:
                    r = None
                e2 = dict(env)
                c2 = list(cons)
                if hasattr(r, "lo") and hasattr(r, "hi"):
                    v = "i:" + s.target.id
                    e2[s.target.id] = Rat.atom(v)
                    c2 += [_le(r.lo, Rat.atom(v)), _le(Rat.atom(v), r.hi - Rat.const(1))]
                else:
                    e2[s.target.id] = None
                visit(s.body, e2, c2)
            elif isinstance(s, ast.If):
                visit(s.body, env, cons)
                visit(s.orelse, env, cons)
    visit(loop.body, base_env, [])
    n = 0
    for node, env, cons in found:
        ck.shape(env is not None, "%s: read of the reduced sequence inside a construct whose index range lcsa cannot bound" % name, f.loc(node))
        env = {k: v for k, v in env.items() if v is not None}
        sl = node.slice
        try:
            if isinstance(sl, ast.Slice):
                lo = ev.eval(sl.lower, env, fr) if sl.lower is not None else Rat.const(0)
                hi = ev.eval(sl.upper, env, fr) if sl.upper is not None else N
                first, last = lo, hi - Rat.const(1)
            else:
                first = last = ev.eval(sl, env, fr)
        except Undecided as e:
            raise Undecided("%s: index of a read of the reduced sequence is not expressible in (step, loop variables, w): %s" % (name, e), f.loc(node))
        dom = cons + [Lin({"w": -1}, 1, "<="), Lin({"k": -1}, 1, "<="), Lin({"step": -1}, 0, "<=")]
        below = feasible(dom + [_lt(first, Rat.atom("step"))])
        above = feasible(dom + [_lt(Rat.atom("step") + W - Rat.const(1), last)])
        ck.ob("INTV-local", construct, not below and not above,
              expected="reads only residues step .. step+w-1 of the reduced sequence",
              found={"read": unparse(node), "first": repr(first), "last": repr(last), "can_precede_window": below,
                     "can_exceed_window": above}, slot="read:%s" % unparse(node), where=f.loc(node))
        n += 1
    ck.ob("INTV-local", construct, n >= 1, expected="at least one read of the reduced sequence per window", found=n, slot="reads",
          where=f.loc(loop))
    # nothing else of the sequence is used inside the loop body (only its length in the guard)
    other = [unparse(x) for s in loop.body for x in ast.walk(s) if isinstance(x, ast.Name) and x.id == seqp
             and not any(x is sub.value for sub, _, _ in found)]
    ck.ob("INTV-local", construct, not other, expected="the sequence is only read through those subscripts", found=other,
          slot="no-other-use", where=f.loc(loop))
    ck.count("sequence reads bounded", n)


def _lin(r):
    if not r.d.is_const():
        raise Undecided("non-affine index")
    l = r.n.linear()
    if l is None:
        raise Undecided("non-affine index")
    co, c = l
    d = r.d.const_value()
    return {k: v / d for k, v in co.items()}, c / d


def _le(a, b):
    co, c = _lin(a - b)
    return Lin(co, c, "<=")


def _lt(a, b):
    """a < b over the integers: a <= b - 1"""
    co, c = _lin(a - b)
    return Lin(co, c + 1, "<=")


def _entropy(ck, prog):
    f, body, loop = _measure(prog, "CWF")
    construct = CX_PATH + ":" + f.qual
    rp = ref_program()
    rf = rp.fn("ref.py", "Sequence.win_entropy")
    for alpha in (["L", "E"], ["L", "F", "E"]):
        ev = Evaluator(prog, positive=("N", "w", "s"))
        ev.universe = "".join(alpha)
        fr = _Frame(f, 0)
        out = unparse([s for s in body if isinstance(s, ast.Return)][0].value)
        env = {"self": ObjV("SequenceComplexity"), "sequence": SeqV("seq"), "windowSize": W, "stepSize": S_,
               "alphabet": list(alpha), "step": Rat.atom("@i"), out: ListAcc([])}
        paths = ev.exec_block(loop.body, [Path([], "live", None, env)], fr.in_window())
        rows = []
        for p in paths:
            items = p.env[out].items if isinstance(p.env.get(out), ListAcc) else None
            rows.append((p.conds, items[0] if items and len(items) == 1 else "no-single-append"))
        rev = Evaluator(rp, positive=("N", "w", "s"))
        rev.universe = "".join(alpha)
        rrows = [(p.conds, p.value) for p in rev.run_function(
            rf, {"reduced": SeqV("seq"), "alphabet": list(alpha), "w": W, "step": Rat.atom("@i")}, ObjV("Sequence"))]
        dom = [Lin({"wcnt[%s]" % a: -1}, 0, "<=") for a in alpha]
        mis = compare_rows(rows, rrows, domain=dom, positive=("N", "w", "s"))
        ck.ob("FOLD-entropy", construct, mis is None,
              expected="-sum over letters present of p*log_{|A|}(p), p = count in window / w", found=mis or "equivalent",
              slot="alphabet=%s" % "".join(alpha), where=f.loc(loop))
        ck.count("entropy paths compared", len(rows))
    ck.sample({"WF_paths_for_alphabet_LE": [(fmt_conds(c), repr(v)) for c, v in rows][:4]})


def _alphabet_is_sequence_independent(ck, prog):
    """the entropy base is len(alphabet): the alphabet handed to the measures must be the list of representatives, whatever
    the sequence contains (predefined sizes and user alphabets)"""
    from props import C12
    from lcsa.sym import LETTERS
    f = prog.fn(CX, "SequenceComplexity.reduce_alphabet")
    construct = CX_PATH + ":" + f.qual
    user = {L: ("A" if L in "AGSTP" else ("K" if L in "KRH" else "L")) for L in LETTERS}
    cases = [("user alphabet", C12.reduction(prog, user=dict(user)), sorted(set(user.values())))]
    for size in (2, 8, 20):
        r = C12.reduction(prog, size=size)
        cases.append(("size %d" % size, r, None))
    for name, r, want in cases:
        ok = r[0] == "ok" and r[2] is not None and (want is None or sorted(r[2]) == want) and (want is not None or len(r[2]) == int(name.split()[1]))
        ck.ob("DEP-alphabet", construct, ok, expected="alphabet = the representatives, independent of the sequence",
              found=(sorted(r[2]) if r[0] == "ok" and r[2] is not None else ("depends on the residues present" if r[0] == "ok" else r)), slot=name, where=f.loc(),
              note="otherwise the WF value of a window changes when residues outside the window change")
