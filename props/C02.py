"""C02 - delta equals the Das-Pappu blob-averaged charge-asymmetry variance.

Decides, in exact arithmetic and for every sequence: the residue->charge map; sigma; the per-blob-size
variance (window family, per-blob sigma incl. the uncharged-blob case, squared deviation, mean over blobs,
empty family when the blob is longer than the sequence); the average of blob sizes 5 and 6.
Does not decide the floating-point error of evaluating that formula."""
from lcsa.alg import Rat
from lcsa.ref import Pair, subst_rows, empty_sum_norm
from props.common import SEQ, SEQ_PATH, check_charge_map, compare_tables, check_api

TRI = {"nneut": Rat.atom("N") - Rat.atom("npos") - Rat.atom("nneg")}


def run(ck, prog):
    from props.common import check_memos
    ck.attempt(check_memos, ck, prog)
    ck.explanation = (
        "sigma(), deltaForm(w) (w symbolic) and delta() are mapped to normal forms: a decision table over exact "
        "rational functions of (n+, n-, N), and window sums keyed by (index domain, window slice, piecewise term "
        "over the window's counts). They are compared with the reference definition written from the statement. "
        "The window loop is analysed for one generic index, so the result holds for every N and every window.")
    ck.assumptions += ["float evaluation differs from the exact rational value by rounding only (not analysed)",
                       "the three masks >0, <0, ==0 partition the charge pattern (entries are -1, 0, 1 by the "
                       "charge-map obligation)"]
    ck.attempt(check_charge_map, ck, prog)
    pair = Pair(prog)
    # sigma
    f, code = pair.code_rows(SEQ, "Sequence.sigma")
    ref = pair.ref_rows("Sequence.sigma")
    compare_tables(ck, "DT-ALG", SEQ_PATH + ":Sequence.sigma", subst_rows(code, TRI), subst_rows(ref, TRI), "sigma",
                   where=f.loc(), domain=_dom(), note="sigma = NCPR^2/FCR, 0 for an uncharged sequence")
    # deltaForm with a symbolic blob size
    w = Rat.atom("w")
    f, code = pair.code_rows(SEQ, "Sequence.deltaForm", {"bloblen": w})
    ref = pair.ref_rows("Sequence.deltaForm", {"w": w})
    compare_tables(ck, "FOLD-window", SEQ_PATH + ":Sequence.deltaForm", subst_rows(code, TRI), subst_rows(ref, TRI),
                   "deltaForm(w)", where=f.loc(), domain=_dom(), norm=empty_sum_norm(pair.code.wsums),
                   note="sum over i in [0, N-w] of (sigma - sigma_blob(i))^2 / (N-w+1); blob = chargePattern[i:i+w]; "
                        "empty family (w > N) gives the initial 0")
    for rec in pair.code.wsums:
        ck.sample({"window_sum": rec["where"], "domain": [repr(rec["lo"]), repr(rec["hi"])],
                   "window": [repr(x) for x in (rec["window"] or ())],
                   "pieces": [[str(len(c)) + " conds", repr(t)[:120]] for c, t in rec["pieces"]][:2]})
    ck.count("window sums registered", len(pair.code.wsums))
    # delta
    f, code = pair.code_rows(SEQ, "Sequence.delta")
    ref = pair.ref_rows("Sequence.delta")
    code_x, ref_x = subst_rows(code, TRI), subst_rows(ref, TRI)
    if any(isinstance(c, tuple) and "N" in _atoms_of_cond(c) for cs, _ in code_x for c in cs):
        # the code branches on the length (a fast path for short sequences): make the window sums canonical where a blob size admits no
        # window or exactly one (the window is then the whole sequence and its sigma the global one)
        from lcsa.ref import expand_small_windows
        code_x = expand_small_windows(code_x, pair.code.wsums, domain=_dom())
        ref_x = expand_small_windows(ref_x, pair.code.wsums, domain=_dom())
    compare_tables(ck, "ALG", SEQ_PATH + ":Sequence.delta", code_x, ref_x, "delta",
                   where=f.loc(), domain=_dom(), norm=empty_sum_norm(pair.code.wsums), note="(deltaForm(5) + deltaForm(6)) / 2")
    ck.attempt(check_api, ck, prog, [("get_delta", "delta", None)])
    ck.floor("window sums", len(pair.code.wsums), 2)


def _atoms_of_cond(c):
    if isinstance(c, bool):
        return set()
    if c[0] == "cmp":
        return c[1].atoms() | c[3].atoms()
    if c[0] == "not":
        return _atoms_of_cond(c[1])
    if c[0] in ("and", "or"):
        out = set()
        for x in c[1]:
            out |= _atoms_of_cond(x)
        return out
    return set()


def _dom():
    from lcsa.lin import Lin
    # n+, n- >= 0 ; n+ + n- <= N
    return [Lin({"npos": -1}, 0, "<="), Lin({"nneg": -1}, 0, "<="), Lin({"npos": 1, "nneg": 1, "N": -1}, 0, "<=")]
