"""what MANIFEST.json claims, per property (tools/mkmanifest.py renders it)"""
T_NF = "static analysis: AST -> exact normal forms (finite case split over the 20 letters, rational algebra, path tables) compared with a reference definition"

ENGINES = [
    {"name": "lcsa", "path": "/verif/lcsa", "serves_properties": ["C%02d" % i for i in range(1, 21)],
     "kind_free_text": "repository-specific static analyser on the stdlib ast: program model + call resolution (model), literal tables and record layout (tab), path-enumerating normaliser to rational normal forms (sym, alg), decision tables with exact Fourier-Motzkin feasibility (dt, lin), sign domain (sign), call binding (bind), effects (eff)"},
    {"name": "selftest", "path": "/verif/selftest", "serves_properties": ["C%02d" % i for i in range(1, 21)],
     "kind_free_text": "mutant corpus applied to scratch copies: measures the checkers (breaking edits must be reported, preserving edits must stay silent); thorough tier only, never changes an exit code"},
]

CLAIMS = {
    "C01": {"text": "decides kappa's decision table (-1 iff deltaMax()==0, ratio, (1,1.1) clamp) for all values of (delta, deltaMax), and delta()>=0 / deltaMax()>=0 by a sign analysis; does NOT decide kappa<=1 (global optimality of the delta-max heuristic, known to fail dynamically)",
            "note": "trusted: CPython ast, lcsa normaliser, reference table in spec/ref; the clause kappa<=1 is outside the technique (DESIGN.md section 7)", "technique": T_NF + " + sign abstract domain"},
    "C02": {"text": "decides the whole delta formula in exact arithmetic for every N and every window (charge classes, window family, per-blob sigma incl. uncharged blobs, squared deviation, mean, blob sizes 5 and 6, /2, empty family when the blob is longer than the sequence)",
            "note": "float rounding error not analysed; trusted: lcsa window-loop summary (one generic index)", "technique": T_NF},
    "C04": {"text": "decides that every composition parameter is the commutative per-residue fold of the published table with the right divisor (exact equality of normal forms over the composition atoms), the stated identities and the API wrappers",
            "note": "float rounding not analysed; PPII scales as documented by the library (not re-checked against the papers offline)", "technique": T_NF},
    "C07": {"text": "decides the SCD pair domain (all m>n), term q_m*q_n*(m-n)^(1/2), initial 0 and /N in exact arithmetic, and that only the charge pattern is read",
            "note": "float rounding not analysed", "technique": "static analysis: pair-fold summary (affine loop bounds decided by Fourier-Motzkin, term by polynomial identity)"},
    "C08": {"category": "proof", "text": "exact and exhaustive over all rational compositions: threshold cascade = stated partition, both raise paths and the tie cell empty, dependence on (n+,n-,N) only, single-rounding discipline that makes float comparison equal rational comparison",
            "note": "trusted: Fourier-Motzkin in lcsa/lin.py; lemma on one correctly-rounded division vs a decimal literal (DESIGN.md C08)", "technique": "static analysis: path enumeration + exact polyhedral feasibility (Fourier-Motzkin) on the decision table"},
    "C09": {"text": "decides the titration term of each residue class and the pKa table, monotone non-increase of NCPR(pH), |NCPR|<=FCR<=titratable/N, FER adds proline, the pH guard on the four entry points, and for the pI loop: return only at |charge|<=0.02 at the returned pH, 7.0 first, bounded by two coupled counters; does NOT decide that the search returns rather than raises",
            "note": "10**x positive and increasing; convergence of the bisection in floats is outside the technique", "technique": T_NF + "; one symbolic loop iteration with the charge as an uninterpreted function"},
    "C10": {"text": "decides, for every N and every window size of either parity: window guard on every profile, N-w+1 windows, floor/ceil pads, positions 1..N, values[i] = statistic of residues [i,i+w), the statistic's formula (= whole-sequence parameter at w=N; sigma profile = delta's blob sigma), composition rows in caller order, API wrappers",
            "note": "float rounding not analysed; window size assumed a positive integer", "technique": T_NF + "; parity case split w=2k / w=2k+1"},
    "C12": {"category": "proof", "text": "exhaustive: 12 sizes x 20 residues map = documented groups, group count, representative in group, alphabet = representatives, one output letter per input letter on every path (length, homomorphism), idempotence, every other size rejected, user alphabet validated for every (key, value-class) pair",
            "note": "trusted: per-letter constant folding of the loop body in lcsa/sym.py; spec/alphabets.json transcribed from webpage.MD", "technique": "static analysis: finite-alphabet partition analysis (constant propagation of the per-letter loop body over the 20 letters and all sizes)"},
    "C13": {"text": "decides the per-character decision table of the validator over a 264-character universe (letter kept / whitespace dropped / anything else rejected), type check first, upper-casing before validation, blank rejected, object state derived from the normalised word, string branch validates, accessors read the stored word",
            "note": "CPython semantics of str.upper/isspace/len trusted; characters outside the universe fall in the same three classes because the body tests only membership and isspace()", "technique": "static analysis: finite partition analysis of the loop body + typestate walk over the constructor"},
    "C14": {"text": "decides the sequence-line character table, the asterisk post-validation table, the line loop's decision table with the header typestate, order-preserving concatenation, file-to-loop-to-result plumbing, and that both constructors' file branches build the object from the parser output",
            "note": "unknown lines are abstract strings (length atom, two uninterpreted booleans); file reading itself (open/readlines) trusted", "technique": "static analysis: partition analysis + decision tables over abstract strings with exact feasibility"},
}

PENDING = "check under construction in this session (design in DESIGN.md section 4); not claimed until it runs clean"
NOT_APPLICABLE = {("C%02d" % i): PENDING for i in range(1, 21)}
