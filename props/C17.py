"""C17 - shuffles and moves only rearrange, keep frozen sites, stay self-consistent.

Decides: no move writes a field of its receiver or mutates an argument (EFF); every move that takes `frozen` reads it
when choosing positions (USE) - two moves do not: recorded findings; library misuse that makes moves fail on the pinned
interpreter: random.sample on a set, ndarray == [] (TYPE; both repaired by fix: commits); the pair swap exchanges the
same two indices in the string copy and in the charge-pattern copy, both copies fresh (PAIR); children are built as
Sequence(new string, self.dmax[, swapped pattern]) (dmax is composition-only by C03, the pattern is re-derived
otherwise); full_shuffle follows the 'pop a shuffled list of the non-frozen indices' idiom; API entry points forward.
Does NOT decide that permute_block_swap / permute_cluster_charges preserve the multiset under every random outcome."""
import ast

from lcsa.eff import Effects
from lcsa import bind as bind_mod
from lcsa.model import Undecided, unparse, is_self_attr
from props.common import CONDITIONAL_CALLEES, SEQ, SP, SEQ_PATH

MOVES = ["swapRes", "swapRandChargeRes", "full_shuffle", "permute_block_swap", "permute_cluster_charges"]


def run(ck, prog):
    from props.common import check_memos, check_index_truthiness, FUNCS
    ck.attempt(check_memos, ck, prog)
    ck.attempt(check_index_truthiness, ck, prog, FUNCS["C17"], {"frozen"}, "the frozen positions (0-based)")
    ck.explanation = (
        "Effect summaries (closed over the call graph) for the five moves and the two API entry points; a use analysis of the "
        "`frozen` parameter; a four-tag local type inference (set / list / ndarray / other) applied to every random.sample "
        "population and to every ==/!= against a list display; a store-pattern reading of swapRes; constructor-call discipline.")
    ck.assumptions += ["rearrangement under every random outcome is NOT decided for permute_block_swap / permute_cluster_charges"]
    E = Effects(prog, cut=CONDITIONAL_CALLEES)
    # a child built from a string (full_shuffle, the block moves) gets its charge bookkeeping from the constructor: on every path on which the
    # constructor derives the pattern it must be the per-residue class map, whatever delta-max is carried along
    from props.common import check_charge_map
    ck.attempt(check_charge_map, ck, prog)
    ck.attempt(_eff, ck, prog, E)
    ck.attempt(_use_frozen, ck, prog)
    ck.attempt(_types, ck, prog)
    ck.attempt(_pair, ck, prog)
    ck.attempt(_ctor, ck, prog)
    ck.attempt(_ctor_total, ck, prog)
    ck.attempt(_full_shuffle, ck, prog)
    ck.attempt(_swap_rand, ck, prog)
    ck.attempt(_retry_loops, ck, prog)
    ck.attempt(_api, ck, prog, E)


STATE_FIELDS = {"seq", "len", "chargePattern", "phosphosites", "aminoAcidColorMap", "ComplexityObject"}


def _eff(ck, prog, E):
    for m in MOVES:
        s = E.of(SEQ, "Sequence." + m)
        construct = SEQ_PATH + ":Sequence." + m
        w = {k: sorted(v) for k, v in s.self_writes.items() if k not in ("dmax", "seqDeltaMax")}
        state = {k: v for k, v in w.items() if k.split(".")[0] in STATE_FIELDS or k == "*"}
        # a private field of its own that a move writes (a remembered intermediate result) does not alter what the object answers unless it
        # can go stale - a memo question this rule does not judge
        ck.shape(not (set(w) - set(state)) or bool(state), "%s writes new field(s) %s of the receiver; whether they can change a later answer is not judged by this rule"
                 % (m, sorted(set(w) - set(state))))
        ck.ob("EFF-receiver", construct, not state, expected="the object a move is called on is never altered", found=state or w, slot="writes")
        # dmax/seqDeltaMax may only be touched through deltaMax()'s memo (delta() does not call it; kappa does)
        memo = {k for k in s.self_writes if k in ("dmax", "seqDeltaMax")}
        direct = [x for k in memo for x in s.write_sites.get(k, []) if x[0] != "via"]
        ck.ob("EFF-receiver", construct, not direct, expected="no direct write to the delta-max memo", found=direct, slot="memo-writes")
        ck.ob("EFF-arguments", construct, not s.param_muts, expected="arguments (the frozen set) not mutated", found={k: v[:2] for k, v in s.param_muts.items()},
              slot="arguments")
    ck.count("moves analysed", len(MOVES))


def _use_frozen(ck, prog):
    n = 0
    for m in MOVES:
        f = prog.fn(SEQ, "Sequence." + m)
        if "frozen" not in f.params():
            continue
        n += 1
        loads = [x for x in ast.walk(f.node) if isinstance(x, ast.Name) and x.id == "frozen" and isinstance(x.ctx, ast.Load)]
        ck.ob("USE-frozen", SEQ_PATH + ":Sequence." + m, bool(loads), expected="the frozen set is consulted when positions are chosen",
              found="%d reads of 'frozen'" % len(loads), slot="frozen", where=f.loc(),
              note="a move that never reads `frozen` can move a frozen position")
    ck.count("moves taking frozen", n)
    ck.floor("moves taking frozen", n, 4)


# ------------------------------------------------------------------------------------ TYPE
def _tag_expr(node, env, prog, f):
    if isinstance(node, ast.Name):
        return env.get(node.id, "other")
    if isinstance(node, (ast.List, ast.ListComp)):
        return "list"
    if isinstance(node, (ast.Set, ast.SetComp)):
        return "set"
    if isinstance(node, ast.Call):
        name = getattr(node.func, "id", None)
        attr = getattr(node.func, "attr", None)
        if name == "set":
            return "set"
        if name in ("list", "sorted"):
            return "list"
        if name == "range":
            return "list"      # acceptable population
        if attr in ("where", "append", "array", "arange", "zeros", "vstack") and isinstance(node.func, ast.Attribute) \
                and isinstance(node.func.value, ast.Name) and node.func.value.id in ("np", "numpy"):
            return "ndarray"
        if attr == "deepcopy" and node.args:
            return _tag_expr(node.args[0], env, prog, f)
        if attr == "sample":
            return "list"
        return "other"
    if isinstance(node, ast.Attribute):
        if is_self_attr(node, "chargePattern"):
            return "ndarray"
        if is_self_attr(node, "phosphosites"):
            return "list"
        if node.attr == "chargePattern":
            return "ndarray"
        return "other"
    if isinstance(node, ast.Subscript):
        b = _tag_expr(node.value, env, prog, f)
        if b == "ndarray":
            return "ndarray"        # np.where(...)[0], slices
        if b == "list" and isinstance(node.slice, ast.Slice):
            return "list"
        return "other"
    if isinstance(node, ast.BinOp) and isinstance(node.op, (ast.Sub, ast.BitOr, ast.BitAnd, ast.BitXor)):
        a, b = _tag_expr(node.left, env, prog, f), _tag_expr(node.right, env, prog, f)
        if "set" in (a, b):
            return "set"
        return "other"
    return "other"


def _local_tags(prog, f):
    env = {}
    for _ in range(2):
        for n in ast.walk(f.node):
            if isinstance(n, ast.Assign) and len(n.targets) == 1 and isinstance(n.targets[0], ast.Name):
                t = _tag_expr(n.value, env, prog, f)
                old = env.get(n.targets[0].id)
                env[n.targets[0].id] = t if old in (None, t) else ("set" if "set" in (old, t) else ("ndarray" if "ndarray" in (old, t) else old))
    return env


def _types(ck, prog):
    n_sample = 0
    for f in prog.mod(SEQ).funcs.values():
        env = None
        for c in ast.walk(f.node):
            if isinstance(c, ast.Call) and isinstance(c.func, ast.Attribute) and c.func.attr == "sample" and c.args:
                if env is None:
                    env = _local_tags(prog, f)
                t = _tag_expr(c.args[0], env, prog, f)
                n_sample += 1
                ck.ob("TYPE-sample-set", f.mod.relpath + ":" + f.qual, t != "set", expected="population of random.sample is a sequence",
                      found="%s is %s-typed" % (unparse(c.args[0]), t), slot="sample(%s)" % unparse(c.args[0])[:30], where=f.loc(c),
                      note="random.sample(set, k) raises TypeError on Python >= 3.11: the move fails for every sequence")
    ck.count("random.sample call sites", n_sample)
    ck.floor("random.sample call sites", n_sample, 9)
    # ndarray compared with a list display by == / != in the constructor
    f = prog.fn(SEQ, "Sequence.__init__")
    # which tags reach the chargePattern parameter: default + every constructor call site in the package
    reach = set()
    d = f.defaults().get("chargePattern")
    if d is not None:
        reach.add(_tag_expr(d, {}, prog, f))
    sites = 0
    for g in prog.all_funcs():
        env = None
        for c in ast.walk(g.node):
            if isinstance(c, ast.Call) and prog.class_of_ctor(g.mod, c) == "Sequence":
                arg = None
                if len(c.args) >= 3:
                    arg = c.args[2]
                for k in c.keywords:
                    if k.arg == "chargePattern":
                        arg = k.value
                if arg is not None:
                    if env is None:
                        env = _local_tags(prog, g)
                    reach.add(_tag_expr(arg, env, prog, g))
                    sites += 1
    ck.count("constructor call sites passing a pattern", sites)
    bad = []
    for c in ast.walk(f.node):
        if isinstance(c, ast.Compare) and len(c.ops) == 1 and isinstance(c.ops[0], (ast.Eq, ast.NotEq)):
            sides = [c.left, c.comparators[0]]
            if any(isinstance(x, (ast.List, ast.Tuple)) for x in sides) and any(isinstance(x, ast.Name) and x.id == "chargePattern" for x in sides):
                if "ndarray" in reach:
                    bad.append(unparse(c))
    ck.ob("TYPE-ndarray-eq-list", SEQ_PATH + ":Sequence.__init__", not bad, expected="no `==` between the supplied pattern (an ndarray from swapRes / the sampler) and a list",
          found=bad, slot="chargePattern-emptiness-test", where=f.loc(),
          note="elementwise comparison with [] raises ValueError under the pinned numpy: every pair swap fails")


# ------------------------------------------------------------------------------------ PAIR
def _pair(ck, prog):
    f = prog.fn(SEQ, "Sequence.swapRes")
    construct = SEQ_PATH + ":Sequence.swapRes"
    # the index parameters may be exchanged on the way (`if index2 < index1: index1, index2 = index2, index1`): what is read before and what is
    # written after such a statement refer to different positions when it is taken.  The pairing is decided once for each way through these
    # statements, with the names after a taken exchange renamed back to the values they hold
    params = [p_ for p_ in f.params() if p_ != "self"]
    perm_stmts, other_rebinds = [], []
    for n in ast.walk(f.node):
        tg = n.targets if isinstance(n, ast.Assign) else ([n.target] if isinstance(n, (ast.AugAssign, ast.AnnAssign)) else [])
        names = [x.id for t in tg for x in ast.walk(t) if isinstance(x, ast.Name) and isinstance(x.ctx, ast.Store)]
        if not any(nm in params for nm in names):
            continue
        if isinstance(n, ast.Assign) and len(n.targets) == 1 and isinstance(n.targets[0], ast.Tuple) and isinstance(n.value, ast.Tuple) \
                and all(isinstance(e, ast.Name) and e.id in params for e in n.targets[0].elts + n.value.elts) and len(n.targets[0].elts) == len(n.value.elts):
            perm_stmts.append(n)
        else:
            other_rebinds.append(n)
    ck.shape(not other_rebinds and len(perm_stmts) <= 2, "swapRes: the index parameters are only ever exchanged with each other", f.loc())
    import itertools
    for taken in itertools.product((False, True), repeat=len(perm_stmts)):
        ren = []            # (line after which it applies, {name as written -> name whose original value it holds})
        for st, tk in zip(perm_stmts, taken):
            if tk:
                ren.append((st.end_lineno or st.lineno, {t.id: v.id for t, v in zip(st.targets[0].elts, st.value.elts)}))
        _pair_on(ck, prog, f, construct, ren, skip=perm_stmts,
                 tag="" if not perm_stmts else "[%s]" % ",".join("exchanged" if t else "as-passed" for t in taken))


def _pair_on(ck, prog, f, construct, ren, skip, tag):
    import copy

    def orig(node):
        """index expression with each parameter name replaced by the parameter whose original value it holds at that line"""
        m = {}
        for line, sub in sorted(ren, key=lambda x: x[0]):
            if getattr(node, "lineno", 0) > line:
                m2 = dict(m)
                for t_, v_ in sub.items():
                    m2[t_] = m.get(v_, v_)          # after `t = v`, t holds what v held
                m = m2
        if not any(k != v for k, v in m.items()):
            return unparse(node)

        class R(ast.NodeTransformer):
            def visit_Name(self, n):
                return ast.copy_location(ast.Name(id=m.get(n.id, n.id), ctx=n.ctx), n)
        return unparse(R().visit(copy.deepcopy(node)))
    defs, copies, stores = {}, {}, {}
    for n in ast.walk(f.node):
        if not (isinstance(n, ast.Assign) and len(n.targets) == 1) or any(n is s_ for s_ in skip):
            continue
        t = n.targets[0]
        pairs = [(t, n.value)]
        if isinstance(t, ast.Tuple) and isinstance(n.value, ast.Tuple) and len(t.elts) == len(n.value.elts):
            pairs = list(zip(t.elts, n.value.elts))
        for a, b in pairs:
            if isinstance(a, ast.Name):
                defs.setdefault(a.id, []).append(b)
                v = unparse(b).replace(" ", "")
                if v == "list(self.seq)":
                    copies[a.id] = "seq"
                elif v in ("cp.deepcopy(self.chargePattern)", "copy.deepcopy(self.chargePattern)", "np.copy(self.chargePattern)",
                           "self.chargePattern.copy()", "np.array(self.chargePattern)", "deepcopy(self.chargePattern)"):
                    copies[a.id] = "cp"
            elif isinstance(a, ast.Subscript) and isinstance(a.value, ast.Name):
                stores.setdefault(a.value.id, []).append((orig(a.slice), b))
    # a working array that aliases the receiver's own pattern is an effect on the receiver (reported by EFF); here: shape
    ck.shape(sorted(copies.values()) == ["cp", "seq"], "swapRes: one copy of the residues and one copy of the charge pattern", f.loc())

    def source(expr, arr_name, kind):
        if isinstance(expr, ast.Subscript):
            b = unparse(expr.value)
            if (b == arr_name) or (kind == "seq" and b == "self.seq") or (kind == "cp" and b == "self.chargePattern"):
                return (kind, orig(expr.slice))
        if isinstance(expr, ast.Name) and len(defs.get(expr.id, [])) == 1:
            return source(defs[expr.id][0], arr_name, kind)
        if isinstance(expr, ast.Call) and getattr(expr.func, "id", None) in ("float", "int") and len(expr.args) == 1:
            return source(expr.args[0], arr_name, kind)
        return None
    perms = {}
    for name, kind in copies.items():
        p = {}
        for dst, val in stores.get(name, []):
            p[dst] = source(val, name, kind)
        perms[kind] = p
    ck.shape(all(v is not None for p in perms.values() for v in p.values()) and all(len(p) == 2 for p in perms.values()),
             "swapRes: two stores into each copy, each from a readable element of the receiver", f.loc())
    ps, pc = perms["seq"], perms["cp"]
    idx = sorted(ps)
    ok = sorted(pc) == idx and ps[idx[0]] == ("seq", idx[1]) and ps[idx[1]] == ("seq", idx[0]) \
        and pc[idx[0]] == ("cp", idx[1]) and pc[idx[1]] == ("cp", idx[0])
    ck.ob("PAIR-swap", construct, ok, expected="the same two indices are exchanged in the residue copy and in the charge-pattern copy, from the receiver's own values",
          found={k: {d: v for d, v in p.items()} for k, p in perms.items()}, slot="paired-exchange" + tag, where=f.loc())
    seqcopy = next(n for n, k in copies.items() if k == "seq")
    cpcopy = next(n for n, k in copies.items() if k == "cp")
    ctors = [c for c in ast.walk(f.node) if isinstance(c, ast.Call) and prog.class_of_ctor(f.mod, c) == "Sequence" and len(c.args) + len(c.keywords) >= 3]
    ck.shape(len(ctors) == 1, "swapRes: child built with (string, dmax, pattern)", f.loc())
    _, cb = bind_mod.bind(prog, f, ctors[0])
    ck.shape(cb is not None and {"seq", "dmax", "chargePattern"} <= set(cb), "swapRes: child built with (string, dmax, pattern)", f.loc(ctors[0]))
    a0, a1, a2 = [unparse(cb[k]).replace('"', "'").replace(" ", "") for k in ("seq", "dmax", "chargePattern")]
    ck.ob("PAIR-swap", construct, a0 == "''.join(%s)" % seqcopy and a1 == "self.dmax" and a2 == cpcopy,
          expected="Sequence(''.join(<swapped residues>), self.dmax, <swapped pattern>)", found=unparse(ctors[0]), slot="child" + tag, where=f.loc(ctors[0]))


def _ctor(ck, prog):
    """children of moves: Sequence(<new string>, self.dmax[, pattern]) - never a stale pattern"""
    n = 0
    for m in MOVES:
        f = prog.fn(SEQ, "Sequence." + m)
        for c in ast.walk(f.node):
            if isinstance(c, ast.Call) and prog.class_of_ctor(f.mod, c) == "Sequence":
                callee, b = bind_mod.bind(prog, f, c)
                a_dmax = unparse(b["dmax"]).replace(" ", "") if b and "dmax" in b else None
                a_cp = unparse(b["chargePattern"]).replace(" ", "") if b and "chargePattern" in b else None
                if a_dmax is not None and "chargePattern" in a_dmax:
                    # the second positional parameter of Sequence(...) is dmax: a charge pattern handed over positionally lands there
                    ck.ob("CTOR-child", SEQ_PATH + ":Sequence." + m, False, expected="dmax = self.dmax (or left out)", found=unparse(c)[:90], slot="child-dmax@%d" % n, where=f.loc(c),
                          note="the charge pattern is bound to the dmax parameter: delta-max of the child is an array, kappa() and deltaMax() on it fail")
                    n += 1
                    continue
                ck.shape(a_dmax in (None, "self.dmax", "-1"), "%s: child built with a dmax lcsa cannot relate to the receiver (%s)" % (m, a_dmax), f.loc(c))
                stale = a_cp in ("self.chargePattern", "self.chargePattern[:]", "self.chargePattern.copy()", "cp.deepcopy(self.chargePattern)", "np.copy(self.chargePattern)")
                ok = not stale and (a_cp is None or m == "swapRes")
                ck.shape(ok or stale, "%s: child built with a charge pattern lcsa cannot relate to the new string (%s)" % (m, a_cp), f.loc(c))
                ck.ob("CTOR-child", SEQ_PATH + ":Sequence." + m, ok, expected="Sequence(new, self.dmax) - pattern re-derived - or the consistently swapped copy",
                      found=unparse(c)[:90], slot="child@%d" % n, where=f.loc(c),
                      note="a carried dmax is valid because delta-max is composition-only (C03) and a move only rearranges")
                n += 1
    ck.count("children constructed by moves", n)
    ck.floor("children constructed by moves", n, 5)
    # ... and a child's bookkeeping is what its constructor derived (or the carried delta-max): a move that patches a field of the object it
    # returns afterwards makes it differ from an object freshly built from the same sequence
    for m in MOVES:
        f = prog.fn(SEQ, "Sequence." + m)
        for a in ast.walk(f.node):
            if not isinstance(a, (ast.Assign, ast.AugAssign)):
                continue
            for t in (a.targets if isinstance(a, ast.Assign) else [a.target]):
                base = t.value if isinstance(t, ast.Attribute) else (t.value.value if isinstance(t, ast.Subscript) and isinstance(t.value, ast.Attribute) else None)
                attr = t.attr if isinstance(t, ast.Attribute) else (t.value.attr if isinstance(t, ast.Subscript) and isinstance(t.value, ast.Attribute) else None)
                if base is None or (isinstance(base, ast.Name) and base.id == "self") or attr not in ("dmax", "seqDeltaMax", "chargePattern", "seq", "len", "phosphosites"):
                    continue
                carried = isinstance(a, ast.Assign) and unparse(a.value).replace(" ", "") == "self." + attr and attr == "dmax"
                ck.ob("CTOR-child", SEQ_PATH + ":Sequence." + m, carried, expected="the returned object's %s is what Sequence(...) derived (delta-max may be carried over from the receiver)" % attr,
                      found=unparse(a)[:90], slot="child-field:%s@%d" % (attr, a.lineno - f.node.lineno), where=f.loc(a),
                      note="delta-max is a property of the composition: a value computed from one arrangement is not it (and -1 means 'not computed yet')")


def _resolve(f, node, depth=0, stop=()):
    """expand single-definition locals inside an expression (text form); names in `stop` are kept"""
    if depth > 6:
        return unparse(node)
    class T(ast.NodeTransformer):
        def visit_Name(self, n):
            if n.id in stop:
                return n
            vals = [a.value for a in ast.walk(f.node) if isinstance(a, ast.Assign) and len(a.targets) == 1
                    and isinstance(a.targets[0], ast.Name) and a.targets[0].id == n.id]
            if len(vals) == 1 and isinstance(n.ctx, ast.Load):
                import copy
                return ast.parse(_resolve(f, copy.deepcopy(vals[0]), depth + 1, stop), mode="eval").body
            return n
    import copy
    return unparse(T().visit(copy.deepcopy(node)))



def _ctor_total(ck, prog):
    """CTOR-total: 'the shuffles and swaps succeed for every sequence' - every move ends by constructing its child with Sequence(new, self.dmax[, pattern]).
    self.dmax is -1 (not computed yet) or what deltaMax() stored: a maximum of squared deviations, so any number >= 0, and exactly 0 for a sequence
    without charged residues.  A `raise` in Sequence.__init__ whose guards read that parameter must therefore be unreachable for -1, 0 and a positive
    value; the guards are folded for these three representatives (comparisons with literals, and/or/not).  A guard that cannot be folded, or a raise
    inside a loop / try, answers undecided; guards over `seq` alone are C13's business."""
    f = prog.fn(SEQ, "Sequence.__init__")
    construct = SEQ_PATH + ":Sequence.__init__"
    watched = {"dmax"}
    passes_validate = False
    for m in MOVES:
        g = prog.fn(SEQ, "Sequence." + m)
        for c in ast.walk(g.node):
            if isinstance(c, ast.Call) and prog.class_of_ctor(g.mod, c) == "Sequence":
                _callee, b = bind_mod.bind(prog, g, c)
                if b and "validateSeq" in b and unparse(b["validateSeq"]) != "False":
                    passes_validate = True

    class Unknown(Exception):
        pass

    def fold(e, d):
        if isinstance(e, ast.Constant) and isinstance(e.value, (int, float, bool)) or (isinstance(e, ast.Constant) and e.value is None):
            return e.value
        if isinstance(e, ast.Name) and e.id == "dmax":
            return d
        if isinstance(e, ast.Name) and e.id == "validateSeq" and not passes_validate:
            return False
        if isinstance(e, ast.UnaryOp) and isinstance(e.op, ast.Not):
            return not fold(e.operand, d)
        if isinstance(e, ast.UnaryOp) and isinstance(e.op, ast.USub):
            return -fold(e.operand, d)
        if isinstance(e, ast.BoolOp):
            # three-valued: an operand that cannot be folded decides nothing unless the others already do
            vals = []
            for v in e.values:
                try:
                    vals.append(bool(fold(v, d)))
                except Unknown:
                    vals.append(None)
            if isinstance(e.op, ast.And):
                if any(v is False for v in vals):
                    return False
                if all(v is True for v in vals):
                    return True
            else:
                if any(v is True for v in vals):
                    return True
                if all(v is False for v in vals):
                    return False
            raise Unknown()
        if isinstance(e, ast.Compare):
            left = fold(e.left, d)
            for op, r in zip(e.ops, e.comparators):
                right = fold(r, d)
                if left is None or right is None:
                    if isinstance(op, (ast.Is, ast.Eq)):
                        res = left is right
                    elif isinstance(op, (ast.IsNot, ast.NotEq)):
                        res = left is not right
                    else:
                        raise Unknown()
                else:
                    table = {ast.Lt: left < right, ast.LtE: left <= right, ast.Gt: left > right, ast.GtE: left >= right, ast.Eq: left == right, ast.NotEq: left != right}
                    if type(op) not in table:
                        raise Unknown()
                    res = table[type(op)]
                if not res:
                    return False
                left = right
            return True
        raise Unknown()

    found = []          # (raise node, [(test, polarity)], simple?)

    def walk(stmts, guards, simple):
        for st in stmts:
            if isinstance(st, ast.Raise):
                found.append((st, list(guards), simple))
            elif isinstance(st, ast.If):
                walk(st.body, guards + [(st.test, True)], simple)
                walk(st.orelse, guards + [(st.test, False)], simple)
            elif isinstance(st, (ast.For, ast.While, ast.Try, ast.With)):
                for fld in ("body", "orelse", "finalbody"):
                    walk(getattr(st, fld, []) or [], guards, False)
                for h in getattr(st, "handlers", []):
                    walk(h.body, guards, False)
    walk(f.body(), [], True)
    # the parameter must still hold the caller's value where the guards read it
    rebound = [n for n in ast.walk(f.node) if isinstance(n, ast.Name) and n.id in watched and isinstance(n.ctx, ast.Store)]
    n = 0
    for r, guards, simple in found:
        reads = {x.id for t, _ in guards for x in ast.walk(t) if isinstance(x, ast.Name)} & watched
        if not reads:
            continue
        n += 1
        ck.shape(simple and not rebound, "Sequence.__init__: a raise guarded by a test of dmax sits in straight-line if/else code and dmax is not re-bound", f.loc(r))
        reps = ((-1, "-1: delta-max not computed yet (every freshly built object)"), (0, "0: the cached delta-max of a sequence without charged residues"),
                (0.5, "a positive cached delta-max"))
        for d, why in reps:
            try:
                hit = all(bool(fold(t, d)) == pol for t, pol in guards)
            except Unknown:
                raise Undecided("Sequence.__init__: guard of a raise reads dmax in a form lcsa cannot fold (%s)" % " / ".join(unparse(t)[:50] for t, _ in guards), f.loc(r))
            ck.ob("CTOR-total", construct, not hit, expected="the constructor accepts every dmax a move hands over (self.dmax: -1, or any stored delta-max >= 0)",
                  found={"raise_guarded_by": [("" if pol else "not ") + unparse(t)[:70] for t, pol in guards], "rejected dmax": why} if hit else "not rejected",
                  slot="raise@%s:dmax=%s" % (unparse(guards[-1][0])[:40], d), where=f.loc(r),
                  note="full_shuffle / swapRes / swapRandChargeRes / the block moves all end in Sequence(new, self.dmax): they would raise instead of returning a rearrangement")
    ck.count("constructor raises guarded by dmax", n)


def _full_shuffle(ck, prog):
    f = prog.fn(SEQ, "Sequence.full_shuffle")
    construct = SEQ_PATH + ":Sequence.full_shuffle"
    mov = None
    ALL = ("set(np.arange(0,self.len))", "set(range(0,self.len))", "set(range(self.len))", "set(np.arange(self.len))")
    for n in ast.walk(f.node):
        if isinstance(n, ast.Assign) and isinstance(n.targets[0], ast.Name):
            if isinstance(n.value, ast.BinOp) and isinstance(n.value.op, ast.Sub) and unparse(n.value.left).replace(" ", "") in ALL:
                mov = (n.targets[0].id, unparse(n.value.right).replace(" ", ""))
            elif unparse(n.value).replace(" ", "") in ALL:
                mov = (n.targets[0].id, "<nothing>")
    ck.shape(mov is not None, "full_shuffle: movable = set(all indices) - <something>", f.loc())
    ck.ob("IDIOM-shuffle", construct, mov[1] in ("set(frozen)", "frozen"), expected="movable = set(all indices) - set(frozen)", found=mov[1], slot="movable-set", where=f.loc())
    lst = [n.targets[0].id for n in ast.walk(f.node) if isinstance(n, ast.Assign) and isinstance(n.targets[0], ast.Name)
           and unparse(n.value).replace(" ", "") in ("list(%s)" % mov[0], "sorted(%s)" % mov[0])]
    shuf = [n for n in ast.walk(f.node) if isinstance(n, ast.Call) and getattr(n.func, "attr", "") == "shuffle" and n.args and unparse(n.args[0]) in lst]
    ck.shape(len(lst) == 1 and len(shuf) == 1, "full_shuffle: the movable indices as a list, shuffled once", f.loc())
    pool = lst[0]
    # per-position rule: loop form or comprehension form
    cond = keep = move = ivar = dom = None
    for n in ast.walk(f.node):
        if isinstance(n, ast.For) and isinstance(n.target, ast.Name) and len(n.body) == 1 and isinstance(n.body[0], ast.If):
            t = n.body[0]
            ka = [x.value.args[0] for x in t.body if isinstance(x, ast.Expr) and isinstance(x.value, ast.Call) and getattr(x.value.func, "attr", "") == "append"]
            ma = [x.value.args[0] for x in t.orelse if isinstance(x, ast.Expr) and isinstance(x.value, ast.Call) and getattr(x.value.func, "attr", "") == "append"]
            if len(ka) == 1 and len(ma) == 1 and len(t.body) == 1 and len(t.orelse) == 1:
                cond, keep, move, ivar, dom = t.test, ka[0], ma[0], n.target.id, n.iter
        if isinstance(n, ast.ListComp) and len(n.generators) == 1 and isinstance(n.elt, ast.IfExp) and isinstance(n.generators[0].target, ast.Name) \
                and not n.generators[0].ifs:
            cond, keep, move, ivar, dom = n.elt.test, n.elt.body, n.elt.orelse, n.generators[0].target.id, n.generators[0].iter
    ck.shape(cond is not None, "full_shuffle: one residue per position chosen by a frozen test (loop or comprehension)", f.loc())
    ck.ob("IDIOM-shuffle", construct, unparse(dom).replace(" ", "") in ("range(0,self.len)", "range(self.len)", "np.arange(0,self.len)", "range(len(self.seq))"),
          expected="every position 0..len-1", found=unparse(dom), slot="positions", where=f.loc())
    ct = unparse(cond).replace(" ", "")
    if ct == "%snotinfrozen" % ivar:
        keep, move, ct = move, keep, "%sinfrozen" % ivar
    ck.ob("IDIOM-shuffle", construct, ct in ("%sinfrozen" % ivar, "%sinset(frozen)" % ivar), expected="branch on `i in frozen`", found=unparse(cond), slot="frozen-test", where=f.loc())
    # lookup table of the receiver's own residues
    def table_ok(node, index_text):
        """node reads the receiver's residue at index_text"""
        if not isinstance(node, ast.Subscript) or unparse(node.slice).replace(" ", "") != index_text:
            return None
        b = unparse(node.value)
        if b == "self.seq":
            return True
        src = _resolve(f, node.value).replace(" ", "")
        if src in ("dict(enumerate(self.seq))", "list(self.seq)", "self.seq"):
            return True
        # table filled in a loop: lookup[index] = i with a hand-kept index over self.seq
        fills = [a for a in ast.walk(f.node) if isinstance(a, ast.Assign) and isinstance(a.targets[0], ast.Subscript) and unparse(a.targets[0].value) == b]
        loops = [l for l in ast.walk(f.node) if isinstance(l, ast.For) and unparse(l.iter) == "self.seq" and any(x is fl for fl in fills for x in ast.walk(l))]
        if len(fills) == 1 and len(loops) == 1 and unparse(fills[0].value) == unparse(loops[0].target):
            return True
        return None
    k_ok = table_ok(keep, ivar)
    m_ok = table_ok(move, "%s.pop()" % pool)
    ck.shape(k_ok is not None and m_ok is not None, "full_shuffle: residues read from an index -> residue table of the receiver", f.loc())
    ck.ob("IDIOM-shuffle", construct, bool(k_ok and m_ok),
          expected="frozen -> its own residue; otherwise the residue at the next popped (shuffled, non-frozen) index",
          found={"frozen": unparse(keep), "movable": unparse(move)}, slot="pop-per-position", where=f.loc(),
          note="|movable| pops for |movable| non-frozen positions: a bijection on the non-frozen positions, identity on the frozen ones")


CELLS = frozenset((c, fz) for c in "+-0" for fz in (True, False))
_CMP = {"Gt": lambda c: c == "+", "Lt": lambda c: c == "-", "Eq": lambda c: c == "0", "NotEq": lambda c: c != "0", "GtE": lambda c: c != "-", "LtE": lambda c: c != "+"}
_ALL_INDEX = {"np.arange(0,self.len)", "np.arange(self.len)", "range(self.len)", "range(0,self.len)", "range(len(self.seq))", "range(0,len(self.seq))",
              "np.arange(len(self.seq))", "np.arange(0,len(self.seq))", "range(len(self.chargePattern))", "np.arange(len(self.chargePattern))",
              "np.arange(0,len(self.chargePattern))", "range(0,len(self.chargePattern))", "range(len(self))", "np.arange(len(self))"}


def _cells(node, env, frozen_name="frozen"):
    """SETALG: an index-set expression as a set of cells of the partition {charge class} x {frozen or not}; None = not recognised"""
    t = unparse(node).replace(" ", "")
    if t in _ALL_INDEX:
        return CELLS
    if isinstance(node, ast.Name):
        if node.id == frozen_name:
            return frozenset(c for c in CELLS if c[1])
        return env.get(node.id)
    if isinstance(node, ast.Call):
        fn = unparse(node.func)
        if fn in ("set", "frozenset", "list", "sorted", "tuple", "np.array", "np.asarray") and len(node.args) == 1:
            return _cells(node.args[0], env, frozen_name)
        if fn in ("set", "frozenset") and not node.args:
            return frozenset()
        if fn in ("np.flatnonzero",) and len(node.args) == 1 and unparse(node.args[0]) == "self.chargePattern":
            return frozenset(c for c in CELLS if c[0] != "0")
        if isinstance(node.func, ast.Attribute) and node.func.attr in ("difference", "intersection", "union", "symmetric_difference") and len(node.args) == 1:
            a, b = _cells(node.func.value, env, frozen_name), _cells(node.args[0], env, frozen_name)
            if a is None or b is None:
                return None
            return {"difference": a - b, "intersection": a & b, "union": a | b, "symmetric_difference": a ^ b}[node.func.attr]
        if isinstance(node.func, ast.Attribute) and node.func.attr == "copy" and not node.args:
            return _cells(node.func.value, env, frozen_name)
        return None
    if isinstance(node, ast.Subscript) and unparse(node.slice) == "0" and isinstance(node.value, ast.Call):
        c = node.value
        fn = unparse(c.func)
        if fn in ("np.where", "np.nonzero") and len(c.args) == 1:
            a = c.args[0]
            if unparse(a) == "self.chargePattern" and fn == "np.nonzero":
                return frozenset(x for x in CELLS if x[0] != "0")
            if isinstance(a, ast.Compare) and len(a.ops) == 1 and unparse(a.left) == "self.chargePattern" and unparse(a.comparators[0]) in ("0", "0.0"):
                pred = _CMP.get(type(a.ops[0]).__name__)
                return frozenset(x for x in CELLS if pred(x[0])) if pred else None
        return None
    if isinstance(node, ast.BinOp) and isinstance(node.op, (ast.Sub, ast.BitAnd, ast.BitOr, ast.BitXor)):
        a, b = _cells(node.left, env, frozen_name), _cells(node.right, env, frozen_name)
        if a is None or b is None:
            return None
        return a - b if isinstance(node.op, ast.Sub) else a & b if isinstance(node.op, ast.BitAnd) else a | b if isinstance(node.op, ast.BitOr) else a ^ b
    return None


def _fmt_cells(cs):
    return sorted("%s%s" % ({"+": "positive", "-": "negative", "0": "neutral"}[c], "/frozen" if fz else "/free") for c, fz in cs)


def _swap_rand(ck, prog):
    f = prog.fn(SEQ, "Sequence.swapRandChargeRes")
    construct = SEQ_PATH + ":Sequence.swapRandChargeRes"
    ck.shape("frozen" in f.params(), "swapRandChargeRes: parameter 'frozen'", f.loc())
    # SETALG: evaluate every local index-set definition over the six cells {+,-,0} x {frozen, free} (may-contain: union over reassignments)
    env = {}
    assigns = sorted((n for n in ast.walk(f.node) if isinstance(n, ast.Assign) and len(n.targets) == 1 and isinstance(n.targets[0], ast.Name)), key=lambda n: n.lineno)
    for n in assigns:
        v = _cells(n.value, env)
        if v is not None:
            nm = n.targets[0].id
            env[nm] = (env[nm] | v) if nm in env else v
    rets = [r for r in ast.walk(f.node) if isinstance(r, ast.Return) and r.value is not None]
    swaps = [r.value for r in rets if isinstance(r.value, ast.Call) and unparse(r.value.func) == "self.swapRes"]
    ck.shape(all(unparse(r.value) == "self" or r.value in swaps for r in rets) and swaps, "swapRandChargeRes: returns self or self.swapRes(i, j)", f.loc())
    pops = []
    for call in swaps:
        ck.shape(len(call.args) == 2 and not call.keywords, "swapRandChargeRes: swapRes(i, j)", f.loc(call))
        for a in call.args:
            # i = <name>[0] / <name> where every assignment of <name> is rand.sample(<set expr>, 1) / rand.choice(<set expr>)
            base = a.value if isinstance(a, ast.Subscript) else a
            ck.shape(isinstance(base, ast.Name), "swapRandChargeRes: swapped index held in a local", f.loc(call))
            defs = [n.value for n in assigns if n.targets[0].id == base.id]
            ck.shape(bool(defs), "swapRandChargeRes: swapped index '%s' assigned in the function" % base.id, f.loc(call))
            for d in defs:
                ck.shape(isinstance(d, ast.Call) and getattr(d.func, "attr", "") in ("sample", "choice") and d.args, "swapRandChargeRes: swapped index drawn by sample/choice", f.loc(d))
                pops.append((base.id, d))
    ck.shape(len(pops) >= 2, "swapRandChargeRes: both swapped indices are drawn from index sets", f.loc())
    good = True
    for name, d in pops:
        cs = _cells(d.args[0], env)
        ck.shape(cs is not None, "swapRandChargeRes: population %s of %s is an index-set expression over the charge pattern and the frozen set" % (unparse(d.args[0]), name), f.loc(d))
        fz = frozenset(c for c in cs if c[1])
        good &= ck.ob("USE-frozen", construct, not fz, expected="a swap partner is drawn from positions outside the frozen set",
                      found={"population": unparse(d.args[0]), "may_contain": _fmt_cells(cs)}, slot="population:%s@%d" % (unparse(d.args[0])[:30], d.lineno - f.node.lineno), where=f.loc(d),
                      note="set algebra evaluated over {positive, negative, neutral} x {frozen, free}")
        ck.count("swap populations evaluated")
    ck.sample({"index_sets": {k: _fmt_cells(v) for k, v in sorted(env.items())}})
    ck.attempt(_sample_nonempty, ck, prog, f, construct, sorted(env))


def _sample_nonempty(ck, prog, f, construct, setnames):
    """SAMPLE-nonempty ("the swaps succeed for every sequence"): random.sample raises ValueError on an empty population.  The part of the move
    after the index sets are built is enumerated path by path with the three set sizes as integer atoms and every outcome of the draw of the two
    charge types; on each path every sampled population must be non-empty (exact linear feasibility)."""
    from lcsa.sym import Evaluator, Path, ObjV, FieldListV, _Frame, fmt_conds
    from lcsa.dt import feasible_with
    from lcsa.lin import Lin
    from lcsa.alg import Rat
    import itertools
    body = f.body()
    start = None
    for i, st in enumerate(body):
        if isinstance(st, ast.If) and any(isinstance(n, ast.Call) and getattr(n.func, "id", "") == "len" and n.args and isinstance(n.args[0], ast.Name) and n.args[0].id in setnames
                                          for n in ast.walk(st.test)):
            start = i
            break
    ck.shape(start is not None, "swapRandChargeRes: a cascade on the sizes of the index sets after they are built", f.loc())
    draws = [n for n in ast.walk(f.node) if isinstance(n, ast.Call) and getattr(n.func, "attr", "") == "sample" and n.args and isinstance(n.args[0], (ast.List, ast.Tuple))]
    ck.shape(len(draws) <= 1, "swapRandChargeRes: at most one draw of the charge types from a literal list", f.loc())
    outcomes = [None]
    if draws:
        pool = [e.value for e in draws[0].args[0].elts if isinstance(e, ast.Constant)]
        k = draws[0].args[1].value if len(draws[0].args) > 1 and isinstance(draws[0].args[1], ast.Constant) else None
        ck.shape(len(pool) == len(draws[0].args[0].elts) and isinstance(k, int), "swapRandChargeRes: rand.sample(<literal list>, <literal k>)", f.loc(draws[0]))
        outcomes = [list(c) for c in itertools.permutations(pool, k)]
    bad = []
    npaths = 0
    for oc in outcomes:
        ev = Evaluator(prog, positive=())
        ev.skip_calls = {"status_message", "warning_message", "print"}
        ev.opaque_calls[SEQ + ":Sequence.swapRes"] = lambda b: "SWAPPED"

        def sample(node, args, oc=oc):
            if isinstance(args[0], FieldListV):
                return [("drawn-from", args[0].name)]
            if isinstance(args[0], list) and oc is not None:
                return [Rat.const(x) for x in oc]
            raise Undecided("rand.sample of %r" % (args[0],), f.loc(node))
        ev.extern_calls["rand.sample"] = sample
        ev.extern_calls["random.sample"] = sample
        env = {"self": ObjV("Sequence"), "rand": "RNG"}
        for nme in setnames:
            env[nme] = FieldListV(nme)
        for p in f.params()[1:]:
            env.setdefault(p, FieldListV(p))
        paths = ev.exec_block(body[start:], [Path([], "live", None, env)], _Frame(f, 0))
        dom = [Lin({"len(%s)" % nme: -1}, 0, "<=") for nme in setnames]
        ints = {"len(%s)" % nme for nme in setnames}
        for p in paths:
            if feasible_with(p.conds, dom, set(), int_atoms=ints) is None:
                continue
            npaths += 1
            drawn = {v[0][1] for v in p.env.values() if isinstance(v, list) and v and isinstance(v[0], tuple) and v[0][0] == "drawn-from"}
            for nme in sorted(drawn):
                w = feasible_with(list(p.conds) + [("cmp", Rat.atom("len(%s)" % nme), "==", Rat.const(0))], dom, set(), int_atoms=ints)
                if w is not None:
                    bad.append({"population": nme, "can_be_empty_when": fmt_conds(p.conds)[:200], "charge_types_drawn": oc})
    ck.shape(npaths > 0, "swapRandChargeRes: feasible paths through the draw", f.loc())
    ck.ob("SAMPLE-nonempty", construct, not bad, expected="every population a swap partner is drawn from is non-empty on the path that draws from it",
          found=bad[:3] or "%d feasible paths, none draws from an empty set" % npaths, slot="empty-population", where=f.loc(),
          note="random.sample([], 1) raises ValueError: the move would fail instead of answering 'nothing to swap'")
    ck.count("swap paths enumerated", npaths)


def _api(ck, prog, E):
    f = prog.fn(SP, "SequenceParameters.get_shuffled_sequence")
    construct = f.mod.relpath + ":" + f.qual
    fs = prog.fn(SEQ, "Sequence.full_shuffle")
    calls = [n for n in ast.walk(f.node) if isinstance(n, ast.Call) and prog.resolve_call(f, n) is fs]
    ck.shape(len(calls) == 1, "get_shuffled_sequence: one call of the backend full shuffle", f.loc())
    _, b = bind_mod.bind(prog, f, calls[0])
    a = b.get("frozen")
    ck.ob("BIND-api", construct, a is not None and isinstance(a, ast.Name) and a.id == "frozen", expected="the caller's frozen set reaches full_shuffle",
          found=unparse(calls[0]), slot="frozen", where=f.loc(calls[0]), note="dropping it lets frozen positions move")
    ck.ob("BIND-api", construct, unparse(calls[0].func.value) == "self.SeqObj", expected="the shuffle is applied to the stored sequence object", found=unparse(calls[0].func),
          slot="receiver", where=f.loc(calls[0]))
    s = E.sum[f.key]
    sw = {k for k in s.self_writes if k.split(".")[-1] in STATE_FIELDS or k == "*" or k == "SeqObj"}
    ck.shape(not (set(s.self_writes) - sw) or bool(sw) or bool(s.param_muts), "get_shuffled_sequence writes new field(s) %s; not judged by this rule" % sorted(set(s.self_writes) - sw))
    ck.ob("EFF-receiver", construct, not sw and not s.param_muts, expected="receiver and argument untouched",
          found={"writes": sorted(s.self_writes), "args": sorted(s.param_muts)}, slot="writes")
    g = prog.fn("sequencePermutants.py", "SequencePermutants.get_permutant")
    gc = [n for n in ast.walk(g.node) if isinstance(n, ast.Call) and prog.resolve_call(g, n) is fs]
    ck.shape(len(gc) == 1, "get_permutant: one call of the backend full shuffle", g.loc())
    sg = E.sum[g.key]
    ck.ob("BIND-api", g.mod.relpath + ":" + g.qual, unparse(gc[0].func.value) == "self.SeqObj", expected="a full shuffle of the stored sequence", found=unparse(gc[0]), slot="forwards",
          where=g.loc(gc[0]))
    gw = {k for k in sg.self_writes if k.split(".")[-1] in STATE_FIELDS or k == "*" or k == "SeqObj"}
    ck.shape(not (set(sg.self_writes) - gw) or bool(gw), "get_permutant writes new field(s) %s; not judged by this rule" % sorted(set(sg.self_writes) - gw))
    ck.ob("EFF-receiver", g.mod.relpath + ":" + g.qual, not gw, expected="receiver untouched", found=sorted(sg.self_writes), slot="writes")
    # SequenceParameters(SeqObj=...) keeps the object it is given
    h = prog.fn(SP, "SequenceParameters.__init__")
    keeps = [n for n in ast.walk(h.node) if isinstance(n, ast.Assign) and unparse(n.targets[0]) == "self.SeqObj" and isinstance(n.value, ast.Name) and n.value.id == "SeqObj"]
    ck.shape(bool(keeps) or "SeqObj" not in h.params(), "SequenceParameters.__init__: SeqObj branch", h.loc())
    ck.ob("BIND-api", h.mod.relpath + ":" + h.qual, bool(keeps), expected="SeqObj branch stores the object it is handed", found=bool(keeps), slot="seqobj-branch", where=h.loc())


def _retry_loops(ck, prog):
    """the two moves that retry until delta changes must start every attempt from the receiver's residues: the working copy
    that receives the swapped blocks is (re)created from self.seq inside the retry loop, before it is written"""
    for m in ("permute_block_swap", "permute_cluster_charges"):
        f = prog.fn(SEQ, "Sequence." + m)
        construct = SEQ_PATH + ":Sequence." + m
        loops = [s for s in f.body() if isinstance(s, ast.While)]
        if len(loops) != 1:
            raise Undecided("%s: expected one retry loop" % m, f.loc())
        lp = loops[0]
        written = {}
        for n in ast.walk(lp):
            if isinstance(n, ast.Assign):
                for t in n.targets:
                    if isinstance(t, ast.Subscript) and isinstance(t.value, ast.Name):
                        written.setdefault(t.value.id, n.lineno)
            elif isinstance(n, ast.AugAssign) and isinstance(n.target, ast.Name) and isinstance(n.op, ast.Add) \
                    and not isinstance(n.value, ast.Constant):
                written.setdefault(n.target.id, n.lineno)
        # names that end up in the child object
        child_args = set()
        for c in ast.walk(lp):
            if isinstance(c, ast.Call) and prog.class_of_ctor(f.mod, c) == "Sequence" and c.args:
                child_args |= {x.id for x in ast.walk(c.args[0]) if isinstance(x, ast.Name)}
        # ... directly or through locals assigned inside the loop (newseq = "".join(newseq_list))
        grew = True
        while grew:
            grew = False
            for a in ast.walk(lp):
                if isinstance(a, ast.Assign) and any(isinstance(t, ast.Name) and t.id in child_args for t in a.targets):
                    new = {x.id for x in ast.walk(a.value) if isinstance(x, ast.Name)} - child_args
                    if new:
                        child_args |= new
                        grew = True
        work = sorted(w for w in written if w in child_args)
        ck.shape(bool(work), "%s: a working copy that is written inside the retry loop and then handed to the child object (written: %s)" % (m, sorted(written)), f.loc(lp))
        ck.ob("IDIOM-retry", construct, bool(work), expected="a working copy that is written and then handed to the child object", found=sorted(written), slot="working-copy",
              where=f.loc(lp))
        from lcsa.bind import inline_locals
        for w in work:
            inits = [s for s in lp.body if isinstance(s, ast.Assign) and any(isinstance(t, ast.Name) and t.id == w for t in s.targets)]
            fresh_forms = ("list(self.seq)", "\"\"", "''", "[]", "list(old_seq_list)", "old_seq_list[:]", "list(self.seq)[:]", "old_seq_list.copy()", "list(list(self.seq))", "list(self.seq).copy()")
            ck.shape(not inits or unparse(inits[0].value).replace(" ", "") in fresh_forms or unparse(inline_locals(f, inits[0].value)).replace(" ", "") in fresh_forms,
                     "%s: working copy initialised in an unrecognised form" % m, f.loc(lp))
            ok = bool(inits) and inits[0].lineno < written[w]
            ck.ob("IDIOM-retry", construct, ok, expected="'%s' is re-created from the receiver's sequence at the start of every attempt" % w,
                  found=[unparse(i) for i in inits] or "initialised outside the retry loop", slot="fresh-per-attempt:" + w, where=f.loc(lp),
                  note="blocks written by a rejected attempt would otherwise stay in place: residues get duplicated and lost")
