"""helpers shared by the property modules"""
import ast
from fractions import Fraction

from lcsa.alg import Rat
from lcsa.model import Undecided, unparse
from lcsa.sym import LETTERS, fmt_conds
from lcsa.ref import Pair, subst_rows, charge_substitution, describe_rows
from lcsa.dt import compare_rows, outcome_equal
from lcsa import facts, bind

SEQ = "backend/sequence.py"
SP = "sequenceParameters.py"
SEQ_PATH = "localcider/backend/sequence.py"

REF_CHARGE = {L: Fraction(1 if L in "KR" else (-1 if L in "DE" else 0)) for L in LETTERS}


def check_charge_map(ck, prog, rule="PART-charge-map"):
    """C02-1 / C04 / C05: residue -> charge class built by the constructor"""
    ck.attempt(check_len_invariant, ck, prog)
    cmap, f, loop = facts.charge_map(prog)
    construct = f.mod.relpath + ":" + f.qual
    for where, cond, val in facts.ANOMALIES:
        ck.ob(rule, construct, False, expected="whenever the constructor derives the charge pattern it is the per-residue class map of the sequence",
              found={"when": cond, "stored": val}, slot="derive-path[%s]" % cond[-50:], where=where,
              note="a shortcut keyed on another constructor argument (a carried delta-max, say) must not decide the charges")
    for L in LETTERS:
        ck.ob(rule, construct, cmap.get(L) == REF_CHARGE[L], expected=REF_CHARGE[L], found=cmap.get(L),
              slot="charge[%s]" % L, where=f.loc(loop),
              note="effective map through lookUpCharge -> lookForRes -> ResTable -> Residue.charge -> "
                   "get_residue_charge()[ONE_TO_THREE[letter]] and the constructor's sign tests")
    ck.count("charge-map cells", 20)
    return cmap


def diff_atoms(a, b):
    """atoms on which (a - b) depends, for diagnostics"""
    try:
        d = a - b
        return sorted(d.n.atoms())[:12]
    except Exception:
        return []


def compare_tables(ck, rule, construct, code_rows, ref_rows, slot, where=None, domain=(), positive=("N", "w"),
                   note="", norm=None):
    """decision-table equivalence obligation"""
    mis = compare_rows(code_rows, ref_rows, domain=domain, positive=positive, norm=norm)
    if mis is None:
        ck.ob(rule, construct, True, expected=describe_rows(ref_rows, 3), found="equivalent normal form",
              slot=slot, where=where, note=note)
        return True
    extra = ""
    if len(code_rows) == 1 and len(ref_rows) == 1 and isinstance(code_rows[0][1], Rat) \
            and isinstance(ref_rows[0][1], Rat):
        extra = " differs in: %s" % diff_atoms(code_rows[0][1], ref_rows[0][1])
    ck.ob(rule, construct, False, expected=describe_rows(ref_rows, 4), found=mis, slot=slot, where=where,
          note=(note + extra).strip())
    return False


def check_api(ck, prog, pairs, rule="BIND-api", allow_pre=(), memo=None, skip_returns=()):
    """pairs: [(api method, backend method, argmap or None)]"""
    n = 0
    for api, backend, argmap in pairs:
        bind.check_wrapper(ck, prog, rule, SP, "SequenceParameters." + api, SEQ + ":Sequence." + backend,
                           argmap=argmap, allow_pre=allow_pre, memo=memo, skip_returns=skip_returns)
        n += 1
    ck.count("api wrappers checked", n)


# ---------------------------------------------------------------------------------------------- memo soundness
ANCHORS = {
    "C01": [(SP, "SequenceParameters.get_kappa"), (SP, "SequenceParameters.get_delta"), (SP, "SequenceParameters.get_deltaMax")],
    "C02": [(SP, "SequenceParameters.get_delta")],
    "C03": [(SP, "SequenceParameters.get_deltaMax")],
    "C04": [(SP, "SequenceParameters." + n) for n in (
        "get_countPos", "get_countNeg", "get_countNeut", "get_fraction_positive", "get_fraction_negative", "get_FCR", "get_NCPR",
        "get_mean_net_charge", "get_fraction_expanding", "get_fraction_disorder_promoting", "get_amino_acid_fractions",
        "get_mean_hydropathy", "get_uversky_hydropathy", "get_WW_hydropathy", "get_PPII_propensity", "get_molecular_weight")],
    "C05": [(SP, "SequenceParameters." + n) for n in ("get_kappa", "get_delta", "get_deltaMax", "get_SCD", "get_Omega")],
    "C06": [(SP, "SequenceParameters." + n) for n in ("get_Omega", "get_Omega_sequence", "get_kappa_X", "get_kappa")],
    "C07": [(SP, "SequenceParameters.get_SCD")],
    "C08": [(SP, "SequenceParameters.get_phasePlotRegion")],
    "C09": [(SP, "SequenceParameters." + n) for n in ("get_FCR", "get_NCPR", "get_mean_net_charge", "get_fraction_expanding", "get_isoelectric_point")],
    "C10": [(SP, "SequenceParameters." + n) for n in ("get_linear_NCPR", "get_linear_FCR", "get_linear_sigma", "get_linear_hydropathy",
                                                      "get_linear_sequence_composition")],
    "C11": [(SP, "SequenceParameters.get_linear_complexity")],
    "C12": [(SP, "SequenceParameters.get_reduced_alphabet_sequence")],
    "C13": [(SP, "SequenceParameters.__init__"), (SP, "SequenceParameters.get_sequence"), (SP, "SequenceParameters.get_length")],
    "C14": [(SP, "SequenceParameters.__init__"), ("backend/seqfileparser.py", "SequenceFileParser.parseSeqFile")],
    "C16": [(SP, "SequenceParameters." + n) for n in ("set_phosphosites", "clear_phosphosites", "get_phosphosites", "get_phosphosequence",
                                                      "get_kappa_after_phosphorylation", "get_full_phosphostatus_kappa_distribution",
                                                      "get_all_phosphorylatable_sites")],
    "C17": [(SP, "SequenceParameters.get_shuffled_sequence")] + [(SEQ, "Sequence." + n) for n in (
        "swapRes", "swapRandChargeRes", "full_shuffle", "permute_block_swap", "permute_cluster_charges")],
    "C18": [("backend/wang_landau.py", "WangLandauMachine.run_normal_WL"), ("backend/wang_landau.py", "WangLandauMachine.__init__")],
    "C20": [(SP, "SequenceParameters.get_HTMLColorString"), (SP, "SequenceParameters.set_HTMLColorResiduePalette")],
}


# call edges that are taken only when an optional argument is supplied: FCR/NCPR/FER/mean_net_charge reach charge_at_pH only
# when a pH is given (the default is None), which only C09's entry points do
CONDITIONAL_CALLEES = {SEQ + ":Sequence.charge_at_pH"}


def closure(prog, E, anchors, allow_conditional=False):
    conditional = CONDITIONAL_CALLEES
    seen, todo = set(), []
    for rel, qual in anchors:
        if prog.has_fn(rel, qual):
            k = prog.fn(rel, qual).key
            seen.add(k)
            todo.append(k)
    while todo:
        k = todo.pop()
        for callee, _, _, _ in E.sum[k].calls:
            if callee.key in conditional and not allow_conditional:
                continue
            if callee.key in E.sum and callee.key not in seen:
                seen.add(callee.key)
                todo.append(callee.key)
    return seen


_S = "backend/sequence.py:Sequence."
_R = "backend/restable.py:ResTable."
_CX = "backend/sequenceComplexity.py:SequenceComplexity."
_COUNTS = [_S + n for n in ("countPos", "countNeg", "countNeut", "Fplus", "Fminus", "FCR", "NCPR")]
_LOOKUP = [_R + n for n in ("lookUpCharge", "lookForRes", "lookUpHydropathy", "lookUpPPII", "__init__")]
# the functions each property is anchored in (its mechanisms and their direct helpers).  MEMO-KEY findings are reported under a
# property only for these - a stale cache elsewhere in the call graph is some other property's violation
FUNCS = {
    "C01": [_S + n for n in ("kappa", "delta", "deltaForm", "sigma", "deltaMax")],
    "C02": [_S + n for n in ("sigma", "deltaForm", "delta", "__init__")] + _COUNTS + _LOOKUP[:2],
    "C03": [_S + n for n in ("deltaMax", "__permutant_from_reduced_seq")],
    "C04": _COUNTS + _LOOKUP + [_S + n for n in ("FER", "mean_net_charge", "meanHydropathy", "uverskyHydropathy", "meanWWHydropathy", "FPPII_chain",
                                                  "molecular_weight", "amino_acid_fraction", "fraction_disorder_promoting", "__init__")],
    "C05": [_S + n for n in ("__init__", "sigma", "deltaForm", "delta", "deltaMax", "sequence_charge_decoration", "kappa", "Omega")] + _LOOKUP[:2],
    "C06": [_S + n for n in ("Omega", "Omega_seq", "kappa_X", "__parse_group")],
    "C07": [_S + "sequence_charge_decoration"],
    "C08": [_S + n for n in ("phasePlotRegion", "phasePlotAnnotation")] + _COUNTS,
    "C09": [_S + n for n in ("charge_at_pH", "isoelectric_point", "FCR", "NCPR", "FER", "mean_net_charge")] + ["sequenceParameters.py:SequenceParameters.__verify_pH"],
    "C10": [_S + n for n in ("linearDistOfNCPR", "linearDistOfFCR", "linearDistOfSigma", "linearDistOfHydropathy", "linearDenistyOfAAs", "linearCompositions",
                             "__check_window_to_length", "__parse_group")],
    "C11": [_CX + n for n in ("CWF", "LC", "LZW", "get_WF_complexity", "get_LC_complexity", "get_LZW_complexity", "get_indexed_complexity_vector", "reduce_alphabet")]
           + [_S + n for n in ("get_linear_WF_complexity", "get_linear_LC_complexity", "get_linear_LZW_complexity", "__check_window_to_length")],
    "C12": [_CX + "reduce_alphabet", _S + "get_reducedAlphabetSequence"],
    "C13": [_S + "__init__", _S + "validateSequence", "sequenceParameters.py:SequenceParameters.__init__"],
    "C14": ["backend/seqfileparser.py:SequenceFileParser." + n for n in ("parseSeqFile", "__validSeq", "__final_validation")]
           + ["sequenceParameters.py:SequenceParameters.__init__", "sequencePermutants.py:SequencePermutants.__init__"],
    "C16": [_S + n for n in ("setPhosPhoSites", "clear_phosphosites", "get_phosphosites", "get_phosphosequence", "kappa_at_maxPhos",
                             "calculateKappaDistOfPhosphoStates", "calculateNumberDifferentPhosphoStates", "get_STY_residues")],
    "C17": [_S + n for n in ("swapRes", "swapRandChargeRes", "full_shuffle", "permute_block_swap", "permute_cluster_charges", "__init__")]
           + ["sequencePermutants.py:SequencePermutants.get_permutant"],
    "C18": ["backend/wang_landau.py:WangLandauMachine." + n for n in ("run_normal_WL", "__run_flatcheck", "__init__", "getBinCenters", "getBinSize",
                                                                       "indexInsideRelevantRegion", "run")],
    "C20": [_S + "get_HTMLColorString", _S + "set_HTMLColorResiduePalette"],
}


def anchored_functions(prog, E, pid):
    """FUNCS[pid] + the SequenceParameters wrappers that forward to them + private helpers they call directly"""
    base = set(FUNCS.get(pid, []))
    out = set(base)
    for k in list(base):
        s = E.sum.get(k)
        if s is None:
            continue
        for callee, _, _, _ in s.calls:
            if callee.cls == s.f.cls and callee.name.startswith("_") and not callee.name.startswith("__init") \
                    and callee.key not in CONDITIONAL_CALLEES and not any(callee.key in v for p, v in FUNCS.items() if p != pid):
                out.add(callee.key)
    for key, s in E.sum.items():
        if s.f.cls == "SequenceParameters":
            if any(c.key in base for c, _, _, _ in s.calls):
                out.add(key)
    return out


# inputs a property does not care about for one function: kappa / delta-max VALUE (C01, C05) does not depend on the residue string
# (C03-DEP), only the permutant does, so a delta-max table that forgets self.seq is C03's and C15's violation, not theirs
# (the flag only gates whether the permutant is built: C15 MEMO-M3 'flag-gates-only')
IGNORE_INPUTS = {("C01", _S + "deltaMax"): {"self.seq", "param:returnSeqDeltaMax"}, ("C05", _S + "deltaMax"): {"self.seq", "param:returnSeqDeltaMax"}}


def check_memos(ck, prog, pid=None, scope=None, E=None, decide_lossy=None):
    """MEMO-KEY: caches that survive a call, in the functions this property's entry points reach"""
    from lcsa.eff import Effects
    from lcsa import memo
    E = E or Effects(prog)
    pid = pid or ck.pid
    if scope is None:
        scope = anchored_functions(prog, E, pid)
    results = memo.analyse(prog, E)
    n = 0
    unknown = []
    for r in results:
        s = r["site"]
        if s.outer is not None:
            continue            # decorator wrappers are judged per decorated function below
        fkey = s.mod.rel + ":" + (s.cls + "." if s.cls else "") + s.fnode.name
        if fkey not in scope:
            continue
        n += 1
        ign = IGNORE_INPUTS.get((pid or ck.pid, fkey), set())
        if r["verdict"] == "violation" and ign:
            left = [m for m in r["missing"] if m not in ign]
            if not left:
                ck.info("MEMO-KEY: %s table %s forgets %s - not an input of what %s is about" % (s.construct, s.table, r["missing"], pid or ck.pid))
                continue
        if r["verdict"] == "violation":
            ck.ob("MEMO-KEY", s.construct, False, expected="every input of the cached computation is part of the key (or the table is reset when it changes)",
                  found={"table": "%s (%s-level)" % (s.table, s.scope), "key": r["key"], "missing": r["missing"], "why": r["why"]},
                  slot="table:" + s.table, where=s.where(), note="a memo keyed on part of its inputs returns a stale value for some call history")
        elif r["verdict"] == "ok":
            if s.scope == "object" and not getattr(s, "slot", False):
                from lcsa import sym as _sym
                _sym.MEMO_OK_TABLES.add(s.table)
            elif s.scope == "object":
                from lcsa import sym as _sym
                _sym.MEMO_OK_SLOTS.add(s.table)
            ck.ob("MEMO-KEY", s.construct, True, expected="complete key", found={"table": s.table, "key": r["key"]}, slot="table:" + s.table, where=s.where())
        else:
            # a key made of projections (counts, lengths): only a property that knows what the cached value depends on can decide it
            w = decide_lossy(r) if decide_lossy is not None else None
            if w is None:
                unknown.append("%s table %s keyed on %s (lossy: %s)" % (s.construct, s.table, r["key"], r["lossy"]))
            else:
                ck.ob("MEMO-KEY", s.construct, w is True, expected="the cached value is a function of the key: two objects with equal keys get equal results",
                      found={"table": "%s (%s-level)" % (s.table, s.scope), "key": r["key"], "witness": w if w is not True else "determined"},
                      slot="table:" + s.table, where=s.where(), note="a result table keyed on less than the value depends on returns another sequence's result")
    for f, dname, wsite in memo.decorated(prog):
        if f.key not in scope:
            # outside this property's scope: no verdict here, but a key-complete memoising wrapper is transparent for the normaliser
            if wsite is not None:
                d0 = memo.Deps(prog, wsite.mod, wsite.fnode, None, None)
                keyed0 = {k[6:] for k in d0.of(wsite.key) if k.startswith("param:")}
                wp0 = [a.arg for a in wsite.fnode.args.args]
                cov0 = {f.params()[i] for i, p in enumerate(wp0) if p in keyed0 and i < len(f.params())}
                if not [p for p in f.params()[1:] if p not in cov0]:
                    from lcsa import sym
                    sym.DECORATORS_OK.add(f.key)
            continue
        n += 1
        construct = f.mod.relpath + ":" + f.qual
        if wsite is None:
            unknown.append("%s is wrapped by @%s, which lcsa cannot summarise" % (construct, dname))
            continue
        d = memo.Deps(prog, wsite.mod, wsite.fnode, None, None)
        keyed = {k[6:] for k in d.of(wsite.key) if k.startswith("param:")}
        wparams = [a.arg for a in wsite.fnode.args.args]
        fparams = f.params()
        # positional correspondence wrapper param i <-> decorated param i
        covered = {fparams[i] for i, p in enumerate(wparams) if p in keyed and i < len(fparams)}
        extra = [p for p in fparams[1:] if p not in covered]
        if not extra:
            from lcsa import sym
            sym.DECORATORS_OK.add(f.key)
        ck.ob("MEMO-KEY", construct, not extra, expected="the memoising decorator @%s keys on every parameter of the function it wraps" % dname,
              found={"key": unparse_key(wsite), "parameters_not_in_key": extra}, slot="decorator:" + dname, where=f.loc(),
              note="the first value computed for a key is returned for every later call, whatever the other arguments")
    ck.count("memo tables / decorators examined", n)
    _memo_control()
    ck.count("memo positive control matched")
    if unknown:
        from lcsa.model import Undecided
        raise Undecided("memo with a lossy key or an unknown decorator: " + "; ".join(unknown)[:400])


def unparse_key(site):
    import ast
    try:
        return ast.unparse(site.key)
    except Exception:
        return "?"


_MEMO_CTL = None
MEMO_CONTROL_SRC = """
class Sequence:
    def __init__(self, seq):
        self.seq = seq
        self.sites = []
        self._c = {}
    def add(self, i):
        self.sites.append(i)
    def value(self, pH, flag=False):
        if pH in self._c:
            return self._c[pH]
        t = len(self.seq) * pH + len(self.sites)
        if flag:
            t = -t
        self._c[pH] = t
        return t
"""


def _memo_control():
    """the MEMO-KEY rule expects zero hits on a healthy tree: an embedded example (parameter and mutable field missing from
    the key) must be reported on every run, proving the matcher is alive"""
    global _MEMO_CTL
    if _MEMO_CTL is None:
        import os
        import shutil
        import tempfile
        from lcsa.model import Program, Undecided
        from lcsa.eff import Effects
        from lcsa import memo
        d = tempfile.mkdtemp(prefix="lcsa_ctl_")
        try:
            os.makedirs(os.path.join(d, "localcider"))
            with open(os.path.join(d, "localcider", "ctl.py"), "w") as fh:
                fh.write(MEMO_CONTROL_SRC)
            p = Program(d)
            res = memo.analyse(p, Effects(p))
            _MEMO_CTL = len(res) == 1 and res[0]["verdict"] == "violation" and "param:flag" in res[0]["missing"] and "self.sites" in res[0]["missing"]
        finally:
            shutil.rmtree(d, ignore_errors=True)
    if not _MEMO_CTL:
        from lcsa.model import Undecided
        raise Undecided("memo matcher failed its embedded positive example")


# ---------------------------------------------------------------------------------------------- N == len(seq)
def check_len_invariant(ck, prog, rule="INV-length"):
    """every formula uses self.len as N: the constructor must leave self.len == len(self.seq) on every path.
    Strings are tracked by length class: .upper() and plain copies keep the class, anything else (validation strips
    whitespace) starts a new one."""
    import ast
    from lcsa.model import is_self_attr, unparse
    f = prog.fn(SEQ, "Sequence.__init__")
    construct = SEQ_PATH + ":Sequence.__init__"
    results = []
    for validating in (False, True):
        cls = {"seq": 0}            # variable/field -> length class
        nxt = [1]
        len_cls = [None]

        def klass(node):
            if isinstance(node, ast.Name) and node.id in cls:
                return cls[node.id]
            if is_self_attr(node) and ("self." + node.attr) in cls:
                return cls["self." + node.attr]
            if isinstance(node, ast.Call) and isinstance(node.func, ast.Attribute) and node.func.attr in ("upper", "lower") and not node.args:
                return klass(node.func.value)
            if isinstance(node, ast.Call) and getattr(node.func, "id", None) == "str" and len(node.args) == 1:
                return klass(node.args[0])
            return None

        def walk(stmts):
            for s in stmts:
                if isinstance(s, ast.If):
                    t = unparse(s.test)
                    if t == "validateSeq":
                        walk(s.body if validating else s.orelse)
                    elif t == "not validateSeq":
                        walk(s.orelse if validating else s.body)
                    continue
                if isinstance(s, ast.Assign) and len(s.targets) == 1:
                    tgt = s.targets[0]
                    name = tgt.id if isinstance(tgt, ast.Name) else ("self." + tgt.attr if is_self_attr(tgt) else None)
                    if name in ("seq", "self.seq") or (name and klass(s.value) is not None and isinstance(tgt, ast.Name)):
                        k = klass(s.value)
                        if k is None:
                            k = nxt[0]
                            nxt[0] += 1
                        cls[name] = k
                    elif name == "self.len":
                        v = s.value
                        if isinstance(v, ast.Call) and getattr(v.func, "id", None) == "len" and len(v.args) == 1:
                            len_cls[0] = klass(v.args[0])
                        else:
                            len_cls[0] = "not-a-len"
        walk(f.body())
        results.append((validating, len_cls[0], cls.get("self.seq")))
    for validating, lc, sc in results:
        ck.ob(rule, construct, lc is not None and lc == sc, expected="self.len == len(self.seq) when construction ends",
              found={"length_class_of_len_argument": lc, "length_class_of_final_self.seq": sc}, slot="validateSeq=%s" % validating, where=f.loc(),
              note="N in every formula is self.len; validation strips whitespace, so a length taken before it is wrong for such input")


# ---------------------------------------------------------------------------------------------- what a memo key determines
QUANTITY_OF_CALL = {"countPos": "npos", "countNeg": "nneg", "countNeut": "n0", "get_countPos": "npos", "get_countNeg": "nneg", "get_countNeut": "n0",
                    "get_length": "N", "__len__": "N"}
EVERYTHING = {"seq", "chargePattern", "get_sequence"}


def key_quantities(prog, f, key):
    """composition quantities a memo key determines: set over {npos, nneg, n0, N} or {'*'} (the whole sequence); None if a component is
    not one of the recognised projections"""
    comps = key.elts if isinstance(key, ast.Tuple) else [key]
    out = set()
    for c in comps:
        if isinstance(c, ast.Call) and not c.args and not c.keywords:
            callee = prog.resolve_call(f, c)
            if callee is not None and callee.cls in ("Sequence", "SequenceParameters") and callee.name in QUANTITY_OF_CALL:
                out.add(QUANTITY_OF_CALL[callee.name])
                continue
            if callee is not None and callee.cls in ("Sequence", "SequenceParameters") and callee.name in EVERYTHING:
                return {"*"}
            return None
        if isinstance(c, ast.Call) and getattr(c.func, "id", None) == "len" and len(c.args) == 1:
            a = c.args[0]
            if unparse(a) in ("self", "self.SeqObj", "self.seq", "self.SeqObj.seq", "self.chargePattern", "self.SeqObj.chargePattern"):
                out.add("N")
                continue
            return None
        if isinstance(c, ast.Attribute) and c.attr == "len" and unparse(c.value) in ("self", "self.SeqObj"):
            out.add("N")
            continue
        if isinstance(c, ast.Attribute) and c.attr in EVERYTHING and unparse(c.value) in ("self", "self.SeqObj"):
            return {"*"}
        return None
    # N = n+ + n- + n0
    four = {"npos", "nneg", "n0", "N"}
    if len(out & four) >= 3:
        out |= four
    return out


# ---------------------------------------------------------------------------------------------- state carried into a derived Sequence(...)
def carried_state(prog, f, call):
    """What a `Sequence(<string>, ...)` construction inside f carries over besides the string.
    -> list of (kind, text) with kind in: 'dmax' (a delta-max is handed on), 'alias' (the receiver's own charge array is handed on, not a copy),
       'patched-copy' (a copy of the receiver's pattern, edited at the same indices as the string with the class of the substituted letter),
       'unknown' (anything else)."""
    out = []
    params = ["seq", "dmax", "chargePattern"]
    extra = []
    for i, a in enumerate(call.args[1:], start=1):
        extra.append((params[i] if i < len(params) else "arg%d" % i, a))
    for k in call.keywords:
        if k.arg and k.arg != "validateSeq":
            extra.append((k.arg, k.value))
    for name, v in extra:
        txt = unparse(v).replace(" ", "")
        if name == "dmax":
            out.append(("dmax", txt))
            continue
        if name != "chargePattern":
            out.append(("unknown", "%s=%s" % (name, txt)))
            continue
        src = v
        local = None
        if isinstance(v, ast.Name):
            defs = [n for n in ast.walk(f.node) if isinstance(n, ast.Assign) and len(n.targets) == 1 and isinstance(n.targets[0], ast.Name) and n.targets[0].id == v.id]
            if len(defs) != 1:
                out.append(("unknown", txt))
                continue
            local, src = v.id, defs[0].value
        st = unparse(src).replace(" ", "")
        if st in ("self.chargePattern", "self.chargePattern[:]", "np.asarray(self.chargePattern)", "np.asarray(self.chargePattern,dtype=float)"):
            out.append(("alias", "%s = %s" % (local or "argument", st)))
            continue
        copies = ("self.chargePattern.copy()", "np.array(self.chargePattern)", "np.array(self.chargePattern,dtype=float)", "np.copy(self.chargePattern)",
                  "cp.deepcopy(self.chargePattern)", "copy.deepcopy(self.chargePattern)", "np.array(self.chargePattern,copy=True)")
        if st not in copies or local is None:
            out.append(("unknown", txt))
            continue
        # every edit of the copy is paired with an edit of the string at the same index, and the number written is the class of the letter written
        cls = {"E": -1, "D": -1, "K": 1, "R": 1}
        pat = [n for n in ast.walk(f.node) if isinstance(n, ast.Assign) and len(n.targets) == 1 and isinstance(n.targets[0], ast.Subscript)
               and isinstance(n.targets[0].value, ast.Name) and n.targets[0].value.id == local]
        strs = [n for n in ast.walk(f.node) if isinstance(n, ast.Assign) and len(n.targets) == 1 and isinstance(n.targets[0], ast.Subscript)
                and isinstance(n.value, ast.Constant) and isinstance(n.value.value, str) and isinstance(n.targets[0].value, ast.Name) and n.targets[0].value.id != local]
        ok = bool(pat) and len(pat) == len(strs)
        for pn in pat:
            idx = unparse(pn.targets[0].slice)
            twin = [sn for sn in strs if unparse(sn.targets[0].slice) == idx]
            num = pn.value.operand.value * -1 if isinstance(pn.value, ast.UnaryOp) and isinstance(pn.value.op, ast.USub) and isinstance(pn.value.operand, ast.Constant) else \
                (pn.value.value if isinstance(pn.value, ast.Constant) else None)
            if len(twin) != 1 or num is None or cls.get(twin[0].value.value, 0) != num:
                ok = False
        out.append(("patched-copy" if ok else "unknown", "%s = %s; %d paired edits" % (local, st, len(pat))))
    return out


def check_index_truthiness(ck, prog, fkeys, names, what):
    """TRUTH-index: `any(xs)` / `all(xs)` over a collection of 0-based positions tests the truth of the POSITIONS, and position 0 is falsy:
    as an emptiness test (`if not any(sites)`) it takes a collection that holds only position 0 for an empty one.  xs: an expression that
    mentions one of `names` (a parameter, `self.<field>`) directly or through a local bound to it."""
    import ast
    from lcsa.model import unparse
    n = 0
    for key in fkeys:
        rel, qual = key.split(":")
        try:
            f = prog.fn(rel, qual)
        except Exception:
            continue
        aliases = set(names)
        for _ in range(3):
            for a in ast.walk(f.node):
                if isinstance(a, ast.Assign) and len(a.targets) == 1 and isinstance(a.targets[0], ast.Name):
                    v = a.value
                    while isinstance(v, ast.Call) and getattr(v.func, "id", None) in ("list", "set", "tuple", "sorted", "frozenset") and len(v.args) == 1:
                        v = v.args[0]
                    if unparse(v) in aliases:
                        aliases.add(a.targets[0].id)
        for c in ast.walk(f.node):
            if isinstance(c, ast.Call) and getattr(c.func, "id", None) in ("any", "all") and len(c.args) == 1:
                arg = c.args[0]
                while isinstance(arg, ast.Call) and getattr(arg.func, "id", None) in ("list", "set", "tuple", "sorted", "frozenset") and len(arg.args) == 1:
                    arg = arg.args[0]
                if unparse(arg) in aliases:
                    n += 1
                    ck.ob("TRUTH-index", f.mod.relpath + ":" + f.qual, False, expected="%s tested for emptiness with len(...) == 0 / `not xs`" % what,
                          found=unparse(c), slot="%s:%s" % (c.func.id, unparse(arg)), where=f.loc(c),
                          note="%s(...) looks at the truth of the elements: a collection holding only position 0 counts as empty" % c.func.id)
    return n
