"""helpers shared by the property modules"""
from fractions import Fraction

from lcsa.alg import Rat
from lcsa.model import Undecided
from lcsa.sym import LETTERS, fmt_conds
from lcsa.ref import Pair, subst_rows, charge_substitution, describe_rows
from lcsa.dt import compare_rows, outcome_equal
from lcsa import facts, bind

SEQ = "backend/sequence.py"
SP = "sequenceParameters.py"
SEQ_PATH = "localcider/backend/sequence.py"

REF_CHARGE = {L: Fraction(1 if L in "KR" else (-1 if L in "DE" else 0)) for L in LETTERS}


def check_charge_map(ck, prog, rule="PART-charge-map"):
    """C02-1 / C04 / C05: residue -> charge class built by the constructor"""
    cmap, f, loop = facts.charge_map(prog)
    construct = f.mod.relpath + ":" + f.qual
    for L in LETTERS:
        ck.ob(rule, construct, cmap.get(L) == REF_CHARGE[L], expected=REF_CHARGE[L], found=cmap.get(L),
              slot="charge[%s]" % L, where=f.loc(loop),
              note="effective map through lookUpCharge -> lookForRes -> ResTable -> Residue.charge -> "
                   "get_residue_charge()[ONE_TO_THREE[letter]] and the constructor's sign tests")
    ck.count("charge-map cells", 20)
    return cmap


def diff_atoms(a, b):
    """atoms on which (a - b) depends, for diagnostics"""
    try:
        d = a - b
        return sorted(d.n.atoms())[:12]
    except Exception:
        return []


def compare_tables(ck, rule, construct, code_rows, ref_rows, slot, where=None, domain=(), positive=("N", "w"),
                   note="", norm=None):
    """decision-table equivalence obligation"""
    mis = compare_rows(code_rows, ref_rows, domain=domain, positive=positive, norm=norm)
    if mis is None:
        ck.ob(rule, construct, True, expected=describe_rows(ref_rows, 3), found="equivalent normal form",
              slot=slot, where=where, note=note)
        return True
    extra = ""
    if len(code_rows) == 1 and len(ref_rows) == 1 and isinstance(code_rows[0][1], Rat) \
            and isinstance(ref_rows[0][1], Rat):
        extra = " differs in: %s" % diff_atoms(code_rows[0][1], ref_rows[0][1])
    ck.ob(rule, construct, False, expected=describe_rows(ref_rows, 4), found=mis, slot=slot, where=where,
          note=(note + extra).strip())
    return False


def check_api(ck, prog, pairs, rule="BIND-api", allow_pre=()):
    """pairs: [(api method, backend method, argmap or None)]"""
    n = 0
    for api, backend, argmap in pairs:
        bind.check_wrapper(ck, prog, rule, SP, "SequenceParameters." + api, SEQ + ":Sequence." + backend,
                           argmap=argmap, allow_pre=allow_pre)
        n += 1
    ck.count("api wrappers checked", n)
