"""C03 - delta-max: composition-only, attained, documented search.

Decides on Sequence.deltaMax / __permutant_from_reduced_seq:
 DT     the regime cascade over (n+, n-, n0) equals the documented one (ties in the inner choices are don't-care)
 RLE    in every regime the candidate family (run-length strings with affine block sizes over affine loop domains) equals
        the documented family as a set; every candidate has exactly n+ '+', n- '-', n0 '0' (conservation), non-negative
        block sizes, and every family is non-empty (so the not-computed sentinel never survives)
 FOLD   every candidate is scored by delta() of a fresh Sequence built from it and the update is the arg-max idiom
 PAIR   the permutant is written in the same block as the value, from the same candidate, guarded only by the flag
 PART   the permutant builder refills '+', '-', '0' from exactly the residue classes the constructor's charge map defines,
        each symbol consuming the next residue of its class exactly once; the symbols themselves have charge +1, -1, 0
 DEP    the value depends on (n+, n-, N) only - never on the residue string
 MUST   every regime, incl. the uncharged one, writes the permutant when asked (defect repaired by a fix: commit)
Does not decide that the documented family contains the global maximiser (the property only asks for the family)."""
import ast
from fractions import Fraction

from lcsa.alg import Rat
from lcsa.lin import Lin, feasible, tighten
from lcsa.model import Undecided, unparse, is_self_attr
from lcsa.dt import feasible_with, compare_rows, conj_formula
from lcsa.sym import Evaluator, ObjV, RLEV, LETTERS, fmt_conds, c_not, extend_conds
from lcsa import facts
from props.common import SEQ, SP, SEQ_PATH, check_charge_map, check_api, REF_CHARGE

P, Nn, NN = Rat.atom("npos"), Rat.atom("nneg"), Rat.atom("N")
Z = NN - P - Nn
INT = {"npos", "nneg", "N"}
DOM = [Lin({"npos": -1}, 0, "<="), Lin({"nneg": -1}, 0, "<="), Lin({"npos": 1, "nneg": 1, "N": -1}, 0, "<="), Lin({"N": -1}, 1, "<=")]


class Family:
    def __init__(self):
        self.vars = []        # [(atom name, lo Rat, hi Rat)]  range(lo, hi)
        self.cand = None      # RLEV
        self.update_ok = None
        self.pair_ok = None
        self.ctor_ok = None
        self.where = None
        self.notes = []

    def sig(self):
        return "family<%s | %s>" % (" ".join("%s^[%r]" % b for b in self.cand.blocks) if self.cand else "?",
                                    ", ".join("%s in [%r,%r)" % v for v in self.vars))


def run(ck, prog):
    from props.common import check_memos
    ck.attempt(check_memos, ck, prog)
    ck.explanation = (
        "deltaMax is walked regime by regime: branch conditions become linear constraints over (n+, n-, N), the candidate "
        "strings are kept in a run-length domain with affine block sizes, loop ranges are affine; regime cascade and families "
        "are compared with the documented ones by exact integer-tightened Fourier-Motzkin reasoning (set equality of families "
        "via mutual inclusion of the block-size polytopes). The scoring/update/permutant statements are matched structurally.")
    ck.assumptions += ["that the documented family contains the true maximiser is not part of the property and not decided"]
    cmap = ck.attempt(check_charge_map, ck, prog)
    ck.attempt(_symbols, ck, prog)
    ck.attempt(_walk_and_compare, ck, prog)
    ck.attempt(_permutant_builder, ck, prog, cmap)
    ck.attempt(_dep, ck, prog)
    ck.attempt(_answer_kind, ck, prog)
    ck.attempt(check_api, ck, prog, [("get_deltaMax", "deltaMax", None)])


def _answer_kind(ck, prog):
    """KIND: deltaMax() answers with the number, deltaMax(returnSeqDeltaMax=True) with the pair (number, arrangement) - on every path, cached or
    not.  The function is walked once with the flag true and once with it false: tests that only look at the flag select one arm, every other
    test lets both arms through; each `return` that can be reached must have the matching form."""
    f = prog.fn(SEQ, "Sequence.deltaMax")
    construct = SEQ_PATH + ":Sequence.deltaMax"
    flag = "returnSeqDeltaMax"
    ck.shape(flag in f.params(), "deltaMax: parameter returnSeqDeltaMax", f.loc())

    def truth(test, v):
        """three-valued: True / False when the flag alone decides the test, None otherwise"""
        if isinstance(test, ast.BoolOp):
            vals = [truth(x, v) for x in test.values]
            if isinstance(test.op, ast.And):
                return False if False in vals else (True if all(x is True for x in vals) else None)
            return True if True in vals else (False if all(x is False for x in vals) else None)
        if isinstance(test, ast.UnaryOp) and isinstance(test.op, ast.Not):
            x = truth(test.operand, v)
            return None if x is None else not x
        t = unparse(test).replace(" ", "")
        if t in (flag, flag + "==True", flag + "isTrue", "bool(%s)" % flag):
            return v
        if t in ("not" + flag, flag + "==False", flag + "isFalse", "not(%s)" % flag):
            return not v
        return None

    derived = {flag}
    for _ in range(3):
        for a in ast.walk(f.node):
            if isinstance(a, ast.Assign) and any(isinstance(x, ast.Name) and x.id in derived for x in ast.walk(a.value)):
                derived |= {t.id for t in a.targets if isinstance(t, ast.Name)}
    from lcsa import bind as _bind
    truth0 = truth

    def truth(test, v):
        t2 = _bind.inline_locals(f, test)
        r = truth0(t2, v)

        def atoms_ok(t):
            if isinstance(t, ast.BoolOp):
                return all(atoms_ok(x) for x in t.values)
            if isinstance(t, ast.UnaryOp) and isinstance(t.op, ast.Not):
                return atoms_ok(t.operand)
            if any(isinstance(x, ast.Name) and x.id in derived for x in ast.walk(t)):
                return truth0(t, v) is not None
            return True
        if r is None and not atoms_ok(t2):
            # the flag takes part in the test in a way that is not followed: taking both arms would invent paths
            raise Undecided("unrecognised shape: deltaMax: test %s involves returnSeqDeltaMax together with something else in a form lcsa does not split" % unparse(test)[:60], f.loc(test))
        return r

    def walk(stmts, v, out):
        """-> can the end of the block be reached?"""
        for s_ in stmts:
            if isinstance(s_, ast.Return):
                out.append(s_)
                return False
            if isinstance(s_, ast.Raise):
                return False
            if isinstance(s_, ast.If):
                tv = truth(s_.test, v)
                a = walk(s_.body, v, out) if tv is not False else None
                b = walk(s_.orelse, v, out) if tv is not True else None
                if tv is True and a is False or tv is False and b is False or (tv is None and a is False and b is False):
                    return False
                continue
            if isinstance(s_, (ast.For, ast.While)):
                walk(s_.body, v, out)
                walk(s_.orelse, v, out)
                continue
            if isinstance(s_, ast.Try):
                walk(s_.body, v, out)
                for h in s_.handlers:
                    walk(h.body, v, out)
                walk(s_.orelse, v, out)
                walk(s_.finalbody, v, out)
                continue
            if isinstance(s_, ast.With):
                if walk(s_.body, v, out) is False:
                    return False
        return True
    n = 0
    for v in (True, False):
        rets = []
        walk(f.body(), v, rets)
        for r in rets:
            val = r.value
            if isinstance(val, ast.Name):
                from lcsa import bind
                val = bind._resolve_local(f, val)
            is_pair = isinstance(val, ast.Tuple) and len(val.elts) == 2
            is_scalar = val is not None and not isinstance(val, (ast.Tuple, ast.List, ast.Dict)) and not (isinstance(val, ast.Call) and not isinstance(val.func, ast.Name))
            ck.shape(is_pair or is_scalar, "deltaMax: a return that is neither a pair display nor a plain value (%s)" % unparse(r)[:50], f.loc(r))
            n += 1
            ck.ob("KIND", construct, is_pair == v, expected="(delta-max, arrangement)" if v else "the delta-max value alone", found=unparse(r)[:70],
                  slot="return@%d[%s=%s]" % (r.lineno - f.node.lineno, flag, v), where=f.loc(r),
                  note="what a call returns must depend on its argument, not on what an earlier call left in the cache")
    ck.count("deltaMax returns classified", n)


def _symbols(ck, prog):
    sc = facts.symbol_charges(prog)
    want = {"+": Fraction(1), "-": Fraction(-1), "0": Fraction(0)}
    ck.ob("DT-symbols", "localcider/backend/restable.py:ResTable.lookUpCharge", sc == want, expected={k: str(v) for k, v in want.items()},
          found={k: str(v) for k, v in sc.items()}, slot="+-0", note="candidates are evaluated on the intended charge pattern")


# ------------------------------------------------------------------------------------ the walker
def walk_deltamax(prog):
    f = prog.fn(SEQ, "Sequence.deltaMax")
    ev = Evaluator(prog, positive=("N",))
    ev.model_ctors = True
    ev.opaque_calls[SEQ + ":Sequence.delta"] = lambda b: Rat.atom("DELTA")
    ev.opaque_calls[SEQ + ":Sequence.__permutant_from_reduced_seq"] = lambda b: "PERMUTANT"
    from lcsa.sym import _Frame
    fr = _Frame(f, 0)
    flag = f.params()[1]
    body = f.body()
    # skip the cache short-circuit (C15's): the leading if/elif arms whose tests read the object's two memo fields (in whatever nesting)
    def reads_memo(test):
        return any(is_self_attr(n) and n.attr in ("dmax", "seqDeltaMax") for n in ast.walk(test))
    lead = None
    for st in body:
        if isinstance(st, ast.If) and reads_memo(st.test):
            lead = st
            break
        if not isinstance(st, ast.Expr):
            break
    if lead is None:
        raise Undecided("deltaMax does not start with its cache short-circuit", f.loc())
    node = lead
    miss = []
    while isinstance(node, ast.If) and reads_memo(node.test):
        if not all(isinstance(x, (ast.Return, ast.If, ast.Expr, ast.Pass)) for x in ast.walk(ast.Module(body=node.body, type_ignores=[])) if isinstance(x, ast.stmt)):
            raise Undecided("deltaMax: a cache-guard arm does more than return", f.loc(node))
        nxt = node.orelse
        if len(nxt) == 1 and isinstance(nxt[0], ast.If):
            node = nxt[0]
        else:
            miss = list(nxt)
            node = None
    if node is not None:
        miss = [node]
    stmts = miss + body[body.index(lead) + 1:]
    env0 = {"self": ObjV("Sequence"), flag: True}
    results = []      # (conds, kind, payload)

    def block(stmts, env, conds, loopvars):
        """returns list of (env, conds) continuing paths; appends families/values to results"""
        paths = [(env, conds)]
        for s in stmts:
            new = []
            for env, conds in paths:
                new.extend(stmt(s, env, conds, loopvars))
            paths = new
        return paths

    def stmt(s, env, conds, loopvars):
        if isinstance(s, ast.Expr):
            return [(env, conds)]
        if isinstance(s, ast.Assign) and len(s.targets) == 1:
            t = s.targets[0]
            e2 = dict(env)
            if isinstance(t, ast.Name):
                if isinstance(s.value, ast.Call) and prog.class_of_ctor(f.mod, s.value) == "Sequence":
                    e2[t.id] = ("CANDIDATE", [ev.eval(a, env, fr) for a in s.value.args], [k.arg for k in s.value.keywords], s)
                else:
                    e2[t.id] = ev.eval(s.value, env, fr)
                return [(e2, conds)]
            if is_self_attr(t):
                e2["@self." + t.attr] = ("WRITE", unparse(s.value), s)
                results.append((list(conds), "write:" + t.attr, (unparse(s.value), s, list(loopvars))))
                return [(e2, conds)]
            if isinstance(t, (ast.Tuple, ast.List)) and isinstance(s.value, (ast.Tuple, ast.List)) and len(t.elts) == len(s.value.elts) \
                    and all(isinstance(x, ast.Name) for x in t.elts) and not any(prog.class_of_ctor(f.mod, v) == "Sequence" for v in s.value.elts if isinstance(v, ast.Call)):
                # a, b, c = x, y, z : every right-hand side is evaluated in the old environment
                vals = [ev.eval(v, env, fr) for v in s.value.elts]
                for x, v in zip(t.elts, vals):
                    e2[x.id] = v
                return [(e2, conds)]
            raise Undecided("assignment target in deltaMax", f.loc(s))
        if isinstance(s, ast.AugAssign) and isinstance(s.target, ast.Name):
            e2 = dict(env)
            cur = ast.BinOp(left=ast.Name(id=s.target.id, ctx=ast.Load()), op=s.op, right=s.value)
            ast.copy_location(cur, s)
            ast.fix_missing_locations(cur)
            e2[s.target.id] = ev.eval(cur, env, fr)
            return [(e2, conds)]
        if isinstance(s, ast.If):
            # candidate update idiom?
            if _is_update(s):
                results.append((list(conds), "update", (s, dict(env), list(loopvars))))
                return [(env, conds)]
            c = ev.cond(s.test, env, fr)
            out = []
            if c is True:
                return block(s.body, env, conds, loopvars)
            if c is False:
                return block(s.orelse, env, conds, loopvars)
            ct = extend_conds(conds, [c])
            ce = extend_conds(conds, [c_not(c)])
            if ct is not None and feasible_with(ct, DOM, {"N"}, int_atoms=INT | {v[0] for v in loopvars}) is not None:
                if any(isinstance(x, ast.Raise) for x in s.body):
                    results.append((ct, "raise", (s, list(loopvars))))
                else:
                    out.extend(block(s.body, dict(env), ct, loopvars))
            if ce is not None and feasible_with(ce, DOM, {"N"}, int_atoms=INT | {v[0] for v in loopvars}) is not None:
                out.extend(block(s.orelse, dict(env), ce, loopvars))
            return out
        if isinstance(s, ast.For):
            r = ev.eval(s.iter, env, fr)
            if not (hasattr(r, "lo") and hasattr(r, "hi")) or not isinstance(s.target, ast.Name):
                raise Undecided("loop in deltaMax is not over a range", f.loc(s))
            v = "L:" + s.target.id
            e2 = dict(env)
            e2[s.target.id] = Rat.atom(v)
            lv = loopvars + [(v, r.lo, r.hi, s)]
            dom = list(conds) + [("cmp", Rat.atom(v), ">=", r.lo), ("cmp", Rat.atom(v), "<", r.hi)]
            block(s.body, e2, dom, lv)
            return [(env, conds)]
        if isinstance(s, ast.Return):
            rv_ = s.value
            if isinstance(rv_, ast.Name):
                from lcsa import bind as _bind
                rv_ = _bind._resolve_local(f, rv_)            # `pair = (self.dmax, self.seqDeltaMax); return pair`
            results.append((list(conds), "return", (unparse(rv_), s)))
            return []
        if isinstance(s, ast.Raise):
            results.append((list(conds), "raise", (s, list(loopvars))))
            return []
        raise Undecided("statement kind %s in deltaMax" % type(s).__name__, f.loc(s))

    def _is_update(s):
        t = s.test
        return isinstance(t, ast.Compare) and len(t.ops) == 1 and any(is_self_attr(x, "dmax") for x in [t.left] + t.comparators)

    block(stmts, env0, [], [])
    return f, ev, results, flag


def _implied_zero(conds, atom, loopnames):
    """does the path force atom == 0 ?"""
    return feasible_with(list(conds) + [("cmp", Rat.atom(atom), ">=", Rat.const(1))], DOM, {"N"}, int_atoms=INT | set(loopnames)) is None


def _subst_family(conds, cand_blocks, vars_):
    sub = {}
    names = [v[0] for v in vars_]
    for a in ("npos", "nneg"):
        if _implied_zero(conds, a, names):
            sub[a] = Rat.const(0)
    blocks = RLEV([(ch, k.subst(sub)) for ch, k in cand_blocks]).blocks
    vs = [(v[0], v[1].subst(sub), v[2].subst(sub)) for v in vars_]
    return blocks, vs, sub


def _le(a, b):
    d = a - b
    if not d.d.is_const():
        raise Undecided("non-affine bound")
    l = d.n.linear()
    if l is None:
        raise Undecided("non-affine bound")
    co, c = l
    k = d.d.const_value()
    return Lin({x: y / k for x, y in co.items()}, c / k, "<=")


def _dom_of(vs):
    out = []
    for v, lo, hi in vs:
        out += [_le(lo, Rat.atom(v)), _le(Rat.atom(v), hi - Rat.const(1))]
    return out


def _cond_lins(conds):
    """conjunction of path conditions as Lin lists (DNF alternatives)"""
    from lcsa.lin import dnf
    return dnf(conj_formula([c for c in conds], {"N"}))


def _holds_everywhere(constraint, base_alts, dom, int_atoms):
    """is `constraint` (a Lin, <=) implied by base & dom over the integers ?"""
    for alt in constraint.neg():
        for base in base_alts:
            cons = tighten(list(base) + list(dom) + DOM + [alt], int_atoms)
            if feasible(cons):
                return False
    return True


def family_included(blocks_a, vars_a, blocks_b, vars_b, conds):
    """every candidate of family A is a candidate of family B (under conds).  Returns None or a reason."""
    if [c for c, _ in blocks_a] != [c for c, _ in blocks_b]:
        return "block structure differs: %s vs %s" % ("".join(c for c, _ in blocks_a), "".join(c for c, _ in blocks_b))
    names_b = [v[0] for v in vars_b]
    # express B's parameters through A's block sizes: find for each B variable a block whose size is var + const
    sol = {}
    for i, (_, kb) in enumerate(blocks_b):
        if not kb.d.is_const():
            return "non-affine block size"
        l = kb.n.linear()
        if l is None:
            return "non-affine block size"
        co, c = l
        d = kb.d.const_value()
        mine = [a for a in co if a in names_b and a not in sol]
        other = [a for a in co if a in names_b and a in sol]
        if len(mine) == 1 and abs(co[mine[0]] / d) == 1:
            a = mine[0]
            rest = kb - Rat.atom(a) * Rat.const(co[a] / d)
            rest = rest.subst(sol)
            sol[a] = (blocks_a[i][1] - rest) * Rat.const(1 / (co[a] / d))
    if set(sol) != set(names_b):
        return "cannot solve the spec parameters from the block sizes"
    base = _cond_lins(conds)
    doma = _dom_of(vars_a)
    ints = INT | {v[0] for v in vars_a}
    for i, (_, kb) in enumerate(blocks_b):
        if not kb.subst(sol).equals(blocks_a[i][1]):
            # sizes may still agree on the domain: check difference == 0 is implied
            dlt = kb.subst(sol) - blocks_a[i][1]
            try:
                z1 = _le(dlt, Rat.const(0))
                z2 = _le(Rat.const(0) - dlt, Rat.const(0))
            except Undecided:
                return "block %d size differs" % i
            if not (_holds_everywhere(z1, base, doma, ints) and _holds_everywhere(z2, base, doma, ints)):
                return "block %d size differs: %r vs %r" % (i, blocks_a[i][1], kb.subst(sol))
    for v, lo, hi in vars_b:
        x = sol[v]
        for cst, what in ((_le(lo.subst(sol), x), "lower"), (_le(x, hi.subst(sol) - Rat.const(1)), "upper")):
            if not _holds_everywhere(cst, base, doma, ints):
                return "%s bound of %s not respected" % (what, v)
    return None


def spec_rows():
    """documented regimes and families: [(conds, outcome)] ; outcome = ('zero',) | ('family', blocks, vars) | None (don't-care)"""
    j, s, e, m = Rat.atom("L:j"), Rat.atom("L:s"), Rat.atom("L:e"), Rat.atom("L:m")
    zero, one = Rat.const(0), Rat.const(1)
    rows = []
    rows.append(([("cmp", P + Nn, "==", zero)], ("zero",)))
    charged = [("cmp", P + Nn, ">=", one)]
    # R1: one charge type.  c = the charge present, k = its count
    for absent, c, k in (("npos", "-", Nn), ("nneg", "+", P)):
        base = charged + [("cmp", Rat.atom(absent), "==", zero)]
        z = NN - k      # neutrals when the other charge is absent
        rows.append((base + [("cmp", z, ">", k)], ("family", [("0", j), (c, k), ("0", z - j)], [("L:j", zero, z + one)])))
        rows.append((base + [("cmp", z, "<", k)], ("family", [(c, j), ("0", z), (c, k - j)], [("L:j", zero, k + one)])))
        rows.append((base + [("cmp", z, "==", k)], None))
    both = [("cmp", P, ">=", one), ("cmp", Nn, ">=", one)]
    # R2: no neutrals
    r2 = both + [("cmp", Z, "==", zero)]
    rows.append((r2 + [("cmp", P, ">", Nn)], ("family", [("+", j), ("-", Nn), ("+", P - j)], [("L:j", zero, P + one)])))
    rows.append((r2 + [("cmp", P, "<", Nn)], ("family", [("-", j), ("+", P), ("-", Nn - j)], [("L:j", zero, Nn + one)])))
    rows.append((r2 + [("cmp", P, "==", Nn)], None))
    # R3: 18 or more neutrals - at most six at either end
    r3 = both + [("cmp", Z, ">=", Rat.const(18))]
    rows.append((r3, ("family", [("0", s), ("+", P), ("0", Z - s - e), ("-", Nn), ("0", e)],
                      [("L:s", zero, Rat.const(7)), ("L:e", zero, Rat.const(7))])))
    # R4: 1..17 neutrals - every split start / middle / end
    r4 = both + [("cmp", Z, ">=", one), ("cmp", Z, "<=", Rat.const(17))]
    rows.append((r4, ("family", [("0", s), ("+", P), ("0", m), ("-", Nn), ("0", Z - s - m)],
                      [("L:m", zero, Z + one), ("L:s", zero, Z - m + one)])))
    return rows


def _walk_and_compare(ck, prog):
    f, ev, results, flag = walk_deltamax(prog)
    construct = SEQ_PATH + ":Sequence.deltaMax"
    updates = [r for r in results if r[1] == "update"]
    raises = [r for r in results if r[1] == "raise"]
    writes = [r for r in results if r[1].startswith("write:")]
    ck.count("candidate loops", len(updates))
    for conds, _, (node, lv) in raises:
        ck.ob("RLE-length", construct, False, expected="every candidate has the parent's length (the defensive raise is unreachable)",
              found=fmt_conds(conds)[-200:], slot="raise@%d" % node.lineno, where=f.loc(node))
    ck.floor("candidate loops", len(updates), 7)
    # ---- families found in the code
    code_rows = []
    zero_rows = []
    for conds, kind, payload in results:
        if kind == "write:dmax" and not payload[2]:
            src = payload[0]
            if src == "0":
                zero_rows.append((conds, payload[1]))
    fams = []
    for conds, _, (node, env, lv) in updates:
        fam = Family()
        fam.where = f.loc(node)
        fam.node = node
        # candidate object: the receiver of .delta() in the test
        objs = {unparse(c.func.value) for c in ast.walk(node.test) if isinstance(c, ast.Call) and getattr(c.func, "attr", "") == "delta"}
        obj = next(iter(objs)) if len(objs) == 1 else None
        cand = env.get(obj) if obj else None
        if not (isinstance(cand, tuple) and cand and cand[0] == "CANDIDATE"):
            raise Undecided("candidate scored in the update is not a freshly constructed Sequence", f.loc(node))
        args, kws, ctor_node = cand[1], cand[2], cand[3]
        fam.ctor_ok = len(args) == 1 and not kws
        rle = args[0] if isinstance(args[0], RLEV) else None
        if rle is None and isinstance(args[0], str):
            rle = RLEV([(c, Rat.const(1)) for c in args[0]])
        if rle is None:
            raise Undecided("candidate string is not in the run-length domain", f.loc(ctor_node))
        fam.cand = rle
        fam.vars = [(v, lo, hi) for v, lo, hi, _ in lv]
        fam.obj = obj
        fam.update_ok, fam.pair_ok, fam.update_desc = _update_shape(node, obj, flag)
        base_conds = [c for c in conds if not _mentions_loopvar(c, [v[0] for v in fam.vars])]
        fam.conds = base_conds
        fams.append(fam)
    # ---- per family: conservation, non-negativity, non-emptiness, scoring
    for k, fam in enumerate(fams):
        blocks, vs, sub = _subst_family(fam.conds, fam.cand.blocks, fam.vars)
        fam.blocks, fam.vs = blocks, vs
        tag = "loop@%s" % fam.where.rsplit(":", 1)[-1]
        base = _cond_lins(fam.conds)
        dom = _dom_of(vs)
        ints = INT | {v[0] for v in vs}
        tot = {"+": Rat.const(0), "-": Rat.const(0), "0": Rat.const(0)}
        alien = [c for c, _ in blocks if c not in tot]
        for c, kk in blocks:
            if c in tot:
                tot[c] = tot[c] + kk
        want = {"+": P.subst(sub), "-": Nn.subst(sub), "0": Z.subst(sub)}
        cons_ok = not alien
        detail = {}
        for c in "+-0":
            d = tot[c] - want[c]
            eq = d.n.is_zero()
            if not eq:
                try:
                    eq = _holds_everywhere(_le(d, Rat.const(0)), base, dom, ints) and _holds_everywhere(_le(Rat.const(0) - d, Rat.const(0)), base, dom, ints)
                except Undecided:
                    eq = False
            cons_ok &= eq
            detail[c] = repr(tot[c])
        ck.ob("RLE-conservation", construct, cons_ok, expected={"+": repr(want["+"]), "-": repr(want["-"]), "0": repr(want["0"])}, found=detail,
              slot=tag + ":composition", where=fam.where, note="every candidate is a rearrangement of the parent's charge classes")
        nonneg = all(_holds_everywhere(_le(Rat.const(0), kk), base, dom, ints) for _, kk in blocks)
        ck.ob("RLE-conservation", construct, nonneg, expected="block sizes >= 0 over the whole loop domain", found=[repr(kk) for _, kk in blocks],
              slot=tag + ":nonneg", where=fam.where)
        # non-empty: the outer range is non-empty and at its first value the inner one is too
        ne = True
        fix = {}
        for v, lo, hi in vs:
            lo2, hi2 = lo.subst(fix), hi.subst(fix)
            ne &= _holds_everywhere(_le(lo2 + Rat.const(1), hi2), base, [], INT)
            fix[v] = lo2
        ck.ob("LOOP-nonempty", construct, ne, expected="at least one candidate in this regime (the sentinel is always overwritten)",
              found=[(v, repr(lo), repr(hi)) for v, lo, hi in vs], slot=tag + ":nonempty", where=fam.where)
        ck.shape(fam.update_ok is not None, "deltaMax: candidate update in an unrecognised form: %s" % fam.update_desc[:120], fam.where)
        ck.ob("FOLD-argmax", construct, bool(fam.update_ok and fam.ctor_ok), expected="if self.dmax < cand.delta(): self.dmax = cand.delta()  with cand = Sequence(<candidate>)",
              found=fam.update_desc, slot=tag + ":update", where=fam.where)
        ck.shape(fam.pair_ok is not None, "deltaMax: permutant write in an unrecognised form: %s" % fam.update_desc[:120], fam.where)
        ck.ob("PAIR-permutant", construct, bool(fam.pair_ok),
              expected="if <flag>: self.seqDeltaMax = cand.__permutant_from_reduced_seq(parentSeqObj=self) in the same block as the value",
              found=fam.update_desc, slot=tag + ":permutant", where=fam.where)
        ck.sample({"family": fam.sig(), "under": fmt_conds(fam.conds)[:200]})
    # ---- regime cascade + families vs the documented ones
    spec = spec_rows()
    n_cmp = 0
    for srow_conds, sout in spec:
        if sout is None:
            continue
        if sout[0] == "zero":
            hit = [z for z in zero_rows if feasible_with(list(z[0]) + srow_conds, DOM, {"N"}, int_atoms=INT) is not None]
            fam_hit = [fm for fm in fams if feasible_with(list(fm.conds) + srow_conds, DOM, {"N"}, int_atoms=INT) is not None]
            ck.ob("DT-regimes", construct, bool(hit) and not fam_hit, expected="no charged residue: delta-max is 0, no search",
                  found={"zero_write": bool(hit), "families_reached": [x.sig() for x in fam_hit]}, slot="regime:uncharged", where=f.loc())
            continue
        _, sblocks, svars = sout
        sb = RLEV(sblocks).blocks
        label = "regime:" + "".join(c for c, _ in sb) + ":" + fmt_conds(srow_conds)[-40:]
        overl = [fm for fm in fams if feasible_with(list(fm.conds) + srow_conds, DOM, {"N"}, int_atoms=INT) is not None]
        zhit = [z for z in zero_rows if feasible_with(list(z[0]) + srow_conds, DOM, {"N"}, int_atoms=INT) is not None]
        if len(overl) != 1 or zhit:
            ck.ob("DT-regimes", construct, False, expected="exactly one candidate family for this regime", found=[x.sig() for x in overl] + (["dmax=0"] if zhit else []),
                  slot=label, where=f.loc())
            continue
        fm = overl[0]
        both = list(fm.conds) + srow_conds
        blocks, vs, sub = _subst_family(both, fm.cand.blocks, fm.vars)
        sblocks2 = RLEV([(c, k.subst(sub)) for c, k in sb]).blocks
        svars2 = [(v, lo.subst(sub), hi.subst(sub)) for v, lo, hi in svars]
        r1 = family_included(blocks, vs, sblocks2, svars2, both)
        r2 = family_included(sblocks2, svars2, blocks, vs, both)
        ck.ob("RLE-family", construct, r1 is None and r2 is None, expected="family<%s | %s>" % (" ".join("%s^[%r]" % b for b in sblocks2), ", ".join("%s in [%r,%r)" % v for v in svars2)),
              found={"code": "family<%s | %s>" % (" ".join("%s^[%r]" % b for b in blocks), ", ".join("%s in [%r,%r)" % v for v in vs)),
                     "code_not_in_documented": r1, "documented_not_in_code": r2}, slot=label, where=fm.where,
              note="set equality of the candidate families (mutual inclusion of block-size polytopes)")
        n_cmp += 1
    ck.count("regime/family comparisons", n_cmp)
    ck.floor("regime/family comparisons", n_cmp, 8)
    # ---- the regimes are exhaustive: no composition reaches the end without a write of dmax
    # (every spec row is hit by exactly one family or the zero write; spec rows + don't-care rows cover all compositions)
    # ---- MUST: the uncharged regime writes the permutant
    zperm = [r for r in results if r[1] == "write:seqDeltaMax" and not r[2][2]]
    ok = False
    for conds, _, (src, node, lv) in zperm:
        if feasible_with(list(conds) + [("cmp", P + Nn, "==", Rat.const(0))], DOM, {"N"}, int_atoms=INT) is not None:
            ok = src in ("self.seq", "str(self.seq)")
    ck.ob("MUST-permutant", construct, ok, expected="uncharged sequence: the permutant is the sequence itself", found=[r[2][0] for r in zperm], slot="regime:uncharged",
          where=f.loc(), note="get_deltaMax(True) must return a sequence in every regime")
    # final return
    rets = [r for r in results if r[1] == "return"]
    vals = sorted({r[2][0] for r in rets})
    ck.ob("PAIR-permutant", construct, vals == ["(self.dmax, self.seqDeltaMax)"], expected="with the flag: return (self.dmax, self.seqDeltaMax)", found=vals, slot="return",
          where=f.loc())


def _mentions_loopvar(c, names):
    from props.C08 import _cond_atoms
    return any(a in names for a in _cond_atoms(c))


def _update_shape(node, obj, flag):
    """if self.dmax (<|<=) obj.delta(): self.dmax = obj.delta(); if flag: self.seqDeltaMax = obj.__permutant...(parentSeqObj=self)
    returns (update_ok, pair_ok, description); None means 'shape not recognised' (undecided), False means a definite mismatch"""
    t = node.test
    desc = unparse(node)[:220]
    dcall = "%s.delta()" % obj
    sides = [unparse(t.left), unparse(t.comparators[0])]
    # a local that holds obj.delta() is fine
    def is_delta(txt):
        return txt == dcall
    lt = isinstance(t.ops[0], (ast.Lt, ast.LtE)) and unparse(t.left) == "self.dmax" and is_delta(sides[1])
    gt = isinstance(t.ops[0], (ast.Gt, ast.GtE)) and unparse(t.comparators[0]) == "self.dmax" and is_delta(sides[0])
    asg = [s for s in node.body if isinstance(s, ast.Assign) and any(is_self_attr(tt, "dmax") for tt in s.targets)]
    ifs = [s for s in node.body if isinstance(s, ast.If)]
    extra = [s for s in node.body if s not in asg and s not in ifs]
    if extra or node.orelse or len(asg) != 1:
        return None, None, desc
    other_side = sides[1] if unparse(t.left) == "self.dmax" else sides[0]
    if not (lt or gt):
        # definite mismatches: the wrong quantity compared / the wrong direction
        if "self.dmax" in sides and isinstance(t.ops[0], (ast.Lt, ast.LtE, ast.Gt, ast.GtE)) and other_side.endswith(".delta()"):
            return False, False, desc            # e.g. self.dmax > cand.delta(), or another object's delta
        if other_side == dcall and "self.delta()" in sides:
            return False, False, desc            # compared against the receiver's own delta
        return None, None, desc
    ok_v = unparse(asg[0].value) == dcall
    if not ok_v and not unparse(asg[0].value).endswith(".delta()"):
        return None, None, desc
    ok_p = None
    if len(ifs) == 1 and not ifs[0].orelse:
        tt = unparse(ifs[0].test)
        stores = [a for a in ifs[0].body if isinstance(a, ast.Assign) and any(is_self_attr(x, "seqDeltaMax") for x in a.targets)]
        if tt == flag and len(ifs[0].body) == 1 and len(stores) == 1 and isinstance(stores[0].value, ast.Call):
            v = stores[0].value
            ok_p = unparse(v.func) == "%s.__permutant_from_reduced_seq" % obj \
                and ((len(v.args) == 1 and unparse(v.args[0]) == "self") or (len(v.keywords) == 1 and unparse(v.keywords[0].value) == "self"))
        elif flag in tt and len(stores) == 1 and tt != flag:
            ok_p = False                          # an extra condition on the permutant write: value and permutant can drift apart
    return ok_v, (ok_p if ok_p is None else (ok_p and ok_v)), desc


# ------------------------------------------------------------------------------------ permutant builder
def _permutant_builder(ck, prog, cmap):
    f = prog.fn(SEQ, "Sequence.__permutant_from_reduced_seq")
    construct = SEQ_PATH + ":Sequence.__permutant_from_reduced_seq"
    cmap = cmap or facts.charge_map(prog)[0]
    parent = f.params()[1]
    # class lists: [res for res in parent.seq if res (not) in (...)]
    cls = {}
    for s in f.body():
        if isinstance(s, ast.Assign) and isinstance(s.value, ast.ListComp) and isinstance(s.targets[0], ast.Name):
            lc = s.value
            g = lc.generators[0]
            if unparse(g.iter) == parent + ".seq" and len(g.ifs) == 1 and isinstance(g.ifs[0], ast.Compare) \
                    and unparse(lc.elt) == unparse(g.target) and unparse(g.ifs[0].left) == unparse(g.target):
                op = g.ifs[0].ops[0]
                try:
                    lit = {e.value for e in g.ifs[0].comparators[0].elts}
                except AttributeError:
                    continue
                members = {L for L in LETTERS if (L in lit) == isinstance(op, ast.In)}
                cls[s.targets[0].id] = members
    # the loop: symbol -> list consumed
    loops = [s for s in f.body() if isinstance(s, ast.For)]
    if len(loops) != 1 or unparse(loops[0].iter) != "self.seq":
        raise Undecided("permutant builder: expected one loop over the reduced sequence", f.loc())
    lp = loops[0]
    v = lp.target.id
    sym2list = {}
    once = True
    node = lp.body[0] if len(lp.body) == 1 else None
    arms = []
    while isinstance(node, ast.If):
        arms.append((node.test, node.body))
        if len(node.orelse) == 1 and isinstance(node.orelse[0], ast.If):
            node = node.orelse[0]
        else:
            arms.append((None, node.orelse))
            node = None
    acc = None
    for test, body in arms:
        sym = None
        if test is not None and isinstance(test, ast.Compare) and unparse(test.left) == v and isinstance(test.ops[0], ast.Eq) \
                and isinstance(test.comparators[0], ast.Constant):
            sym = test.comparators[0].value
        elif test is None:
            sym = "else"
        app = [s for s in body if isinstance(s, ast.AugAssign) and isinstance(s.op, ast.Add)]
        inc = [s for s in body if isinstance(s, ast.AugAssign) and unparse(s.value) == "1"]
        src = None
        if len(app) == 2 and len(inc) == 1:
            a = [s for s in app if s is not inc[0]][0]
            acc = unparse(a.target)
            txt = unparse(a.value)
            if txt.startswith("str(") and txt.endswith(")"):
                txt = txt[4:-1]
            if txt.endswith("[%s]" % unparse(inc[0].target)):
                src = txt[:-(len(unparse(inc[0].target)) + 2)]
        if src is None or len(body) != 2:
            once = False
        sym2list[sym] = src
    ck.shape(len(arms) == 3 and all(v is not None or True for v in sym2list.values()), "permutant builder: three-way split on the symbol", f.loc(lp))
    incs_ok = True
    for test, body_ in arms:
        augs = [x for x in body_ if isinstance(x, ast.AugAssign) and isinstance(x.target, ast.Name)]
        apps_ = [x for x in augs if any(isinstance(n, ast.Subscript) for n in ast.walk(x.value))]
        ctrs = [x for x in augs if x not in apps_]
        ck.shape(len(apps_) == 1 and len(body_) <= 2 and len(ctrs) <= 1, "permutant builder: each branch appends one residue (and advances one counter)", f.loc(lp))
        if len(ctrs) != 1 or unparse(ctrs[0].value) != "1" or not isinstance(ctrs[0].op, ast.Add):
            incs_ok = False
    ck.shape(once or not incs_ok, "permutant builder: append/counter pattern not recognised", f.loc(lp))
    ck.ob("PART-permutant", construct, once and incs_ok, expected="each symbol appends the next residue of one class and advances that class's counter, once",
          found=sym2list, slot="consume-once", where=f.loc(lp))
    want = {"+": {L for L in LETTERS if cmap[L] > 0}, "-": {L for L in LETTERS if cmap[L] < 0}, "0": {L for L in LETTERS if cmap[L] == 0}}
    got = {}
    for sym, lst in sym2list.items():
        key = sym if sym in ("+", "-") else "0"
        got[key] = cls.get(lst)
    ck.shape(all(got.get(k) is not None for k in "+-0"), "permutant builder: residue classes given as comprehensions over the parent's sequence with literal membership tests", f.loc())
    for k in "+-0":
        ck.ob("PART-permutant", construct, got.get(k) == want[k], expected=sorted(want[k]), found=sorted(got[k]) if got.get(k) is not None else None,
              slot="class[%s]" % k, where=f.loc(),
              note="the permutant builder's residue classes must be the constructor's charge classes (two independent tables must agree)")
    rets = [n for n in ast.walk(f.node) if isinstance(n, ast.Return) and n.value is not None]
    ck.ob("PART-permutant", construct, len(rets) == 1 and unparse(rets[0].value) == acc, expected="returns the string it built", found=[unparse(r.value) for r in rets],
          slot="returns", where=f.loc())


def _dep(ck, prog):
    """the value stored to self.dmax depends on counts only"""
    f = prog.fn(SEQ, "Sequence.deltaMax")
    construct = SEQ_PATH + ":Sequence.deltaMax"
    reads = []
    for n in ast.walk(f.node):
        if is_self_attr(n) and isinstance(n.ctx, ast.Load) and n.attr in ("seq", "chargePattern", "phosphosites", "aminoAcidColorMap"):
            reads.append((n.attr, n.lineno))
    # self.seq may be read only to hand the permutant back in the uncharged regime (it never feeds dmax)
    bad = []
    for attr, line in reads:
        ok = False
        for a in ast.walk(f.node):
            if isinstance(a, ast.Assign) and a.lineno == line and any(is_self_attr(t, "seqDeltaMax") for t in a.targets):
                ok = True
        if not ok:
            bad.append((attr, line))
    ck.ob("DEP", construct, not bad, expected="delta-max is computed from countPos/countNeg/countNeut/len only (composition-only => permutation invariant)",
          found=bad, slot="value-depends-on", where=f.loc())
    used = sorted({n.func.attr for n in ast.walk(f.node) if isinstance(n, ast.Call) and isinstance(n.func, ast.Attribute) and is_self_attr(n.func)})
    unknown = [u for u in used if u not in ("countPos", "countNeg", "countNeut", "FCR", "delta", "Fplus", "Fminus", "NCPR", "countCharged")]
    ck.shape(not unknown, "deltaMax calls receiver methods lcsa has no dependence summary for: %s" % unknown, f.loc())
    ck.ob("DEP", construct, "delta" not in used,
          expected="receiver methods used: counts and FCR only", found=used, slot="receiver-calls", where=f.loc(),
          note="comparing against self.delta() would make delta-max depend on the arrangement")
