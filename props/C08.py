"""C08 - diagram-of-states region is total and follows the FCR/NCPR thresholds.

Decides (exactly, over ALL rational compositions, hence all sequences): the threshold cascade agrees with the
stated partition; both defensive `raise` paths and the tie cell are empty; the result depends on
(n+, n-, N) only; every compared quantity is ONE float division of exact integer expressions (so that float
comparison has its rational truth value - lemma in DESIGN.md C08); the five annotations."""
import ast

from lcsa.alg import Rat
from lcsa.lin import Lin
from lcsa.ref import Pair, describe_rows
from lcsa.dt import feasible_with, outcome_equal
from lcsa.sym import fmt_conds
from lcsa.model import unparse, is_self_attr
from props.common import SEQ, SEQ_PATH, compare_tables, check_api

POS = ("N",)


def domain():
    # n+, n- >= 0 ; n+ + n- <= N ; N > 0 comes from the positive set
    return [Lin({"npos": -1}, 0, "<="), Lin({"nneg": -1}, 0, "<="), Lin({"npos": 1, "nneg": 1, "N": -1}, 0, "<=")]


def run(ck, prog):
    ck.level = "proof"
    ck.extra["exhaustive"] = True
    ck.explanation = (
        "phasePlotRegion (with FCR, NCPR, Fplus, Fminus inlined) is enumerated into its decision table; every "
        "condition is a linear inequality in (n+, n-, N) after clearing the positive denominator N. Equivalence "
        "with the stated partition, emptiness of both raise rows and of the tie cell are decided by exact "
        "Fourier-Motzkin elimination over the rationals: a non-empty rational cell would contain a point (p/N, q/N), "
        "so the result covers every composition of every length, including all boundary points.")
    ck.trusted += ["Fourier-Motzkin elimination in lcsa/lin.py", "lemma: one correctly rounded division compared with a "
                   "decimal literal has the rational truth value (denominators N and 20, N < 2^50)"]
    pair = Pair(prog, positive=POS)
    f, code = pair.code_rows(SEQ, "Sequence.phasePlotRegion")
    ref = pair.ref_rows("Sequence.phasePlotRegion")
    construct = SEQ_PATH + ":Sequence.phasePlotRegion"
    ck.count("code paths", len(code))
    ck.count("spec rows", len(ref))
    # (0) result tables in front of the region: does the key determine the region?  (exact, on the decision table just derived)
    def decide(r):
        from props.common import key_quantities
        from lcsa.dt import determined_by
        from lcsa.bind import inline_locals
        st = r["site"]
        if st.scope == "object" or not isinstance(st.value, ast.Call):
            return None
        g = st.mod.funcs.get((st.cls + "." if st.cls else "") + st.fnode.name)
        callee = prog.resolve_call(g, st.value) if g is not None else None
        if callee is None or callee.key not in (SEQ + ":Sequence.phasePlotRegion", "sequenceParameters.py:SequenceParameters.get_phasePlotRegion"):
            return None
        q = key_quantities(prog, g, inline_locals(g, st.key))
        if q is None:
            return None
        if "*" in q:
            return True
        live = [(c, o) for c, o in code if not ((isinstance(o, tuple) and o and o[0] == "raise") or o is None)]
        w = determined_by(live, q & {"npos", "nneg", "N"}, domain=domain(), positive=POS, int_atoms={"npos", "nneg", "N"})
        return True if w is None else w
    from props.common import check_memos
    ck.attempt(check_memos, ck, prog, decide_lossy=decide)
    # (1) partition equivalence
    compare_tables(ck, "DT-POLY", construct, code, ref, "partition", where=f.loc(), domain=domain(), positive=POS,
                   note="1: FCR<0.25; 2: 0.25<=FCR<=0.35; 3: FCR>0.35 and |NCPR|<0.35; else 5 if n+>n-, 4 if n->n+")
    # (2) totality: no feasible path raises or falls through; the reference's tie cell is empty
    for conds, out in code:
        bad = (isinstance(out, tuple) and out and out[0] == "raise") or out is None
        if bad:
            w = feasible_with(conds, domain(), set(POS))
            ck.ob("DT-POLY-total", construct, w is None, expected="infeasible path",
                  found=("feasible: " + fmt_conds(conds)) if w is not None else "infeasible",
                  slot="raise-path[%s]" % fmt_conds(conds)[-60:], where=f.loc(),
                  note="a defensive raise/fall-through must be unreachable for every composition")
            ck.count("raise paths shown empty")
        elif not (isinstance(out, Rat) and out.is_const() and out.const_value() in (1, 2, 3, 4, 5)):
            w = feasible_with(conds, domain(), set(POS))
            ck.ob("DT-POLY-total", construct, w is None, expected="one of 1..5", found=repr(out),
                  slot="outcome[%s]" % fmt_conds(conds)[-60:], where=f.loc())
    for conds, out in ref:
        if out == "tie":
            w = feasible_with(conds, domain(), set(POS))
            ck.ob("DT-POLY-total", "spec:phasePlotRegion", w is None, expected="tie cell empty",
                  found="empty" if w is None else "non-empty", slot="tie")
    # (3) dependence on (n+, n-, N) only
    atoms = set()
    for conds, out in code:
        for c in conds:
            atoms |= _cond_atoms(c)
    inner = set()
    from lcsa.sym import ABS_REG
    for a in atoms:
        if a in ABS_REG:
            inner |= ABS_REG[a].atoms()
    atoms = {a for a in atoms if a not in ABS_REG} | inner
    ck.ob("DEP", construct, atoms <= {"npos", "nneg", "N"}, expected=["N", "nneg", "npos"], found=sorted(atoms),
          slot="depends-on", where=f.loc())
    # (3b) n+ / n- are the counts of K,R / D,E: the charge classes the constructor assigns (shared obligation with C02/C04/C05)
    from props.common import check_charge_map
    ck.attempt(check_charge_map, ck, prog)
    # (4) single rounding
    for meth in ("FCR", "NCPR", "Fplus", "Fminus"):
        g = prog.fn(SEQ, "Sequence." + meth)
        _single_rounding(ck, g, prog)
    ck.attempt(_compare_discipline, ck, prog, f)
    # (5) annotation
    ck.attempt(_annotation, ck, prog, pair)
    ck.attempt(check_api, ck, prog, [("get_phasePlotRegion", "phasePlotRegion", None)])
    ck.floor("code paths", len(code), 5)
    ck.sample({"code_table": describe_rows(code, 8)})


def _cond_atoms(c):
    if isinstance(c, bool):
        return set()
    if c[0] == "cmp":
        return c[1].atoms() | c[3].atoms()
    if c[0] == "not":
        return _cond_atoms(c[1])
    if c[0] in ("and", "or"):
        s = set()
        for x in c[1]:
            s |= _cond_atoms(x)
        return s
    return {"?opaque"}


INT_CALLS = {"countPos", "countNeg", "countNeut", "len"}


def _is_int_expr(n):
    if isinstance(n, ast.Constant):
        return isinstance(n.value, int) and not isinstance(n.value, bool)
    if isinstance(n, ast.BinOp) and isinstance(n.op, (ast.Add, ast.Sub, ast.Mult)):
        return _is_int_expr(n.left) and _is_int_expr(n.right)
    if isinstance(n, ast.Call):
        name = n.func.attr if isinstance(n.func, ast.Attribute) else getattr(n.func, "id", None)
        return name in INT_CALLS
    if is_self_attr(n, "len"):
        return True
    return False


def _is_int_as_float(n):
    """integer expression possibly cast: x, float(x), x + 0.0, (x + 0.0)"""
    if _is_int_expr(n):
        return True
    if isinstance(n, ast.Call) and getattr(n.func, "id", None) == "float" and len(n.args) == 1:
        return _is_int_expr(n.args[0])
    if isinstance(n, ast.BinOp) and isinstance(n.op, ast.Add):
        for a, b in ((n.left, n.right), (n.right, n.left)):
            if isinstance(b, ast.Constant) and isinstance(b.value, float) and b.value == 0.0 and _is_int_expr(a):
                return True
    return False


def _float_calls(n):
    """calls to the receiver's own fraction methods inside an expression"""
    return [c for c in ast.walk(n) if isinstance(c, ast.Call) and isinstance(c.func, ast.Attribute) and c.func.attr in ("Fplus", "Fminus", "FCR", "NCPR", "FER")]


def _single_rounding(ck, g, prog=None):
    """the pH=None return of g is `<integer expression> / <integer as float>`: one rounding.
    recognised single-division forms -> ok; arithmetic that combines already-rounded fractions -> violation; anything else -> undecided"""
    construct = g.mod.relpath + ":" + g.qual
    rets = [n for n in ast.walk(g.node) if isinstance(n, ast.Return) and n.value is not None]
    cands = [r for r in rets if not any(isinstance(x, ast.Name) and x.id == "pH" for x in ast.walk(r.value))]
    if prog is not None and rets:
        # the function specialised to pH = None, with its locals and the helpers of the class it goes through expanded in place
        from lcsa import bind
        spec = bind.specialise_returns(prog, g, {"pH": None} if "pH" in g.params() else {}, keep=INT_CALLS | {"Fplus", "Fminus", "FCR", "NCPR", "FER"})
        if spec:
            cands = [ast.copy_location(ast.Return(value=e), rets[0]) for e in spec]
    ck.shape(bool(cands), "%s: a return that does not involve pH" % g.qual, g.loc())
    for r in cands:
        v = r.value
        while isinstance(v, ast.Call) and getattr(v.func, "id", None) == "float" and len(v.args) == 1:
            v = v.args[0]

        def intish(n):
            return _is_int_expr(n) or _is_int_as_float(n)
        single = isinstance(v, ast.BinOp) and isinstance(v.op, ast.Div) and intish(v.left) and intish(v.right)
        combined = isinstance(v, ast.BinOp) and isinstance(v.op, (ast.Add, ast.Sub, ast.Mult)) and len(_float_calls(v)) >= 2
        ck.shape(single or combined, "%s: return is neither one division of integer expressions nor a combination of rounded fractions" % g.qual, g.loc(r))
        ck.ob("ROUND-single", construct, single, expected="one division of exact integer expressions", found=unparse(r.value), slot="rounding", where=g.loc(r),
              note="two roundings (e.g. Fplus()+Fminus()) put 3/20+4/20 above 0.35 and move a region-2 sequence to 3")


def _compare_discipline(ck, prog, f):
    """in phasePlotRegion each comparison is value-vs-literal where value is a call result, a local bound to a call result, or
    abs() of one - no float arithmetic between the division and the comparison"""
    construct = f.mod.relpath + ":" + f.qual
    local_calls = {}
    for n in ast.walk(f.node):
        if isinstance(n, ast.Assign) and len(n.targets) == 1 and isinstance(n.targets[0], ast.Name):
            local_calls[n.targets[0].id] = n.value

    def plain(x, depth=0):
        if isinstance(x, ast.Constant):
            return True
        if isinstance(x, ast.Name):
            v = local_calls.get(x.id)
            return v is not None and depth < 3 and plain(v, depth + 1)
        if isinstance(x, ast.Call):
            nm = getattr(x.func, "id", None)
            if nm in ("abs", "float") and len(x.args) == 1:
                return plain(x.args[0], depth)
            return isinstance(x.func, ast.Attribute) and not x.args
        return False

    def arithmetic_on_fractions(x, depth=0):
        # looked at through locals: `fcr = fplus + fminus` with fplus = self.Fplus() is arithmetic on two already-rounded quotients
        while isinstance(x, ast.Call) and getattr(x.func, "id", None) in ("abs", "float") and len(x.args) == 1:
            x = x.args[0]
        if isinstance(x, ast.Name) and depth < 3 and local_calls.get(x.id) is not None:
            return arithmetic_on_fractions(local_calls[x.id], depth + 1)

        def frac_operands(e):
            k = len(_float_calls(e))
            for n in ast.walk(e):
                if isinstance(n, ast.Name):
                    v = local_calls.get(n.id)
                    if isinstance(v, ast.Call) and isinstance(v.func, ast.Attribute) and v.func.attr in ("Fplus", "Fminus", "FCR", "NCPR", "FER"):
                        k += 1
            return k
        return isinstance(x, ast.BinOp) and isinstance(x.op, (ast.Add, ast.Sub, ast.Mult)) and frac_operands(x) >= 2
    n = 0
    for c in ast.walk(f.node):
        if isinstance(c, ast.Compare):
            sides = [c.left] + list(c.comparators)
            ok = all(plain(x) for x in sides)
            bad = any(arithmetic_on_fractions(x) for x in sides)
            ck.shape(ok or bad, "phasePlotRegion: comparison %s is neither value-vs-literal nor arithmetic on rounded fractions" % unparse(c), f.loc(c))
            n += 1
            ck.ob("ROUND-compare", construct, ok, expected="<call result | abs(call result)> op <literal>", found=unparse(c), slot="cmp:" + unparse(c)[:40], where=f.loc(c))
    ck.count("comparisons checked", n)


def _annotation(ck, prog, pair):
    g = prog.fn(SEQ, "Sequence.phasePlotAnnotation")
    construct = SEQ_PATH + ":Sequence.phasePlotAnnotation"
    key = SEQ + ":Sequence.phasePlotRegion"
    texts = {}
    for k in range(1, 6):
        pair.code.opaque_calls[key] = Rat.const(k)
        rows = [(p.conds, p.value) for p in pair.code.run_function(g, {})]
        ok = len(rows) == 1 and isinstance(rows[0][1], str)
        texts[k] = rows[0][1] if ok else repr(rows)
    del pair.code.opaque_calls[key]
    ck.ob("DT-annotation", construct, len(set(texts.values())) == 5 and all(isinstance(t, str) for t in texts.values()),
          expected="five distinct texts for regions 1..5", found=texts, slot="distinct", where=g.loc())
    want = {1: "globule", 2: "boundary", 3: "coil", 4: "negativ", 5: "positiv"}
    for k, w in want.items():
        t = texts.get(k)
        ck.ob("DT-annotation", construct, isinstance(t, str) and w in t.lower() and "error" not in t.lower(),
              expected="region %d text mentions '%s'" % (k, w), found=t, slot="region%d" % k, where=g.loc())
