"""C20 - HTML rendering shows each residue once, in order, in its palette colour.

Decides: the span generator's per-residue decision table (counter incremented first from -1; a space opens every block
of 10 and a line break every block of 50, both before the span; exactly one span per residue whose three format slots are
the accumulated string, the palette entry OF THAT RESIDUE and the residue itself), opening/closing tags; the palette
setter's behaviour for every key and value class (missing key / non-colour / valid), validate-then-commit (nothing is
stored on any rejecting path), the committed map is a fresh copy holding exactly the validated entries; the 17 colour
names and the default palette; API forwarding."""
import ast

from lcsa.alg import Rat
from lcsa.model import Undecided, unparse, is_self_attr
from lcsa.dt import compare_rows
from lcsa.sym import (Evaluator, Path, ObjV, AStr, PaletteV, _Frame, fmt_conds, astr_cat, astr_fmt, fatom, LETTERS)
from lcsa import tab
from props.common import SEQ, SP, SEQ_PATH, check_api

COLOURS = ['aqua', 'black', 'blue', 'fuchsia', 'gray', 'green', 'lime', 'maroon', 'navy', 'olive', 'orange', 'purple',
           'red', 'silver', 'teal', 'white', 'yellow']


def run(ck, prog):
    from props.common import check_memos
    ck.attempt(check_memos, ck, prog)
    ck.explanation = (
        "The loop body of get_HTMLColorString is enumerated for one generic residue (abstract strings for the accumulated "
        "text, the residue and its palette entry; the counter an integer atom) into a decision table over (count mod 10, "
        "count mod 50) and compared with the stated one. set_HTMLColorResiduePalette is evaluated for a valid palette and "
        "for every (key, defect) pair; the state stored on each path shows validate-then-commit.")
    ck.attempt(_html, ck, prog)
    ck.attempt(_commit_order, ck, prog)
    ck.attempt(_palette, ck, prog)
    ck.attempt(_tables, ck, prog)
    ck.attempt(check_api, ck, prog, [("get_HTMLColorString", "get_HTMLColorString", None)])
    f = prog.fn(SP, "SequenceParameters.set_HTMLColorResiduePalette")
    calls = [n for n in ast.walk(f.node) if isinstance(n, ast.Call)]
    ok = False
    if len(calls) == 1:
        from lcsa import bind as _bind
        callee_, b_ = _bind.bind(prog, f, calls[0])
        # positional or keyword: the caller's dictionary bound to the backend setter's dictionary parameter, nothing else passed
        ok = callee_ is not None and callee_.key == SEQ + ":Sequence.set_HTMLColorResiduePalette" and unparse(calls[0].func) == "self.SeqObj.set_HTMLColorResiduePalette" \
            and len(b_) == 1 and isinstance(next(iter(b_.values())), ast.Name) and next(iter(b_.values())).id == f.params()[1] and next(iter(b_)) == callee_.params()[1]
    ck.ob("BIND-api", f.mod.relpath + ":" + f.qual, ok, expected="self.SeqObj.set_HTMLColorResiduePalette(<the argument>)",
          found=[unparse(c) for c in calls], slot="forwards", where=f.loc())
    # ... and it is the caller's dictionary that is forwarded: a replacement of the parameter on the way is looked at.  Replacing None (not a
    # dictionary at all) by a default adds a convenience; replacing everything FALSY replaces the empty dictionary as well, which must be rejected
    par = f.params()[1]
    for n in ast.walk(f.node):
        if not (isinstance(n, ast.If) and any(isinstance(a, ast.Assign) and any(isinstance(t, ast.Name) and t.id == par for t in a.targets) for a in ast.walk(n))):
            continue
        t = unparse(n.test).replace(" ", "")
        falsy = t in ("not" + par, "not(%s)" % par, "len(%s)==0" % par, par + "=={}", "notlen(%s)" % par, "notbool(%s)" % par)
        none_only = t in (par + "isNone", par + "==None")
        ck.shape(falsy or none_only, "API palette setter: parameter replaced under a test lcsa does not classify (%s)" % unparse(n.test)[:50], f.loc(n))
        ck.ob("DT-api", f.mod.relpath + ":" + f.qual, none_only, expected="every dictionary the caller passes reaches the validating setter - the empty one included, which must be rejected",
              found=unparse(n.test), slot="parameter-replaced", where=f.loc(n), note="`not d` is true for {}: an incomplete dictionary is silently turned into the default palette")
    others = [a for a in ast.walk(f.node) if isinstance(a, (ast.Assign, ast.AugAssign)) and any(isinstance(x, ast.Name) and x.id == par and isinstance(x.ctx, ast.Store)
                                                                                                for t in (a.targets if isinstance(a, ast.Assign) else [a.target]) for x in ast.walk(t))
              and not any(isinstance(n, ast.If) and any(a is y for y in ast.walk(n)) for n in ast.walk(f.node))]
    ck.shape(not others, "API palette setter: parameter rebound unconditionally before it is forwarded", f.loc())


def _html(ck, prog):
    f = prog.fn(SEQ, "Sequence.get_HTMLColorString")
    construct = SEQ_PATH + ":Sequence.get_HTMLColorString"
    body = f.body()
    loops = [s for s in body if isinstance(s, ast.For)]
    ck.shape(len(loops) == 1, "get_HTMLColorString: one loop", f.loc())
    loop = loops[0]
    it, tgt = loop.iter, loop.target
    enum_start = None
    if isinstance(it, ast.Call) and getattr(it.func, "id", None) == "enumerate" and it.args and isinstance(tgt, ast.Tuple) and len(tgt.elts) == 2:
        enum_start = 0
        if len(it.args) > 1 and isinstance(it.args[1], ast.Constant):
            enum_start = it.args[1].value
        for k in it.keywords:
            if k.arg == "start" and isinstance(k.value, ast.Constant):
                enum_start = k.value.value
        it = it.args[0]
    ck.shape(isinstance(tgt, ast.Name) or enum_start is not None, "get_HTMLColorString: loop target", f.loc(loop))
    ck.ob("FOLD", construct, unparse(it) == "self.seq", expected="one iteration per residue, in order", found=unparse(loop.iter), slot="domain", where=f.loc(loop))
    ev = Evaluator(prog, positive=())
    fr = _Frame(f, 0)
    me = ObjV("Sequence", {"aminoAcidColorMap": PaletteV("palette")})
    env = {"self": me}
    for s in body[:body.index(loop)]:
        if isinstance(s, ast.Assign) and isinstance(s.targets[0], ast.Name):
            env[s.targets[0].id] = ev.eval(s.value, env, fr)
    strs = [n for n, v in env.items() if isinstance(v, str)]
    nums = [n for n, v in env.items() if isinstance(v, Rat) and v.is_const()]
    ck.shape(len(strs) == 1 and (len(nums) == 1 or enum_start is not None), "get_HTMLColorString: one string accumulator and one position counter", f.loc())
    S = strs[0]
    ck.ob("FOLD", construct, env[S].startswith("<p"), expected="opening <p ...> tag", found=env[S], slot="init", where=f.loc())
    K = Rat.atom("k")                       # 0-based index of the residue being rendered
    e2 = dict(env)
    e2[S] = AStr("S")
    C = None
    if enum_start is not None:
        e2[tgt.elts[0].id] = K + Rat.const(enum_start)
        e2[tgt.elts[1].id] = AStr("r")
    else:
        C = nums[0]
        e2[C] = K + env[C]
        e2[tgt.id] = AStr("r")
    rname = tgt.elts[1].id if enum_start is not None else tgt.id

    def body_rows(residue):
        e = dict(e2)
        e[rname] = residue
        out = []
        for p in ev.exec_block(loop.body, [Path([], "live", None, e)], fr):
            adv_ = "n/a"
            if C is not None:
                v = p.env.get(C)
                adv_ = repr(v - e2[C]) if isinstance(v, Rat) else "?"
            out.append((p.conds, (p.kind, repr(p.env.get(S)), adv_)))
        return out
    per_letter = None
    try:
        rows = body_rows(AStr("r"))
    except Undecided:
        # the body branches on which residue it is: decide it letter by letter instead of once for a generic residue
        per_letter = {L: body_rows(L) for L in LETTERS}
        rows = per_letter["A"]
    m10 = ("cmp", fatom("mod", K, Rat.const(10)), "==", Rat.const(0))
    m50 = ("cmp", fatom("mod", K, Rat.const(50)), "==", Rat.const(0))
    fmtstr = None
    for n in ast.walk(loop):
        if isinstance(n, ast.BinOp) and isinstance(n.op, ast.Mod) and isinstance(n.left, ast.Constant) and isinstance(n.left.value, str):
            fmtstr = n.left.value
    ck.shape(fmtstr is not None and fmtstr.count("%s") == 3 and fmtstr.startswith("%s"), "get_HTMLColorString: span appended with a three-slot format string", f.loc(loop))
    ck.ob("FOLD-span", construct, "color:%s" in fmtstr and ">%s<" in fmtstr and fmtstr.count("<span") == 1 and fmtstr.count("</span>") == 1,
          expected="'%s<span style=\"color:%s\">%s</span>'", found=fmtstr, slot="format", where=f.loc(loop))

    base = AStr("S")
    sp = astr_cat(base, " ")
    adv = "n/a" if C is None else repr(Rat.const(1))

    def spec_for(colour, residue):
        def span(prefix):
            return astr_fmt(fmtstr, [prefix, colour, residue])
        return [([m10, m50], ("live", repr(span(astr_cat(sp, "<br>"))), adv)),
                ([m10, ("not", m50)], ("live", repr(span(sp)), adv)),
                ([("not", m10), m50], ("live", repr(span(astr_cat(base, "<br>"))), adv)),
                ([("not", m10), ("not", m50)], ("live", repr(span(base)), adv))]
    if per_letter is None:
        mis = compare_rows(rows, spec_for(AStr("palette[r]"), AStr("r")), positive=(), int_atoms={"k"})
    else:
        mis = None
        for L in LETTERS:
            m_ = compare_rows(per_letter[L], spec_for(AStr("palette[%r]" % L), L), positive=(), int_atoms={"k"})
            if m_ is not None:
                mis = dict(m_, residue=L)
                break
        ck.count("residues rendered one by one", len(LETTERS))
    ck.ob("FOLD-span", construct, mis is None,
          expected="residue k (0-based): ' ' iff k%10==0, then '<br>' iff k%50==0, then ONE span (accumulated, palette[residue], residue); counter advanced once",
          found=mis or "equivalent", slot="per-residue-table", where=f.loc(loop))
    ck.count("span paths", len(rows))
    ck.sample({"span_table": [(fmt_conds(c), o) for c, o in rows]})
    post = body[body.index(loop) + 1:]
    e3 = dict(env)
    e3[S] = AStr("S")
    outs = ev.exec_block(post, [Path([], "live", None, e3)], fr)
    ck.shape(len(outs) == 1 and outs[0].kind == "return", "get_HTMLColorString: single return after the loop", f.loc())
    ck.ob("FOLD", construct, repr(outs[0].value) == repr(astr_cat(AStr("S"), "</p>")), expected="returns the accumulated string + '</p>'", found=repr(outs[0].value), slot="closing",
          where=f.loc())


def _commit_order(ck, prog):
    """FLOW typestate over the setter: state 'clean' -> 'written' at the first statement that may change the stored palette (rebinding, item store,
    in-place method, or a call of a method whose effect summary writes it, also through a local alias); a `raise` reached in state 'written' means a
    rejected dictionary has already altered the palette."""
    from lcsa import flow
    from lcsa.eff import Effects
    f = prog.fn(SEQ, "Sequence.set_HTMLColorResiduePalette")
    construct = SEQ_PATH + ":Sequence.set_HTMLColorResiduePalette"
    E = Effects(prog)
    aliases = {n.targets[0].id for n in ast.walk(f.node) if isinstance(n, ast.Assign) and len(n.targets) == 1 and isinstance(n.targets[0], ast.Name)
               and is_self_attr(n.value, "aminoAcidColorMap")}

    def is_map(x):
        return is_self_attr(x, "aminoAcidColorMap") or (isinstance(x, ast.Name) and x.id in aliases)

    def writes(node):
        for n in ast.walk(node):
            if isinstance(n, (ast.Assign, ast.AugAssign, ast.AnnAssign, ast.Delete)):
                ts = n.targets if isinstance(n, (ast.Assign, ast.Delete)) else [n.target]
                for t in ts:
                    for x in ast.walk(t):
                        if is_self_attr(x, "aminoAcidColorMap") and isinstance(x.ctx, (ast.Store, ast.Del)):
                            return n
                        if isinstance(x, ast.Subscript) and is_map(x.value) and isinstance(x.ctx, (ast.Store, ast.Del)):
                            return n
            if isinstance(n, ast.Call) and isinstance(n.func, ast.Attribute):
                if is_map(n.func.value) and n.func.attr in ("update", "clear", "pop", "popitem", "setdefault", "__setitem__", "__delitem__"):
                    return n
                if unparse(n.func) in ("setattr",):
                    return n
                callee = prog.resolve_call(f, n)
                if callee is not None and callee.key != f.key and callee.key in E.sum and isinstance(n.func.value, ast.Name) and n.func.value.id == "self" \
                        and any(p.split(".")[0] == "aminoAcidColorMap" for p in E.sum[callee.key].self_writes):
                    return n
            if isinstance(n, ast.Call) and unparse(n.func) == "setattr" and n.args and unparse(n.args[0]) == "self":
                return n
        return None
    first = {}

    def step(node, st):
        if st == "clean":
            w = writes(node)
            if w is not None:
                first.setdefault("w", w)
                return "written"
        return st
    fall, exits = flow.run(f.body(), "clean", step)
    raises = [e for e in exits if e.kind == "raise"]
    ck.shape(bool(raises), "palette setter: rejects through explicit raise statements", f.loc())
    ck.shape("written" in fall | {e.state for e in exits if e.kind == "return"}, "palette setter: an accepting path that stores the palette", f.loc())
    bad = [e for e in raises if e.state == "written"]
    ck.ob("ORDER-commit", construct, not bad, expected="every rejecting `raise` is reached with the stored palette untouched (validate everything, then commit)",
          found=[{"raise": f.loc(e.node), "after_write": f.loc(first["w"])} for e in bad][:3] or "no raise after a write", slot="raise-after-write", where=f.loc(),
          note="a palette edited entry by entry while it is still being validated keeps the entries written before the offending one")
    ck.count("rejecting exits examined", len(raises))


def _run_setter(prog, palette):
    f = prog.fn(SEQ, "Sequence.set_HTMLColorResiduePalette")
    ev = Evaluator(prog)
    paths = ev.run_function(f, {f.params()[1]: palette}, ObjV("Sequence"))
    if len(paths) != 1:
        raise Undecided("palette setter does not reduce to one path for a concrete palette (%d)" % len(paths), f.loc())
    p = paths[0]
    return p.kind, p.env.get("@self.aminoAcidColorMap", "<nothing stored>"), p


def _palette(ck, prog):
    f = prog.fn(SEQ, "Sequence.set_HTMLColorResiduePalette")
    construct = SEQ_PATH + ":Sequence.set_HTMLColorResiduePalette"
    good = {L: COLOURS[i % 17] for i, L in enumerate(LETTERS)}
    kind, stored, _ = _run_setter(prog, dict(good))
    ck.ob("DT-palette", construct, kind == "return" and stored == good, expected="valid palette stored entry by entry", found=stored if kind == "return" else kind,
          slot="valid", where=f.loc())
    # extra keys are ignored, never stored
    extra = dict(good)
    extra["X"] = "red"
    kind, stored, _ = _run_setter(prog, extra)
    ck.ob("DT-palette", construct, kind == "return" and stored == good, expected="only the 20 amino-acid keys are committed",
          found=stored if kind == "return" else kind, slot="extra-key", where=f.loc())
    n = 0
    for L in LETTERS:
        cases = []
        d = dict(good)
        del d[L]
        cases.append(("missing", d))
        for bad in ("pink", "RED", "#ff0000", ""):
            d = dict(good)
            d[L] = bad
            cases.append(("colour %r" % bad, d))
        for why, d in cases:
            kind, stored, p = _run_setter(prog, d)
            ck.ob("DT-palette", construct, kind == "raise", expected="%s for %s rejected" % (why, L), found=kind, slot="%s:%s" % (L, why), where=f.loc())
            ck.ob("TYPESTATE-commit", construct, stored == "<nothing stored>", expected="a rejected palette leaves the stored palette untouched",
                  found=stored if stored == "<nothing stored>" else "stored before rejecting", slot="%s:%s:no-commit" % (L, why), where=f.loc(),
                  note="validate-then-commit: no store to self.aminoAcidColorMap on any rejecting path")
            n += 1
    ck.count("(key, defect) cases", n)
    ck.floor("(key, defect) cases", n, 100)
    # the committed map is a fresh object, not the caller's dictionary
    stores = [n for n in ast.walk(f.node) if isinstance(n, ast.Assign) and any(is_self_attr(t, "aminoAcidColorMap") for t in n.targets)]
    param = f.params()[1]
    ck.shape(bool(stores), "palette setter: a store to self.aminoAcidColorMap", f.loc())

    def kind(v):
        if isinstance(v, ast.Name) and v.id == param:
            return "caller"
        if isinstance(v, (ast.Dict, ast.DictComp)) or (isinstance(v, ast.Call) and getattr(v.func, "id", None) == "dict") \
                or (isinstance(v, ast.Call) and getattr(v.func, "attr", None) == "copy") \
                or (isinstance(v, ast.Name) and _local_fresh_dict(f, v.id)):
            return "fresh"
        return None
    kinds = [kind(s.value) for s in stores]
    ck.shape(all(k is not None for k in kinds), "palette setter: committed value in an unrecognised form", f.loc())
    fresh = all(k == "fresh" for k in kinds)
    ck.ob("ALIAS", construct, fresh, expected="the committed palette is a new dict (later edits of the caller's dict cannot leak in)",
          found=[unparse(s) for s in stores], slot="fresh-copy", where=f.loc())
    # the loop runs over the 20 keys
    loops = [s for s in f.body() if isinstance(s, ast.For)]
    # (the per-key evaluation above already decides that every one of the 20 keys is validated; the iteration source is informational)
    ck.count("validation loops", len(loops))


def _local_fresh_dict(f, name):
    for n in ast.walk(f.node):
        if isinstance(n, ast.Assign) and isinstance(n.targets[0], ast.Name) and n.targets[0].id == name:
            if not (isinstance(n.value, ast.Dict) or (isinstance(n.value, ast.Call) and getattr(n.value.func, "id", None) == "dict")):
                return False
    return True


def _tables(ck, prog):
    f = prog.fn(SEQ, "Sequence.set_HTMLColorResiduePalette")
    construct = SEQ_PATH + ":Sequence.set_HTMLColorResiduePalette"
    lists = []
    param = f.params()[1]
    for n in ast.walk(f.node):
        if isinstance(n, ast.Compare) and isinstance(n.ops[0], (ast.In, ast.NotIn)) and isinstance(n.left, ast.Subscript) and unparse(n.left.value) == param:
            c = n.comparators[0]
            if isinstance(c, ast.Name):
                vals = [a.value for a in ast.walk(f.node) if isinstance(a, ast.Assign) and len(a.targets) == 1 and isinstance(a.targets[0], ast.Name)
                        and a.targets[0].id == c.id]
                g = prog.resolve_global(f.mod, c)
                if len(vals) == 1:
                    c = vals[0]
                elif g and g[1] in g[0].globals:
                    c = g[0].globals[g[1]]
            if isinstance(c, ast.Call) and getattr(c.func, "id", None) in ("frozenset", "set", "tuple", "list") and len(c.args) == 1:
                c = c.args[0]
            ck.shape(isinstance(c, (ast.List, ast.Tuple, ast.Set)) and all(isinstance(e, ast.Constant) for e in c.elts),
                     "palette setter: colour test against a literal collection", f.loc(n))
            lists.append(sorted(e.value for e in c.elts))
    ck.shape(len(lists) == 1, "palette setter: one membership test on the supplied colour", f.loc())
    ck.ob("TAB-colours", construct, lists[0] == sorted(COLOURS), expected=sorted(COLOURS), found=lists[0], slot="17-names", where=f.loc())
    pal = tab.global_literal(prog, tab.AA, "DEFAULT_COLOR_PALETTE")
    ck.ob("TAB-colours", "localcider/backend/data/aminoacids.py:DEFAULT_COLOR_PALETTE", sorted(pal) == sorted(LETTERS) and all(v in COLOURS for v in pal.values()),
          expected="20 keys, every value one of the 17 names", found={k: v for k, v in pal.items() if v not in COLOURS} or sorted(pal), slot="default-palette")
    g = prog.fn(SEQ, "Sequence.__init__")
    inits = [n for n in ast.walk(g.node) if isinstance(n, ast.Call) and getattr(n.func, "attr", "") == "set_HTMLColorResiduePalette"]
    # a constructor that binds the module-level default itself (no copy) makes every object share one dict with the module - with a setter that
    # edits in place one object's palette change then shows in all others
    direct = [n for n in ast.walk(g.node) if isinstance(n, ast.Assign) and any(is_self_attr(t, "aminoAcidColorMap") for t in n.targets)]
    for n in direct:
        gl = prog.resolve_global(g.mod, n.value) if isinstance(n.value, (ast.Name, ast.Attribute)) else None
        if gl and gl[1] in gl[0].globals and isinstance(gl[0].globals[gl[1]], (ast.Dict, ast.Call)):
            ck.ob("ALIAS", SEQ_PATH + ":Sequence.__init__", False, expected="each object owns its palette (a copy of the default, made by the validating setter)",
                  found=unparse(n), slot="shares-module-default", where=g.loc(n), note="the module-level default palette becomes shared mutable state of all objects")
    ck.shape(len(inits) == 1 and inits[0].args, "Sequence.__init__: the palette is initialised through the validating setter", g.loc())
    ck.ob("TAB-colours", SEQ_PATH + ":Sequence.__init__", unparse(inits[0].args[0]).endswith("DEFAULT_COLOR_PALETTE"),
          expected="a new object starts with the default palette (through the validating setter)", found=[unparse(i) for i in inits], slot="initial-palette",
          where=g.loc())


def run_thorough(ck, prog):
    from props import thorough
    ck.attempt(thorough.doc_colours, ck, prog, COLOURS)
