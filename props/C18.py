"""C18 - Wang-Landau run obeys the WL update rule and its outputs are self-consistent (structural rule instances only).

Decides, on one symbolic iteration of run_normal_WL's main loop (all paths) and on __run_flatcheck / the bin geometry:
 1 proposals come only from the four move methods applied to the current state with the frozen set; the start state is a
   fresh object built from the delta-max permutant of the input
 2 indexInsideRelevantRegion(i) <=> relevant_min <= i <= relevant_max; an out-of-range proposal gets the literal
   probability 0, sets the skip flag, and (since random() is in [0,1)) can never be accepted: state and bin unchanged
 3 the in-range acceptance probability is min(1, exp(g[old] - g[new])) and the test is random() < probability
 4 exactly when the step is counted (not skipped) g[b] += ln f and H[b] += 1 are applied once, after the decision, at the
   bin b occupied after the decision
 5 the flat check runs iff (nstep+1) % nflatchk == 0 and replaces (H, f, niter, nstep) by its result; in the flat check
   f <- f**0.5, H <- zeros, niter+1 happen exactly when every bin of the range meets the criterion, nothing changes otherwise
 6 the loop runs while f > convergence and starts from f = e
 7 bin centres are (i + 1/2)/nbins; the returned array and the DOS files pair those centres with g; the sequence log pairs a
   sequence with its own kappa
 8 run() routes 'NORMAL' to this routine
Does NOT decide anything quantified over random tapes (visits, convergence, log contents as numbers)."""
import ast
from fractions import Fraction

from lcsa.alg import Rat
from lcsa.lin import Lin
from lcsa.model import Undecided, unparse, is_self_attr
from lcsa.dt import compare_rows, feasible_with
from lcsa.sym import Evaluator, Path, ObjV, ArrV, AStr, ZerosV, _Frame, fatom, fmt_conds, deep_atoms, FUNC_REG
from props.common import SEQ

WL = "backend/wang_landau.py"
WL_PATH = "localcider/backend/wang_landau.py"
MOVES = ("full_shuffle", "swapRandChargeRes", "permute_block_swap", "permute_cluster_charges")


def run(ck, prog):
    from props.common import check_memos
    ck.attempt(check_memos, ck, prog)
    ck.explanation = (
        "The body of the main loop of run_normal_WL is executed symbolically once, for all paths: moves, kappa, the bin index, "
        "random draws and the flat check are uninterpreted functions of their arguments, g and H are arrays whose stores are "
        "recorded per path. The Wang-Landau rule template (roles: current state, proposal, old/new bin, g, H, f, skip flag) is "
        "then checked path by path with exact feasibility; the flat check and the bin geometry are evaluated the same way.")
    ck.assumptions += ["nothing about trajectories, convergence or log contents as numbers is decided",
                       "random.random() returns a value in [0, 1)"]
    ck.attempt(_region, ck, prog)
    ck.attempt(_main_loop, ck, prog)
    ck.attempt(_flatcheck, ck, prog)
    ck.attempt(_geometry, ck, prog)
    ck.attempt(_init_geometry, ck, prog)
    ck.attempt(_outputs, ck, prog)
    ck.attempt(_logs_fresh, ck, prog)
    ck.attempt(_route, ck, prog)


def _region(ck, prog):
    f = prog.fn(WL, "WangLandauMachine.indexInsideRelevantRegion")
    ev = Evaluator(prog, positive=())
    i = Rat.atom("i")
    rows = [(p.conds, p.value) for p in ev.run_function(f, {f.params()[1]: i}, ObjV("WangLandauMachine"))]
    lo, hi = Rat.atom("F:relevant_min"), Rat.atom("F:relevant_max")
    spec = [([("cmp", i, ">=", lo), ("cmp", i, "<=", hi)], True), ([("cmp", i, "<", lo)], False), ([("cmp", i, ">", hi)], False)]
    mis = compare_rows(rows, spec, positive=())
    ck.ob("DT-region", WL_PATH + ":" + f.qual, mis is None, expected="True iff relevant_min <= i <= relevant_max", found=mis or "equivalent", slot="table",
          where=f.loc())


def _loop_of(f):
    loops = [s for s in f.body() if isinstance(s, ast.While)]
    if len(loops) != 1:
        raise Undecided("run_normal_WL: expected one main loop", f.loc())
    return loops[0]


def _main_loop(ck, prog):
    f = prog.fn(WL, "WangLandauMachine.run_normal_WL")
    construct = WL_PATH + ":" + f.qual
    loop = _loop_of(f)
    body = f.body()
    pre = body[:body.index(loop)]
    # ---- (6) guard and initial f
    t = unparse(loop.test).replace(" ", "")
    ck.ob("TEMPLATE-loop", construct, t == "f>self.convergence", expected="while f > self.convergence", found=unparse(loop.test), slot="guard", where=f.loc(loop))
    finit = [s for s in pre if isinstance(s, ast.Assign) and unparse(s.targets[0]) == "f"]
    ck.ob("TEMPLATE-loop", construct, len(finit) == 1 and unparse(finit[0].value).replace(" ", "") in ("np.exp(1)", "np.e", "math.e", "np.exp(1.0)"),
          expected="f starts at e", found=[unparse(s.value) for s in finit], slot="f-initial", where=f.loc())
    # ---- (1a) every run starts from empty histograms: g and H are new all-zero vectors of nbins_actual entries
    for nm in ("g", "H"):
        asg = [s for s in pre if isinstance(s, ast.Assign) and len(s.targets) == 1 and unparse(s.targets[0]) == nm]
        ck.shape(len(asg) == 1, "run_normal_WL: %s initialised once before the loop" % nm, f.loc())
        v0 = asg[0].value
        if is_self_attr(v0):
            # bound to a field that this run has just (re)created as a zero vector: still a fresh start
            prior = [s2 for s2 in pre if isinstance(s2, ast.Assign) and s2.lineno < asg[0].lineno and any(is_self_attr(t2, v0.attr) for t2 in s2.targets)]
            if prior:
                v0 = prior[-1].value
        t0 = unparse(v0).replace(" ", "")
        zero_forms = ("[0]*self.nbins_actual", "[0.0]*self.nbins_actual", "self.nbins_actual*[0]", "np.zeros(self.nbins_actual)", "list(np.zeros(self.nbins_actual))",
                      "[0for_inrange(self.nbins_actual)]", "[0]*len(bincts)", "np.zeros(len(bincts))")
        carried = any(is_self_attr(n) and n.attr not in ("nbins_actual", "nbins_target") for n in ast.walk(v0)) and "zeros" not in t0 and "[0" not in t0
        ck.shape(t0 in zero_forms or carried, "run_normal_WL: %s starts as a zero vector in a recognised form (%s)" % (nm, unparse(asg[0].value)), f.loc(asg[0]))
        ck.ob("TEMPLATE-start", construct, t0 in zero_forms, expected="%s = [0] * nbins_actual at the start of every run" % nm, found=unparse(asg[0].value), slot="zero-" + nm, where=f.loc(asg[0]),
              note="a histogram kept on the machine between runs makes the second run continue from the first one's estimate")
    # ---- (1b) start state
    src = {unparse(s.targets[0]): s for s in pre if isinstance(s, ast.Assign)}
    ck.shape("oseq" in src and isinstance(src["oseq"].value, ast.Call) and prog.class_of_ctor(f.mod, src["oseq"].value) == "Sequence",
             "run_normal_WL: start state oseq built by the Sequence constructor before the loop", f.loc())
    c = src["oseq"].value
    arg = c.args[0] if c.args else next((k.value for k in c.keywords if k.arg == "seq"), None)
    ck.shape(arg is not None, "run_normal_WL: Sequence(...) start state has a sequence argument", f.loc(c))
    extra = len(c.args) + len(c.keywords) - 1
    perm = unparse(arg)
    dm = [s for s in pre if isinstance(s, ast.Assign) and isinstance(s.targets[0], ast.Tuple) and perm in [unparse(e) for e in s.targets[0].elts]]
    det = {"oseq": unparse(c), "permutant_from": unparse(dm[0].value) if dm else None}
    direct = perm.replace(" ", "") in ("self.seq.seq", "self.seq.seq[:]", "str(self.seq.seq)")      # the input sequence itself: definitely not its permutant
    ck.shape(direct or len(dm) == 1, "run_normal_WL: start sequence is a component of a tuple-unpacked call result", f.loc(c))
    ok = False
    if dm:
        call = dm[0].value
        ck.shape(isinstance(call, ast.Call) and isinstance(call.func, ast.Attribute), "run_normal_WL: start permutant from a method call", f.loc(dm[0]))
        callee = prog.resolve_call(f, call)
        ck.shape(callee is not None, "run_normal_WL: resolvable producer of the start permutant", f.loc(dm[0]))
        flag = [k for k in call.keywords if k.arg == "returnSeqDeltaMax"] or ([None] if len(call.args) >= 1 else [])
        flag_true = bool(flag) and (unparse(flag[0].value) if flag[0] is not None else unparse(call.args[0])) == "True"
        ok = extra == 0 and callee.key == SEQ + ":Sequence.deltaMax" and unparse(call.func.value) == "self.seq" and flag_true \
            and [unparse(e) for e in dm[0].targets[0].elts].index(perm) == 1
    ck.ob("TEMPLATE-start", construct, ok, expected="oseq = Sequence(<delta-max permutant of the input sequence>)", found=det, slot="start-state", where=f.loc())
    # bins of the start state
    k0 = src.get("kold")
    i0 = src.get("idx_old")
    ck.shape(i0 is not None, "run_normal_WL: idx_old initialised before the loop", f.loc())
    i0t = unparse(i0.value).replace(" ", "")
    forms = ("np.argmin(abs(bincts-kold))", "np.argmin(np.abs(bincts-kold))", "np.argmin(abs(bincts-oseq.kappa()))", "np.argmin(np.abs(bincts-oseq.kappa()))")
    ck.shape(i0t in forms or "argmin" in i0t, "run_normal_WL: start bin computed with argmin", f.loc())
    ck.ob("TEMPLATE-start", construct, i0t in forms and (i0t.endswith("oseq.kappa()))") or (k0 is not None and unparse(k0.value) == "oseq.kappa()")),
          expected="idx_old = bin of oseq.kappa()", found=[unparse(x.value) for x in (k0, i0) if x], slot="start-bin", where=f.loc())
    # ---- one symbolic iteration
    ev = Evaluator(prog, positive=())
    ev.model_ctors = True
    ev.skip_calls = {"writeLog", "print", "running_dotdotdot"}
    proposals = []

    def move(name):
        def fn(b):
            proposals.append((name, b.get("self"), b.get("frozen")))
            return ObjV("Sequence", {"tag": "PROPOSAL", "seq": AStr("P.seq"), "dmax": Rat.atom("P.dmax"), "chargePattern": AStr("P.cp"), "move": name})
        return fn
    for mname in MOVES + ("swapRes",):
        ev.opaque_calls[SEQ + ":Sequence." + mname] = move(mname)
    ev.opaque_calls[SEQ + ":Sequence.kappa"] = lambda b: Rat.atom("kappa(%s)" % _tag(b.get("self")))
    ev.opaque_calls[WL + ":WangLandauMachine.__run_flatcheck"] = lambda b: (ArrV("FC.H"), Rat.atom("FC.f"), Rat.atom("FC.niter"), Rat.atom("FC.nstep"))
    draws = []

    def rnd(node, args):
        name = "rand@%d" % node.lineno
        draws.append(name)
        return Rat.atom(name)
    ev.extern_calls["rand.random"] = rnd
    ev.extern_calls["t.time"] = lambda node, args: Rat.atom("time@%d" % node.lineno)
    ev.extern_calls["time.time"] = lambda node, args: Rat.atom("time@%d" % node.lineno)
    fr = _Frame(f, 0)
    cur = ObjV("Sequence", {"tag": "CURRENT", "seq": AStr("O.seq"), "dmax": Rat.atom("O.dmax"), "chargePattern": AStr("O.cp"), "len": Rat.atom("O.len")})
    env = {"self": ObjV("WangLandauMachine"), "oseq": cur, "g": ArrV("g"), "H": ArrV("H"), "f": Rat.atom("f"), "bincts": Rat.atom("bincts"),
           "idx_old": Rat.atom("b_old"), "kold": Rat.atom("k_old"), "nstep": Rat.atom("nstep"), "niter": Rat.atom("niter"),
           "seqcount": Rat.atom("seqcount"), "flatcount": Rat.atom("flatcount"), "reject": Rat.atom("reject"), "rand": ObjV("Random"),
           "hlog": "hlog", "glog": "glog", "seqlog": "seqlog", "hblog": "hblog", "startTime": Rat.atom("t0"), "nseq": None, "idx_new": Rat.const(0)}
    # locals introduced before the loop that the template does not name (a hoisted threshold, a bundle of log paths, ...): bound by evaluating
    # their own statement in the start environment; one that cannot be evaluated stays unbound and the iteration answers undecided as before
    for st in pre:
        if isinstance(st, ast.Assign) and len(st.targets) == 1 and isinstance(st.targets[0], ast.Name) and st.targets[0].id not in env:
            nm_ = st.targets[0].id
            # ... provided that statement is all that happens to the name before the loop: bound once, never edited in place, never handed to a call
            touched = 0
            for q in pre:
                for n in ast.walk(q):
                    if isinstance(n, ast.Name) and n.id == nm_ and isinstance(n.ctx, (ast.Store, ast.Del)):
                        touched += 1
                    elif isinstance(n, ast.Subscript) and isinstance(n.value, ast.Name) and n.value.id == nm_ and isinstance(n.ctx, (ast.Store, ast.Del)):
                        touched += 2
                    elif isinstance(n, ast.Call) and ((isinstance(n.func, ast.Attribute) and isinstance(n.func.value, ast.Name) and n.func.value.id == nm_)
                                                      or any(isinstance(a, ast.Name) and a.id == nm_ for a in list(n.args) + [k.value for k in n.keywords])) \
                            and isinstance(st.value, (ast.Dict, ast.List, ast.Set, ast.Call, ast.ListComp, ast.DictComp, ast.SetComp)):
                        touched += 2
            if touched != 1:
                continue
            try:
                got = ev.exec_block([st], [Path([], "live", None, dict(env))], fr)
            except Undecided:
                continue
            if len(got) == 1 and got[0].kind == "live" and not got[0].conds and st.targets[0].id in got[0].env:
                env[st.targets[0].id] = got[0].env[st.targets[0].id]
    paths = ev.exec_block(loop.body, [Path([], "live", None, env)], fr)
    ck.count("main-loop paths", len(paths))
    ck.floor("main-loop paths", len(paths), 8)
    # ---- (1) proposals
    okp = bool(proposals) and all(n in MOVES and isinstance(o, ObjV) and o.fields.get("tag") == "CURRENT" and isinstance(a, Rat) and a.equals(Rat.atom("F:frozen"))
                                  for n, o, a in proposals)
    ck.ob("TEMPLATE-proposal", construct, okp and {n for n, _, _ in proposals} == set(MOVES),
          expected="proposal = oseq.<one of the four moves>(self.frozen)", found=sorted({(n, _tag(o), repr(a)) for n, o, a in proposals}), slot="moves", where=f.loc(loop),
          note="so 'visits only rearrangements' reduces to C17")
    # feasibility domain: the random draws lie in [0,1)
    dom = []
    for d in set(draws):
        dom += [Lin({d: -1}, 0, "<="), Lin({d: 1}, -1, "<")]
    bnew = fatom("argmin", _absdiff("bincts", "kappa(PROPOSAL)"))
    lo, hi = Rat.atom("F:relevant_min"), Rat.atom("F:relevant_max")
    inr = [("cmp", bnew, ">=", lo), ("cmp", bnew, "<=", hi)]
    n_feas = 0
    prob_atoms = set()
    for p in paths:
        if feasible_with(p.conds, dom, set()) is None:
            continue
        n_feas += 1
        e = p.env
        in_range = feasible_with(list(p.conds) + inr, dom, set()) is not None and \
            feasible_with(list(p.conds) + [("cmp", bnew, "<", lo)], dom, set()) is None and \
            feasible_with(list(p.conds) + [("cmp", bnew, ">", hi)], dom, set()) is None
        accepted = isinstance(e.get("oseq"), ObjV) and e["oseq"].fields.get("arg:seq") is not None
        tagp = "path[%s|%s]" % ("in" if in_range else "out", "acc" if accepted else "rej")
        sg, sh = e.get("@store:g", []), e.get("@store:H", [])
        flat = isinstance(e.get("H"), ArrV) and e["H"].name == "FC.H"
        final_bin = e.get("idx_old")
        # (2) out of range: never accepted, nothing scored
        if not in_range:
            ck.ob("TEMPLATE-out-of-range", construct, not accepted and not sg and not sh and isinstance(final_bin, Rat) and final_bin.equals(Rat.atom("b_old")),
                  expected="out-of-range proposal: not accepted, state and bin unchanged, g and H untouched",
                  found={"accepted": accepted, "g_stores": len(sg), "H_stores": len(sh), "bin": repr(final_bin)}, slot=tagp + "#%d" % n_feas, where=f.loc(loop),
                  note="probability is the literal 0 and random() < 0 is impossible")
            continue
        # (4) counted step: one g store and one H store at the bin occupied after the decision
        want_bin = fatom("argmin", _absdiff("bincts", "kappa(ACCEPTED)")) if accepted else Rat.atom("b_old")
        okb = isinstance(final_bin, Rat) and final_bin.equals(want_bin)
        okg = len(sg) == 1 and isinstance(sg[0][0], Rat) and sg[0][0].equals(want_bin) and isinstance(sg[0][1], Rat) \
            and sg[0][1].equals(fatom("el:g", want_bin) + fatom("ln", Rat.atom("f")))
        okh = len(sh) == 1 and isinstance(sh[0][0], Rat) and sh[0][0].equals(want_bin) and isinstance(sh[0][1], Rat) \
            and sh[0][1].equals(fatom("el:H", want_bin) + Rat.const(1))
        ck.ob("TEMPLATE-update", construct, okb and okg and okh,
              expected="g[b] += ln f and H[b] += 1 once, at the bin occupied after the decision (%s)" % ("new bin" if accepted else "old bin"),
              found={"bin": repr(final_bin), "g": [(repr(i), repr(v)) for i, v in sg], "H": [(repr(i), repr(v)) for i, v in sh]}, slot=tagp + "#%d" % n_feas,
              where=f.loc(loop))
        if accepted:
            o = e["oseq"]
            okc = repr(o.fields.get("arg:seq")) == repr(AStr("P.seq")) and isinstance(o.fields.get("arg:dmax"), Rat) and o.fields["arg:dmax"].equals(Rat.atom("P.dmax")) \
                and repr(o.fields.get("arg:chargePattern")) == repr(AStr("P.cp"))
            ck.ob("TEMPLATE-accept", construct, okc, expected="the accepted state is rebuilt from the proposal's own sequence, dmax and charge pattern",
                  found={k: repr(v) for k, v in o.fields.items() if k.startswith("arg:")}, slot=tagp + ":state#%d" % n_feas, where=f.loc(loop))
        # (3) acceptance test: some condition of the path compares a random draw with min(1, exp(g_old - g_new))
        probs = [c for c in p.conds if _is_accept_cond(c)]
        expect = fatom("min", *sorted([Rat.const(1), fatom("exp", fatom("el:g", Rat.atom("b_old")) - fatom("el:g", bnew))], key=repr))
        okt = False
        for c in probs:
            cc = c if c[0] == "cmp" else c[1]
            draw, pr = (cc[1], cc[3])
            sense = cc[2] if c[0] == "cmp" else {"<": ">=", ">=": "<", ">": "<=", "<=": ">"}[cc[2]]
            if pr.equals(expect) and sense == ("<" if accepted else ">="):
                okt = True
        ck.ob("TEMPLATE-accept", construct, okt, expected="accepted iff random() < min(1, exp(g[old] - g[new]))",
              found=[fmt_conds([c])[:160] for c in probs], slot=tagp + ":test#%d" % n_feas, where=f.loc(loop))
        # (5) flat check schedule
        ns1 = Rat.atom("nstep") + Rat.const(1)
        sched = ("cmp", fatom("mod", ns1, Rat.atom("F:nflatchk")), "==", Rat.const(0))
        on = feasible_with(list(p.conds) + [("not", sched)], dom, set()) is None
        off = feasible_with(list(p.conds) + [sched], dom, set()) is None
        ok5 = (flat and on) or (not flat and off)
        if flat:
            ok5 = ok5 and isinstance(e.get("f"), Rat) and e["f"].equals(Rat.atom("FC.f")) and e["niter"].equals(Rat.atom("FC.niter")) and e["nstep"].equals(Rat.atom("FC.nstep"))
        else:
            ok5 = ok5 and e["nstep"].equals(ns1) and e["f"].equals(Rat.atom("f"))
        ck.ob("TEMPLATE-schedule", construct, ok5, expected="flat check iff (nstep+1) % nflatchk == 0; its result replaces (H, f, niter, nstep)",
              found={"flat_check_called": flat, "nstep": repr(e.get("nstep"))}, slot=tagp + (":flat" if flat else ":noflat") + "#%d" % n_feas, where=f.loc(loop))
    ck.count("feasible main-loop paths", n_feas)
    # arguments handed to the flat check: Hlocal is the slice of H over the relevant range
    calls = [n for n in ast.walk(loop) if isinstance(n, ast.Call) and getattr(n.func, "attr", "") == "__run_flatcheck"]
    hl = [s for s in ast.walk(loop) if isinstance(s, ast.Assign) and unparse(s.targets[0]) == "Hlocal"]
    okl = len(calls) == 1 and [unparse(a) for a in calls[0].args[:4]] == ["H", "Hlocal", "niter", "f"] and len(hl) == 1 \
        and unparse(hl[0].value).replace(" ", "") == "H[self.relevant_min:self.relevant_max+1]"
    ck.ob("TEMPLATE-schedule", construct, okl, expected="__run_flatcheck(H, H[relevant_min : relevant_max+1], niter, f, ...)",
          found=[unparse(c)[:80] for c in calls] + [unparse(h.value) for h in hl], slot="flatcheck-arguments", where=f.loc(loop))


def _tag(o):
    if isinstance(o, ObjV):
        t = o.fields.get("tag")
        if t:
            return t
        if o.fields.get("arg:seq") is not None:
            return "ACCEPTED"
    return "?"


def _absdiff(a, b):
    from lcsa.sym import abs_atom
    return abs_atom(Rat.atom(a) - Rat.atom(b))


def _is_accept_cond(c):
    cc = c
    if not isinstance(c, bool) and c[0] == "not":
        cc = c[1]
    if isinstance(cc, bool) or cc[0] != "cmp":
        return False
    return any(a.startswith("rand@") for a in cc[1].atoms()) and any(a.startswith("min(") for a in cc[3].atoms())


def _flatcheck(ck, prog):
    f = prog.fn(WL, "WangLandauMachine.__run_flatcheck")
    construct = WL_PATH + ":" + f.qual
    from lcsa.bind import inline_locals
    # the flatness count: the one name compared with self.nbins_target
    tests = [n for n in ast.walk(f.node) if isinstance(n, ast.Compare) and len(n.ops) == 1 and isinstance(n.ops[0], (ast.Eq, ast.NotEq))
             and "self.nbins_target" in (unparse(n.left), unparse(n.comparators[0]))]
    ck.shape(len(tests) == 1, "__run_flatcheck: one comparison of the flat-bin count with self.nbins_target", f.loc())
    side = tests[0].left if unparse(tests[0].comparators[0]) == "self.nbins_target" else tests[0].comparators[0]
    ck.shape(isinstance(side, ast.Name), "__run_flatcheck: the flat-bin count is held in a local", f.loc(tests[0]))
    name = side.id
    fl = [s for s in f.body() if isinstance(s, ast.Assign) and unparse(s.targets[0]) == name]
    ck.shape(len(fl) == 1, "__run_flatcheck: the flat-bin count is assigned once", f.loc())
    inlined = set()
    full = inline_locals(f, fl[0].value, used=inlined)
    txt = unparse(full).replace(" ", "")
    # recognised counting forms: len(np.where(C)[0]) | np.sum(C) | np.count_nonzero(C) | int(np.sum(C))
    cond = None
    x = full
    if isinstance(x, ast.Call) and unparse(x.func) == "int" and len(x.args) == 1:
        x = x.args[0]
    if isinstance(x, ast.Call) and unparse(x.func) == "len" and len(x.args) == 1 and isinstance(x.args[0], ast.Subscript) and unparse(x.args[0].slice) == "0" \
            and isinstance(x.args[0].value, ast.Call) and unparse(x.args[0].value.func) in ("np.where", "np.nonzero") and len(x.args[0].value.args) == 1:
        cond = x.args[0].value.args[0]
    elif isinstance(x, ast.Call) and unparse(x.func) in ("np.sum", "np.count_nonzero", "sum") and len(x.args) == 1:
        cond = x.args[0]
    ck.shape(isinstance(cond, ast.Compare) and len(cond.ops) == 1, "__run_flatcheck: count of the bins satisfying one comparison", f.loc(fl[0]))
    def _txt(e):
        t_ = unparse(e).replace(" ", "")
        for w_ in ("np.array(Hlocal)", "np.asarray(Hlocal)", "np.array(Hlocal,dtype=float)", "np.asarray(Hlocal,dtype=float)"):
            t_ = t_.replace(w_, "Hlocal")
        return t_
    lhs, op, rhs = _txt(cond.left), type(cond.ops[0]).__name__, _txt(cond.comparators[0])
    ratio_forms = ("Hlocal/np.mean(Hlocal)", "Hlocal/Hlocal.mean()", "Hlocal/(np.sum(Hlocal)/len(Hlocal))", "Hlocal/(sum(Hlocal)/len(Hlocal))")
    ck.shape(("Hlocal" in lhs and rhs == "self.flatcrit") or ("Hlocal" in rhs and lhs == "self.flatcrit") or lhs == "Hlocal", "__run_flatcheck: bins compared with the flatness criterion", f.loc(fl[0]))
    if lhs == "self.flatcrit":
        lhs, rhs, op = rhs, lhs, {"LtE": "GtE", "Lt": "Gt", "GtE": "LtE", "Gt": "Lt"}.get(op, op)
    if lhs == "Hlocal":
        ck.shape(rhs.replace(" ", "") in ("self.flatcrit*np.mean(Hlocal)", "np.mean(Hlocal)*self.flatcrit"), "__run_flatcheck: cross-multiplied flatness test", f.loc(fl[0]))
        # H[b] >= c*mean is NOT H[b]/mean >= c: with an empty local histogram the mean is 0, the quotient is nan (no bin is flat) but 0 >= 0 holds
        # for every bin (all flat: f is halved and H reset although nothing was sampled)
        ck.ob("TEMPLATE-flat", construct, False, expected="#{b : Hlocal[b]/mean(Hlocal) >= flatcrit}  (nan, hence not flat, while the local histogram is empty)",
              found=txt, slot="flatness-count", where=f.loc(fl[0]), note="the cross-multiplied test calls an empty histogram flat")
        return
    if lhs.startswith("Hlocal/") and lhs not in ratio_forms:
        # Hlocal / <mean of X>: which array is averaged?
        import re as _re
        mm = _re.fullmatch(r"Hlocal/(?:np\.mean\((\w+)\)|(\w+)\.mean\(\)|\((?:np\.)?sum\((\w+)\)/len\((\w+)\)\))", lhs)
        ck.shape(mm is not None, "__run_flatcheck: bin count relative to a recognised mean form", f.loc(fl[0]))
        arr = [g for g in mm.groups() if g]
        ck.ob("TEMPLATE-flat", construct, set(arr) == {"Hlocal"}, expected="each local bin relative to the mean of the LOCAL histogram",
              found=txt, slot="flatness-count", where=f.loc(fl[0]), note="dividing by the mean over all of [0,1] dilutes the criterion whenever the sampled window is a sub-range")
        return
    ok = lhs in ratio_forms and op == "GtE" and rhs == "self.flatcrit"
    ck.ob("TEMPLATE-flat", construct, ok, expected="#{b : Hlocal[b]/mean(Hlocal) >= flatcrit}", found=txt, slot="flatness-count", where=f.loc(fl[0]))
    ev = Evaluator(prog, positive=())
    ev.skip_calls = {"writeLog", "print"}
    ev.opaque_calls[WL + ":WangLandauMachine.getBinCenters"] = lambda b: ArrV("bincts")      # only printed here
    fr = _Frame(f, 0)
    env = {"self": ObjV("WangLandauMachine"), "H": ArrV("H"), "Hlocal": ArrV("Hlocal"), "niter": Rat.atom("niter"), "f": Rat.atom("f"),
           "hlog": "hlog", "glog": "glog", "g": ArrV("g"), name: Rat.atom("FLAT")}
    # the statements that only build the count are replaced by the atom FLAT (their names must not be used elsewhere)
    feed = [s for s in f.body() if isinstance(s, ast.Assign) and len(s.targets) == 1 and isinstance(s.targets[0], ast.Name) and s.targets[0].id in inlined]
    for s_ in feed:
        uses = [n for n in ast.walk(f.node) if isinstance(n, ast.Name) and n.id == s_.targets[0].id and isinstance(n.ctx, ast.Load)]
        inside = {id(n) for q in feed + [fl[0]] for n in ast.walk(q)}
        ck.shape(all(id(n) in inside for n in uses), "__run_flatcheck: intermediate '%s' of the flat-bin count is used only there" % s_.targets[0].id, f.loc(s_))
    stmts = [s for s in f.body() if s is not fl[0] and s not in feed]
    paths = ev.exec_block(stmts, [Path([], "live", None, env)], fr)
    rows = []
    for p in paths:
        if p.kind != "return" or not isinstance(p.value, tuple) or len(p.value) != 4:
            rows.append((p.conds, ("other", repr(p.value))))
            continue
        h, ff, ni, ns = p.value
        hh = "zeros(%r)" % h.n if isinstance(h, ZerosV) else repr(h)
        rows.append((p.conds, (hh, repr(ff), repr(ni), repr(ns))))
    met = ("cmp", Rat.atom("FLAT"), "==", Rat.atom("F:nbins_target"))
    spec = [([met], ("zeros(%r)" % Rat.atom("F:nbins_actual"), repr(fatom("pow", Rat.atom("f"), Rat.const(Fraction(1, 2)))), repr(Rat.atom("niter") + Rat.const(1)), repr(Rat.const(0)))),
            ([("not", met)], (repr(ArrV("H")), repr(Rat.atom("f")), repr(Rat.atom("niter")), repr(Rat.const(0))))]
    # outcomes are tuples of reprs; group code rows that only differ by the logging condition
    mis = compare_rows(rows, spec, positive=())
    ck.ob("TEMPLATE-flat", construct, mis is None,
          expected="all nbins_target bins flat: f <- f**0.5, H <- zeros(nbins_actual), niter+1; otherwise unchanged; step counter reset to 0 either way",
          found=mis or "equivalent", slot="table", where=f.loc())
    ck.count("flat-check paths", len(rows))


def _geometry(ck, prog):
    f = prog.fn(WL, "WangLandauMachine.getBinCenters")
    ev = Evaluator(prog, positive=())
    ev.arange_as_index = True
    rows = ev.run_function(f, {}, ObjV("WangLandauMachine"))
    n = Rat.atom("F:nbins_actual")
    v = rows[0].value if len(rows) == 1 else None
    ok = isinstance(v, Rat) and v.equals((Rat.atom("@k") + Rat.const(Fraction(1, 2))) / n) and len(ev.aranges) == 1 \
        and ev.aranges[0][0].equals(Rat.const(0)) and ev.aranges[0][1].equals(n)
    ck.ob("ALG-bins", WL_PATH + ":" + f.qual, ok, expected="centre_i = (i + 1/2) / nbins_actual for i in [0, nbins_actual)",
          found={"value": repr(v), "index_range": [(repr(a), repr(b)) for a, b in ev.aranges]}, slot="centres", where=f.loc(),
          note="midpoints of an equal partition of [0,1]")
    g = prog.fn(WL, "WangLandauMachine.getBinSize")
    ev2 = Evaluator(prog, positive=())
    r2 = ev2.run_function(g, {}, ObjV("WangLandauMachine"))
    ck.ob("ALG-bins", WL_PATH + ":" + g.qual, len(r2) == 1 and isinstance(r2[0].value, Rat) and r2[0].value.equals(Rat.const(1) / n), expected="1 / nbins_actual",
          found=repr(r2[0].value) if r2 else None, slot="bin-size", where=g.loc())


def _outputs(ck, prog):
    f = prog.fn(WL, "WangLandauMachine.run_normal_WL")
    construct = WL_PATH + ":" + f.qual
    rets = [n for n in ast.walk(f.node) if isinstance(n, ast.Return) and n.value is not None]
    ck.shape(len(rets) == 1 and isinstance(rets[0].value, ast.Call) and unparse(rets[0].value.func) in ("np.vstack", "np.array", "np.stack"), "run_normal_WL: returns a stacked array", f.loc())
    a = rets[0].value.args[0]
    ck.shape(isinstance(a, (ast.Tuple, ast.List)) and len(a.elts) == 2, "run_normal_WL: two stacked rows", f.loc(rets[0]))
    ck.ob("TEMPLATE-output", construct, [unparse(e) for e in a.elts] == ["bincts", "g"], expected="rows: bin centres, g", found=[unparse(e) for e in a.elts], slot="returned-array",
          where=f.loc(rets[0]))
    bc = [s for s in f.body() if isinstance(s, ast.Assign) and unparse(s.targets[0]) == "bincts"]
    ck.shape(len(bc) == 1, "run_normal_WL: bincts assigned once", f.loc())
    ck.ob("TEMPLATE-output", construct, unparse(bc[0].value) == "self.getBinCenters()", expected="bincts = self.getBinCenters()", found=unparse(bc[0].value), slot="centres-source",
          where=f.loc(bc[0]))
    # DOS writers pair bincts[i] with g[i]
    pairs = []
    loop = _loop_of(f)
    after = [s for s in f.body() if s.lineno > loop.end_lineno]
    for lp in [n for s in after for n in ast.walk(s) if isinstance(n, ast.For)]:
        for n in ast.walk(lp):
            if isinstance(n, ast.BinOp) and isinstance(n.op, ast.Mod) and isinstance(n.right, ast.Tuple) and len(n.right.elts) == 2:
                it = unparse(lp.iter).replace(" ", "")
                elts = [unparse(e).replace(" ", "") for e in n.right.elts]
                if isinstance(lp.target, ast.Name):
                    v = lp.target.id
                    # index form: normalise X[v] -> X
                    norm = [e[:-len("[%s]" % v)] if e.endswith("[%s]" % v) else None for e in elts]
                elif isinstance(lp.target, ast.Tuple) and isinstance(lp.iter, ast.Call) and unparse(lp.iter.func) == "zip" and len(lp.iter.args) == len(lp.target.elts):
                    tn = [unparse(e) for e in lp.target.elts]
                    za = [unparse(a).replace(" ", "") for a in lp.iter.args]
                    norm = [za[tn.index(e)] if e in tn else None for e in elts]
                    it = "zip:" + ",".join(sorted(za))
                else:
                    norm = [None, None]
                pairs.append((it, norm, elts, n))
    ck.shape(len(pairs) == 2 and all(None not in p[1] for p in pairs), "run_normal_WL: two DOS writer loops that format (centre, g) of one bin per line", f.loc())
    for it, norm, elts, node in pairs:
        ck.ob("TEMPLATE-output", construct, norm == ["bincts", "g"], expected="(bincts[i], g[i]) of the same bin", found=elts, slot="dos-pair@%d" % (node.lineno - f.node.lineno),
              where=f.loc(node))
    full = [p for p in pairs if p[0] in ("range(len(bincts))", "range(0,len(bincts))", "range(self.nbins_actual)", "range(0,self.nbins_actual)", "range(len(g))", "zip:bincts,g")]
    local = [p for p in pairs if p[0] == "range(self.relevant_min,self.relevant_max+1)"]
    ck.shape(all(p in full + local or p[0].startswith("range(") for p in pairs), "run_normal_WL: DOS loop domains are ranges (or a zip of both rows)", f.loc())
    ck.ob("TEMPLATE-output", construct, len(full) == 1 and len(local) == 1, expected="DOS.txt over every bin; DOS_local.txt over relevant_min..relevant_max",
          found=[p[0] for p in pairs], slot="dos-domains", where=f.loc())
    logs = [n for n in ast.walk(f.node) if isinstance(n, ast.Call) and getattr(n.func, "attr", "") == "writeLog" and n.args and unparse(n.args[0]) == "seqlog"
            and len(n.args) > 1 and isinstance(n.args[1], ast.BinOp) and isinstance(n.args[1].right, ast.Tuple) and len(n.args[1].right.elts) == 2]
    ck.shape(bool(logs), "run_normal_WL: sequence log line formatted from a (kappa, sequence) tuple", f.loc())
    for n in logs:
        k, sq = [unparse(e) for e in n.args[1].right.elts]
        ck.shape(k.endswith(".kappa()") or k in ("kold", "knew"), "seqlog: kappa operand form", f.loc(n))
        ok = k == sq + ".kappa()" or (k == "kold" and sq == "oseq")
        ck.ob("TEMPLATE-output", construct, ok, expected="seqlog line = (X.kappa(), X) for one object X", found=[k, sq], slot="seqlog", where=f.loc(n))
        if ok and k == "kold":
            # a cached kappa stands for oseq.kappa() only while the two are re-bound together: INV-kold, a typestate walk over the whole function
            _kold_in_step(ck, prog, f, n, construct)


def _kold_in_step(ck, prog, f, write, construct):
    """state: (version of the object each tracked name holds, version whose kappa each number name holds).  `V = <expr>` gives V a new version
    (`V = W` copies W's); `K = W.kappa()` makes K the kappa of W's version; `K = K2` copies.  At the seqlog write, kold must be the kappa of the
    version oseq holds.  Branch tests are not interpreted, so a mismatch on SOME path through an assignment may be an infeasible pairing of
    branches: only an oseq version that reaches the write mismatched on EVERY path through it is reported; mixed answers are undecided."""
    from lcsa import flow
    at_write = []
    # only the names whose values can reach oseq / kold are followed
    rel = {"oseq", "kold"}
    grew = True
    while grew:
        grew = False
        for a in ast.walk(f.node):
            if isinstance(a, ast.Assign) and len(a.targets) == 1:
                tg = a.targets[0].elts if isinstance(a.targets[0], (ast.Tuple, ast.List)) else [a.targets[0]]
                if any(isinstance(t, ast.Name) and t.id in rel for t in tg):
                    for v in ([a.value] + (list(a.value.elts) if isinstance(a.value, (ast.Tuple, ast.List)) else [])):
                        src = v.func.value if isinstance(v, ast.Call) and isinstance(v.func, ast.Attribute) and v.func.attr == "kappa" else v
                        if isinstance(src, ast.Name) and src.id not in rel:
                            rel.add(src.id)
                            grew = True

    def step(node, st):
        if node is write or any(x is write for x in ast.walk(node)):
            at_write.append(st)
        if not isinstance(node, ast.Assign) or len(node.targets) != 1:
            if isinstance(node, (ast.AugAssign,)) and isinstance(node.target, ast.Name) and node.target.id in ("kold", "knew"):
                d = dict(st)
                d["k:" + node.target.id] = "aug@%d" % node.lineno
                return frozenset(d.items())
            return st
        d = dict(st)
        tgts = node.targets[0].elts if isinstance(node.targets[0], (ast.Tuple, ast.List)) else [node.targets[0]]
        vals = node.value.elts if isinstance(node.targets[0], (ast.Tuple, ast.List)) and isinstance(node.value, (ast.Tuple, ast.List)) and len(node.value.elts) == len(tgts) else \
            ([node.value] if len(tgts) == 1 else [None] * len(tgts))
        upd = {}
        for t, v in zip(tgts, vals):
            if not isinstance(t, ast.Name) or t.id not in rel:
                continue
            if isinstance(v, ast.Call) and isinstance(v.func, ast.Attribute) and v.func.attr == "kappa" and isinstance(v.func.value, ast.Name) and not v.args:
                upd["k:" + t.id] = d.get("o:" + v.func.value.id, v.func.value.id + "@entry")
                upd["o:" + t.id] = None
            elif isinstance(v, ast.Name):
                upd["k:" + t.id] = d.get("k:" + v.id)
                upd["o:" + t.id] = d.get("o:" + v.id, v.id + "@entry")
            else:
                upd["o:" + t.id] = "%s@%d" % (t.id, node.lineno)
                upd["k:" + t.id] = "num@%d" % node.lineno
        for kk, vv in upd.items():
            if vv is None:
                d.pop(kk, None)
            else:
                d[kk] = vv
        return frozenset(d.items())
    try:
        flow.run(f.body(), frozenset(), step, max_states=256)
    except OverflowError:
        raise Undecided("run_normal_WL: too many (object, cached kappa) pairings to follow", f.loc(write))
    ck.shape(bool(at_write), "run_normal_WL: the seqlog write is reached by the typestate walk", f.loc(write))
    by_ver = {}
    for st in at_write:
        d = dict(st)
        ver = d.get("o:oseq", "oseq@entry")
        by_ver.setdefault(ver, set()).add(d.get("k:kold") == ver)
    for ver, answers in sorted(by_ver.items()):
        if answers == {False}:
            ck.ob("INV-kold", construct, False, expected="the cached kold written to seqlog is the kappa of the object oseq holds", slot="kold:" + ver.split("@")[0] + "@" + str(len(by_ver)),
                  found={"oseq bound at": ver, "kold": "never re-computed for that object on any path to the seqlog write"}, where=f.loc(write),
                  note="the logged line pairs one sequence with another sequence's kappa")
        elif answers == {True}:
            ck.ob("INV-kold", construct, True, expected="the cached kold written to seqlog is the kappa of the object oseq holds", found="in step", slot="kold:" + ver, where=f.loc(write))
        else:
            raise Undecided("run_normal_WL: kold and oseq are re-bound under separate tests (oseq bound at %s): lcsa does not correlate them" % ver, f.loc(write))


def _logs_fresh(ck, prog):
    """LOG-fresh: writeLog appends.  A log of this run agrees with this run only if the file was created (truncated) by mklog in this run: the
    path handed to every writeLog call must be a value returned by mklog - followed through locals, list/tuple elements, comprehensions,
    zip/for targets, pop()/subscripts and helpers of the class.  'C' created by mklog, 'U' certainly a bare path, None unknown."""
    f0 = prog.fn(WL, "WangLandauMachine.run_normal_WL")

    def join(vals):
        vals = set(vals)
        if not vals:
            return None
        if vals == {"C"}:
            return "C"
        if vals == {"U"}:
            return "U"                 # every way of reaching this value gives a bare path
        return None

    def created(f, e, depth=0, seen=()):
        if depth > 10 or e is None:
            return None
        if isinstance(e, ast.Call):
            fn = e.func
            nm = fn.attr if isinstance(fn, ast.Attribute) else getattr(fn, "id", None)
            if nm == "mklog":
                return "C"
            if unparse(fn) in ("os.path.join", "str", "os.path.abspath", "os.path.normpath") or (isinstance(fn, ast.Attribute) and fn.attr in ("format", "join") and isinstance(fn.value, ast.Constant)):
                return "U"
            if nm in ("list", "tuple", "sorted", "reversed", "iter", "next") and e.args:
                return created(f, e.args[0], depth + 1, seen)
            if nm == "zip":
                return None            # handled at the unpacking target
            if isinstance(fn, ast.Attribute) and fn.attr == "pop":
                return created(f, fn.value, depth + 1, seen)
            callee = prog.resolve_call(f, e)
            if callee is not None and callee.mod.rel == WL:
                from lcsa import bind as _b
                return join(created(callee, r.value, depth + 1, ()) for r in _b.returns_of(callee) if r.value is not None)
            return None
        if isinstance(e, (ast.Constant, ast.JoinedStr)) or (isinstance(e, ast.BinOp) and isinstance(e.op, (ast.Add, ast.Mod))):
            return "U" if not isinstance(e, ast.Constant) or isinstance(e.value, str) else None
        if isinstance(e, (ast.List, ast.Tuple)):
            return join(created(f, x, depth + 1, seen) for x in e.elts)
        if isinstance(e, (ast.ListComp, ast.GeneratorExp)):
            return created(f, e.elt, depth + 1, seen)
        if isinstance(e, ast.Subscript):
            return created(f, e.value, depth + 1, seen)
        if isinstance(e, ast.Name):
            if e.id in seen:
                return None
            vals = []
            for n in ast.walk(f.node):
                if isinstance(n, ast.Assign):
                    for t in n.targets:
                        if isinstance(t, ast.Name) and t.id == e.id:
                            vals.append(created(f, n.value, depth + 1, seen + (e.id,)))
                        elif isinstance(t, (ast.Tuple, ast.List)) and any(isinstance(x, ast.Name) and x.id == e.id for x in t.elts):
                            vals.append(created(f, n.value, depth + 1, seen + (e.id,)))       # an element of what is unpacked
                elif isinstance(n, (ast.For, ast.comprehension)):
                    tg = n.target
                    it = n.iter
                    names = [x for x in ast.walk(tg) if isinstance(x, ast.Name) and x.id == e.id]
                    if not names:
                        continue
                    if isinstance(it, (ast.Tuple, ast.List)) and isinstance(tg, ast.Tuple) and it.elts and all(isinstance(r_, (ast.Tuple, ast.List)) and len(r_.elts) == len(tg.elts) for r_ in it.elts):
                        # a display of rows unpacked by the loop target: the column the name stands in
                        for pos, el in enumerate(tg.elts):
                            if isinstance(el, ast.Name) and el.id == e.id:
                                vals.append(join(created(f, r_.elts[pos], depth + 1, seen + (e.id,)) for r_ in it.elts))
                    elif isinstance(it, ast.Call) and getattr(it.func, "id", None) == "zip" and isinstance(tg, ast.Tuple):
                        for pos, el in enumerate(tg.elts):
                            if any(isinstance(x, ast.Name) and x.id == e.id for x in ast.walk(el)) and pos < len(it.args):
                                vals.append(created(f, it.args[pos], depth + 1, seen + (e.id,)) if isinstance(el, ast.Name) else None)
                    else:
                        vals.append(created(f, it, depth + 1, seen + (e.id,)))
            if e.id in f.params():
                vals.append(None)
            return join(vals) if None not in vals else None
        return None
    seen_f, work, n = set(), [f0], 0
    while work:
        f = work.pop()
        if f.key in seen_f:
            continue
        seen_f.add(f.key)
        for c in ast.walk(f.node):
            if not isinstance(c, ast.Call):
                continue
            nm = c.func.attr if isinstance(c.func, ast.Attribute) else getattr(c.func, "id", None)
            if nm == "writeLog" and c.args:
                k = created(f, c.args[0])
                n += 1
                if k == "U":
                    ck.ob("LOG-fresh", WL_PATH + ":" + f.qual, False, expected="the log written here was created (emptied) by mklog in this run",
                          found="%s is a bare path: an earlier run's file of that name is appended to" % unparse(c.args[0]), slot="writeLog:%s" % unparse(c.args[0]), where=f.loc(c),
                          note="the logs of a run must agree with that run's bookkeeping")
                elif k == "C":
                    ck.ob("LOG-fresh", WL_PATH + ":" + f.qual, True, expected="created by mklog", found="created by mklog", slot="writeLog:%s@%d" % (unparse(c.args[0]), c.lineno))
            else:
                callee = prog.resolve_call(f, c)
                if callee is not None and callee.mod.rel == WL and callee.cls == f.cls and callee.name not in ("writeLog", "mklog"):
                    work.append(callee)
    ck.count("writeLog call sites traced", n)
    # ... and mklog really creates: the file is opened for (over)writing, by mklog itself or by the helper it hands the path to
    mk = prog.fn(WL, "WangLandauMachine.mklog")
    from lcsa import bind as _b

    def modes(f, depth=0):
        out = []
        for c in ast.walk(f.node):
            if not isinstance(c, ast.Call):
                continue
            if getattr(c.func, "id", None) == "open" or unparse(c.func) in ("io.open", "codecs.open"):
                m = c.args[1] if len(c.args) > 1 else next((k.value for k in c.keywords if k.arg == "mode"), None)
                out.append(m.value if isinstance(m, ast.Constant) else ("r" if m is None else None))
            elif depth < 2:
                callee = prog.resolve_call(f, c)
                if callee is not None and callee.mod.rel == WL and callee.cls == f.cls:
                    sf = _b.specialise(prog, f, c, callee) or callee
                    out += modes(sf, depth + 1)
        return out
    ms = modes(mk)
    ck.shape(bool(ms) and None not in ms, "mklog: the mode every open() it reaches is called with", mk.loc())
    ck.ob("LOG-fresh", WL_PATH + ":" + mk.qual, any(isinstance(m, str) and m[:1] in ("w", "x") for m in ms) and not any(isinstance(m, str) and m[:1] == "a" for m in ms[:1]),
          expected="mklog opens the file for writing ('w'): a log of an earlier run is emptied", found=ms, slot="mklog-truncates", where=mk.loc(),
          note="opened for appending, the new run's lines follow the old run's")


def _route(ck, prog):
    f = prog.fn(WL, "WangLandauMachine.run")
    ev = Evaluator(prog, positive=())
    ev.opaque_calls[WL + ":WangLandauMachine.run_normal_WL"] = lambda b: "NORMAL-RUN"
    me = ObjV("WangLandauMachine", {"WL_type": "NORMAL"})
    try:
        rows = ev.run_function(f, {}, me)
        got = rows[0].value if len(rows) == 1 and rows[0].kind == "return" else [r.kind for r in rows]
    except Undecided as e:
        got = str(e)
    ck.ob("DT-route", WL_PATH + ":" + f.qual, got == "NORMAL-RUN", expected="WL_type 'NORMAL' runs run_normal_WL", found=got, slot="normal", where=f.loc())


def _init_geometry(ck, prog):
    """NORMAL mode: the bin count tiles [0,1] with the requested bin width - round(1/width), never truncated - and the relevant
    range starts at the bin whose centre is nearest to binmin + width/2 and spans nbins_target bins"""
    f = prog.fn(WL, "WangLandauMachine.__init__")
    construct = WL_PATH + ":" + f.qual
    ev = Evaluator(prog, positive=())
    ev.model_ctors = True
    ev.skip_calls = {"print", "setDotFreq"}
    ev.opaque_calls[WL + ":WangLandauMachine.getBinCenters"] = lambda b: Rat.atom("CENTRES")
    ev.opaque_calls[WL + ":WangLandauMachine.setDotFreq"] = lambda b: None
    fr = _Frame(f, 0)
    env = {"self": ObjV("WangLandauMachine"), "nbins": Rat.atom("nb"), "binmin": Rat.atom("bmin"), "binmax": Rat.atom("bmax"), "WL_type": "NORMAL"}
    # the else-branch of `if WL_type == 'ZOOM'`
    branch = None
    for s in f.body():
        if isinstance(s, ast.If) and "WL_type" in unparse(s.test) and "ZOOM" in unparse(s.test):
            branch = s.orelse
    if branch is None:
        raise Undecided("WangLandauMachine.__init__: NORMAL/ZOOM branch not found", f.loc())
    pre = []
    for s in f.body():
        if isinstance(s, ast.Assign) and is_self_attr(s.targets[0], "nbins_target"):
            pre.append(s)
    paths = ev.exec_block(pre + list(branch), [Path([], "live", None, env)], fr)
    if len(paths) != 1:
        raise Undecided("NORMAL-mode initialisation branches", f.loc())
    e = paths[0].env
    nt = fatom("int", Rat.atom("nb"))
    width = (Rat.atom("bmax") - Rat.atom("bmin")) / nt
    got = e.get("@self.nbins_actual")
    want_ok = [fatom("int", fatom("round", Rat.const(1) / width)), fatom("round", Rat.const(1) / width)]
    trunc = [fatom("int", Rat.const(1) / width), fatom("floor", Rat.const(1) / width)]
    if isinstance(got, Rat) and any(got.equals(w) for w in want_ok):
        ok = True
    elif isinstance(got, Rat) and any(got.equals(w) for w in trunc):
        ok = False
    else:
        raise Undecided("nbins_actual = %r: neither the rounded nor the truncated quotient" % (got,), f.loc())
    ck.ob("ALG-bins", construct, ok, expected="nbins_actual = int(round(1 / binWidth))", found=repr(got), slot="bin-count", where=f.loc(),
          note="1/binWidth is a float quotient that lands just below an integer for many (binmin, binmax, nbins): truncation loses a bin and shifts the relevant range")
    rmin, rmax = e.get("@self.relevant_min"), e.get("@self.relevant_max")
    from lcsa.sym import abs_atom
    want_min = fatom("argmin", abs_atom(Rat.atom("CENTRES") - (Rat.atom("bmin") + width / Rat.const(2))))
    ok2 = isinstance(rmin, Rat) and rmin.equals(want_min) and isinstance(rmax, Rat) and rmax.equals(rmin + nt - Rat.const(1))
    ck.ob("ALG-bins", construct, ok2, expected="relevant_min = bin nearest to binmin + width/2 ; relevant_max = relevant_min + nbins_target - 1",
          found={"relevant_min": repr(rmin), "relevant_max": repr(rmax)}, slot="relevant-range", where=f.loc())
