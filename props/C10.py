"""C10 - sliding-window profiles report each window's statistic at its centre position.

Decides, for every N and every window size of either parity: the window guard (raise iff w > N) on every profile;
N-w+1 windows; leading pad floor((w-1)/2) and trailing pad ceil((w-1)/2); position row 1..N; values[i] is the
statistic of residues [i, i+w); the statistic's formula (equal to the whole-sequence parameter when the window is the
whole sequence; sigma profile identical to delta's blob sigma); composition rows in the caller's group order;
the API wrappers.  Float rounding is not analysed."""
import ast
from fractions import Fraction

from lcsa.alg import Rat
from lcsa.model import Undecided, unparse
from lcsa.ref import Pair, ref_program
from lcsa.dt import compare_rows, feasible_with
from lcsa.lin import Lin
from lcsa.sym import (Evaluator, VStackV, ConcatV, ProfileV, ZerosV, RepV, ARangeV, SeqV, LETTERS, fmt_conds,
                      subst_deep, Path, ObjV, _Frame)
from lcsa import tab, bind
from props.common import SEQ, SP, SEQ_PATH, check_charge_map, compare_tables, check_api

N = Rat.atom("N")
K = Rat.atom("k")

PROFILES = [
    # method, extra args, reference statistic, base vector, global parameter (method, args)
    ("linearDistOfNCPR", {}, "win_NCPR", "cp", ("NCPR", {})),
    ("linearDistOfFCR", {}, "win_FCR", "cp", ("FCR", {})),
    ("linearDistOfSigma", {}, "win_sigma", "cp", ("sigma", {})),
    ("linearDistOfHydropathy", {}, "win_hydropathy", "map", ("uverskyHydropathy", {})),
    ("linearDenistyOfAAs", {"targetAAs": ["A"]}, "win_density", "map", None),
    ("linearDenistyOfAAs", {"targetAAs": [c for c in LETTERS if c != "A"]}, "win_density", "map", None),
]


def run(ck, prog):
    from props.common import check_memos
    ck.attempt(check_memos, ck, prog)
    ck.explanation = (
        "Each profile function is evaluated symbolically for w = 2k and w = 2k+1 (k a non-negative integer atom): the "
        "flank test reduces to a constant, the pads become affine normal forms, the window loop is summarised for one "
        "generic index (domain, slice, piecewise statistic) and the returned stack is read structurally. Statistics are "
        "compared with the reference window statistics; substituting the whole sequence for the window must give the "
        "global parameter's normal form.")
    ck.assumptions += ["float rounding not analysed", "window size is a positive integer"]
    ck.attempt(check_charge_map, ck, prog)
    n_prof = 0
    for meth, extra, refstat, base, glob in PROFILES:
        f = prog.fn(SEQ, "Sequence." + meth)
        construct = SEQ_PATH + ":Sequence." + meth
        tag = meth + ("[%s]" % ("A" if extra.get("targetAAs") == ["A"] else "notA") if extra else "")
        # ---- guard, with a symbolic window
        ev = Evaluator(prog, positive=("N", "w"))
        ev.int_atoms = {"w"}
        args = dict(extra)
        args["bloblen"] = Rat.atom("w")
        try:
            rows = ev.run_function(f, args)
        except Undecided:
            rows = None
        _guard(ck, prog, f, construct, tag, paths=rows)
        # ---- both parities
        # w = 2k (k >= 1), w = 2k+1 (k >= 1: the evaluator takes k as strictly positive) and, separately, the smallest window w = 1
        for parity, wval in (("even", K * Rat.const(2)), ("odd", K * Rat.const(2) + Rat.const(1)), ("one", Rat.const(1))):
            pair = Pair(prog, positive=("N", "k", "w"))
            pair.code.int_atoms = {"k"}
            pair.ref.int_atoms = {"k"}
            if parity == "even":          # w = 2k >= 2, so k >= 1 (w = 2k+1 allows k = 0)
                pair.code.pos_int_atoms = {"k"}
                pair.ref.pos_int_atoms = {"k"}
            args = dict(extra)
            args["bloblen"] = wval
            paths = pair.code.run_function(f, args)
            live = [p for p in paths if p.kind == "return"]
            # a window that fits (1 <= w <= N) is answered: no raising path may be reachable with N >= w
            dom_k = [Lin({"k": -1}, 1 if parity == "even" else 0, "<=")]
            rejected = [p for p in paths if p.kind == "raise" and feasible_with(list(p.conds) + [("cmp", N, ">=", wval)], dom_k, {"N"}, int_atoms={"N", "k"}) is not None]
            ck.ob("PARITY", construct, not rejected, expected="every window size 1 <= w <= N is answered",
                  found=[(fmt_conds(p.conds), p.value) for p in rejected][:3] or "answered", slot="%s:%s:total" % (tag, parity), where=f.loc(),
                  note="the profile is defined for every window that fits the sequence, w = 1 included")
            if len(live) != 1:
                ck.ob("PARITY", construct, False, expected="one non-raising path for %s w" % parity,
                      found=[(fmt_conds(p.conds), p.kind) for p in paths], slot="%s:%s:paths" % (tag, parity), where=f.loc())
                continue
            v = live[0].value
            st = _structure(v)
            if st is None:
                ck.ob("PARITY", construct, False, expected="vstack(positions, [0]*left + values + [0]*right)",
                      found=repr(v), slot="%s:%s:shape" % (tag, parity), where=f.loc())
                continue
            pos, left, prof, right = st
            ck.ob("ALG-positions", construct, pos.lo.equals(Rat.const(1)) and pos.hi.equals(N + Rat.const(1)),
                  expected="positions 1..N", found=[repr(pos.lo), repr(pos.hi)], slot="%s:%s:positions" % (tag, parity), where=f.loc())
            # (w-1)/2 floor / ceil
            exp_left = K - Rat.const(1) if parity == "even" else (K if parity == "odd" else Rat.const(0))
            exp_right = K if parity != "one" else Rat.const(0)
            # an unreduced int()/floor()/ceil() atom means the pad could not be brought to a polynomial in k: not a verdict
            ck.shape(not any(a.startswith(("int(", "floor(", "ceil(", "round(")) for x in (left, right) for a in x.atoms()),
                     "%s: pad sizes reduce to polynomials in k for %s windows (left=%r right=%r)" % (tag, parity, left, right), f.loc())
            ck.ob("PARITY", construct, left.equals(exp_left), expected="floor((w-1)/2) = %r" % exp_left, found=repr(left),
                  slot="%s:%s:left-pad" % (tag, parity), where=f.loc())
            ck.ob("PARITY", construct, right.equals(exp_right), expected="ceil((w-1)/2) = %r" % exp_right, found=repr(right),
                  slot="%s:%s:right-pad" % (tag, parity), where=f.loc())
            nwin = N - wval + Rat.const(1)
            ck.ob("FOLD-window", construct, prof.n.equals(nwin) and prof.lo.equals(Rat.const(0)) and prof.hi.equals(nwin),
                  expected="N-w+1 windows, i in [0, N-w]", found=[repr(prof.n), repr(prof.lo), repr(prof.hi)],
                  slot="%s:%s:window-count" % (tag, parity), where=f.loc())
            win = prof.window
            wok = win is not None and win[1].equals(Rat.atom("@i")) and win[2].equals(Rat.atom("@i") + wval)
            bok = win is not None and ((base == "cp" and win[0] == "cp") or (base == "map" and win[0].startswith("map:")))
            ck.ob("FOLD-window", construct, bool(wok and bok), expected="window = residues [i, i+w) of the %s vector" % base,
                  found=[repr(x) for x in (win or ())], slot="%s:%s:window" % (tag, parity), where=f.loc())
            # statistic vs reference
            rargs = {"w": wval, "i": Rat.atom("@i")}
            if "targetAAs" in extra:
                rargs["targets"] = extra["targetAAs"]
            rf = ref_program().fn("ref.py", "Sequence." + refstat)
            frw_paths = _ref_window(pair.ref, rf, rargs)
            mis = compare_rows(prof.pieces, frw_paths, positive=("N", "k", "w"))
            ck.ob("ALG-statistic", construct, mis is None, expected=[(fmt_conds(c), repr(t)) for c, t in frw_paths],
                  found=mis or "equivalent", slot="%s:%s:statistic" % (tag, parity), where=f.loc())
            # window = whole sequence => global parameter
            if glob is not None and parity == "odd":
                _global(ck, prog, pair, construct, tag, prof, wval, glob, f)
            n_prof += 1
    ck.count("profile/parity cases", n_prof)
    ck.attempt(_density_uses, ck, prog)
    ck.attempt(_compositions, ck, prog)
    api = [("get_linear_NCPR", "linearDistOfNCPR", {"blobLen": "bloblen"}),
           ("get_linear_FCR", "linearDistOfFCR", {"blobLen": "bloblen"}),
           ("get_linear_sigma", "linearDistOfSigma", {"blobLen": "bloblen"}),
           ("get_linear_hydropathy", "linearDistOfHydropathy", {"blobLen": "bloblen"}),
           ("get_linear_sequence_composition", "linearCompositions", {"blobLen": "bloblen", "grps": "grps"})]
    ck.attempt(check_api, ck, prog, api)
    ck.floor("profile/parity cases", n_prof, 12)


def _ref_window(ev, rf, rargs):
    """reference window statistic evaluated inside a window frame -> [(conds, Rat)]"""
    out = []
    for p in ev.run_function(rf, rargs):
        out.append((p.conds, p.value))
    return out


def _structure(v):
    """VStack(arange, [0]*a + profile + [0]*b) -> (arange, a, profile, b)"""
    if not isinstance(v, VStackV) or len(v.rows) != 2:
        return None
    pos, body = v.rows
    if not isinstance(pos, ARangeV) or not isinstance(body, ConcatV) or len(body.parts) != 3:
        return None
    a, p, b = body.parts
    if not (isinstance(a, ZerosV) and isinstance(b, ZerosV) and isinstance(p, ProfileV)):
        return None
    if a.stores or b.stores:
        return None
    return pos, a.n, p, b.n


def _guard(ck, prog, f, construct, tag, wparam=None, paths=None):
    """MUST: the window guard executes before any use of the window size; DT: it raises iff N < w"""
    ev = Evaluator(prog, positive=("N", "w"))
    g = prog.fn(SEQ, "Sequence.__check_window_to_length")
    rows = [(p.conds, "raise" if p.kind == "raise" else "ok") for p in ev.run_function(g, {"bloblen": Rat.atom("w")})]
    spec = [([("cmp", N, "<", Rat.atom("w"))], "raise"), ([("cmp", N, ">=", Rat.atom("w"))], "ok")]
    mis = compare_rows(rows, spec, positive=("N", "w"))
    ck.ob("DT-guard", SEQ_PATH + ":Sequence.__check_window_to_length", mis is None,
          expected="raises iff len(seq) < window", found=mis or "equivalent", slot="guard-table", where=g.loc())
    if paths is not None:
        # decided on the function's own path table: no path may return an answer when the window is longer than the sequence
        from lcsa.dt import feasible_with as _fw
        bad = [p for p in paths if p.kind == "return" and _fw(list(p.conds) + [("cmp", N, "<", Rat.atom("w"))], [], {"N", "w"}, int_atoms={"N", "w"}) is not None]
        ck.ob("MUST-window-guard", construct, not bad, expected="every answering path requires len(seq) >= window (longer windows are rejected with an error)",
              found=[fmt_conds(p.conds) for p in bad][:3] or "all answering paths guarded", slot=tag + ":guard", where=f.loc(),
              note="a window longer than the sequence must be rejected, not answered")
        return
    # fallback when the function could not be enumerated: the guard call must be visibly first (its absence is then undecided)
    wparam = wparam or f.params()[1]
    from lcsa import bind as _bind
    hops = 0
    while True:
        first = None
        for s in f.body():
            if any(isinstance(n, ast.Name) and n.id == wparam for n in ast.walk(s)):
                first = s
                break
        # a forwarder (`return self.helper(..., window, ...)` as the first use): the obligation moves to the helper, with the window bound to
        # the helper's formal; a forward to something that cannot be resolved is not judged
        fwd = first.value if isinstance(first, (ast.Return, ast.Expr)) and isinstance(first.value, ast.Call) else None
        if fwd is None or prog.resolve_call(f, fwd) is g:
            break
        direct = [a for a in list(fwd.args) + [k.value for k in fwd.keywords] if isinstance(a, ast.Name) and a.id == wparam]
        if not direct:
            break
        callee, b = _bind.bind(prog, f, fwd)
        if callee is not None and (callee.mod is not g.mod or callee.cls != g.cls):
            break          # handed to another class: the (private) guard of this class cannot run there - the forward itself is the unguarded use
        ck.shape(callee is not None and b is not None and hops < 3, "%s: the window size is handed to %s, which could not be resolved" % (f.qual, unparse(fwd.func)), f.loc(first))
        formal = [k for k, v in b.items() if v is direct[0]]
        ck.shape(len(formal) == 1, "%s: the window size is bound to one formal of %s" % (f.qual, callee.qual), f.loc(first))
        f, wparam, hops = callee, formal[0], hops + 1
    ok = False
    if first is not None and isinstance(first, ast.Expr) and isinstance(first.value, ast.Call):
        callee = prog.resolve_call(f, first.value)
        ok = callee is g and len(first.value.args) == 1 and isinstance(first.value.args[0], ast.Name) \
            and first.value.args[0].id == wparam
    # and nothing is returned before the guard has run
    if ok:
        early = [n for n in ast.walk(f.node) if isinstance(n, ast.Return) and n.lineno < first.lineno]
        if early:
            ok = False
            first = early[0]
    ck.shape(ok or (first is not None and isinstance(first, ast.Return)), "%s: window guard not visibly the first use of the window size" % f.qual, f.loc())
    ck.ob("MUST-window-guard", construct, ok,
          expected="self.__check_window_to_length(%s) dominates every use of the window size" % wparam,
          found=unparse(first)[:100] if first is not None else None, slot=tag + ":guard", where=f.loc(first) if first is not None else f.loc(),
          note="a window longer than the sequence must be rejected, not answered")


def _global(ck, prog, pair, construct, tag, prof, wval, glob, f):
    """substitute the whole sequence for the window: the statistic must become the global parameter"""
    gm, gargs = glob
    g = prog.fn(SEQ, "Sequence." + gm)
    grow = [(p.conds, p.value) for p in pair.code.run_function(g, gargs)]
    sub = {"wpos": Rat.atom("npos"), "wneg": Rat.atom("nneg"), "k": (N - Rat.const(1)) / Rat.const(2)}
    for key, table in pair.code.eltables.items():
        t = Rat.const(0)
        for L, val in table.items():
            t = t + Rat.const(val) * Rat.atom("cnt[%s]" % L)
        sub["wsum[%s]" % key] = t
    from lcsa.ref import subst_rows
    pieces = subst_rows(prof.pieces, sub)
    mis = compare_rows(pieces, grow, positive=("N",))
    ck.ob("ALG-global", construct, mis is None, expected="with w = N the window statistic equals %s()" % gm,
          found=mis or "equivalent", slot=tag + ":w=N", where=f.loc())


def _density_uses(ck, prog):
    """linearDenistyOfAAs uses its group only through membership tests (so two complementary groups cover every
    (letter, member?) combination)"""
    f = prog.fn(SEQ, "Sequence.linearDenistyOfAAs")
    uses = [n for n in ast.walk(f.node) if isinstance(n, ast.Name) and n.id == "targetAAs" and isinstance(n.ctx, ast.Load)]
    ok = True
    for u in uses:
        par = _parent(f.node, u)
        if not (isinstance(par, ast.Compare) and len(par.ops) == 1 and isinstance(par.ops[0], (ast.In, ast.NotIn))
                and par.comparators[0] is u):
            ok = False
    ck.ob("USE", SEQ_PATH + ":Sequence.linearDenistyOfAAs", ok and bool(uses), expected="group used only as `x in group`",
          found=len(uses), slot="group-uses", where=f.loc())


def _parent(root, node):
    for n in ast.walk(root):
        for c in ast.iter_child_nodes(n):
            if c is node:
                return n
    return None


DEFAULT_GROUPS = [["E", "D"], ["R", "K"], ["R", "K", "E", "D"], ["Q", "N", "S", "T", "G", "H", "C"],
                  ["A", "L", "M", "I", "V"], ["F", "Y", "W"], ["P"]]


def _compositions_evaluated(ck, prog):
    """linearCompositions decided on its evaluated result: called with no groups, with one group and with four groups (window 2k+1) it must
    return (positions 1..N, one row per group in the order given - the default table when none is given - each row the density profile of
    exactly that group at the requested window); a group with a letter outside the twenty is refused.  Raises Undecided when the evaluator
    cannot follow the function (the syntactic reading below is tried then)."""
    f = prog.fn(SEQ, "Sequence.linearCompositions")
    construct = SEQ_PATH + ":Sequence.linearCompositions"
    wval = K * Rat.const(2) + Rat.const(1)

    def rows_for(grps):
        ev = Evaluator(prog, positive=("N", "k", "w"))
        ev.int_atoms = {"k"}
        paths = ev.run_function(f, {"bloblen": wval, "grps": grps})
        live = [p for p in paths if p.kind == "return"]
        if not live:
            return None, "refused"
        if len(live) != 1 or not (isinstance(live[0].value, tuple) and len(live[0].value) == 2):
            raise Undecided("linearCompositions: one answering path returning a pair", f.loc())
        pos, dens = live[0].value
        rows = dens.rows if isinstance(dens, VStackV) else [dens]
        out = []
        for r in rows:
            parts = r.parts if isinstance(r, ConcatV) else None
            prof = next((x for x in parts if isinstance(x, ProfileV)), None) if parts else None
            if prof is None or prof.window is None or not str(prof.window[0]).startswith("map:"):
                raise Undecided("linearCompositions: a stacked row that is not a padded density profile", f.loc())
            table = ev.eltables[prof.window[0][4:]]
            vals = set(table.values())
            if not vals <= {Fraction(0), Fraction(1), 0, 1}:
                raise Undecided("linearCompositions: a row whose per-residue map is not 0/1", f.loc())
            width_ok = (prof.window[2] - prof.window[1]).equals(wval)
            out.append((sorted(L for L, v in table.items() if v == 1), width_ok))
        return pos, out
    cases = [("default", [], [sorted(g) for g in DEFAULT_GROUPS]),
             ("one-group", [["A", "G"]], [["A", "G"]]),
             ("four-groups", [["W"], ["K", "A"], ["E", "D"], ["P"]], [["W"], ["A", "K"], ["D", "E"], ["P"]]),      # neither sorted nor reverse-sorted
             ("lower-case", [["e", "d"], ["p"]], [["D", "E"], ["P"]])]
    results = [(name, want) + rows_for(grps) for name, grps, want in cases]       # Undecided propagates before any verdict is recorded
    bad = rows_for([["A"], ["E", "1"]])
    for name, want, pos, got in results:
        ok_pos = pos is not None and isinstance(pos, ARangeV) and pos.lo.equals(Rat.const(1)) and pos.hi.equals(N + Rat.const(1))
        ck.ob("ALG-positions", construct, ok_pos, expected="positions 1..N", found=repr(pos)[:60] if pos is not None else got, slot="compositions:%s:positions" % name, where=f.loc())
        rule = "TAB-default-groups" if name == "default" else "FOLD-rows"
        ck.ob(rule, construct, got != "refused" and [g for g, _ in got] == want and all(w_ for _, w_ in got), expected=want,
              found=got if got == "refused" else [g for g, _ in got], slot="default-groups" if name == "default" else "rows:" + name, where=f.loc(),
              note="acidic, basic, charged, polar, aliphatic, aromatic, proline - in this order" if name == "default"
              else "one row per group, in the caller's order, each at the requested window")
    ck.ob("MUST-parse-group", construct, bad[1] == "refused", expected="a group holding a letter outside the twenty amino acids is refused",
          found="answered" if bad[1] != "refused" else "refused", slot="user-groups", where=f.loc())
    ck.count("composition cases evaluated", len(results) + 1)


def _compositions(ck, prog):
    try:
        _compositions_evaluated(ck, prog)
        return
    except Undecided as e:
        ck.info("linearCompositions not followed by the evaluator (%s); reading its statements instead" % e.msg)
    f = prog.fn(SEQ, "Sequence.linearCompositions")
    construct = SEQ_PATH + ":Sequence.linearCompositions"
    m = f.mod
    body = f.body()
    # (a) default groups: literal lists appended in order (a fill written any other way is not decided here)
    apps = []
    for n in ast.walk(f.node):
        if isinstance(n, ast.Call) and isinstance(n.func, ast.Attribute) and n.func.attr == "append" \
                and isinstance(n.func.value, ast.Name) and n.func.value.id == "grps":
            apps.append((n.lineno, tab.literal(m, n.args[0])))       # Undecided when not a literal
    folded = None
    if not apps:
        # ... or taken from a module-level constant: the default branch assigns `grps = <expression over a constant>`, folded by the evaluator
        guard = [st for st in body if isinstance(st, ast.If) and unparse(st.test).replace(" ", "") in ("len(grps)>0", "len(grps)!=0", "grps", "len(grps)==0", "notgrps")]
        if len(guard) == 1:
            neg = unparse(guard[0].test).replace(" ", "") in ("len(grps)==0", "notgrps")
            branch = guard[0].body if neg else guard[0].orelse
            asg = [st for st in branch if isinstance(st, ast.Assign) and len(st.targets) == 1 and unparse(st.targets[0]) == "grps"]
            if len(asg) == 1:
                from lcsa.sym import Evaluator as _Ev, _Frame as _Fr, ObjV as _Ob
                try:
                    v = _Ev(prog).eval(asg[0].value, {"self": _Ob("Sequence")}, _Fr(f, 0))
                except Undecided:
                    v = None
                if isinstance(v, (list, tuple)) and all(isinstance(x, (list, tuple, str)) and all(isinstance(c, str) and len(c) == 1 for c in x) for x in v):
                    folded = [list(x) for x in v]
    ck.shape(len(apps) >= 1 or folded is not None, "linearCompositions: default groups appended as literals, or assigned from a constant that folds to lists of letters", f.loc())
    got = [sorted(x) if isinstance(x, (list, tuple)) else x for _, x in sorted(apps, key=lambda t: t[0])] if apps else [sorted(x) for x in folded]
    want = [sorted(g) for g in DEFAULT_GROUPS]
    ck.ob("TAB-default-groups", construct, got == want, expected=want, found=got, slot="default-groups", where=f.loc(),
          note="acidic, basic, charged, polar, aliphatic, aromatic, proline - in this order")
    # (b) user groups pass __parse_group, one by one, order kept
    parses = [n for n in ast.walk(f.node) if isinstance(n, ast.Call) and getattr(n.func, "attr", "") == "__parse_group"]
    ck.shape(len(parses) == 1, "linearCompositions: user groups go through __parse_group at one site", f.loc())
    host = None
    for n in ast.walk(f.node):
        if isinstance(n, ast.For) and isinstance(n.iter, ast.Name) and n.iter.id == "grps" and any(x is parses[0] for x in ast.walk(n)):
            host = ("loop", n.target)
        if isinstance(n, ast.ListComp) and len(n.generators) == 1 and unparse(n.generators[0].iter) == "grps" and any(x is parses[0] for x in ast.walk(n.elt)):
            host = ("comp", n.generators[0].target)
    ck.shape(host is not None and isinstance(host[1], ast.Name), "linearCompositions: __parse_group applied while iterating over the caller's groups", f.loc())
    ck.ob("MUST-parse-group", construct, len(parses[0].args) == 1 and unparse(parses[0].args[0]) == host[1].id,
          expected="each user group validated by __parse_group, in the caller's order", found=unparse(parses[0]), slot="user-groups", where=f.loc(parses[0]))
    # (c) rows: first from grps[0], the rest from grps[1:] in order, stacked below; positions from the profile call
    dens = [n for n in ast.walk(f.node) if isinstance(n, ast.Call) and getattr(n.func, "attr", "") == "linearDenistyOfAAs"]
    ck.shape(len(dens) == 2 and all(len(d.args) == 2 for d in dens), "linearCompositions: one density call for the first group and one in a loop over the others", f.loc())
    loops = [s for s in ast.walk(f.node) if isinstance(s, ast.For) and any(x is dens[1] for x in ast.walk(s)) and not any(x is dens[0] for x in ast.walk(s))]
    ck.shape(len(loops) == 1 and isinstance(loops[0].target, ast.Name), "linearCompositions: loop over the remaining groups", f.loc())
    loop = loops[0]
    ck.ob("FOLD-rows", construct, unparse(dens[0].args[0]) == "bloblen" and unparse(dens[0].args[1]).replace(" ", "") == "grps[0]",
          expected="first row = density of grps[0] at the requested window", found=unparse(dens[0]), slot="first-row", where=f.loc(dens[0]))
    ck.ob("FOLD-rows", construct, unparse(loop.iter).replace(" ", "") == "grps[1:]" and unparse(dens[1].args[0]) == "bloblen" and unparse(dens[1].args[1]) == loop.target.id,
          expected="remaining rows = density of each of grps[1:], in the caller's order", found={"iter": unparse(loop.iter), "call": unparse(dens[1])}, slot="row-order",
          where=f.loc(loop))
    stacks = [n for n in ast.walk(loop) if isinstance(n, ast.Call) and getattr(n.func, "attr", "") == "vstack"]
    ck.shape(len(stacks) == 1 and isinstance(stacks[0].args[0], ast.Tuple) and len(stacks[0].args[0].elts) == 2, "linearCompositions: rows stacked with np.vstack((acc, row))", f.loc(loop))
    acc = unparse(stacks[0].args[0].elts[0])
    ck.ob("FOLD-rows", construct, acc == "density" or any(isinstance(a, ast.Assign) and unparse(a.targets[0]) == acc for a in ast.walk(loop)),
          expected="new row stacked BELOW the rows so far", found=unparse(stacks[0]), slot="stack-order", where=f.loc(stacks[0]))
    rets = [n for n in ast.walk(f.node) if isinstance(n, ast.Return) and n.value is not None]
    ck.shape(len(rets) == 1 and isinstance(rets[0].value, ast.Tuple) and len(rets[0].value.elts) == 2, "linearCompositions: returns (positions, densities)", f.loc())
    ck.ob("FOLD-rows", construct, unparse(rets[0].value.elts[1]) == acc, expected="(positions, stacked densities)", found=unparse(rets[0].value), slot="return", where=f.loc(rets[0]))
