"""C10 - sliding-window profiles report each window's statistic at its centre position.

Decides, for every N and every window size of either parity: the window guard (raise iff w > N) on every profile;
N-w+1 windows; leading pad floor((w-1)/2) and trailing pad ceil((w-1)/2); position row 1..N; values[i] is the
statistic of residues [i, i+w); the statistic's formula (equal to the whole-sequence parameter when the window is the
whole sequence; sigma profile identical to delta's blob sigma); composition rows in the caller's group order;
the API wrappers.  Float rounding is not analysed."""
import ast
from fractions import Fraction

from lcsa.alg import Rat
from lcsa.model import Undecided, unparse
from lcsa.ref import Pair, ref_program
from lcsa.dt import compare_rows, feasible_with
from lcsa.sym import (Evaluator, VStackV, ConcatV, ProfileV, ZerosV, RepV, ARangeV, SeqV, LETTERS, fmt_conds,
                      subst_deep, Path, ObjV, _Frame)
from lcsa import tab, bind
from props.common import SEQ, SP, SEQ_PATH, check_charge_map, compare_tables, check_api

N = Rat.atom("N")
K = Rat.atom("k")

PROFILES = [
    # method, extra args, reference statistic, base vector, global parameter (method, args)
    ("linearDistOfNCPR", {}, "win_NCPR", "cp", ("NCPR", {})),
    ("linearDistOfFCR", {}, "win_FCR", "cp", ("FCR", {})),
    ("linearDistOfSigma", {}, "win_sigma", "cp", ("sigma", {})),
    ("linearDistOfHydropathy", {}, "win_hydropathy", "map", ("uverskyHydropathy", {})),
    ("linearDenistyOfAAs", {"targetAAs": ["A"]}, "win_density", "map", None),
    ("linearDenistyOfAAs", {"targetAAs": [c for c in LETTERS if c != "A"]}, "win_density", "map", None),
]


def run(ck, prog):
    from props.common import check_memos
    ck.attempt(check_memos, ck, prog)
    ck.explanation = (
        "Each profile function is evaluated symbolically for w = 2k and w = 2k+1 (k a non-negative integer atom): the "
        "flank test reduces to a constant, the pads become affine normal forms, the window loop is summarised for one "
        "generic index (domain, slice, piecewise statistic) and the returned stack is read structurally. Statistics are "
        "compared with the reference window statistics; substituting the whole sequence for the window must give the "
        "global parameter's normal form.")
    ck.assumptions += ["float rounding not analysed", "window size is a positive integer"]
    check_charge_map(ck, prog)
    n_prof = 0
    for meth, extra, refstat, base, glob in PROFILES:
        f = prog.fn(SEQ, "Sequence." + meth)
        construct = SEQ_PATH + ":Sequence." + meth
        tag = meth + ("[%s]" % ("A" if extra.get("targetAAs") == ["A"] else "notA") if extra else "")
        # ---- guard, with a symbolic window
        ev = Evaluator(prog, positive=("N", "w"))
        ev.int_atoms = {"w"}
        args = dict(extra)
        args["bloblen"] = Rat.atom("w")
        try:
            rows = ev.run_function(f, args)
        except Undecided:
            rows = None
        _guard(ck, prog, f, construct, tag)
        # ---- both parities
        for parity, wval in (("even", K * Rat.const(2)), ("odd", K * Rat.const(2) + Rat.const(1))):
            pair = Pair(prog, positive=("N", "k", "w"))
            pair.code.int_atoms = {"k"}
            pair.ref.int_atoms = {"k"}
            args = dict(extra)
            args["bloblen"] = wval
            paths = pair.code.run_function(f, args)
            live = [p for p in paths if p.kind == "return"]
            if len(live) != 1:
                ck.ob("PARITY", construct, False, expected="one non-raising path for %s w" % parity,
                      found=[(fmt_conds(p.conds), p.kind) for p in paths], slot="%s:%s:paths" % (tag, parity), where=f.loc())
                continue
            v = live[0].value
            st = _structure(v)
            if st is None:
                ck.ob("PARITY", construct, False, expected="vstack(positions, [0]*left + values + [0]*right)",
                      found=repr(v), slot="%s:%s:shape" % (tag, parity), where=f.loc())
                continue
            pos, left, prof, right = st
            ck.ob("ALG-positions", construct, pos.lo.equals(Rat.const(1)) and pos.hi.equals(N + Rat.const(1)),
                  expected="positions 1..N", found=[repr(pos.lo), repr(pos.hi)], slot="%s:%s:positions" % (tag, parity), where=f.loc())
            # (w-1)/2 floor / ceil
            exp_left = K - Rat.const(1) if parity == "even" else K
            exp_right = K
            ck.ob("PARITY", construct, left.equals(exp_left), expected="floor((w-1)/2) = %r" % exp_left, found=repr(left),
                  slot="%s:%s:left-pad" % (tag, parity), where=f.loc())
            ck.ob("PARITY", construct, right.equals(exp_right), expected="ceil((w-1)/2) = %r" % exp_right, found=repr(right),
                  slot="%s:%s:right-pad" % (tag, parity), where=f.loc())
            nwin = N - wval + Rat.const(1)
            ck.ob("FOLD-window", construct, prof.n.equals(nwin) and prof.lo.equals(Rat.const(0)) and prof.hi.equals(nwin),
                  expected="N-w+1 windows, i in [0, N-w]", found=[repr(prof.n), repr(prof.lo), repr(prof.hi)],
                  slot="%s:%s:window-count" % (tag, parity), where=f.loc())
            win = prof.window
            wok = win is not None and win[1].equals(Rat.atom("@i")) and win[2].equals(Rat.atom("@i") + wval)
            bok = win is not None and ((base == "cp" and win[0] == "cp") or (base == "map" and win[0].startswith("map:")))
            ck.ob("FOLD-window", construct, bool(wok and bok), expected="window = residues [i, i+w) of the %s vector" % base,
                  found=[repr(x) for x in (win or ())], slot="%s:%s:window" % (tag, parity), where=f.loc())
            # statistic vs reference
            rargs = {"w": wval, "i": Rat.atom("@i")}
            if "targetAAs" in extra:
                rargs["targets"] = extra["targetAAs"]
            rf = ref_program().fn("ref.py", "Sequence." + refstat)
            frw_paths = _ref_window(pair.ref, rf, rargs)
            mis = compare_rows(prof.pieces, frw_paths, positive=("N", "k", "w"))
            ck.ob("ALG-statistic", construct, mis is None, expected=[(fmt_conds(c), repr(t)) for c, t in frw_paths],
                  found=mis or "equivalent", slot="%s:%s:statistic" % (tag, parity), where=f.loc())
            # window = whole sequence => global parameter
            if glob is not None and parity == "odd":
                _global(ck, prog, pair, construct, tag, prof, wval, glob, f)
            n_prof += 1
    ck.count("profile/parity cases", n_prof)
    _density_uses(ck, prog)
    _compositions(ck, prog)
    api = [("get_linear_NCPR", "linearDistOfNCPR", {"blobLen": "bloblen"}),
           ("get_linear_FCR", "linearDistOfFCR", {"blobLen": "bloblen"}),
           ("get_linear_sigma", "linearDistOfSigma", {"blobLen": "bloblen"}),
           ("get_linear_hydropathy", "linearDistOfHydropathy", {"blobLen": "bloblen"}),
           ("get_linear_sequence_composition", "linearCompositions", {"blobLen": "bloblen", "grps": "grps"})]
    check_api(ck, prog, api)
    ck.floor("profile/parity cases", n_prof, 12)


def _ref_window(ev, rf, rargs):
    """reference window statistic evaluated inside a window frame -> [(conds, Rat)]"""
    out = []
    for p in ev.run_function(rf, rargs):
        out.append((p.conds, p.value))
    return out


def _structure(v):
    """VStack(arange, [0]*a + profile + [0]*b) -> (arange, a, profile, b)"""
    if not isinstance(v, VStackV) or len(v.rows) != 2:
        return None
    pos, body = v.rows
    if not isinstance(pos, ARangeV) or not isinstance(body, ConcatV) or len(body.parts) != 3:
        return None
    a, p, b = body.parts
    if not (isinstance(a, ZerosV) and isinstance(b, ZerosV) and isinstance(p, ProfileV)):
        return None
    if a.stores or b.stores:
        return None
    return pos, a.n, p, b.n


def _guard(ck, prog, f, construct, tag, wparam=None):
    """MUST: the window guard executes before any use of the window size; DT: it raises iff N < w"""
    ev = Evaluator(prog, positive=("N", "w"))
    g = prog.fn(SEQ, "Sequence.__check_window_to_length")
    rows = [(p.conds, "raise" if p.kind == "raise" else "ok") for p in ev.run_function(g, {"bloblen": Rat.atom("w")})]
    spec = [([("cmp", N, "<", Rat.atom("w"))], "raise"), ([("cmp", N, ">=", Rat.atom("w"))], "ok")]
    mis = compare_rows(rows, spec, positive=("N", "w"))
    ck.ob("DT-guard", SEQ_PATH + ":Sequence.__check_window_to_length", mis is None,
          expected="raises iff len(seq) < window", found=mis or "equivalent", slot="guard-table", where=g.loc())
    # first statement that mentions the window parameter must be the guard call
    wparam = wparam or f.params()[1]
    first = None
    for s in f.body():
        if any(isinstance(n, ast.Name) and n.id == wparam for n in ast.walk(s)):
            first = s
            break
    ok = False
    if first is not None and isinstance(first, ast.Expr) and isinstance(first.value, ast.Call):
        callee = prog.resolve_call(f, first.value)
        ok = callee is g and len(first.value.args) == 1 and isinstance(first.value.args[0], ast.Name) \
            and first.value.args[0].id == wparam
    # and nothing is returned before the guard has run
    if ok:
        early = [n for n in ast.walk(f.node) if isinstance(n, ast.Return) and n.lineno < first.lineno]
        if early:
            ok = False
            first = early[0]
    ck.ob("MUST-window-guard", construct, ok,
          expected="self.__check_window_to_length(%s) dominates every use of the window size" % wparam,
          found=unparse(first)[:100] if first is not None else None, slot=tag + ":guard", where=f.loc(first) if first is not None else f.loc(),
          note="a window longer than the sequence must be rejected, not answered")


def _global(ck, prog, pair, construct, tag, prof, wval, glob, f):
    """substitute the whole sequence for the window: the statistic must become the global parameter"""
    gm, gargs = glob
    g = prog.fn(SEQ, "Sequence." + gm)
    grow = [(p.conds, p.value) for p in pair.code.run_function(g, gargs)]
    sub = {"wpos": Rat.atom("npos"), "wneg": Rat.atom("nneg"), "k": (N - Rat.const(1)) / Rat.const(2)}
    for key, table in pair.code.eltables.items():
        t = Rat.const(0)
        for L, val in table.items():
            t = t + Rat.const(val) * Rat.atom("cnt[%s]" % L)
        sub["wsum[%s]" % key] = t
    from lcsa.ref import subst_rows
    pieces = subst_rows(prof.pieces, sub)
    mis = compare_rows(pieces, grow, positive=("N",))
    ck.ob("ALG-global", construct, mis is None, expected="with w = N the window statistic equals %s()" % gm,
          found=mis or "equivalent", slot=tag + ":w=N", where=f.loc())


def _density_uses(ck, prog):
    """linearDenistyOfAAs uses its group only through membership tests (so two complementary groups cover every
    (letter, member?) combination)"""
    f = prog.fn(SEQ, "Sequence.linearDenistyOfAAs")
    uses = [n for n in ast.walk(f.node) if isinstance(n, ast.Name) and n.id == "targetAAs" and isinstance(n.ctx, ast.Load)]
    ok = True
    for u in uses:
        par = _parent(f.node, u)
        if not (isinstance(par, ast.Compare) and len(par.ops) == 1 and isinstance(par.ops[0], (ast.In, ast.NotIn))
                and par.comparators[0] is u):
            ok = False
    ck.ob("USE", SEQ_PATH + ":Sequence.linearDenistyOfAAs", ok and bool(uses), expected="group used only as `x in group`",
          found=len(uses), slot="group-uses", where=f.loc())


def _parent(root, node):
    for n in ast.walk(root):
        for c in ast.iter_child_nodes(n):
            if c is node:
                return n
    return None


DEFAULT_GROUPS = [["E", "D"], ["R", "K"], ["R", "K", "E", "D"], ["Q", "N", "S", "T", "G", "H", "C"],
                  ["A", "L", "M", "I", "V"], ["F", "Y", "W"], ["P"]]


def _compositions(ck, prog):
    f = prog.fn(SEQ, "Sequence.linearCompositions")
    construct = SEQ_PATH + ":Sequence.linearCompositions"
    m = f.mod
    body = f.body()
    # (a) default groups: appended literal lists, in order
    apps = []
    for n in ast.walk(f.node):
        if isinstance(n, ast.Call) and isinstance(n.func, ast.Attribute) and n.func.attr == "append" \
                and isinstance(n.func.value, ast.Name) and n.func.value.id == "grps":
            try:
                apps.append((n.lineno, tab.literal(m, n.args[0])))
            except Undecided:
                apps.append((n.lineno, None))
    got = [sorted(x) if isinstance(x, list) else x for _, x in sorted(apps, key=lambda t: t[0])]
    want = [sorted(g) for g in DEFAULT_GROUPS]
    ck.ob("TAB-default-groups", construct, got == want, expected=want, found=got, slot="default-groups", where=f.loc(),
          note="acidic, basic, charged, polar, aliphatic, aromatic, proline - in this order")
    # (b) user groups: each passes __parse_group, order preserved (append inside a for over grps)
    sanit = None
    for n in ast.walk(f.node):
        if isinstance(n, ast.For) and isinstance(n.iter, ast.Name) and n.iter.id == "grps":
            for st in n.body:
                if isinstance(st, ast.Expr) and isinstance(st.value, ast.Call) and isinstance(st.value.func, ast.Attribute) \
                        and st.value.func.attr == "append" and st.value.args \
                        and isinstance(st.value.args[0], ast.Call) \
                        and getattr(st.value.args[0].func, "attr", None) == "__parse_group" \
                        and isinstance(st.value.args[0].args[0], ast.Name) \
                        and isinstance(n.target, ast.Name) and st.value.args[0].args[0].id == n.target.id:
                    sanit = st.value.func.value.id if isinstance(st.value.func.value, ast.Name) else None
    rebinding = any(isinstance(n, ast.Assign) and isinstance(n.targets[0], ast.Name) and n.targets[0].id == "grps"
                    and isinstance(n.value, ast.Name) and n.value.id == sanit for n in ast.walk(f.node)) if sanit else False
    ck.ob("MUST-parse-group", construct, bool(sanit and rebinding),
          expected="user groups validated by __parse_group, one by one, order kept", found={"list": sanit, "rebinds": rebinding},
          slot="user-groups", where=f.loc())
    # (c) first row from grps[0], remaining rows from grps[1:] in order, stacked below; positions from the same call
    first = None
    loop = None
    for s in body:
        if isinstance(s, ast.Assign) and isinstance(s.value, ast.Call) and getattr(s.value.func, "attr", None) == "linearDenistyOfAAs":
            first = s
        if isinstance(s, ast.For) and isinstance(s.iter, ast.Subscript) and isinstance(s.iter.value, ast.Name) \
                and s.iter.value.id == "grps":
            loop = s
    ok_first = first is not None and len(first.value.args) == 2 and unparse(first.value.args[0]) == "bloblen" \
        and unparse(first.value.args[1]) == "grps[0]"
    ok_loop = False
    if loop is not None:
        sl = loop.iter.slice
        ok_slice = isinstance(sl, ast.Slice) and sl.upper is None and sl.step is None and isinstance(sl.lower, ast.Constant) \
            and sl.lower.value == 1
        calls = [n for n in ast.walk(loop) if isinstance(n, ast.Call) and getattr(n.func, "attr", None) == "linearDenistyOfAAs"]
        ok_call = len(calls) == 1 and len(calls[0].args) == 2 and unparse(calls[0].args[0]) == "bloblen" \
            and isinstance(loop.target, ast.Name) and unparse(calls[0].args[1]) == loop.target.id
        stacks = [n for n in ast.walk(loop) if isinstance(n, ast.Call) and getattr(n.func, "attr", None) == "vstack"]
        ok_stack = len(stacks) == 1 and isinstance(stacks[0].args[0], ast.Tuple) and len(stacks[0].args[0].elts) == 2 \
            and unparse(stacks[0].args[0].elts[0]) == "density" and unparse(stacks[0].args[0].elts[1]).endswith("[1]")
        ok_loop = ok_slice and ok_call and ok_stack
    ck.ob("FOLD-rows", construct, bool(ok_first and ok_loop),
          expected="row g = density profile of group g, in the caller's order (grps[0], then grps[1:] stacked below)",
          found={"first": unparse(first) if first is not None else None, "loop": unparse(loop.iter) if loop is not None else None},
          slot="row-order", where=f.loc())
    rets = [n for n in ast.walk(f.node) if isinstance(n, ast.Return)]
    okr = len(rets) == 1 and isinstance(rets[0].value, ast.Tuple) and len(rets[0].value.elts) == 2 \
        and unparse(rets[0].value.elts[0]).endswith("[0]") and unparse(rets[0].value.elts[1]) == "density"
    ck.ob("FOLD-rows", construct, okr, expected="(positions from the profile call, stacked densities)",
          found=unparse(rets[0].value) if rets else None, slot="return", where=f.loc())
