"""C07 - SCD equals the Sawle-Ghosh sequence charge decoration.

Decides, in exact arithmetic: the pair domain (after shifting to array indices: all 0 <= j < i <= N-1), the term
q_i * q_j * (i-j)^(1/2), the initial value 0, the final division by N, that the function reads the sequence
only through the charge pattern, and the API wrapper.  Float error is not bounded."""
import ast

from lcsa.alg import Rat
from lcsa.lin import Lin, feasible
from lcsa.model import Undecided, unparse
from lcsa.ref import ref_program
from lcsa.sym import Evaluator, Path, ObjV, _Frame, FUNC_REG, subst_deep, fatom, deep_atoms
from props.common import SEQ, SEQ_PATH, check_charge_map, check_api


def _is_early_exit(s):
    """`if <guard>: [messages;] return <number>` (the number possibly signed)"""
    if not (isinstance(s, ast.If) and not s.orelse and s.body and isinstance(s.body[-1], ast.Return) and s.body[-1].value is not None):
        return False
    if not all(isinstance(x, ast.Expr) and isinstance(x.value, (ast.Call, ast.Constant)) for x in s.body[:-1]):
        return False
    v = s.body[-1].value
    if isinstance(v, ast.UnaryOp) and isinstance(v.op, (ast.USub, ast.UAdd)):
        v = v.operand
    return isinstance(v, ast.Constant) and isinstance(v.value, (int, float)) and not isinstance(v.value, bool)


def pair_sum(prog, f, ev):
    """normal form of `acc = 0; for u in range(..): for v in range(..): acc += term; return g(acc)`"""
    body = f.body()
    loops = [s for s in body if isinstance(s, ast.For)]
    rets = [s for s in body if isinstance(s, ast.Return)]
    if len(loops) != 1 or len(rets) != 1:
        raise Undecided("expected one outer loop and one return", f.loc())
    outer = loops[0]
    if not (len(outer.body) == 1 and isinstance(outer.body[0], ast.For)):
        raise Undecided("outer loop body is not a single inner loop", f.loc(outer))
    inner = outer.body[0]
    fr = _Frame(f, 0)
    env = {"self": ObjV("Sequence")}
    # initial values
    for s in body:
        if s is outer:
            break
        if isinstance(s, ast.Assign) and isinstance(s.targets[0], ast.Name):
            env[s.targets[0].id] = ev.eval(s.value, env, fr)
        elif _is_early_exit(s):
            continue                       # an early answer on a guard: judged by early_exits(), the fold below is what runs otherwise
        elif not (isinstance(s, ast.Expr) and isinstance(s.value, ast.Constant)):
            raise Undecided("statement before the pair loop", f.loc(s))
    u, v = outer.target.id, inner.target.id
    r1 = ev.eval(outer.iter, env, fr)
    env_u = dict(env)
    env_u[u] = Rat.atom("@u")
    r2 = ev.eval(inner.iter, env_u, fr)
    env_uv = dict(env_u)
    env_uv[v] = Rat.atom("@v")
    accs = [n for n in env if isinstance(env[n], Rat)]
    for a in accs:
        env_uv[a] = Rat.atom("@acc:" + a)
    res = ev.exec_block(inner.body, [Path([], "live", None, env_uv)], fr)
    if len(res) != 1 or res[0].kind != "live":
        raise Undecided("pair loop body branches or leaves the loop", f.loc(inner))
    changed = [a for a in accs if not res[0].env[a].equals(Rat.atom("@acc:" + a))]
    if len(changed) != 1:
        raise Undecided("pair loop must update exactly one accumulator", f.loc(inner))
    acc = changed[0]
    term = res[0].env[acc] - Rat.atom("@acc:" + acc)
    if ("@acc:" + acc) in term.atoms():
        raise Undecided("accumulator not updated additively", f.loc(inner))
    init = env[acc]
    # element atoms and their indices
    els = [a for a in deep_atoms(term) if a in FUNC_REG and FUNC_REG[a][0].startswith("el:")]
    reads = sorted({FUNC_REG[a][0][3:] for a in els})
    idx = {}
    for a in els:
        i = FUNC_REG[a][1][0]
        lin = i.n.linear() if i.d.is_const() else None
        if lin is None:
            raise Undecided("element index not affine", f.loc(inner))
        co, c = lin
        d = i.d.const_value()
        co = {k: x / d for k, x in co.items()}
        if len(co) != 1 or list(co.values())[0] != 1:
            raise Undecided("element index is not loop variable + constant", f.loc(inner))
        idx[list(co)[0]] = c / d
    if set(idx) != {"@u", "@v"}:
        raise Undecided("term does not read one element per loop variable (reads %s)" % sorted(idx), f.loc(inner))
    # change of variables to element indices I (outer) and J (inner)
    sub = {"@u": Rat.atom("I") - Rat.const(idx["@u"]), "@v": Rat.atom("J") - Rat.const(idx["@v"])}
    term_ij = subst_deep(term, sub)
    dom = []
    for var, rng, s in (("@u", r1, {}), ("@v", r2, sub)):
        lo = subst_deep(rng.lo, sub)
        hi = subst_deep(rng.hi, sub)
        x = subst_deep(Rat.atom(var), sub)
        dom.append(_le(lo, x))                 # lo <= x
        dom.append(_le(x, hi - Rat.const(1)))  # x <= hi-1   (integers)
    # result expression over the accumulator
    env_r = dict(env)
    env_r[acc] = Rat.atom("PAIRSUM")
    out = ev.eval(rets[0].value, env_r, fr)
    return {"term": term_ij, "domain": dom, "init": init, "result": out, "reads": reads,
            "loc": f.loc(outer), "raw_term": term, "ranges": [repr(r1.lo), repr(r1.hi), repr(r2.lo), repr(r2.hi)]}


def _le(a, b):
    d = a - b
    lin = d.n.linear() if d.d.is_const() else None
    if lin is None:
        raise Undecided("loop bound not affine")
    co, c = lin
    k = d.d.const_value()
    return Lin({x: y / k for x, y in co.items()}, c / k, "<=")


def dom_subset(a, b):
    """every point of a satisfies b (over Q, N >= 1) ?  returns the violated constraint or None"""
    base = list(a) + [Lin({"N": -1}, 1, "<=")]
    for c in b:
        for alt in c.neg():
            # integers: strict a<b  ==  a <= b-1
            if alt.op == "<":
                alt = Lin(alt.co, alt.c + 1, "<=")
            if feasible(base + [alt]):
                return c
    return None


def swap_ij(nf):
    sub = {"I": Rat.atom("J"), "J": Rat.atom("I")}
    tmp = {"I": Rat.atom("__t")}
    t = subst_deep(subst_deep(subst_deep(nf["term"], tmp), {"J": Rat.atom("I")}), {"__t": Rat.atom("J")})
    dom = []
    for c in nf["domain"]:
        co = dict(c.co)
        i, j = co.pop("I", 0), co.pop("J", 0)
        if j:
            co["I"] = j
        if i:
            co["J"] = i
        dom.append(Lin(co, c.c, c.op))
    out = dict(nf)
    out["term"], out["domain"] = t, dom
    return out


def early_exits(ck, prog, f, construct):
    """`if <guard on the charge counts>: return <constant>` in front of the pair fold.  Proof: the guard leaves fewer than two charged
    residues (no pair contributes) and the constant is 0.  Refutation by lemma: with two or more charges all of one sign every pair term is
    positive (SCD > 0); with exactly one positive and one negative charge the single term is negative (SCD < 0) - a guard that holds for a
    representative composition of either family while returning 0 answers wrongly.  Anything else is undecided."""
    from lcsa.dt import feasible_with
    from lcsa.sym import fmt_conds
    body = f.body()
    outer = next((s_ for s_ in body if isinstance(s_, ast.For)), None)
    n = 0
    judged = []
    for s_ in body:
        if s_ is outer:
            break
        if not _is_early_exit(s_):
            continue
        rv = s_.body[-1].value
        const = -rv.operand.value if isinstance(rv, ast.UnaryOp) and isinstance(rv.op, ast.USub) else (rv.operand.value if isinstance(rv, ast.UnaryOp) else rv.value)
        judged.append(s_.body[-1])
        ev = Evaluator(prog)
        c = ev.cond(s_.test, {"self": ObjV(f.cls)}, _Frame(f, 0))
        atoms = set()
        from props.C01 import _cond_atoms
        atoms = _cond_atoms(c) if not isinstance(c, bool) else set()
        ck.shape(atoms <= {"npos", "nneg", "nneut", "N"}, "sequence_charge_decoration: early return on something other than the charge counts (%s)" % unparse(s_.test)[:60], f.loc(s_))
        comp = [Lin({"npos": -1}, 0, "<="), Lin({"nneg": -1}, 0, "<="), Lin({"nneut": -1}, 0, "<="),
                Lin({"N": 1, "npos": -1, "nneg": -1, "nneut": -1}, 0, "<="), Lin({"N": -1, "npos": 1, "nneg": 1, "nneut": 1}, 0, "<=")]
        ints = {"npos", "nneg", "nneut", "N"}
        n += 1
        # proof
        two = feasible_with([c], comp + [Lin({"npos": -1, "nneg": -1}, 2, "<=")], set(), int_atoms=ints)
        if two is None and const == 0:
            ck.ob("FOLD-early-exit", construct, True, expected="fewer than two charged residues: no pair contributes, SCD = 0", found=unparse(s_.test), slot="early@%d" % (s_.lineno - f.node.lineno), where=f.loc(s_))
            continue
        # refutation
        fams = {"two or more charges, all positive (every pair term is positive)": ([(2, 0, 0), (3, 0, 5), (10, 0, 1)], 1),
                "two or more charges, all negative (every pair term is positive)": ([(0, 2, 0), (0, 3, 5), (0, 10, 1)], 1),
                "exactly one positive and one negative charge (the only pair term is negative)": ([(1, 1, 0), (1, 1, 7)], -1),
                "no charged residue at all (SCD is 0)": ([(0, 0, 1), (0, 0, 10)], 0),
                "a single charged residue (no pair, SCD is 0)": ([(1, 0, 4), (0, 1, 9)], 0)}
        hit = None
        for fam, (reps, sgn) in fams.items():
            if (const > 0) - (const < 0) == sgn:
                continue
            for (a_, b_, c_) in reps:
                fix = [Lin({"npos": 1}, -a_, "=="), Lin({"nneg": 1}, -b_, "=="), Lin({"nneut": 1}, -c_, "=="), Lin({"N": 1}, -(a_ + b_ + c_), "==")]
                if feasible_with([c], fix, set(), int_atoms=ints) is not None:
                    hit = (fam, (a_, b_, c_))
                    break
            if hit:
                break
        ck.shape(hit is not None, "sequence_charge_decoration: early return %r under %s - neither provably right nor refuted by the lemma" % (const, unparse(s_.test)[:50]), f.loc(s_))
        ck.ob("FOLD-early-exit", construct, False, expected="SCD of the pair fold", found={"returns": const, "when": unparse(s_.test), "e.g. (n+, n-, n0)": list(hit[1]), "family": hit[0]},
              slot="early@%d" % (s_.lineno - f.node.lineno), where=f.loc(s_), note="the guard covers sequences whose charge decoration is not %r" % const)
    return judged


def run(ck, prog):
    from props.common import check_memos
    ck.attempt(check_memos, ck, prog)
    ck.explanation = (
        "The double loop of sequence_charge_decoration is summarised as a pair fold: loop ranges (affine), the "
        "accumulated term as an exact rational normal form with atoms for the two charges and (i-j)^(1/2), shifted "
        "to array indices; domain equality with the reference {0<=j<i<=N-1} is decided by Fourier-Motzkin in both "
        "directions, the term by polynomial identity, the post-processing by normal form (PAIRSUM/N).")
    ck.assumptions += ["float evaluation differs from the exact value by rounding only (not analysed)"]
    ck.attempt(check_charge_map, ck, prog)
    f = prog.fn(SEQ, "Sequence.sequence_charge_decoration")
    construct = SEQ_PATH + ":Sequence.sequence_charge_decoration"
    ck.attempt(early_exits, ck, prog, f, construct)
    code = pair_sum(prog, f, Evaluator(prog))
    rp = ref_program()
    ref = pair_sum(rp, rp.fn("ref.py", "Sequence.sequence_charge_decoration"), Evaluator(rp))
    ck.sample({"code_term": repr(code["term"]), "ranges": code["ranges"], "reads": code["reads"]})
    # orientation: allow the roles of the two loop variables to be exchanged
    cands = [code, swap_ij(code)]
    best = None
    for cnd in cands:
        a = dom_subset(cnd["domain"], ref["domain"])
        b = dom_subset(ref["domain"], cnd["domain"])
        if a is None and b is None:
            best = cnd
            break
    ck.ob("FOLD-pair-domain", construct, best is not None,
          expected="all pairs 0 <= j < i <= N-1 (residue pairs m>n)",
          found={"ranges": code["ranges"], "missing_or_extra": repr(dom_subset(ref["domain"], code["domain"]) or
                                                                    dom_subset(code["domain"], ref["domain"]))},
          slot="domain", where=code["loc"])
    cnd = best or code
    ck.ob("ALG-term", construct, cnd["term"].equals(ref["term"]), expected=repr(ref["term"]), found=repr(cnd["term"]),
          slot="term", where=code["loc"], note="q_m * q_n * (m-n)^(1/2)")
    ck.ob("ALG-init", construct, isinstance(code["init"], Rat) and code["init"].equals(Rat.const(0)), expected="0",
          found=repr(code["init"]), slot="init", where=f.loc())
    ck.ob("ALG-result", construct, isinstance(code["result"], Rat) and code["result"].equals(ref["result"]),
          expected=repr(ref["result"]), found=repr(code["result"]), slot="result", where=f.loc(),
          note="(1/N) * sum")
    ck.ob("DEP", construct, code["reads"] == ["cp"], expected=["cp"], found=code["reads"], slot="reads",
          where=f.loc(), note="SCD reads the sequence only through its charge pattern")
    g = prog.fn("sequenceParameters.py", "SequenceParameters.get_SCD")
    judged = ck.attempt(early_exits, ck, prog, g, g.mod.relpath + ":" + g.qual) or []
    ck.attempt(check_api, ck, prog, [("get_SCD", "sequence_charge_decoration", None)], skip_returns={id(r) for r in judged})
