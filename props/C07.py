"""C07 - SCD equals the Sawle-Ghosh sequence charge decoration.

Decides, in exact arithmetic: the pair domain (after shifting to array indices: all 0 <= j < i <= N-1), the term
q_i * q_j * (i-j)^(1/2), the initial value 0, the final division by N, that the function reads the sequence
only through the charge pattern, and the API wrapper.  Float error is not bounded."""
import ast

from lcsa.alg import Rat
from lcsa.lin import Lin, feasible
from lcsa.model import Undecided, unparse
from lcsa.ref import ref_program
from lcsa.sym import Evaluator, Path, ObjV, _Frame, FUNC_REG, subst_deep, fatom, deep_atoms
from props.common import SEQ, SEQ_PATH, check_charge_map, check_api


def pair_sum(prog, f, ev):
    """normal form of `acc = 0; for u in range(..): for v in range(..): acc += term; return g(acc)`"""
    body = f.body()
    loops = [s for s in body if isinstance(s, ast.For)]
    rets = [s for s in body if isinstance(s, ast.Return)]
    if len(loops) != 1 or len(rets) != 1:
        raise Undecided("expected one outer loop and one return", f.loc())
    outer = loops[0]
    if not (len(outer.body) == 1 and isinstance(outer.body[0], ast.For)):
        raise Undecided("outer loop body is not a single inner loop", f.loc(outer))
    inner = outer.body[0]
    fr = _Frame(f, 0)
    env = {"self": ObjV("Sequence")}
    # initial values
    for s in body:
        if s is outer:
            break
        if isinstance(s, ast.Assign) and isinstance(s.targets[0], ast.Name):
            env[s.targets[0].id] = ev.eval(s.value, env, fr)
        elif not (isinstance(s, ast.Expr) and isinstance(s.value, ast.Constant)):
            raise Undecided("statement before the pair loop", f.loc(s))
    u, v = outer.target.id, inner.target.id
    r1 = ev.eval(outer.iter, env, fr)
    env_u = dict(env)
    env_u[u] = Rat.atom("@u")
    r2 = ev.eval(inner.iter, env_u, fr)
    env_uv = dict(env_u)
    env_uv[v] = Rat.atom("@v")
    accs = [n for n in env if isinstance(env[n], Rat)]
    for a in accs:
        env_uv[a] = Rat.atom("@acc:" + a)
    res = ev.exec_block(inner.body, [Path([], "live", None, env_uv)], fr)
    if len(res) != 1 or res[0].kind != "live":
        raise Undecided("pair loop body branches or leaves the loop", f.loc(inner))
    changed = [a for a in accs if not res[0].env[a].equals(Rat.atom("@acc:" + a))]
    if len(changed) != 1:
        raise Undecided("pair loop must update exactly one accumulator", f.loc(inner))
    acc = changed[0]
    term = res[0].env[acc] - Rat.atom("@acc:" + acc)
    if ("@acc:" + acc) in term.atoms():
        raise Undecided("accumulator not updated additively", f.loc(inner))
    init = env[acc]
    # element atoms and their indices
    els = [a for a in deep_atoms(term) if a in FUNC_REG and FUNC_REG[a][0].startswith("el:")]
    reads = sorted({FUNC_REG[a][0][3:] for a in els})
    idx = {}
    for a in els:
        i = FUNC_REG[a][1][0]
        lin = i.n.linear() if i.d.is_const() else None
        if lin is None:
            raise Undecided("element index not affine", f.loc(inner))
        co, c = lin
        d = i.d.const_value()
        co = {k: x / d for k, x in co.items()}
        if len(co) != 1 or list(co.values())[0] != 1:
            raise Undecided("element index is not loop variable + constant", f.loc(inner))
        idx[list(co)[0]] = c / d
    if set(idx) != {"@u", "@v"}:
        raise Undecided("term does not read one element per loop variable (reads %s)" % sorted(idx), f.loc(inner))
    # change of variables to element indices I (outer) and J (inner)
    sub = {"@u": Rat.atom("I") - Rat.const(idx["@u"]), "@v": Rat.atom("J") - Rat.const(idx["@v"])}
    term_ij = subst_deep(term, sub)
    dom = []
    for var, rng, s in (("@u", r1, {}), ("@v", r2, sub)):
        lo = subst_deep(rng.lo, sub)
        hi = subst_deep(rng.hi, sub)
        x = subst_deep(Rat.atom(var), sub)
        dom.append(_le(lo, x))                 # lo <= x
        dom.append(_le(x, hi - Rat.const(1)))  # x <= hi-1   (integers)
    # result expression over the accumulator
    env_r = dict(env)
    env_r[acc] = Rat.atom("PAIRSUM")
    out = ev.eval(rets[0].value, env_r, fr)
    return {"term": term_ij, "domain": dom, "init": init, "result": out, "reads": reads,
            "loc": f.loc(outer), "raw_term": term, "ranges": [repr(r1.lo), repr(r1.hi), repr(r2.lo), repr(r2.hi)]}


def _le(a, b):
    d = a - b
    lin = d.n.linear() if d.d.is_const() else None
    if lin is None:
        raise Undecided("loop bound not affine")
    co, c = lin
    k = d.d.const_value()
    return Lin({x: y / k for x, y in co.items()}, c / k, "<=")


def dom_subset(a, b):
    """every point of a satisfies b (over Q, N >= 1) ?  returns the violated constraint or None"""
    base = list(a) + [Lin({"N": -1}, 1, "<=")]
    for c in b:
        for alt in c.neg():
            # integers: strict a<b  ==  a <= b-1
            if alt.op == "<":
                alt = Lin(alt.co, alt.c + 1, "<=")
            if feasible(base + [alt]):
                return c
    return None


def swap_ij(nf):
    sub = {"I": Rat.atom("J"), "J": Rat.atom("I")}
    tmp = {"I": Rat.atom("__t")}
    t = subst_deep(subst_deep(subst_deep(nf["term"], tmp), {"J": Rat.atom("I")}), {"__t": Rat.atom("J")})
    dom = []
    for c in nf["domain"]:
        co = dict(c.co)
        i, j = co.pop("I", 0), co.pop("J", 0)
        if j:
            co["I"] = j
        if i:
            co["J"] = i
        dom.append(Lin(co, c.c, c.op))
    out = dict(nf)
    out["term"], out["domain"] = t, dom
    return out


def run(ck, prog):
    from props.common import check_memos
    ck.attempt(check_memos, ck, prog)
    ck.explanation = (
        "The double loop of sequence_charge_decoration is summarised as a pair fold: loop ranges (affine), the "
        "accumulated term as an exact rational normal form with atoms for the two charges and (i-j)^(1/2), shifted "
        "to array indices; domain equality with the reference {0<=j<i<=N-1} is decided by Fourier-Motzkin in both "
        "directions, the term by polynomial identity, the post-processing by normal form (PAIRSUM/N).")
    ck.assumptions += ["float evaluation differs from the exact value by rounding only (not analysed)"]
    ck.attempt(check_charge_map, ck, prog)
    f = prog.fn(SEQ, "Sequence.sequence_charge_decoration")
    construct = SEQ_PATH + ":Sequence.sequence_charge_decoration"
    code = pair_sum(prog, f, Evaluator(prog))
    rp = ref_program()
    ref = pair_sum(rp, rp.fn("ref.py", "Sequence.sequence_charge_decoration"), Evaluator(rp))
    ck.sample({"code_term": repr(code["term"]), "ranges": code["ranges"], "reads": code["reads"]})
    # orientation: allow the roles of the two loop variables to be exchanged
    cands = [code, swap_ij(code)]
    best = None
    for cnd in cands:
        a = dom_subset(cnd["domain"], ref["domain"])
        b = dom_subset(ref["domain"], cnd["domain"])
        if a is None and b is None:
            best = cnd
            break
    ck.ob("FOLD-pair-domain", construct, best is not None,
          expected="all pairs 0 <= j < i <= N-1 (residue pairs m>n)",
          found={"ranges": code["ranges"], "missing_or_extra": repr(dom_subset(ref["domain"], code["domain"]) or
                                                                    dom_subset(code["domain"], ref["domain"]))},
          slot="domain", where=code["loc"])
    cnd = best or code
    ck.ob("ALG-term", construct, cnd["term"].equals(ref["term"]), expected=repr(ref["term"]), found=repr(cnd["term"]),
          slot="term", where=code["loc"], note="q_m * q_n * (m-n)^(1/2)")
    ck.ob("ALG-init", construct, isinstance(code["init"], Rat) and code["init"].equals(Rat.const(0)), expected="0",
          found=repr(code["init"]), slot="init", where=f.loc())
    ck.ob("ALG-result", construct, isinstance(code["result"], Rat) and code["result"].equals(ref["result"]),
          expected=repr(ref["result"]), found=repr(code["result"]), slot="result", where=f.loc(),
          note="(1/N) * sum")
    ck.ob("DEP", construct, code["reads"] == ["cp"], expected=["cp"], found=code["reads"], slot="reads",
          where=f.loc(), note="SCD reads the sequence only through its charge pattern")
    ck.attempt(check_api, ck, prog, [("get_SCD", "sequence_charge_decoration", None)])
