"""C13 - sequence strings are normalised or rejected, never silently altered.

Decides: the type check dominates everything and rejects non-str; with validation, upper-casing precedes the
per-character filter; the filter's decision table over characters (amino-acid letter -> kept in order, whitespace ->
dropped, anything else -> exception); a blank/empty result cannot be returned (an unguarded division by the length
of the filtered word dominates the return; SequenceParameters rejects two empty inputs); the object's sequence,
length and charge pattern derive from the normalised word only; the string branch asks for validation; the three
accessors read the stored word."""
import ast

from lcsa.alg import Rat
from lcsa.model import Undecided, unparse, is_self_attr
from lcsa.sym import Evaluator, Path, ObjV, SeqV, StrMapV, _Frame, LETTERS
from lcsa import tab, facts, bind
from props.common import SEQ, SP, SEQ_PATH

UNIVERSE = [chr(i) for i in range(0, 256)] + [" ", "　", " ", "А", "Ω", "é", "​", "﻿"]


def run(ck, prog):
    from props.common import check_memos
    ck.attempt(check_memos, ck, prog)
    ck.explanation = (
        "validateSequence's loop body is folded for every character of a 264-character universe (all Latin-1 code "
        "points plus Unicode spaces and look-alike letters): the body tests the character only through membership in "
        "the 20 keys of ONE_TO_THREE and str.isspace(), so this decides its partition. Constructor ordering is a "
        "typestate walk (raw -> upper-cased -> validated) over Sequence.__init__; dominance facts are read from the "
        "statement structure.")
    ck.assumptions += ["semantics of str.upper / str.isspace / len as in CPython"]
    for step in (_letters, _validate, _ctor, _verify_type, _sp_init, _accessors):
        ck.attempt(step, ck, prog)


def _letters(ck, prog):
    o2t = tab.global_literal(prog, tab.AA, "ONE_TO_THREE")
    ck.ob("TAB", "localcider/backend/data/aminoacids.py:ONE_TO_THREE", sorted(o2t) == sorted(LETTERS), expected=sorted(LETTERS),
          found=sorted(o2t), slot="keys", note="the whitelist is the 20 standard one-letter codes")
    t2o = tab.global_literal(prog, tab.AA, "THREE_TO_ONE")
    ck.ob("TAB", "localcider/backend/data/aminoacids.py:THREE_TO_ONE", all(t2o.get(v) == k for k, v in o2t.items()) and len(t2o) == 20,
          expected="inverse of ONE_TO_THREE", found=len(t2o), slot="inverse")


def _validate(ck, prog):
    f = prog.fn(SEQ, "Sequence.validateSequence")
    construct = SEQ_PATH + ":Sequence.validateSequence"
    body = f.body()
    loops = [s for s in body if isinstance(s, ast.For)]
    if len(loops) != 1:
        raise Undecided("validateSequence: expected one loop", f.loc())
    loop = loops[0]
    param = f.params()[1]
    it = loop.iter
    if isinstance(it, ast.Call) and getattr(it.func, "id", None) == "enumerate" and it.args:
        it = it.args[0]
    ck.shape(isinstance(it, ast.Name), "validateSequence: loop over a string variable", f.loc(loop))
    ck.ob("PART-filter", construct, it.id == param, expected="loop over every character of the argument", found=unparse(loop.iter), slot="domain", where=f.loc(loop))
    if it.id != param:
        return
    ev = Evaluator(prog)
    ev.universe = UNIVERSE
    fr = _Frame(f, 0)
    env = {"self": ObjV("Sequence"), param: SeqV("seq")}
    for s in body[:body.index(loop)]:
        if isinstance(s, ast.Assign) and isinstance(s.targets[0], ast.Name):
            env[s.targets[0].id] = ev.eval(s.value, env, fr)
    from lcsa.sym import FlagDependent
    try:
        res = ev.exec_for(loop, Path([], "live", None, env), fr)
    except FlagDependent as fd:
        # the treatment of a character depends on a flag set by an earlier character: both treatments are reachable, and at most one of
        # them is the required one
        c = fd.letter

        def cls(sg):
            if sg[0] == "raise":
                return ("raise", None)
            texts = [t for _, t in sg[3]] + [t for _, t in sg[2]]
            txt = next((t for t in texts if t not in (None, "[]")), "")
            return ("drop", "") if txt in ("", "[]") else ("keep", txt)
        want = ("keep", c) if c in LETTERS else (("drop", "") if c.isspace() else ("raise", None))
        got = {"at first": cls(fd.first), "once %s" % fd.valuation: cls(fd.later)}
        ck.shape(any(v[0] != want[0] for v in got.values()), "validateSequence: treatment of %r varies with %s in a way lcsa cannot classify" % (c, fd.valuation), f.loc(loop))
        ck.ob("PART-filter", construct, False, expected=want, found=got, slot="char U+%04X" % ord(c), where=f.loc(loop),
              note="amino-acid letter kept; whitespace dropped; anything else rejected with an exception - wherever in the word it stands")
        return
    live = [p for p in res if p.kind == "live"]
    if len(live) != 1:
        raise Undecided("validateSequence loop: %d completing paths" % len(live), f.loc(loop))
    rets = [s for s in body if isinstance(s, ast.Return)]
    if len(rets) != 1 or not isinstance(rets[0].value, ast.Name):
        raise Undecided("validateSequence: expected `return <name>`", f.loc())
    out = live[0].env.get(rets[0].value.id)
    if not isinstance(out, StrMapV):
        raise Undecided("validateSequence does not return the filtered string it built", f.loc(rets[0]))
    raises = ev.last_loop["raises"]
    n = 0
    for c in UNIVERSE:
        if c in LETTERS:
            want = ("keep", c)
        elif c.isspace():
            want = ("drop", "")
        else:
            want = ("raise", None)
        if c in raises:
            got = ("raise", None)
        elif out.table.get(c) == "":
            got = ("drop", "")
        else:
            got = ("keep", out.table.get(c))
        ck.ob("PART-filter", construct, got == want, expected=want, found=got, slot="char U+%04X" % ord(c), where=f.loc(loop),
              note="amino-acid letter kept; whitespace dropped; anything else rejected with an exception")
        n += 1
    ck.count("character classes decided", n)
    ck.floor("character classes decided", n, 256)
    # a blank word cannot be returned: an unconditional division by its length precedes the return
    div = None
    for s in body[body.index(loop) + 1:]:
        if isinstance(s, (ast.Assign, ast.Expr)):
            for nd in ast.walk(s):
                if isinstance(nd, ast.BinOp) and isinstance(nd.op, ast.Div):
                    r = nd.right
                    if isinstance(r, ast.Call) and getattr(r.func, "id", None) == "float" and r.args:
                        r = r.args[0]
                    if isinstance(r, ast.Call) and getattr(r.func, "id", None) == "len" and r.args \
                            and unparse(r.args[0]) == rets[0].value.id:
                        div = s
        if isinstance(s, ast.Return):
            break
    explicit = any(isinstance(s, ast.If) and any(isinstance(x, ast.Raise) for x in ast.walk(s))
                   and rets[0].value.id in unparse(s.test) for s in body[body.index(loop) + 1:])
    ck.ob("MUST-nonempty", construct, div is not None or explicit,
          expected="an empty filtered word cannot be returned (division by its length, or an explicit raise, dominates the return)",
          found=unparse(div)[:90] if div is not None else ("explicit raise" if explicit else None), slot="blank-rejected",
          where=f.loc(div) if div is not None else f.loc())


def _ctor(ck, prog):
    f = prog.fn(SEQ, "Sequence.__init__")
    construct = SEQ_PATH + ":Sequence.__init__"
    body = f.body()
    # (1) the type check: it raises for a non-str and nothing uses `seq` before it
    tc = None
    for st in body:
        if isinstance(st, ast.If) and any(isinstance(x, ast.Raise) for x in st.body):
            t = unparse(st.test).replace(" ", "")
            if t in ("notverifyType(seq,str)", "notisinstance(seq,str)", "type(seq)!=str", "type(seq)isnotstr", "nottype(seq)==str", "nottype(seq)isstr"):
                tc = st
                break
    ck.shape(tc is not None, "Sequence.__init__: a str type check on `seq` that raises", f.loc())
    before = body[:body.index(tc)]
    uses = [unparse(st)[:60] for st in before if any(isinstance(n, ast.Name) and n.id == "seq" for n in ast.walk(st))]
    ck.ob("ORDER-typecheck", construct, not uses, expected="the type check precedes every use of the argument", found=uses or "nothing uses seq before the check",
          slot="type-check-first", where=f.loc(tc))
    # (2) typestate of `seq`
    tags = {"raw"}
    problems = []
    stored = {}

    def expr_tags(node, tags):
        """tags of an expression derived from the variable seq"""
        if isinstance(node, ast.Name) and node.id == "seq":
            return set(tags)
        if isinstance(node, ast.Call) and isinstance(node.func, ast.Attribute) and node.func.attr == "upper" and not node.args:
            t = expr_tags(node.func.value, tags)
            return (t | {"upper"}) if t is not None else None
        if isinstance(node, ast.Call) and isinstance(node.func, ast.Attribute) and node.func.attr == "validateSequence" \
                and len(node.args) == 1:
            t = expr_tags(node.args[0], tags)
            if t is None:
                return None
            if "upper" not in t:
                problems.append("validateSequence applied before upper-casing")
            return t | {"validated"}
        return None

    def walk(stmts, tags, validating):
        for s in stmts:
            if isinstance(s, ast.If) and isinstance(s.test, ast.Name) and s.test.id == "validateSeq":
                tags = walk(s.body, tags, True)
                continue
            if isinstance(s, ast.Assign) and len(s.targets) == 1:
                t = s.targets[0]
                if isinstance(t, ast.Name) and t.id == "seq":
                    nt = expr_tags(s.value, tags)
                    if nt is None:
                        problems.append("seq rebound to something not derived from it: " + unparse(s.value)[:60])
                        nt = set()
                    tags = nt
                elif is_self_attr(t, "seq"):
                    stored["seq"] = expr_tags(s.value, tags)
                elif is_self_attr(t, "len"):
                    v = s.value
                    if isinstance(v, ast.Call) and getattr(v.func, "id", None) == "len" and len(v.args) == 1:
                        a = v.args[0]
                        stored["len"] = expr_tags(a, tags) if not is_self_attr(a, "seq") else stored.get("seq")
                    else:
                        stored["len"] = None
        return tags
    final = walk(body, tags, False)
    ck.ob("TYPESTATE", construct, not problems and "validated" in final and "upper" in final,
          expected="on the validating path: raw -> upper-cased -> validated", found={"final": sorted(final), "problems": problems},
          slot="validate-order", where=f.loc())
    ck.ob("DEP", construct, stored.get("seq") is not None and {"validated", "upper"} <= stored["seq"],
          expected="self.seq is the validated, upper-cased word", found=sorted(stored.get("seq") or []), slot="self.seq", where=f.loc())
    ck.ob("DEP", construct, stored.get("len") is not None and "validated" in stored["len"],
          expected="self.len = len(<validated word>)", found=sorted(stored.get("len") or []), slot="self.len", where=f.loc())
    # (3) charge pattern derives from self.seq / self.len  (facts.charge_map already requires the loop shape)
    cmap, _, loop = facts.charge_map(prog)
    for where_, cond_, val_ in facts.ANOMALIES:
        ck.ob("DEP", construct, False, expected="object state derives from the normalised word alone", found={"when": cond_, "charge pattern": val_}, slot="chargePattern-path", where=where_)
    reads = {unparse(n) for n in ast.walk(loop) if isinstance(n, ast.Attribute) and is_self_attr(n) and isinstance(n.ctx, ast.Load)}
    ck.ob("DEP", construct, reads <= {"self.seq", "self.len"} and "self.seq" in reads,
          expected="charge pattern built from self.seq over range(self.len)", found=sorted(reads), slot="chargePattern", where=f.loc(loop))
    if isinstance(loop, ast.For):
        rng = unparse(loop.iter).replace(" ", "")
        forms = ("np.arange(0,self.len)", "range(0,self.len)", "range(self.len)", "np.arange(self.len)", "self.seq", "range(len(self.seq))", "range(0,len(self.seq))", "enumerate(self.seq)")
        whole = rng in forms
        if not whole:
            # the iterable is evaluated: the whole sequence (a slice [0, len) of it included) or the index range [0, len)
            from lcsa.sym import Evaluator, ObjV, SeqV, WinV, ARangeV, _Frame
            from lcsa.alg import Rat
            try:
                it = Evaluator(prog).eval(loop.iter, {"self": ObjV("Sequence")}, _Frame(f, 0))
            except Undecided:
                it = None
            zero, n = Rat.const(0), Rat.atom("N")
            if isinstance(it, WinV) and it.base.kind == "seq" and isinstance(it.lo, Rat) and isinstance(it.hi, Rat):
                whole = it.lo.equals(zero) and it.hi.equals(n)
            elif isinstance(it, ARangeV):
                whole = it.lo.equals(zero) and it.hi.equals(n)
            elif isinstance(it, SeqV) and it.kind == "seq":
                whole = True
            else:
                ck.shape(False, "Sequence.__init__: charge-pattern loop over a range or over the sequence", f.loc(loop))
        ck.ob("DEP", construct, whole, expected="every position 0..len-1", found=rng, slot="chargePattern-domain", where=f.loc(loop))
    else:
        # direct store of a per-residue expression: facts.charge_map accepted it only as an element-wise map of the whole of self.seq
        ck.ob("DEP", construct, True, expected="every position 0..len-1", found="element-wise map of self.seq", slot="chargePattern-domain", where=f.loc(loop))


def _verify_type(ck, prog):
    g = prog.fn("backend/backendtools.py", "verifyType")
    construct = g.mod.relpath + ":verifyType"
    tries = [s for s in g.body() if isinstance(s, ast.Try)]
    stmts = tries[0].body if tries else g.body()
    asg = [s for s in stmts if isinstance(s, ast.Assign)]
    ifs = [s for s in stmts if isinstance(s, ast.If)]
    direct = [s for s in stmts if isinstance(s, ast.Return)]
    if direct and not ifs:
        # `return obj.__class__ == typeHere` / `return type(obj) is typeHere`
        t = unparse(direct[0].value).replace(" ", "")
        ck.shape(t in ("obj.__class__==typeHere", "type(obj)==typeHere", "type(obj)istypeHere", "typeHere==obj.__class__"), "verifyType: exact-class test", g.loc())
        ck.ob("DT", construct, True, expected="True iff the class of obj is typeHere", found=t, slot="table", where=g.loc())
        return
    ck.shape(len(asg) >= 1 and len(ifs) == 1 and unparse(asg[0].value).replace(" ", "") in ("obj.__class__", "type(obj)"), "verifyType: class read then tested", g.loc())
    cls_var = asg[0].targets[0].id
    t = ifs[0].test
    ck.shape(isinstance(t, ast.Compare) and len(t.ops) == 1 and {unparse(t.left), unparse(t.comparators[0])} == {cls_var, "typeHere"}
             and len(ifs[0].body) == 1 and len(ifs[0].orelse) == 1 and isinstance(ifs[0].body[0], ast.Return) and isinstance(ifs[0].orelse[0], ast.Return)
             and isinstance(ifs[0].body[0].value, ast.Constant) and isinstance(ifs[0].orelse[0].value, ast.Constant), "verifyType: if <class == typeHere>: return <bool> else: return <bool>",
             g.loc())
    pos = isinstance(t.ops[0], (ast.Eq, ast.Is))
    r1, r2 = ifs[0].body[0].value.value, ifs[0].orelse[0].value.value
    ck.ob("DT", construct, (r1, r2) == ((True, False) if pos else (False, True)), expected="True iff obj.__class__ == typeHere", found={"test": unparse(t), "then": r1, "else": r2},
          slot="table", where=g.loc())


def _sp_init(ck, prog):
    f = prog.fn(SP, "SequenceParameters.__init__")
    construct = f.mod.relpath + ":" + f.qual
    # rejection of two empty inputs
    rej = None
    for s in ast.walk(f.node):
        if isinstance(s, ast.If) and any(isinstance(x, ast.Raise) for x in s.body) and "sequence" in unparse(s.test) and "sequenceFile" in unparse(s.test):
            rej = s
    ck.shape(rej is not None, "SequenceParameters.__init__: a raising test that involves both inputs", f.loc())
    t = unparse(rej.test).replace('"', "'").replace(" ", "")
    forms = ("sequence==''andsequenceFile==''", "sequenceFile==''andsequence==''", "notsequenceandnotsequenceFile", "not(sequenceorsequenceFile)",
             "notsequenceFileandnotsequence")
    ck.shape(t in forms or "or" in t, "SequenceParameters.__init__: emptiness test in a recognised form", f.loc(rej))
    ck.ob("DT", construct, t in forms, expected="raise when both sequence and sequenceFile are empty", found=unparse(rej.test), slot="empty-rejected", where=f.loc(rej))
    # string branch: Sequence(sequence, validateSeq=True)
    def _conv_of_param(a):
        # str(sequence) / repr(sequence) / '%s' % sequence / f'{sequence}' / '{}'.format(sequence): a string whatever the caller passed
        if isinstance(a, ast.Call) and getattr(a.func, "id", "") in ("str", "repr", "format") and len(a.args) >= 1 and isinstance(a.args[0], ast.Name) and a.args[0].id == "sequence":
            return True
        if isinstance(a, ast.Call) and isinstance(a.func, ast.Attribute) and a.func.attr == "format" and isinstance(a.func.value, ast.Constant) \
                and any(isinstance(x, ast.Name) and x.id == "sequence" for x in a.args):
            return True
        if isinstance(a, ast.BinOp) and isinstance(a.op, ast.Mod) and isinstance(a.left, ast.Constant) and isinstance(a.left.value, str) \
                and any(isinstance(x, ast.Name) and x.id == "sequence" for x in ast.walk(a.right)):
            return True
        if isinstance(a, ast.JoinedStr) and any(isinstance(x, ast.Name) and x.id == "sequence" for x in ast.walk(a)):
            return True
        return False
    ctor = [n for n in ast.walk(f.node) if isinstance(n, ast.Call) and prog.class_of_ctor(f.mod, n) == "Sequence" and n.args
            and ((isinstance(n.args[0], ast.Name) and n.args[0].id == "sequence") or _conv_of_param(n.args[0]))]
    ck.shape(len(ctor) == 1, "SequenceParameters.__init__: one Sequence(sequence, ...) construction", f.loc())
    if _conv_of_param(ctor[0].args[0]):
        ck.ob("ORDER-typecheck", construct, False, expected="the object the caller passed reaches Sequence(...), whose type check rejects anything that is not a string",
              found=unparse(ctor[0])[:80], slot="converted-at-the-call", where=f.loc(ctor[0]),
              note="after str(x) every object is a string: float('nan') becomes the sequence 'NAN', any object whose text happens to be made of residue letters is accepted")
    # the caller's object itself must reach the constructor (whose first step is the type check): no rebinding of the parameter on the way
    reb = [n for n in ast.walk(f.node) if isinstance(n, (ast.Assign, ast.AugAssign)) and any(isinstance(x, ast.Name) and x.id == "sequence" and isinstance(x.ctx, ast.Store)
                                                                                            for t in (n.targets if isinstance(n, ast.Assign) else [n.target]) for x in ast.walk(t))]
    for n in reb:
        val = n.value
        conv = isinstance(val, ast.Call) and getattr(val.func, "id", "") in ("str", "repr", "format") or isinstance(val, ast.JoinedStr) \
            or (isinstance(val, ast.Call) and isinstance(val.func, ast.Attribute) and val.func.attr in ("format", "join", "decode"))
        if not conv:
            continue          # some other rebinding (the file branch reading the file, say): judged by the branch rules below
        ck.ob("ORDER-typecheck", construct, False, expected="the object the caller passed reaches Sequence(...), whose type check rejects anything that is not a string",
              found=unparse(n), slot="converted-before-typecheck", where=f.loc(n), note="after str(x) every object is a string: None, numbers and lists are no longer rejected for their type")
    callee, b = bind.bind(prog, f, ctor[0])
    v = b.get("validateSeq")
    ck.ob("BIND", construct, v is not None and isinstance(v, ast.Constant) and v.value is True, expected="Sequence(sequence, validateSeq=True)", found=unparse(ctor[0]),
          slot="string-branch-validates", where=f.loc(ctor[0]), note="without it the string is neither upper-cased-then-validated nor stripped of whitespace")
    guard = None
    for n in ast.walk(f.node):
        if isinstance(n, ast.If) and any(x is ctor[0] for b_ in (n.body, n.orelse) for st in b_ for x in ast.walk(st)):
            guard = n
    ck.shape(guard is not None, "SequenceParameters.__init__: the string branch sits under a test of `sequence`", f.loc())
    t = unparse(guard.test).replace('"', "'").replace(" ", "")
    in_body = any(x is ctor[0] for st in guard.body for x in ast.walk(st))
    pos_forms = ("notsequence==''", "sequence!=''", "not(sequence=='')", "sequence")
    neg_forms = ("sequence==''", "notsequence")
    ck.shape(t in pos_forms + neg_forms, "SequenceParameters.__init__: string-branch guard in a recognised form", f.loc(guard))
    ck.ob("DT", construct, (t in pos_forms) == in_body, expected="string branch taken iff sequence != ''", found=unparse(guard.test), slot="string-branch-guard", where=f.loc(guard))


def _accessors(ck, prog):
    want = {"get_sequence": "seq", "get_length": "N", "__len__": "N"}
    for name, kind in want.items():
        f = prog.fn(SP, "SequenceParameters." + name)
        ev = Evaluator(prog)
        rows = ev.run_function(f, {}, ObjV("SequenceParameters"))
        v = rows[0].value if len(rows) == 1 and rows[0].kind == "return" else None
        if kind == "seq":
            ok = isinstance(v, SeqV) and v.kind == "seq"
        else:
            ok = isinstance(v, Rat) and v.equals(Rat.atom("N"))
        ck.ob("BIND-accessor", f.mod.relpath + ":" + f.qual, ok,
              expected="the stored word" if kind == "seq" else "its length", found=repr(v), slot="reads-normalised-word",
              where=f.loc())
