"""C06 - Omega and kappa_X are kappa of the recoded sequence.

Decides: Omega recodes {P,E,D,K,R} -> one letter and the other fifteen -> another, letter by letter, and returns the
kappa of a fresh object built from exactly that string; Omega_seq marks the same partition with X/O; kappa_X's
one-group branch is the same recoding with the group as parameter (so Omega == kappa_X([P,E,D,K,R])); the two-group
branch maps group 1, group 2, rest to letters whose charge classes are -, +, 0 (so kappa_X([E,D],[K,R]) has the native
charge pattern); groups are upper-cased, de-duplicated, validated against the 20 letters (both groups) and used only
through membership.  Swap / complement identities then follow from C05's inversion invariance (lemma)."""
import ast

from lcsa.alg import Rat
from lcsa.model import Undecided, unparse
from lcsa.sym import Evaluator, ObjV, SeqV, StrMapV, LETTERS
from props.common import SEQ, SP, SEQ_PATH, check_charge_map, check_api, REF_CHARGE

PEDKR = set("PEDKR")
KEY_KAPPA = SEQ + ":Sequence.kappa"


def _ev(prog):
    ev = Evaluator(prog)
    ev.model_ctors = True
    ev.opaque_calls[KEY_KAPPA] = lambda b: ("KAPPA_OF", b.get("self"))
    return ev


def recoded(prog, meth, args):
    """-> ('ok', table, fresh?) | ('raise', name) | ('str', table)"""
    f = prog.fn(SEQ, "Sequence." + meth)
    ev = _ev(prog)
    paths = ev.run_function(f, args, ObjV("Sequence"))
    paths = [p for p in paths if not (p.kind == "raise" and any((not isinstance(c, bool)) and c[0] == "opaque" for c in p.conds))]
    if len(paths) != 1:
        raise Undecided("%s does not reduce to a single path for concrete groups (%d)" % (meth, len(paths)), f.loc())
    p = paths[0]
    if p.kind == "raise":
        return ("raise", p.value)
    v = p.value
    if isinstance(v, StrMapV):
        return ("str", v.table)
    if isinstance(v, tuple) and len(v) == 2 and v[0] == "KAPPA_OF" and isinstance(v[1], ObjV) and v[1].cls == "Sequence":
        o = v[1]
        s = o.fields.get("seq")
        extra = sorted(k for k in o.fields if k.startswith("arg:") and k != "arg:seq")
        if isinstance(s, StrMapV):
            return ("ok", s.table, not extra)
        return ("wrong-object", "kappa of an object that is not built from the recoded string")
    raise Undecided("%s result shape: %r" % (meth, v), f.loc())


def run(ck, prog):
    from props.common import check_memos
    ck.attempt(check_memos, ck, prog)
    ck.explanation = (
        "Each recoding loop is folded per letter (finite case split), with the group arguments chosen so that every "
        "letter meets every membership combination (in group 1?, in group 2?); the continuation is read as `kappa of a "
        "fresh Sequence built from exactly the recoded string`. Composition with the constructor's charge map gives the "
        "charge pattern of the recoded sequence.")
    ck.attempt(_fresh_ctors, ck, prog)
    cmap = check_charge_map(ck, prog)
    # ---------------- Omega / Omega_seq
    f = prog.fn(SEQ, "Sequence.Omega")
    r = recoded(prog, "Omega", {})
    construct = SEQ_PATH + ":Sequence.Omega"
    if r[0] != "ok":
        ck.ob("PART-recode", construct, False, expected="kappa of the recoded sequence", found=r, slot="shape", where=f.loc())
    else:
        _, table, fresh = r
        outs = {table[L] for L in LETTERS}
        for L in LETTERS:
            same_side = (table[L] == table["P"]) == (L in PEDKR)
            ck.ob("PART-recode", construct, same_side, expected="in {P,E,D,K,R}" if L in PEDKR else "other fifteen",
                  found="%s -> %s" % (L, table[L]), slot="Omega[%s]" % L, where=f.loc())
        ck.ob("PART-recode", construct, len(outs) == 2 and all(len(o) == 1 for o in outs), expected="two output letters, one per residue",
              found=sorted(outs), slot="Omega-two-letters", where=f.loc())
        # the two letters must be oppositely charged for kappa to see a binary pattern
        qa, qb = cmap.get(table["P"]), cmap.get(table["A"])
        ck.ob("PART-recode", construct, qa is not None and qb is not None and qa * qb < 0,
              expected="the two recode letters carry opposite charge", found={table["P"]: str(qa), table["A"]: str(qb)},
              slot="Omega-letters-charged", where=f.loc())
        ck.ob("ALIAS-fresh", construct, fresh, expected="Sequence(<recoded string>) with no carried-over state", found=fresh,
              slot="Omega-fresh-object", where=f.loc())
    g = prog.fn(SEQ, "Sequence.Omega_seq")
    r2 = recoded(prog, "Omega_seq", {})
    c2 = SEQ_PATH + ":Sequence.Omega_seq"
    if r2[0] != "str":
        ck.ob("PART-recode", c2, False, expected="the recoded string", found=r2, slot="shape", where=g.loc())
    else:
        for L in LETTERS:
            want = "X" if L in PEDKR else "O"
            ck.ob("PART-recode", c2, r2[1].get(L) == want, expected=want, found=r2[1].get(L), slot="Omega_seq[%s]" % L, where=g.loc())
    # ---------------- kappa_X: four rotations so that every letter sees every (in grp1, in grp2) combination
    h = prog.fn(SEQ, "Sequence.kappa_X")
    c3 = SEQ_PATH + ":Sequence.kappa_X"
    cls = {L: i % 4 for i, L in enumerate(LETTERS)}
    n = 0
    two_letters = {}
    for k in range(4):
        combo = {L: (cls[L] + k) % 4 for L in LETTERS}     # 0: in1&in2, 1: in1 only, 2: in2 only, 3: neither
        g1 = [L.lower() if (i % 2) else L for i, L in enumerate(LETTERS) if combo[L] in (0, 1)]
        g2 = [L.lower() if (i % 3 == 0) else L for i, L in enumerate(LETTERS) if combo[L] in (0, 2)]
        r3 = recoded(prog, "kappa_X", {"grp1": g1 + g1[:1], "grp2": g2})
        if r3[0] != "ok":
            ck.ob("PART-recode", c3, False, expected="kappa of the recoded sequence", found=r3, slot="two-group:rotation%d" % k, where=h.loc())
            continue
        t = r3[1]
        for L in LETTERS:
            role = "grp1" if combo[L] in (0, 1) else ("grp2" if combo[L] == 2 else "rest")
            q = cmap.get(t[L])
            want = {"grp1": -1, "grp2": 1, "rest": 0}[role]
            if combo[L] == 0:
                # a residue listed in both groups: the statement leaves its role open (either group)
                ck.ob("PART-recode", c3, q is not None and q in (-1, 1), expected="member of both groups -> one of the two group letters",
                      found="%s -> %s (charge %s)" % (L, t[L], q), slot="two-group:%s:both" % L, where=h.loc())
                n += 1
                continue
            ck.ob("PART-recode", c3, q is not None and q == want,
                  expected="%s -> a letter of charge %+d" % (role, want), found="%s -> %s (charge %s)" % (L, t[L], q),
                  slot="two-group:%s:%s" % (L, role + ("+grp2" if combo[L] == 0 else "")), where=h.loc(),
                  note="group 1 recoded negative, group 2 positive, everything else neutral; case and duplicates ignored")
            two_letters.setdefault(role, set()).add(t[L])
            n += 1
        ck.ob("ALIAS-fresh", c3, r3[2], expected="fresh Sequence(<recoded>)", found=r3[2], slot="two-group:fresh%d" % k, where=h.loc())
        # one-group branch with the same grp1
        r4 = recoded(prog, "kappa_X", {"grp1": g1})
        if r4[0] != "ok":
            ck.ob("PART-recode", c3, False, expected="kappa of the recoded sequence", found=r4, slot="one-group:rotation%d" % k, where=h.loc())
            continue
        for L in LETTERS:
            inside = combo[L] in (0, 1)
            ok = (r4[1][L] == r[1]["P"]) if inside else (r4[1][L] == r[1]["A"]) if r[0] == "ok" else False
            ck.ob("SIB-omega", c3, ok, expected="same recoding as Omega with the group as parameter",
                  found="%s -> %s" % (L, r4[1][L]), slot="one-group:%s:%s" % (L, "in" if inside else "out"), where=h.loc())
            n += 1
    ck.count("(letter, membership) cases", n)
    ck.floor("(letter, membership) cases", n, 160)
    ck.ob("PART-recode", c3, all(len(v) == 1 for v in two_letters.values()) and len(two_letters) == 3,
          expected="one recode letter per role", found={k: sorted(v) for k, v in two_letters.items()}, slot="two-group:letters", where=h.loc())
    # composition: grp1={E,D}, grp2={K,R} gives the native charge pattern
    r5 = recoded(prog, "kappa_X", {"grp1": ["E", "D"], "grp2": ["K", "R"]})
    if r5[0] == "ok":
        comp = {L: cmap.get(r5[1][L]) for L in LETTERS}
        ck.ob("PART-compose", c3, all(comp[L] == cmap[L] for L in LETTERS), expected="charge(recode(L)) == charge(L) for every residue",
              found={L: str(comp[L]) for L in LETTERS if comp[L] != cmap[L]} or "identical", slot="kappa==kappa_X(ED,KR)", where=h.loc(),
              note="with kappa depending on the sequence only through its charge pattern (C05) this gives get_kappa() == get_kappa_X(['E','D'],['K','R'])")
    # validation of both groups
    from lcsa import tab as _tab
    order = list(_tab.global_literal(prog, _tab.AA, "TWENTY_AAs"))
    run2 = order[0] + order[1] if len(order) >= 2 else "RH"
    for bad, why in (["E", "X"], "non-amino-acid"), (["E", "1"], "digit"), (["E", "b"], "lower-case non-amino-acid"), ([5, "E"], "non-string member"), \
            (["E", ""], "empty-string member"), (["E", run2], "two-letter member (neighbours in the residue list)"), (["E", "".join(order)], "member made of all twenty letters"):
        ra = recoded(prog, "kappa_X", {"grp1": bad})
        ck.ob("DT-validate", c3, ra[0] == "raise", expected="group 1 with a %s rejected" % why, found=ra[0], slot="grp1:" + why, where=h.loc())
        rb = recoded(prog, "kappa_X", {"grp1": ["E", "D"], "grp2": bad})
        ck.ob("DT-validate", c3, rb[0] == "raise", expected="group 2 with a %s rejected" % why, found=rb[0], slot="grp2:" + why, where=h.loc())
    ck.attempt(_membership_only, ck, prog, h, c3)
    via = ck.attempt(_omega_via_kappa_X, ck, prog, cmap)
    ck.attempt(check_api, ck, prog, ([] if via else [("get_Omega", "Omega", None)]) + [("get_Omega_sequence", "Omega_seq", None), ("get_kappa_X", "kappa_X", None)])


def _omega_via_kappa_X(ck, prog, cmap):
    """get_Omega routed through the general routine: kappa_X(g1, g2) must split the residues exactly as Omega does ({P,E,D,K,R} against the rest)"""
    from lcsa import bind
    g = prog.fn(SP, "SequenceParameters.get_Omega")
    ff = bind.final_forward(prog, g)
    if ff is None or ff[2].key != SEQ + ":Sequence.kappa_X":
        return None
    host, call, callee = ff
    construct = g.mod.relpath + ":" + g.qual
    _, b = bind.bind(prog, host, call, callee)
    args = {}
    for formal in ("grp1", "grp2"):
        a = b.get(formal)
        if a is None or (isinstance(a, ast.Constant) and a.value is None):
            continue
        ck.shape(isinstance(a, (ast.List, ast.Tuple)) and all(isinstance(e, ast.Constant) and isinstance(e.value, str) for e in a.elts),
                 "get_Omega: routed through kappa_X with groups that are not literal lists of letters (%s)" % formal, host.loc(call))
        args[formal] = [e.value for e in a.elts]
    r = recoded(prog, "kappa_X", args)
    ck.shape(r[0] == "ok", "get_Omega: kappa_X(%s) does not reduce to kappa of a recoded sequence" % args, host.loc(call))
    t = r[1]
    PEDKR = set("PEDKR")
    inside = {t[L] for L in LETTERS if L in PEDKR}
    outside = {t[L] for L in LETTERS if L not in PEDKR}
    qa = [cmap.get(x) for x in inside]
    qb = [cmap.get(x) for x in outside]
    ok = len(inside) == 1 and len(outside) == 1 and inside != outside and None not in qa + qb and qa[0] * qb[0] < 0
    wrong = sorted(L for L in LETTERS if (L in PEDKR) != (t[L] in inside)) if len(inside) == 1 else sorted(L for L in PEDKR if t[L] != t["P"])
    ck.ob("PART-recode", construct, ok, expected="{P,E,D,K,R} -> one letter, the other fifteen -> another, of opposite charge",
          found={"groups": args, "recoding": {L: t[L] for L in LETTERS}} if not ok else "same two classes as Omega", slot="api-via-kappa_X", where=host.loc(call))
    return True


def _membership_only(ck, prog, h, construct):
    """after parsing, the groups are used only through `x in group` (and truthiness)"""
    bad = []
    for name in ("grp1", "grp2"):
        for n in ast.walk(h.node):
            if isinstance(n, ast.Name) and n.id == name and isinstance(n.ctx, ast.Load):
                par = None
                for m in ast.walk(h.node):
                    for c in ast.iter_child_nodes(m):
                        if c is n:
                            par = m
                ok = (isinstance(par, ast.Compare) and isinstance(par.ops[0], (ast.In, ast.NotIn)) and par.comparators[0] is n) \
                    or isinstance(par, ast.If) or (isinstance(par, ast.Call) and getattr(par.func, "attr", "") == "__parse_group")
                if not ok:
                    bad.append(unparse(par)[:60] if par is not None else name)
    ck.ob("USE", construct, not bad, expected="groups used only via membership, truthiness and __parse_group", found=bad, slot="group-uses",
          where=h.loc())


def _fresh_ctors(ck, prog):
    """the recoded sequence is analysed as a brand-new object: Sequence(<recoded string>) and nothing else"""
    for meth in ("Omega", "kappa_X"):
        f = prog.fn(SEQ, "Sequence." + meth)
        ctors = [c for c in ast.walk(f.node) if isinstance(c, ast.Call) and prog.class_of_ctor(f.mod, c) == "Sequence"]
        for c in ctors:
            extra = [unparse(a) for a in c.args[1:]] + ["%s=%s" % (k.arg, unparse(k.value)) for k in c.keywords]
            ck.ob("CTOR-fresh", SEQ_PATH + ":Sequence." + meth, not extra, expected="Sequence(<recoded string>) with no carried-over dmax / charge pattern",
                  found=unparse(c)[:100], slot="ctor", where=f.loc(c),
                  note="a delta-max carried into the recoded object belongs to a different composition")
        ck.ob("CTOR-fresh", SEQ_PATH + ":Sequence." + meth, len(ctors) >= 1, expected="the recoded sequence gets its own object", found=len(ctors), slot="ctor-count",
              where=f.loc())
