"""C01 - kappa = delta/delta-max, -1 exactly when delta-max is 0, (1,1.1) reported as 1.

Decides: the decision table of Sequence.kappa over (delta, deltaMax) in exact arithmetic; that the ratio is
delta()/deltaMax() of the receiver; delta() >= 0 and deltaMax() >= 0 (sign domain), hence the value is >= 0
whenever it is not the sentinel and -1 is returned only by the deltaMax()==0 row; wrapper fidelity.
Does NOT decide kappa <= 1: that needs the delta-max heuristic to dominate every arrangement's delta, a global
optimisation fact with known dynamic counter-examples (KEEEEK); no sound static argument is in reach."""
import ast

from lcsa.alg import Rat
from lcsa.lin import Lin
from lcsa.ref import Pair
from lcsa.sign import sign_of
from lcsa.model import Undecided, unparse, is_self_attr
from props.common import SEQ, SEQ_PATH, compare_tables, check_api

KEY_D = SEQ + ":Sequence.delta"
KEY_DM = SEQ + ":Sequence.deltaMax"


def run(ck, prog):
    from props.common import check_memos
    ck.attempt(check_memos, ck, prog)
    ck.explanation = (
        "Sequence.kappa is enumerated into its decision table with delta() and deltaMax() as atoms D and DM; "
        "the table is compared with the stated one over D >= 0, DM >= 0 by exact linear feasibility (conditions are "
        "linear in (D, DM) after multiplying by DM > 0). A sign analysis of deltaForm's accumulated term and of every "
        "write to the delta-max cache shows D >= 0 and DM >= 0, which is what makes 'else-branch => DM > 0' and "
        "'result >= 0' valid. The clause kappa <= 1 is not decided (see DESIGN.md section 7).")
    ck.assumptions += ["kappa <= 1 is NOT decided by this check (global optimality of the delta-max heuristic)"]
    construct = SEQ_PATH + ":Sequence.kappa"
    # ---- decision table, regime DM == 0
    for regime, dmval, pos in (("DM=0", Rat.const(0), ()), ("DM>0", "DM", ("DM",))):
        pair = Pair(prog, positive=pos)
        for ev, pg in ((pair.code, prog), (pair.ref, None)):
            ev.opaque_calls[KEY_D] = "D"
            ev.opaque_calls[KEY_DM] = dmval
        pair.ref.opaque_calls["ref.py:Sequence.delta"] = "D"
        pair.ref.opaque_calls["ref.py:Sequence.deltaMax"] = dmval
        f, code = pair.code_rows(SEQ, "Sequence.kappa")
        ref = pair.ref_rows("Sequence.kappa")
        dom = [Lin({"D": -1}, 0, "<=")]
        # atoms the table may branch on: D, DM and the length N.  Lemma (DESIGN.md C01): deltaMax() > 0 implies N >= 6 - below 6 residues
        # every arrangement has delta 0 (blob 6 does not fit; blob 5 fits at most once and a single blob is the whole sequence, so its sigma is
        # the global sigma) - and every N >= 6 admits sequences with deltaMax() > 0.  Anything else in a condition is not decided here.
        atoms = set()
        for conds, _ in code:
            for c in conds:
                atoms |= _cond_atoms(c)
        from lcsa.sym import ABS_REG
        inner = set()
        for a in list(atoms):
            if a in ABS_REG:                      # |expr| is decided exactly through its two sign cases
                atoms.discard(a)
                inner |= ABS_REG[a].atoms()
        atoms |= inner
        extra = atoms - {"D", "DM", "N"}
        if extra and extra <= {"npos", "nneg", "nneut"}:
            # a branch on the charge counts.  Which (counts, delta-max) combinations are realisable is delta-max's business (C03), except where
            # no search is needed (lemmas, DESIGN.md C01):
            #   Z: every residue charged and all of one sign  =>  every blob has the global sigma  =>  deltaMax() == 0 (and delta() == 0);
            #   P: one charge type plus five neutral residues, or five like charges plus one opposite  =>  deltaMax() > 0;
            #   U: deltaMax() > 0  =>  at least one charged residue.
            # Refutation: at a representative composition of Z (resp. P) every row that can fire in this regime must answer as the stated
            # table does.  Proof: the tables agree on the whole abstract domain constrained by U.  Anything in between is undecided.
            from lcsa.dt import feasible_with, compare_rows
            from lcsa.sym import fmt_conds
            comp = [Lin({"npos": -1}, 0, "<="), Lin({"nneg": -1}, 0, "<="), Lin({"nneut": -1}, 0, "<="),
                    Lin({"N": 1, "npos": -1, "nneg": -1, "nneut": -1}, 0, "<="), Lin({"N": -1, "npos": 1, "nneg": 1, "nneut": 1}, 0, "<=")]
            if regime == "DM>0":
                families = {"only negative charges and at least five neutral residues": [(0, 1, 5), (0, 3, 6), (0, 10, 10)],
                            "only positive charges and at least five neutral residues": [(1, 0, 5), (3, 0, 6), (10, 0, 10)],
                            "five or more negative charges and a positive one": [(1, 5, 0), (2, 6, 3), (1, 9, 10)],
                            "five or more positive charges and a negative one": [(5, 1, 0), (6, 2, 3), (9, 1, 10)]}
                lemma_dom = dom + comp + [Lin({"npos": -1, "nneg": -1}, 1, "<="), Lin({"N": -1}, 6, "<=")]
            else:
                families = {"every residue positively charged (deltaMax() is 0 for such a sequence)": [(3, 0, 0), (10, 0, 0), (1, 0, 0)],
                            "every residue negatively charged (deltaMax() is 0 for such a sequence)": [(0, 3, 0), (0, 10, 0), (0, 1, 0)]}
                lemma_dom = dom + comp + [Lin({"N": -1}, 1, "<="), Lin({"D": 1}, 0, "<=")]
            hit = False
            for conds, out in code:
                if hit:
                    break
                sentinel = isinstance(out, Rat) and out.is_const() and out.const_value() == -1
                if sentinel == (regime == "DM=0"):
                    continue                      # this row answers as the stated table does in this regime
                for fam, reps in families.items():
                    for (a_, b_, c_) in reps:
                        fix = [Lin({"npos": 1}, -a_, "=="), Lin({"nneg": 1}, -b_, "=="), Lin({"nneut": 1}, -c_, "=="), Lin({"N": 1}, -(a_ + b_ + c_), "==")]
                        if regime == "DM=0":
                            fix = fix + [Lin({"D": 1}, 0, "==")]
                        inside = feasible_with(conds, dom + fix, set(pos)) is not None
                        # the row fires at this composition whatever delta() (and deltaMax() > 0) are: its negation has no solution there
                        outside = feasible_with([("not", ("and", list(conds)))] if conds else [False], dom + fix, set(pos))
                        if inside and outside is None:
                            hit = True
                            ck.ob("DT", construct, False, expected="-1 exactly when deltaMax() == 0",
                                  found={"answers": repr(out), "when": fmt_conds(conds), "e.g. (n+, n-, n0)": [a_, b_, c_], "family": fam},
                                  slot="sentinel-on-counts[%s]" % regime, where=f.loc(),
                                  note="sequences with %s" % fam + (" have deltaMax() > 0: kappa is defined for them" if regime == "DM>0" else ": kappa is undefined and must be reported as -1"))
                            break
                    if hit:
                        break
            if hit:
                continue
            mis = compare_rows(code, ref, domain=lemma_dom, positive=pos)
            ck.shape(mis is None, "kappa: branches on %s besides delta(), deltaMax() and the length, and the table differs from the stated one somewhere lcsa cannot show to be realisable"
                     % sorted(extra), f.loc())
            ck.ob("DT", construct, True, expected="-1 iff deltaMax()==0; else delta()/deltaMax() with (1,1.1) -> 1.0", found="equivalent on every (counts, delta, delta-max) combination",
                  slot="table[%s]" % regime, where=f.loc())
            ck.count("kappa paths", len(code))
            continue
        ck.shape(atoms <= {"D", "DM", "N"}, "kappa: branches on %s besides delta(), deltaMax() and the length" % sorted(atoms - {"D", "DM", "N"}), f.loc())
        if regime == "DM>0":
            dom = dom + [Lin({"N": -1}, 6, "<=")]
        else:
            dom = dom + [Lin({"N": -1}, 1, "<=")]
        compare_tables(ck, "DT", construct, code, ref, "table[%s]" % regime, where=f.loc(), domain=dom,
                       positive=pos,
                       note="-1 iff deltaMax()==0; else delta()/deltaMax() with (1,1.1) -> 1.0")
        ck.count("kappa paths", len(code))
        if regime == "DM=0":
            from lcsa.dt import feasible_with
            live = [(c, o) for c, o in code if feasible_with(c, dom, set(pos)) is not None]
            only = bool(live) and all(isinstance(o, Rat) and o.equals(Rat.const(-1)) for _, o in live)
            ck.ob("DT", construct, only, expected="every reachable row returns -1", found=[repr(o) for _, o in live],
                  slot="sentinel-when-undefined", where=f.loc())
        else:
            # -1 is never returned when DM > 0 and D >= 0
            from lcsa.dt import feasible_with
            for conds, out in code:
                if isinstance(out, Rat) and out.is_const() and out.const_value() < 0:
                    w = feasible_with(conds, dom, set(pos))
                    ck.ob("DT", construct, w is None, expected="no negative constant outcome when deltaMax()>0",
                          found=repr(out), slot="sentinel-only-when-undefined", where=f.loc())
    # ---- the public getter answers with the same table (whatever it does besides forwarding: a fast path in the wrapper is part of kappa)
    decided_api = ck.attempt(_via_kappa_X, ck, prog) or ck.attempt(_api_table, ck, prog)
    # ---- the numerator / denominator are the receiver's own delta() and deltaMax()
    fk = prog.fn(SEQ, "Sequence.kappa")
    calls = [n for n in ast.walk(fk.node) if isinstance(n, ast.Call) and isinstance(n.func, ast.Attribute)
             and n.func.attr in ("delta", "deltaMax", "deltaForm", "sigma")]
    ok = all(isinstance(c.func.value, ast.Name) and c.func.value.id == "self" and not c.args and not c.keywords
             for c in calls) and calls
    ck.ob("ALG-receiver", construct, bool(ok), expected="self.delta() and self.deltaMax() without arguments",
          found=[unparse(c) for c in calls], slot="receiver", where=fk.loc())
    # ---- SIGN: delta() >= 0
    ck.attempt(_delta_nonneg, ck, prog)
    ck.attempt(_dmax_nonneg, ck, prog)
    # (a getter that is more than a forward and whose whole table was just compared needs no forwarding check)
    ck.attempt(check_api, ck, prog, ([] if decided_api else [("get_kappa", "kappa", None)]) + [("get_delta", "delta", None), ("get_deltaMax", "deltaMax", None)])
    ck.floor("kappa paths", ck.analysed.get("kappa paths", 0), 3)


def _via_kappa_X(ck, prog):
    """get_kappa routed through the two-group patterning routine: kappa_X(g1, g2) is kappa of the sequence recoded g1 -> negative,
    g2 -> positive, rest -> neutral (C06), so it is kappa itself exactly when every residue keeps its own charge class under that recoding"""
    from lcsa import bind, facts
    from lcsa import tab
    g = prog.fn("sequenceParameters.py", "SequenceParameters.get_kappa")
    ff = bind.final_forward(prog, g)
    if ff is None or ff[2].key != SEQ + ":Sequence.kappa_X":
        return None
    host, call, callee = ff
    construct = g.mod.relpath + ":" + g.qual
    _, b = bind.bind(prog, host, call, callee)
    groups = []
    for formal in ("grp1", "grp2"):
        a = b.get(formal)
        ck.shape(isinstance(a, (ast.List, ast.Tuple)) and all(isinstance(e, ast.Constant) and isinstance(e.value, str) for e in a.elts),
                 "get_kappa: routed through kappa_X with groups that are not literal lists of letters (%s)" % formal, host.loc(call))
        groups.append([e.value for e in a.elts])
    from props import C06
    r = C06.recoded(prog, "kappa_X", {"grp1": groups[0], "grp2": groups[1]})
    ck.shape(r[0] == "ok", "get_kappa: kappa_X(%s, %s) does not reduce to kappa of a recoded sequence (%r)" % (groups[0], groups[1], r[:2]), host.loc(call))
    cmap, _, _ = facts.charge_map(prog)
    sgn = lambda q: (q > 0) - (q < 0)
    moved = {L: r[1][L] for L in sorted(r[1]) if L in cmap and (r[1][L] not in cmap or sgn(cmap[r[1][L]]) != sgn(cmap[L]))}
    ck.ob("DT", construct, not moved, expected="get_kappa() is kappa of the sequence itself: routed through kappa_X, every residue must keep its charge class",
          found={"groups": groups, "residues whose charge class changes": moved} if moved else "charge classes preserved", slot="api-via-kappa_X", where=host.loc(call),
          note="kappa_X recodes group 1 as negative, group 2 as positive and everything else as neutral before computing kappa")
    return True


def _api_table(ck, prog):
    from lcsa.dt import feasible_with
    g = prog.fn("sequenceParameters.py", "SequenceParameters.get_kappa")
    construct = g.mod.relpath + ":" + g.qual
    # a plain `return self.SeqObj.kappa()` is covered by BIND-api below; anything more is evaluated like kappa itself
    body = [s_ for s_ in g.body()]
    if len(body) == 1 and isinstance(body[0], ast.Return):
        return
    for regime, dmval, pos in (("DM=0", Rat.const(0), ()), ("DM>0", "DM", ("DM",))):
        pair = Pair(prog, positive=pos)
        for ev in (pair.code, pair.ref):
            ev.opaque_calls[KEY_D] = "D"
            ev.opaque_calls[KEY_DM] = dmval
        pair.ref.opaque_calls["ref.py:Sequence.delta"] = "D"
        pair.ref.opaque_calls["ref.py:Sequence.deltaMax"] = dmval
        _, code = pair.code_rows("sequenceParameters.py", "SequenceParameters.get_kappa")
        ref = pair.ref_rows("Sequence.kappa")
        atoms = set()
        for conds, _ in code:
            for c in conds:
                atoms |= _cond_atoms(c)
        ck.shape(atoms <= {"D", "DM", "N"}, "get_kappa: branches on %s besides delta(), deltaMax() and the length" % sorted(atoms - {"D", "DM", "N"}), g.loc())
        dom = [Lin({"D": -1}, 0, "<="), Lin({"N": -1}, 6 if regime == "DM>0" else 1, "<=")]
        compare_tables(ck, "DT", construct, code, ref, "api-table[%s]" % regime, where=g.loc(), domain=dom, positive=pos,
                       note="the getter must answer -1 iff deltaMax()==0 and the ratio otherwise, like the backend")
    return True


def _cond_atoms(c):
    if isinstance(c, bool):
        return set()
    if c[0] == "cmp":
        return c[1].atoms() | c[3].atoms()
    if c[0] == "not":
        return _cond_atoms(c[1])
    if c[0] in ("and", "or"):
        out = set()
        for x in c[1]:
            out |= _cond_atoms(x)
        return out
    return {"?opaque"}


def _delta_nonneg(ck, prog):
    f = prog.fn(SEQ, "Sequence.deltaForm")
    construct = SEQ_PATH + ":Sequence.deltaForm"
    loops = [n for n in f.body() if isinstance(n, ast.For)]
    rets = [n for n in ast.walk(f.node) if isinstance(n, ast.Return)]
    if len(loops) != 1 or len(rets) != 1 or not isinstance(rets[0].value, ast.Name):
        raise Undecided("deltaForm shape (one loop, one `return <accumulator>`)", f.loc())
    acc = rets[0].value.id
    loop = loops[0]
    init = [s for s in f.body() if isinstance(s, ast.Assign) and isinstance(s.targets[0], ast.Name)
            and s.targets[0].id == acc]
    init_ok = len(init) == 1 and isinstance(init[0].value, ast.Constant) and init[0].value.value == 0
    # the loop bound is positive inside the loop body (range(0, B) non-empty => B >= 1)
    env = {}
    it = loop.iter
    if isinstance(it, ast.Call) and getattr(it.func, "id", getattr(it.func, "attr", None)) in ("range", "arange") \
            and isinstance(it.args[-1], ast.Name):
        env[it.args[-1].id] = "pos"
    terms = []
    for s in ast.walk(loop):
        if isinstance(s, ast.AugAssign) and isinstance(s.target, ast.Name) and s.target.id == acc:
            if not isinstance(s.op, ast.Add):
                terms.append(("top", unparse(s)))
            else:
                terms.append((sign_of(s.value, env, f.mod), unparse(s.value)))
        elif isinstance(s, ast.Assign) and any(isinstance(t, ast.Name) and t.id == acc for t in s.targets):
            v = s.value
            if isinstance(v, ast.BinOp) and isinstance(v.op, ast.Add) and isinstance(v.left, ast.Name) \
                    and v.left.id == acc:
                terms.append((sign_of(v.right, env, f.mod), unparse(v.right)))
            else:
                terms.append(("top", unparse(s)))
    ok = init_ok and terms and all(t[0] in ("pos", "nonneg", "zero") for t in terms)
    # the sign domain proves non-negativity or proves nothing ('top'): an unproved premise makes the kappa table undecided, it is not a verdict
    ck.shape(bool(ok), "deltaForm: accumulated terms provably non-negative (signs found: %s)" % [t[0] for t in terms], f.loc(loop))
    ck.ob("SIGN", construct, bool(ok), expected="accumulator starts at 0 and only receives non-negative terms",
          found={"init_zero": init_ok, "terms": terms}, slot="deltaForm>=0", where=f.loc(loop))
    g = prog.fn(SEQ, "Sequence.delta")
    r = [n for n in ast.walk(g.node) if isinstance(n, ast.Return)]

    def cs(call):
        if isinstance(call.func, ast.Attribute) and call.func.attr == "deltaForm":
            return "nonneg"
        return None
    from lcsa.sign import join
    s = None
    for rr in r:
        si = sign_of(rr.value, {}, g.mod, cs) if rr.value is not None else "top"
        s = si if s is None else join(s, si)
    s = s or "top"
    ck.shape(s in ("nonneg", "pos", "zero"), "delta(): the combination of the two blob sizes is provably non-negative (sign found: %s)" % s, g.loc())
    ck.ob("SIGN", SEQ_PATH + ":Sequence.delta", s in ("nonneg", "pos", "zero"),
          expected="delta() >= 0", found=s, slot="delta>=0", where=g.loc())


def _dmax_nonneg(ck, prog):
    """every value written to the delta-max cache is 0, the not-computed sentinel, or some delta()"""
    f = prog.fn(SEQ, "Sequence.deltaMax")
    construct = SEQ_PATH + ":Sequence.deltaMax"
    writes = []
    for n in ast.walk(f.node):
        if isinstance(n, ast.Assign) and any(is_self_attr(t, "dmax") for t in n.targets):
            v = n.value
            kind = "other"
            if isinstance(v, ast.Constant) and v.value == 0:
                kind = "zero"
            elif isinstance(v, ast.UnaryOp) and isinstance(v.op, ast.USub) and isinstance(v.operand, ast.Constant) \
                    and v.operand.value == 1:
                kind = "sentinel"
            elif isinstance(v, ast.Call) and isinstance(v.func, ast.Attribute) and v.func.attr == "delta" \
                    and not v.args:
                kind = "delta()"
            writes.append((kind, unparse(n), n.lineno))
    other = [s for k, s, _ in writes if k == "other"]
    if other:
        # the sign of an unrecognised source cannot be established: undecided, never a verdict
        raise Undecided("delta-max cache written from a source whose sign lcsa cannot establish: %s" % other[:3], f.loc())
    ok = bool(writes)
    ck.ob("SIGN", construct, bool(ok), expected="cache writes are 0, the sentinel -1, or <candidate>.delta()",
          found=[(k, s) for k, s, _ in writes][:12], slot="deltaMax>=0", where=f.loc(),
          note="with C03's non-empty candidate families the sentinel never survives a computation")
    ck.count("dmax writes", len(writes))
