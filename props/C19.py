"""C19 - plots place sequences at true coordinates in the regions that classify them.

Decides: argument binding through every plotting entry point (plots module, SequenceParameters methods, backend) - a bare
name that is one of the caller's parameters must reach the callee parameter of the same name (or a confirmed rename), and
the parameters the statement names (coordinates, label(s), title, xLim, yLim, getFig, filename) must reach the backend on
every path; provenance of the marker coordinates, title, axis limits and annotation text at the matplotlib sinks;
getFig discipline; the five filled polygons equal the closures of the five cells of get_phasePlotRegion's own decision
table (so picture and classifier share their thresholds by construction) and the legend order matches; the linear plots
draw one bar per column of the same backend profile the get_linear_* methods return.
Does not decide anything about rendered pixels / matplotlib behaviour."""
import ast
from fractions import Fraction

from lcsa.alg import Rat
from lcsa.lin import Lin, dnf, vertices, feasible, interior_nonempty
from lcsa.model import Undecided, unparse, const_number
from lcsa.ref import Pair
from lcsa.dt import conj_formula
from lcsa import bind, inline
from props.common import SEQ, SP, SEQ_PATH

PLOTS = "plots.py"
PLT = "backend/plotting.py"
RENAMES = {("label_list", "label"), ("label", "label_list"), ("blobLen", "bloblen"),
           ("fp", "x"), ("fn", "y"), ("fp_list", "x_list"), ("fn_list", "y_list"),
           ("mean_net_charge", "x"), ("hydropathy", "y"), ("mean_net_charge_list", "x_list"), ("hydropathy_list", "y_list"),
           ("initial_plottingObject", "plt")}
NAMED = {"fp", "fn", "fp_list", "fn_list", "hydropathy", "mean_net_charge", "hydropathy_list", "mean_net_charge_list",
         "label", "label_list", "title", "xLim", "yLim", "getFig", "filename", "blobLen", "SeqObj"}


def run(ck, prog):
    ck.explanation = (
        "Every call in the plotting layers is resolved and its actual arguments bound to the callee's formal parameters; the "
        "forwarding rule is checked call by call and the named parameters are followed to the matplotlib sinks. The polygons "
        "are compared, as exact rational point sets, with the cells of the decision table that lcsa derives from "
        "Sequence.phasePlotRegion itself.")
    ck.attempt(_plots_module, ck, prog)
    ck.attempt(_sp_methods, ck, prog)
    ck.attempt(_backend_entry, ck, prog)
    ck.attempt(_sinks, ck, prog)
    ck.attempt(_polygons, ck, prog)
    ck.attempt(_linear, ck, prog)
    ck.attempt(_figure_lifecycle, ck, prog)
    ck.attempt(_shared_defaults, ck, prog)
    ck.floor("forwarding calls checked", ck.analysed.get("forwarding calls checked", 0), 40)


def forward(ck, prog, f, call, required=(), rule="BIND"):
    """the forwarding rule at one resolved call"""
    callee, b = bind.bind(prog, f, call)
    if callee is None:
        return None
    construct = f.mod.relpath + ":" + f.qual
    own = set(f.params())
    formals = callee.params()[1:] if callee.cls else callee.params()
    good = True
    for formal, actual in b.items():
        if formal.startswith("*"):
            good &= ck.ob(rule, construct, False, expected="arity of %s%s" % (callee.qual, tuple(formals)), found="extra argument %s" % unparse(actual),
                          slot="%s:arity" % callee.name, where=f.loc(call))
            continue
        if isinstance(actual, ast.Name) and actual.id in own and actual.id != "self":
            ok = actual.id == formal or (actual.id, formal) in RENAMES
            good &= ck.ob(rule, construct, ok, expected="%s -> %s.%s" % (actual.id, callee.name, actual.id), found="%s -> %s.%s" % (actual.id, callee.name, formal),
                          slot="%s:%s" % (callee.name, actual.id), where=f.loc(call),
                          note="a caller parameter passed on must bind to the callee parameter of the same name (or a confirmed rename)")
    passed = {a.id for a in b.values() if isinstance(a, ast.Name)}
    for r in required:
        if r in own and r not in passed:
            good &= ck.ob(rule, construct, False, expected="parameter '%s' reaches %s on this path" % (r, callee.name),
                          found="'%s' is not passed (the callee falls back to its default)" % r, slot="%s:%s:reaches" % (callee.name, r), where=f.loc(call))
    ck.count("forwarding calls checked")
    return callee


def _calls(prog, f, pred=None):
    out = []
    for n in ast.walk(f.node):
        if isinstance(n, ast.Call):
            c = prog.resolve_call(f, n)
            if c is not None and (pred is None or pred(c)):
                out.append((n, c))
    return out


CONV = {"float", "int", "list", "tuple", "np.array", "np.asarray", "numpy.array", "np.float64"}


def origin(f, node, depth=0):
    """provenance of an expression inside f: ('param', name) | ('call', callee key or dotted text, [origins of args]) | ('index', base origin, [subscript text]) | None.
    Looks through single-assignment locals, value-preserving conversions (float(x), np.array(x)) and rebindings `x = float(x)`."""
    if depth > 6 or node is None:
        return None
    if isinstance(node, ast.Name):
        binds = [n for n in ast.walk(f.node) if isinstance(n, ast.Assign) and any(isinstance(t, ast.Name) and t.id == node.id for t in n.targets)]
        # rebinding through a conversion of itself keeps the provenance
        binds = [b for b in binds if not (isinstance(b.value, ast.Call) and unparse(b.value.func) in CONV and len(b.value.args) == 1
                                          and isinstance(b.value.args[0], ast.Name) and b.value.args[0].id == node.id)]
        # a default filled in when the caller passed nothing (`if len(p) == 0: p = [...]`, `if p is None: p = ...`) keeps the provenance for every
        # call that did pass the value
        deflt = set()
        for st in ast.walk(f.node):
            if isinstance(st, ast.If) and unparse(st.test).replace(" ", "") in ("len(%s)==0" % node.id, "not%s" % node.id, "%sisNone" % node.id, "%s==[]" % node.id):
                deflt |= {id(x) for b in st.body for x in ast.walk(b)}
        binds = [b for b in binds if id(b) not in deflt]
        other = [n for n in ast.walk(f.node) if id(n) not in deflt and isinstance(n, (ast.AugAssign, ast.For, ast.comprehension)) and any(isinstance(x, ast.Name) and x.id == node.id
                                                                                                                 for x in ast.walk(n.target))]
        if node.id in f.params() and not binds and not other:
            return ("param", node.id)
        if len(binds) == 1 and not other and node.id not in f.params():
            return origin(f, binds[0].value, depth + 1)
        return None
    if isinstance(node, ast.Call):
        fn = unparse(node.func)
        if fn in CONV and len(node.args) == 1 and not node.keywords:
            return origin(f, node.args[0], depth + 1)
        return ("call", fn, [origin(f, a, depth + 1) for a in node.args])
    if isinstance(node, ast.Subscript):
        b = origin(f, node.value, depth + 1)
        sl = node.slice
        txt = ",".join(unparse(e) for e in sl.elts) if isinstance(sl, ast.Tuple) else unparse(sl)
        return ("index", b, txt.replace(" ", "")) if b is not None else None
    if isinstance(node, ast.Attribute):
        return ("attr", unparse(node))
    if isinstance(node, ast.Constant):
        return ("const", node.value)
    return None


def _arg(call, i, kw):
    if len(call.args) > i and not isinstance(call.args[i], ast.Starred):
        return call.args[i]
    return next((k.value for k in call.keywords if k.arg == kw), None)



def _getfig_discipline(ck, f, wrapper_of=None):
    """show_* : in the getFig branch the figure object (or the callee's result) is returned"""
    construct = f.mod.relpath + ":" + f.qual
    if "getFig" not in f.params():
        return
    rets = bind.returns_of(f)
    top = [s for s in f.body() if isinstance(s, ast.Return)]
    ok = False
    if top and top[-1].value is not None:
        ok = True                              # unconditional `return <callee result>`
    for s in ast.walk(f.node):
        if isinstance(s, ast.If) and unparse(s.test) == "getFig":
            ok = any(isinstance(x, ast.Return) and x.value is not None for x in s.body)
    ck.ob("GETFIG", construct, ok, expected="with getFig the figure (the callee's result) is returned", found=[unparse(r) for r in rets][:3],
          slot="returns-figure", where=f.loc())
    # the test that decides whether the figure is handed back must be the TRUTH of getFig (what `if getFig:` asks): an identity test against
    # True turns 1, numpy.bool_(True) and every other truthy request into "no figure"
    tests = [n.test for n in ast.walk(f.node) if isinstance(n, (ast.If, ast.IfExp))]
    for t in tests:
        tt = unparse(bind.inline_locals(f, t)).replace(" ", "")
        if "getFig" not in tt:
            continue
        if tt in ("getFig", "bool(getFig)", "notgetFig", "notbool(getFig)", "notnotgetFig"):
            continue
        strict = tt in ("getFigisTrue", "getFigisnotFalse", "TrueisgetFig", "type(getFig)isbool", "isinstance(getFig,bool)andgetFig", "notgetFigisTrue", "getFigisFalse", "getFigisnotTrue")
        ck.shape(strict, "%s: test on getFig in a form lcsa cannot relate to its truth value (%s)" % (f.qual, unparse(t)), f.loc(t))
        ck.ob("GETFIG", construct, False, expected="the figure is returned whenever getFig is true (as `if getFig:` decides)", found=unparse(bind.inline_locals(f, t)), slot="getFig-test", where=f.loc(t),
              note="an identity test against True/False answers differently for 1, 0, numpy.bool_ and other values the truth test accepts")


def _plots_module(ck, prog):
    m = prog.mod(PLOTS)
    n = 0
    for name, f in sorted(m.funcs.items()):
        if name.startswith("_"):
            continue                                    # private helpers are followed from the public entry points
        calls = _calls(prog, f, lambda c: c.mod.rel == PLT)
        construct = f.mod.relpath + ":" + f.qual
        ck.shape(len(calls) == 1, "%s: one forwarding call into the plotting backend" % name, f.loc())
        call, callee = calls[0]
        req = [p for p in f.params() if p in NAMED]
        forward(ck, prog, f, call, required=req)
        # same-named backend
        base = name.replace("Plot2", "Plot")
        ck.ob("BIND", construct, callee.name == base, expected="plotting." + base, found="plotting." + callee.name, slot="callee", where=f.loc(call))
        if name.startswith("show_"):
            _getfig_discipline(ck, f)
        if name.endswith("2"):
            _plot2_lists(ck, prog, f, call)
        dropped = [p for p in f.params() if p not in NAMED and p != "SeqParam_list"
                   and p not in {a.id for a in call.args if isinstance(a, ast.Name)} | {k.value.id for k in call.keywords if isinstance(k.value, ast.Name)}]
        if dropped:
            ck.info("%s does not forward %s (not named by the property; reported as information only)" % (construct, dropped))
        n += 1
    ck.count("plots.py entry points", n)
    ck.floor("plots.py entry points", n, 12)


def _plot2_lists(ck, prog, f, call):
    """the ...Plot2 functions build the coordinate lists from the objects' own getters, in order"""
    construct = f.mod.relpath + ":" + f.qual
    phase = "phase" in f.name
    want = {"fp_list": "get_fraction_positive", "fn_list": "get_fraction_negative"} if phase else \
        {"hydropathy_list": "get_uversky_hydropathy", "mean_net_charge_list": "get_mean_net_charge"}
    loops = [s for s in f.body() if isinstance(s, ast.For)]
    got = {}
    ck.shape(len(loops) == 1 and unparse(loops[0].iter) == "SeqParam_list" and isinstance(loops[0].target, ast.Name),
             "%s: coordinate lists built in one loop over the objects" % f.name, f.loc())
    if len(loops) == 1 and unparse(loops[0].iter) == "SeqParam_list":
        v = loops[0].target.id
        for s in loops[0].body:
            if isinstance(s, ast.Expr) and isinstance(s.value, ast.Call) and getattr(s.value.func, "attr", "") == "append":
                lst = unparse(s.value.func.value)
                a = s.value.args[0]
                if isinstance(a, ast.Call) and isinstance(a.func, ast.Attribute) and unparse(a.func.value) == v and not a.args:
                    got[lst] = a.func.attr
    ck.shape(set(got) == set(want), "%s: both coordinate lists appended from the loop variable's getters" % f.name, f.loc())
    ck.ob("PROV", construct, got == want, expected=want, found=got, slot="coordinate-lists", where=f.loc(),
          note="one coordinate pair per object, from its own getters, in the order given")
    # and these lists are what is passed as the coordinates
    callee, b = bind.bind(prog, f, call)
    for lst in want:
        a = b.get(lst)
        ck.ob("PROV", construct, isinstance(a, ast.Name) and a.id == lst, expected="%s -> %s" % (lst, lst), found=unparse(a) if a is not None else None,
              slot="list:%s" % lst, where=f.loc(call))


GETTERS = {"fp": {SP + ":SequenceParameters.get_fraction_positive", SEQ + ":Sequence.Fplus"},
           "fn": {SP + ":SequenceParameters.get_fraction_negative", SEQ + ":Sequence.Fminus"},
           "hydropathy": {SP + ":SequenceParameters.get_uversky_hydropathy", SEQ + ":Sequence.uverskyHydropathy"},
           "mean_net_charge": {SP + ":SequenceParameters.get_mean_net_charge", SEQ + ":Sequence.mean_net_charge"}}


def _sp_methods(ck, prog):
    coords = {"phaseDiagramPlot": {"fp": "self.get_fraction_positive()", "fn": "self.get_fraction_negative()"},
              "uverskyPlot": {"hydropathy": "self.get_uversky_hydropathy()", "mean_net_charge": "self.get_mean_net_charge()"}}
    backend = {"show_phaseDiagramPlot": "show_single_phasePlot", "save_phaseDiagramPlot": "save_single_phasePlot",
               "show_uverskyPlot": "show_single_uverskyPlot", "save_uverskyPlot": "save_single_uverskyPlot"}
    for name, be in backend.items():
        f = prog.fn(SP, "SequenceParameters." + name)
        construct = f.mod.relpath + ":" + f.qual
        calls = _calls(prog, f, lambda c: c.mod.rel == PLT)
        ck.shape(len(calls) >= 1, "%s: a call into the plotting backend" % name, f.loc())
        ck.ob("BIND", construct, all(c.name == be for _, c in calls), expected="plotting." + be,
              found=[c.name for _, c in calls], slot="callee", where=f.loc())
        req = [p for p in f.params() if p in NAMED]
        for call, callee in calls:
            forward(ck, prog, f, call, required=req)
            _, b = bind.bind(prog, f, call)
            for formal, src in coords[name.split("_", 1)[1]].items():
                a = b.get(formal)
                ck.shape(a is not None, "%s: coordinate '%s' passed to the backend" % (name, formal), f.loc(call))
                a = bind._resolve_local(f, a)
                ck.shape(isinstance(a, ast.Call) and prog.resolve_call(f, a) is not None, "%s: coordinate '%s' is the result of a resolvable getter call" % (name, formal), f.loc(call))
                got = prog.resolve_call(f, a)
                okc = got.key in GETTERS[formal] and not a.args and not a.keywords
                ck.ob("PROV", construct, okc, expected="%s = %s" % (formal, src), found=unparse(a),
                      slot="%s@%d" % (formal, call.lineno - f.node.lineno), where=f.loc(call),
                      note="marker coordinates come from the object's own composition getters")
        if name.startswith("show_"):
            _getfig_discipline(ck, f)
            # every path forwards (both branches of `if getFig`)
            ifs = [s for s in f.body() if isinstance(s, ast.If) and unparse(s.test) == "getFig"]
            if ifs:
                both = all(any(isinstance(x, ast.Call) and prog.resolve_call(f, x) is not None and prog.resolve_call(f, x).name == be
                               for st in br for x in ast.walk(st)) for br in (ifs[0].body, ifs[0].orelse))
                ck.ob("BIND", construct, both, expected="both branches draw through plotting." + be, found=both, slot="both-branches", where=f.loc())
    # the getters those coordinates come from are C04's wrappers (checked there); here: they exist
    ck.count("SequenceParameters plot methods", len(backend))


def _backend_entry(ck, prog):
    spec = {
        "show_single_phasePlot": ("single_plot", {"x": "fp", "y": "fn"}, "finalize_DasPappu"),
        "save_single_phasePlot": ("single_plot", {"x": "fp", "y": "fn"}, "finalize_DasPappu"),
        "show_multiple_phasePlot": ("multiple_plot", {"x_list": "fp_list", "y_list": "fn_list"}, "finalize_DasPappu"),
        "save_multiple_phasePlot": ("multiple_plot", {"x_list": "fp_list", "y_list": "fn_list"}, "finalize_DasPappu"),
        "show_single_uverskyPlot": ("single_plot", {"x": "mean_net_charge", "y": "hydropathy"}, "finalize_uversky"),
        "save_single_uverskyPlot": ("single_plot", {"x": "mean_net_charge", "y": "hydropathy"}, "finalize_uversky"),
        "show_multiple_uverskyPlot": ("multiple_plot", {"x_list": "mean_net_charge_list", "y_list": "hydropathy_list"}, "finalize_uversky"),
        "save_multiple_uverskyPlot": ("multiple_plot", {"x_list": "mean_net_charge_list", "y_list": "hydropathy_list"}, "finalize_uversky"),
    }
    for name, (marker, xy, fin) in spec.items():
        f = prog.fn(PLT, name)
        construct = f.mod.relpath + ":" + f.qual
        calls = _calls(prog, f, lambda c: c.mod.rel == PLT)
        mk = [(n, c) for n, c in calls if c.name == marker]
        fz = [(n, c) for n, c in calls if c.name == fin]
        drawing = [c.name for _, c in calls if c.name in ("single_plot", "multiple_plot", "finalize_DasPappu", "finalize_uversky")]
        ck.shape(len(drawing) == 2, "%s: one marker call and one finalising call" % name, f.loc())
        ck.ob("BIND", construct, len(mk) == 1 and len(fz) == 1, expected="%s then %s" % (marker, fin), found=[c.name for _, c in calls], slot="pipeline", where=f.loc())
        for call, callee in mk:
            forward(ck, prog, f, call, required=[p for p in f.params() if p in ("label", "label_list")] + list(xy.values()))
            _, b = bind.bind(prog, f, call)
            for formal, src in xy.items():
                a = b.get(formal)
                o = origin(f, a)
                ck.shape(o is not None and o[0] == "param", "%s: marker coordinate '%s' traced to a parameter" % (name, formal), f.loc(call))
                ck.ob("PROV", construct, o[1] == src, expected="%s = %s" % (formal, src), found=unparse(a) if a is not None else None,
                      slot="marker-%s" % formal, where=f.loc(call),
                      note="phase diagram: (f+, f-); Uversky: (mean net charge, hydropathy)")
        for call, callee in fz:
            forward(ck, prog, f, call, required=["title", "xLim", "yLim"])
            _, b = bind.bind(prog, f, call)
            first = call.args[0] if call.args else b.get(callee.params()[0])
            ck.shape(first is not None, "%s: the finalising call is handed a figure" % name, f.loc(call))
            src = bind._resolve_local(f, first) if isinstance(first, ast.Name) else first
            ck.shape(isinstance(src, ast.Call) and prog.resolve_call(f, src) is not None, "%s: the finalised figure is the result of a resolvable call" % name, f.loc(call))
            src_ok = prog.resolve_call(f, src).name == marker
            ck.ob("ORDER", construct, src_ok, expected="the figure that received the markers is the one finalised", found=unparse(first)[:80],
                  slot="same-figure", where=f.loc(call))
        if name.startswith("show_"):
            _getfig_discipline(ck, f)
            ifs = [s for s in f.body() if isinstance(s, ast.If) and unparse(s.test) == "getFig"]
            fig = unparse(fz[0][0]) if fz else None
            okr = False
            if ifs:
                rv = [x for x in ifs[0].body if isinstance(x, ast.Return)]
                assigned = [unparse(s.targets[0]) for s in f.body() if isinstance(s, ast.Assign) and isinstance(s.value, ast.Call)
                            and prog.resolve_call(f, s.value) is not None and prog.resolve_call(f, s.value).name == fin]
                okr = bool(rv) and rv[0].value is not None and unparse(rv[0].value) in assigned
            ck.ob("GETFIG", construct, okr, expected="getFig returns the finalised figure", found=okr, slot="returns-finalised", where=f.loc())
        else:
            saves = [(f, n) for n in ast.walk(f.node) if isinstance(n, ast.Call) and getattr(n.func, "attr", "") == "savefig"]
            names = {"filename"}
            if not saves:
                # the write may live in a small helper that is handed the file name
                for n, c in _calls(prog, f, lambda cc: cc.mod.rel == PLT):
                    _, b = bind.bind(prog, f, n)
                    for formal, actual in (b or {}).items():
                        if isinstance(actual, ast.Name) and actual.id == "filename":
                            hs = [(c, x) for x in ast.walk(c.node) if isinstance(x, ast.Call) and getattr(x.func, "attr", "") == "savefig"]
                            if hs:
                                saves += hs
                                names.add(formal)
            ck.shape(bool(saves), "%s: a savefig call (directly or in a helper that receives the file name)" % name, f.loc())
            ok = all(sv.args and unparse(sv.args[0]) in names for _, sv in saves)
            ck.ob("PROV", construct, ok, expected="savefig(filename, ...)", found=[unparse(sv)[:60] for _, sv in saves], slot="filename", where=f.loc())
    ck.count("backend entry points", len(spec))


def _one_call(ck, f, fn, within=None):
    calls = [n for n in ast.walk(within or f.node) if isinstance(n, ast.Call) and unparse(n.func) in (fn, fn.replace("plt.", "ax."), fn.replace("plt.", "axes."))]
    ck.shape(len(calls) == 1, "%s: exactly one %s call" % (f.name, fn), f.loc())
    return calls[0]


def _sinks(ck, prog):
    # single_plot: scatter(x, y) of the (float-converted) parameters; annotation text = label
    f = prog.fn(PLT, "single_plot")
    c = f.mod.relpath + ":" + f.qual
    sc = _one_call(ck, f, "plt.scatter")
    got = [origin(f, _arg(sc, 0, "x")), origin(f, _arg(sc, 1, "y"))]
    ck.shape(all(o is not None and o[0] == "param" for o in got), "single_plot: scatter coordinates traced to parameters", f.loc(sc))
    ck.ob("PROV-sink", c, [o[1] for o in got] == ["x", "y"], expected="plt.scatter(x, y) with x, y the (float-converted) coordinates", found=unparse(sc)[:60], slot="scatter", where=f.loc(sc))
    an = _one_call(ck, f, "plt.annotate")
    o = origin(f, _arg(an, 0, "text") or _arg(an, 0, "s"))
    ck.shape(o is not None and o[0] == "param", "single_plot: annotation text traced to a parameter", f.loc(an))
    ck.ob("PROV-sink", c, o[1] == "label", expected="plt.annotate(label, ...)", found=unparse(an)[:50], slot="annotate", where=f.loc(an))
    xy = _arg(an, 1, "xy")
    if xy is not None and isinstance(xy, (ast.Tuple, ast.List)) and len(xy.elts) == 2:
        oo = [origin(f, e) for e in xy.elts]
        if all(q is not None and q[0] == "param" for q in oo):
            ck.ob("PROV-sink", c, [q[1] for q in oo] == ["x", "y"], expected="annotation anchored at (x, y)", found=unparse(xy), slot="annotate-xy", where=f.loc(an))
    g = prog.fn(PLT, "multiple_plot")
    c2 = g.mod.relpath + ":" + g.qual
    loops = [s for s in g.body() if isinstance(s, ast.For)]
    ck.shape(len(loops) == 1, "multiple_plot: one drawing loop", g.loc())
    lp = loops[0]
    sc = _one_call(ck, g, "plt.scatter", lp)
    an = _one_call(ck, g, "plt.annotate", lp)

    def elem(node):
        """which list parameter is this per-iteration value an element of?"""
        if isinstance(node, ast.Call) and unparse(node.func) in CONV and len(node.args) == 1:
            node = node.args[0]
        if isinstance(lp.iter, ast.Call) and getattr(lp.iter.func, "id", "") == "zip" and isinstance(lp.target, ast.Tuple) and isinstance(node, ast.Name):
            names = [unparse(e) for e in lp.target.elts]
            if node.id in names and len(names) == len(lp.iter.args):
                o = origin(g, lp.iter.args[names.index(node.id)])
                return o[1] if o and o[0] == "param" else None
        if isinstance(node, ast.Subscript) and isinstance(lp.target, ast.Name) and unparse(node.slice) == lp.target.id \
                and isinstance(lp.iter, ast.Call) and getattr(lp.iter.func, "id", "") == "range":
            o = origin(g, node.value)
            return o[1] if o and o[0] == "param" else None
        return None
    got = [elem(_arg(sc, 0, "x")), elem(_arg(sc, 1, "y")), elem(_arg(an, 0, "text") or _arg(an, 0, "s"))]
    ck.shape(all(x is not None for x in got), "multiple_plot: per-point coordinates and label traced to the list parameters", g.loc(lp))
    # the per-point names must still hold the list elements when the marker is drawn: a re-assignment between the loop header and the scatter
    # call (other than a value-preserving conversion of itself) draws the marker somewhere else
    for a_ in (_arg(sc, 0, "x"), _arg(sc, 1, "y")):
        nm = a_.args[0] if isinstance(a_, ast.Call) and unparse(a_.func) in CONV and len(a_.args) == 1 else a_
        if not isinstance(nm, ast.Name):
            continue
        for st in ast.walk(lp):
            if isinstance(st, (ast.Assign, ast.AugAssign)) and st.lineno < sc.lineno:
                tg = st.targets if isinstance(st, ast.Assign) else [st.target]
                if not any(isinstance(x, ast.Name) and x.id == nm.id for t in tg for x in ast.walk(t)):
                    continue
                v = st.value
                conv = isinstance(st, ast.Assign) and isinstance(v, ast.Call) and unparse(v.func) in CONV and len(v.args) == 1 and isinstance(v.args[0], ast.Name) and v.args[0].id == nm.id
                if not conv:
                    ck.ob("PROV-sink", c2, False, expected="the marker of point i is drawn at (x_list[i], y_list[i])", found=unparse(st), slot="scatter:moved:" + nm.id, where=g.loc(st),
                          note="the coordinate is changed before plt.scatter: the sequence is no longer drawn where it lies")
    ck.ob("PROV-sink", c2, got == ["x_list", "y_list", "label_list"], expected="point i: scatter(x_list[i], y_list[i]); annotate(label_list[i])", found=got, slot="scatter", where=g.loc(lp))
    for name in ("finalize_DasPappu", "finalize_uversky"):
        h = inline.inlined(prog, prog.fn(PLT, name))           # statements moved into a helper of the module are read where they run
        c3 = h.mod.relpath + ":" + h.qual
        want = {"plt.title": ("title", None), "plt.xlim": ("xLim", 1), "plt.ylim": ("yLim", 1)}
        # MUST: the title and both axis limits are set on EVERY way out of the finaliser (an early return for `legendOn=False`, say, must not
        # skip them) - a typestate walk over the statements, the state being the set of these calls already made
        from lcsa import flow as _flow

        def _made(fn_, node, depth=0):
            out = set()
            for cl in _flow.calls_in(node):
                fnm = unparse(cl.func)
                if fnm in want:
                    out.add(fnm)
                elif depth < 3:
                    cal = prog.resolve_call(fn_, cl)
                    if cal is not None and cal.mod.rel == PLT:
                        out |= _made(cal, cal.node, depth + 1)          # a helper of the plotting module: what it sets counts
            return out

        def _step(node, st):
            return frozenset(set(st) | _made(h, node))
        fall, exits = _flow.run(h.body(), frozenset(), _step)
        ways = [("end of function", st_) for st_ in fall] + [("return at line %d" % e_.node.lineno, e_.state) for e_ in exits if e_.kind == "return"]
        for where_, st_ in ways:
            missing = sorted(set(want) - set(st_))
            ck.ob("MUST-sink", c3, not missing, expected="plt.title, plt.xlim and plt.ylim are called before the finaliser returns", found={"way out": where_, "not called": missing} if missing else "all called",
                  slot="finalise:%s" % where_, where=h.loc(), note="the requested title / axis limits must reach the figure for every argument combination")
        for fn, (par, pos) in want.items():
            call = _one_call(ck, h, fn)
            a = call.args[0] if call.args else None
            ck.shape(a is not None, "%s: %s has a positional argument" % (name, fn), h.loc(call))
            if pos is not None:
                if isinstance(a, (ast.List, ast.Tuple)) and len(a.elts) == 2:
                    lo, a = a.elts
                elif len(call.args) == 2:
                    lo, a = call.args
                else:
                    ck.shape(False, "%s: %s given (low, high)" % (name, fn), h.loc(call))
                ck.shape(isinstance(lo, ast.Constant), "%s: constant lower limit" % name, h.loc(call))
            o = origin(h, a)
            ck.shape(o is not None and o[0] in ("param", "const"), "%s: %s argument traced to a parameter or a literal" % (name, fn), h.loc(call))
            okv = o[1] == par and (pos is None or lo.value == 0)
            ck.ob("PROV-sink", c3, okv, expected="%s(%s)" % (fn, par if pos is None else "[0, %s]" % par), found=unparse(call)[:50], slot=fn, where=h.loc(call))
        rets = bind.returns_of(h)
        ck.shape(len(rets) >= 1 and all(r.value is not None for r in rets), "%s: returns a value" % name, h.loc())
        oo = [origin(h, r.value) for r in rets]
        ck.shape(all(o is not None and o[0] == "param" for o in oo), "%s: returned value traced to a parameter" % name, h.loc())
        ck.ob("GETFIG", c3, all(o[1] == h.params()[0] for o in oo), expected="returns the figure it was given", found=[unparse(r.value) for r in rets],
              slot="returns-figure", where=h.loc())
    ck.count("drawing sinks traced", 2 + 2 + 6)


def _cells_from_classifier(prog):
    """region -> list of convex pieces (each a list of Lin over x=f+, y=f-) from phasePlotRegion's own decision table"""
    pair = Pair(prog, positive=("N",))
    f, rows = pair.code_rows(SEQ, "Sequence.phasePlotRegion")
    from lcsa.dt import abs_side_conditions, _atoms_of
    from lcsa.lin import f_and
    dom = [Lin({"x": -1}, 0, "<="), Lin({"y": -1}, 0, "<="), Lin({"x": 1, "y": 1}, -1, "<=")]
    cells = {}
    for conds, out in rows:
        if not (isinstance(out, Rat) and out.is_const()):
            continue
        k = int(out.const_value())
        form = conj_formula(conds, {"N"})
        atoms = set()
        _atoms_of(form, atoms)
        side = abs_side_conditions(atoms, {"N"})
        for conj in dnf(f_and(form, *side)):
            piece = []
            for c in conj:
                co = dict(c.co)
                const = c.c + co.pop("N", 0)          # N := 1 (conditions are homogeneous in (n+, n-, N))
                lin = {}
                if "npos" in co:
                    lin["x"] = co.pop("npos")
                if "nneg" in co:
                    lin["y"] = co.pop("nneg")
                # abs atoms were eliminated through their side conditions as equalities
                for a, v in list(co.items()):
                    lin[a] = v
                piece.append(Lin(lin, const, c.op))
            piece = _eliminate_aux(piece)
            if piece is None:
                continue
            full = piece + dom
            if feasible(full) and interior_nonempty(full):
                cells.setdefault(k, []).append(full)
    return cells


def _eliminate_aux(piece):
    """substitute away auxiliary variables (abs atoms) that are fixed by an equality"""
    while True:
        aux = {v for c in piece for v in c.co if v not in ("x", "y")}
        if not aux:
            return piece
        v = sorted(aux)[0]
        eq = next((c for c in piece if c.op == "==" and v in c.co), None)
        if eq is None:
            return None
        a = eq.co[v]
        new = []
        for c in piece:
            if c is eq:
                continue
            if v in c.co:
                fct = c.co[v] / a
                co = dict(c.co)
                del co[v]
                for k, w in eq.co.items():
                    if k != v:
                        co[k] = co.get(k, 0) - fct * w
                new.append(Lin(co, c.c - fct * eq.c, c.op))
            else:
                new.append(c)
        piece = new


def _in_closure(pt, cons):
    x, y = pt
    for c in cons:
        v = c.co.get("x", 0) * x + c.co.get("y", 0) * y + c.c
        if c.op in ("<", "<=") and v > 0:
            return False
        if c.op == "==" and v != 0:
            return False
    return True


def _in_convex_polygon(pt, poly):
    sign = 0
    n = len(poly)
    for i in range(n):
        ax, ay = poly[i]
        bx, by = poly[(i + 1) % n]
        cross = (bx - ax) * (pt[1] - ay) - (by - ay) * (pt[0] - ax)
        if cross != 0:
            s = 1 if cross > 0 else -1
            if sign == 0:
                sign = s
            elif s != sign:
                return False
    return True


def _fold_table(prog, f, node):
    """a module-level constant (tuple/list of rows) -> python value with exact numbers, via the evaluator's constant folding"""
    from lcsa.sym import Evaluator, _Frame
    g = prog.resolve_global(f.mod, node)
    if not g:
        return None
    try:
        v = Evaluator(prog).global_value(g, _Frame(f, 0), node)
    except Undecided:
        return None
    return v


def _num(x):
    from lcsa.alg import Rat as _R
    if isinstance(x, _R) and x.is_const():
        return x.const_value()
    if isinstance(x, (int, Fraction)) and not isinstance(x, bool):
        return Fraction(x)
    return None


def _polygons(ck, prog):
    f = inline.inlined(prog, prog.fn(PLT, "finalize_DasPappu"))
    construct = f.mod.relpath + ":" + f.qual
    fills = []          # (handle name, [(x, y)], node, legend text or None)
    table_texts = None
    for s in f.body():
        if isinstance(s, ast.Assign) and isinstance(s.value, ast.Call) and unparse(s.value.func) == "plt.fill":
            xs, ys = s.value.args[0], s.value.args[1]
            ck.shape(isinstance(xs, (ast.List, ast.Tuple)) and isinstance(ys, (ast.List, ast.Tuple)) and len(xs.elts) == len(ys.elts), "plt.fill with literal vertex lists", f.loc(s))
            pts = [(const_number(f.mod, a), const_number(f.mod, b)) for a, b in zip(xs.elts, ys.elts)]
            ck.shape(all(p[0] is not None and p[1] is not None for p in pts), "literal polygon vertices", f.loc(s))
            tgt = s.targets[0]
            name = unparse(tgt.elts[0]) if isinstance(tgt, ast.Tuple) else unparse(tgt)
            fills.append((name, pts, s, None))
        elif isinstance(s, ast.For) and any(isinstance(n, ast.Call) and unparse(n.func) == "plt.fill" for n in ast.walk(s)):
            # table-driven: for (xs, ys, colour, text) in <module-level constant>: handle, = plt.fill(xs, ys, ...); handles.append(handle)
            rows = _fold_table(prog, f, s.iter) if isinstance(s.iter, (ast.Name, ast.Attribute)) else None
            ck.shape(isinstance(rows, (list, tuple)) and isinstance(s.target, (ast.Tuple, ast.List)) and all(isinstance(e, ast.Name) for e in s.target.elts)
                     and all(isinstance(r, (list, tuple)) and len(r) == len(s.target.elts) for r in rows), "region loop over a module-level table of rows", f.loc(s))
            names = [e.id for e in s.target.elts]
            calls = [n for n in ast.walk(s) if isinstance(n, ast.Call) and unparse(n.func) == "plt.fill"]
            ck.shape(len(calls) == 1 and len(calls[0].args) >= 2 and all(isinstance(a, ast.Name) and a.id in names for a in calls[0].args[:2]), "one plt.fill(xs, ys, ...) per row", f.loc(s))
            ix, iy = names.index(calls[0].args[0].id), names.index(calls[0].args[1].id)
            for k, r in enumerate(rows):
                ck.shape(isinstance(r[ix], (list, tuple)) and isinstance(r[iy], (list, tuple)) and len(r[ix]) == len(r[iy]), "row %d: vertex coordinate sequences" % k, f.loc(s))
                pts = [(_num(a), _num(b)) for a, b in zip(r[ix], r[iy])]
                ck.shape(all(p[0] is not None and p[1] is not None for p in pts), "row %d: numeric vertices" % k, f.loc(s))
                text = next((x for x in r if isinstance(x, str) and ":" in x), None)
                fills.append(("row%d" % k, pts, s, text))
            table_texts = True
    if not fills:
        # a local helper draws one region from a list of named corner points:
        #   def fill_region(corners, ...): patch, = plt.fill([c[0] for c in corners], [c[1] for c in corners], ...); return patch
        #   reg1 = fill_region([origin, weak_neg, weak_pos], ...)
        helpers = [n for n in f.node.body if isinstance(n, ast.FunctionDef) and any(isinstance(c, ast.Call) and unparse(c.func) == "plt.fill" for c in ast.walk(n))]
        if len(helpers) == 1:
            h = helpers[0]
            hp = [a.arg for a in h.args.args]
            fc = [c for c in ast.walk(h) if isinstance(c, ast.Call) and unparse(c.func) == "plt.fill"]

            def coord_of(a):
                if isinstance(a, ast.ListComp) and len(a.generators) == 1 and isinstance(a.generators[0].target, ast.Name) and not a.generators[0].ifs \
                        and isinstance(a.generators[0].iter, ast.Name) and a.generators[0].iter.id in hp and isinstance(a.elt, ast.Subscript) \
                        and isinstance(a.elt.value, ast.Name) and a.elt.value.id == a.generators[0].target.id and isinstance(a.elt.slice, ast.Constant):
                    return a.generators[0].iter.id, a.elt.slice.value
                return None
            cx = coord_of(fc[0].args[0]) if len(fc) == 1 and len(fc[0].args) >= 2 else None
            cy = coord_of(fc[0].args[1]) if cx else None
            ck.shape(cx is not None and cy is not None and cx[0] == cy[0] and (cx[1], cy[1]) == (0, 1), "local region helper: plt.fill([c[0] for c in corners], [c[1] for c in corners])", f.loc(h))
            consts = {}
            for st in f.body():
                if isinstance(st, ast.Assign) and len(st.targets) == 1 and isinstance(st.targets[0], ast.Name) and isinstance(st.value, ast.Tuple) and len(st.value.elts) == 2:
                    a_, b_ = const_number(f.mod, st.value.elts[0]), const_number(f.mod, st.value.elts[1])
                    if a_ is not None and b_ is not None:
                        consts.setdefault(st.targets[0].id, []).append((a_, b_))
            for st in f.body():
                if isinstance(st, ast.Assign) and isinstance(st.value, ast.Call) and isinstance(st.value.func, ast.Name) and st.value.func.id == h.name:
                    call = st.value
                    arg = call.args[hp.index(cx[0])] if len(call.args) > hp.index(cx[0]) else next((k.value for k in call.keywords if k.arg == cx[0]), None)
                    ck.shape(isinstance(arg, (ast.List, ast.Tuple)), "region helper called with a literal list of corners", f.loc(st))
                    pts = []
                    for e in arg.elts:
                        if isinstance(e, ast.Name) and len(consts.get(e.id, [])) == 1:
                            pts.append(consts[e.id][0])
                        elif isinstance(e, ast.Tuple) and len(e.elts) == 2 and all(const_number(f.mod, x) is not None for x in e.elts):
                            pts.append((const_number(f.mod, e.elts[0]), const_number(f.mod, e.elts[1])))
                        else:
                            ck.shape(False, "corner %s is a named constant point" % unparse(e), f.loc(st))
                    fills.append((unparse(st.targets[0]), pts, st, None))
    ck.shape(bool(fills), "finalize_DasPappu: region polygons drawn with plt.fill (literal lists, a module-level table, or a local helper over named corners)", f.loc())
    ck.ob("POLY", construct, len(fills) == 5, expected="five filled regions", found=len(fills), slot="count", where=f.loc())
    cells = _cells_from_classifier(prog)
    ck.ob("POLY", construct, sorted(cells) == [1, 2, 3, 4, 5], expected=[1, 2, 3, 4, 5], found=sorted(cells), slot="classifier-cells")
    region_of = {}
    for name, pts, node, _text in fills:
        match = None
        for k, pieces in cells.items():
            inside = all(any(_in_closure(p, pc) for pc in pieces) for p in pts)
            cover = all(_in_convex_polygon(v, pts) for pc in pieces for v in vertices(pc))
            if inside and cover:
                match = k
        region_of[name] = match
        ck.ob("POLY", construct, match is not None, expected="polygon = closure of one cell of get_phasePlotRegion's partition",
              found={"vertices": [(str(a), str(b)) for a, b in pts], "matches_region": match}, slot="polygon:" + name, where=f.loc(node),
              note="thresholds are read from the classifier itself, so changing either side alone is reported")
    ck.ob("POLY", construct, sorted(v for v in region_of.values() if v) == [1, 2, 3, 4, 5], expected="one polygon per region", found=region_of, slot="bijection")
    # legend order
    lg = [n for n in ast.walk(f.node) if isinstance(n, ast.Call) and unparse(n.func) == "plt.legend"]
    ok = False
    found = None
    ck.shape(len(lg) == 1 and len(lg[0].args) >= 2, "finalize_DasPappu: one plt.legend(handles, texts, ...)", f.loc())
    handles = texts = None

    def _lit(a):
        # a literal list, or a local bound exactly once to one (and never edited in place)
        if isinstance(a, ast.Name):
            binds = [n for n in ast.walk(f.node) if isinstance(n, (ast.Assign, ast.AugAssign, ast.For, ast.comprehension))
                     and any(isinstance(x, ast.Name) and x.id == a.id for t in (n.targets if isinstance(n, ast.Assign) else [n.target]) for x in ast.walk(t))]
            edits = [n for n in ast.walk(f.node) if isinstance(n, ast.Attribute) and isinstance(n.value, ast.Name) and n.value.id == a.id and isinstance(n.ctx, ast.Load)
                     and n.attr in ("append", "extend", "insert", "pop", "remove", "reverse", "sort", "clear")]
            stores = [n for n in ast.walk(f.node) if isinstance(n, ast.Subscript) and isinstance(n.value, ast.Name) and n.value.id == a.id and isinstance(n.ctx, (ast.Store, ast.Del))]
            if len(binds) == 1 and isinstance(binds[0], ast.Assign) and len(binds[0].targets) == 1 and isinstance(binds[0].targets[0], ast.Name) and not edits and not stores \
                    and a.id not in f.params():
                return _lit(binds[0].value)
            return None
        return a if isinstance(a, ast.List) else None
    l0, l1 = _lit(lg[0].args[0]), _lit(lg[0].args[1])
    if l0 is not None and l1 is not None:
        handles = [unparse(e) for e in l0.elts]
        texts = [e.value if isinstance(e, ast.Constant) else "" for e in l1.elts]
    elif table_texts and isinstance(lg[0].args[0], ast.Name):
        # handles accumulated row by row, texts taken from the same rows: the pairing is by construction of the table
        appended = [n for n in ast.walk(f.node) if isinstance(n, ast.Call) and getattr(n.func, "attr", "") == "append" and unparse(n.func.value) == lg[0].args[0].id]
        a1 = lg[0].args[1]
        from_rows = isinstance(a1, ast.ListComp) and len(a1.generators) == 1 and isinstance(a1.elt, ast.Name) and not a1.generators[0].ifs
        if len(appended) == 1 and from_rows:
            handles = [x[0] for x in fills]
            texts = [x[3] or "" for x in fills]
    ck.shape(handles is not None, "finalize_DasPappu: legend handles and texts as two literal lists, or both taken row by row from the region table", f.loc(lg[0]))
    if True:
        order = [region_of.get(h) for h in handles]
        key = {1: "weak", 2: "janus", 3: "strong polyampholyte", 4: "negatively", 5: "positively"}
        found = list(zip(order, [t.split(":")[0] for t in texts]))
        ok = len(handles) == 5 == len(texts) and all(r is not None and key[r] in t.lower() for r, t in zip(order, texts))
    ck.ob("POLY", construct, ok, expected="legend entry of each handle describes the region its polygon covers", found=found, slot="legend", where=f.loc())
    ck.count("polygons compared with classifier cells", len(fills))


# ------------------------------------------------------------------------------------ linear plots
def _linear(ck, prog):
    prof = {"build_NCPR_plot": "linearDistOfNCPR", "build_FCR_plot": "linearDistOfFCR", "build_sigma_plot": "linearDistOfSigma",
            "build_hydropathy_plot": "linearDistOfHydropathy"}
    api = {"NCPR": "build_NCPR_plot", "FCR": "build_FCR_plot", "Sigma": "build_sigma_plot", "Hydropathy": "build_hydropathy_plot"}
    blp = prog.fn(PLT, "__build_linear_plot")
    # the bars keep the geometry they were drawn with: colour, edge width and labels may be touched up afterwards, height and position may not
    for cl in ast.walk(blp.node):
        if isinstance(cl, ast.Call) and isinstance(cl.func, ast.Attribute) and cl.func.attr in ("set_height", "set_y", "set_x", "set_width", "set_xy", "set_bounds"):
            ck.ob("PROV-sink", blp.mod.relpath + ":" + blp.qual, False, expected="one bar per residue with the height of the corresponding profile value", found=unparse(cl)[:70],
                  slot="bar-geometry:%s" % cl.func.attr, where=blp.loc(cl), note="a bar whose height is changed after plt.bar no longer shows the profile value")
    profiles = {SEQ + ":Sequence." + v for v in prof.values()}
    for b, be in prof.items():
        f = prog.fn(PLT, b)
        c = f.mod.relpath + ":" + f.qual
        calls = [n for n in ast.walk(f.node) if isinstance(n, ast.Call) and prog.resolve_call(f, n) is blp]
        ck.shape(len(calls) == 1, "%s: one call of the shared bar-plot builder" % b, f.loc())
        _, bnd = bind.bind(prog, f, calls[0], blp)
        a = bind._resolve_local(f, bnd.get(blp.params()[0]))
        ck.shape(isinstance(a, ast.Call) and isinstance(a.func, ast.Attribute), "%s: plotted data is the result of a method call" % b, f.loc(calls[0]))
        recv = origin(f, a.func.value)
        ck.shape(recv is not None and recv[0] == "param", "%s: profile computed on a parameter object" % b, f.loc(calls[0]))
        ck.shape(a.func.attr.startswith("linearDistOf") and SEQ + ":Sequence." + a.func.attr in {fi.key for fi in prog.all_funcs()}, "%s: a Sequence.linearDistOf* profile" % b, f.loc(calls[0]))
        wa = [origin(f, x) for x in list(a.args) + [k.value for k in a.keywords]]
        ok = SEQ + ":Sequence." + a.func.attr == SEQ + ":Sequence." + be and recv[1] == "SeqObj" and len(wa) == 1 and wa[0] == ("param", "blobLen")
        ck.ob("PROV", c, ok, expected="bars of SeqObj.%s(blobLen) - the profile get_linear_* returns" % be, found=unparse(a), slot="profile", where=f.loc(calls[0]))
        ck.count("forwarding calls checked")
    bar = _one_call(ck, blp, "plt.bar")
    args = [_arg(bar, 0, "x"), _arg(bar, 1, "height")]
    oo = [origin(blp, x) for x in args]
    ck.shape(all(o is not None and o[0] == "index" and o[1] == ("param", blp.params()[0]) for o in oo), "__build_linear_plot: bar positions and heights are rows of the data parameter", blp.loc(bar))
    rows = [o[2] for o in oo]
    ck.shape(all(r in ("0,:", "1,:", "0", "1") for r in rows), "__build_linear_plot: rows selected by constant index", blp.loc(bar))
    ck.ob("PROV-sink", blp.mod.relpath + ":" + blp.qual, [r[0] for r in rows] == ["0", "1"], expected="plt.bar(data[0, :], data[1, :]) - one bar per column: position row, value row",
          found=unparse(bar)[:70], slot="bar", where=blp.loc(bar))
    for kind in ("show", "save"):
        for nm, b in api.items():
            f = prog.fn(SP, "SequenceParameters.%s_linear%s" % (kind, nm))
            c = f.mod.relpath + ":" + f.qual
            calls = _calls(prog, f, lambda cc: cc.mod.rel == PLT)
            via = None
            if not calls:
                # a driver of the wrapper's own class makes the backend call for all four profiles: two forwarding hops instead of one
                own = _calls(prog, f, lambda cc: cc.cls == f.cls and cc.mod is f.mod)
                if len(own) == 1 and len(_calls(prog, own[0][1], lambda cc: cc.mod.rel == PLT)) == 1:
                    via = own[0]
                    forward(ck, prog, f, via[0], required=[p for p in f.params() if p in ("blobLen", "getFig", "filename")])
                    _, hop = bind.bind(prog, f, via[0])
                    if kind == "show":
                        ck.shape(all(isinstance(n, ast.Return) and n.value is via[0] for n in ast.walk(f.node) if isinstance(n, ast.Return))
                                 and any(isinstance(n, ast.Return) for n in ast.walk(f.node)), "%s: returns what its driver returns" % f.name, f.loc())
                    f = via[1]
                    calls = _calls(prog, f, lambda cc: cc.mod.rel == PLT)
            ck.shape(len(calls) == 1, "%s: one call into the plotting backend" % f.name, f.loc())
            call, callee = calls[0]
            ok = callee.name == "%s_linearplot" % kind
            if ok:
                forward(ck, prog, f, call, required=[p for p in f.params() if p in ("blobLen", "getFig", "filename")])
                _, bnd = bind.bind(prog, f, call)
                bf = bnd.get("build_fun")
                if via is not None and isinstance(bf, ast.Name) and bf.id in f.params() and not [n for n in ast.walk(f.node) if isinstance(n, ast.Name) and n.id == bf.id
                                                                                                 and isinstance(n.ctx, ast.Store)]:
                    bf = hop.get(bf.id)          # the builder the wrapper handed to the driver
                ck.shape(isinstance(bf, (ast.Attribute, ast.Name)) and prog.has_fn(PLT, unparse(bf).split(".")[-1]),
                         "%s: build_fun is a reference to a plotting builder" % f.name, f.loc(call))
                ok = unparse(bf).split(".")[-1] == b and unparse(bnd.get("SeqObj")) == "self.SeqObj"
            ck.ob("BIND", c, ok, expected="plotting.%s_linearplot(plotting.%s, self.SeqObj, blobLen, ...)" % (kind, b),
                  found=[unparse(x[0])[:80] for x in calls], slot="forwards", where=f.loc())
            if kind == "show":
                _getfig_discipline(ck, f)
    for name in ("show_linearplot", "save_linearplot"):
        f = prog.fn(PLT, name)
        c = f.mod.relpath + ":" + f.qual
        calls = [n for n in ast.walk(f.node) if isinstance(n, ast.Call) and unparse(n.func) == "build_fun"]
        ck.shape(len(calls) == 1, "%s: one call of the builder it was handed" % name, f.loc())
        oo = [origin(f, a) for a in calls[0].args] + [origin(f, k.value) for k in calls[0].keywords]
        ck.shape(all(o is not None and o[0] == "param" for o in oo), "%s: builder arguments traced to parameters" % name, f.loc(calls[0]))
        ok = [o[1] for o in oo] == ["SeqObj", "blobLen"] and not calls[0].keywords
        ck.ob("BIND", c, ok, expected="build_fun(SeqObj, blobLen)", found=unparse(calls[0]), slot="builder-call", where=f.loc(calls[0]))
        if name.startswith("show"):
            _getfig_discipline(ck, f)
    ck.count("linear plot entry points", 8)


# ------------------------------------------------------------------------------------ figure lifecycle
SAVE_ENTRIES = ("save_single_phasePlot", "save_multiple_phasePlot", "save_single_uverskyPlot", "save_multiple_uverskyPlot", "save_linearplot")
DRAW_ROOTS = ("single_plot", "multiple_plot", "__build_linear_plot")
FRESH = {"plt.figure", "plt.clf", "plt.subplots", "plt.close"}


def _figure_lifecycle(ck, prog):
    """PAIR-close (FLOW typestate, helpers summarised): all drawing goes to pyplot's implicit current figure, so a save entry point that returns
    with the figure still open leaves its markers, polygons and bars under the next plot.  Each save entry point must reach `close` on every path
    after `savefig` - unless every drawing routine itself starts from a fresh figure."""
    from lcsa import flow
    memo = {}

    def summarise(fi, depth=0):
        """in-state -> frozenset of out-states at the function's exits; states: none / saved / closed"""
        if fi.key in memo:
            return memo[fi.key]
        memo[fi.key] = {x: frozenset([x]) for x in ("none", "saved", "closed")}      # recursion guard: identity
        seen_save = [False]

        def step(node, S):
            out = set(S)
            for c in sorted(flow.calls_in(node), key=lambda c: (c.lineno, c.col_offset)):
                attr = c.func.attr if isinstance(c.func, ast.Attribute) else None
                if attr == "savefig":
                    out = {"saved"}
                    seen_save[0] = True
                elif attr == "close":
                    out = {"closed"}
                else:
                    callee = prog.resolve_call(fi, c)
                    if callee is not None and callee.mod.rel == PLT and depth < 5 and callee.key != fi.key:
                        sm = summarise(callee, depth + 1)
                        out = set().union(*[sm[x] for x in out])
            return frozenset(out)
        res = {}
        for x in ("none", "saved", "closed"):
            fall, exits = flow.run(fi.body(), frozenset([x]), step)
            outs = set()
            for S in fall:
                outs |= S
            for e in exits:
                if e.kind == "return":
                    outs |= e.state
            res[x] = frozenset(outs)
        memo[fi.key] = res
        return res

    def fresh_start(fi):
        calls = sorted((c for c in ast.walk(fi.node) if isinstance(c, ast.Call) and unparse(c.func).startswith("plt.")), key=lambda c: (c.lineno, c.col_offset))
        return bool(calls) and unparse(calls[0].func) in FRESH
    roots = [prog.fn(PLT, r) for r in DRAW_ROOTS]
    waived = all(fresh_start(r) for r in roots)
    for name in SAVE_ENTRIES:
        f = prog.fn(PLT, name)
        construct = f.mod.relpath + ":" + f.qual
        sm = summarise(f)
        out = sm["none"]
        ck.shape("saved" in out or "closed" in out, "%s: a savefig call is reached" % name, f.loc())
        ok = "saved" not in out or waived
        ck.ob("PAIR-close", construct, ok, expected="after savefig every path closes the figure before returning (or every drawing routine starts on a fresh figure)",
              found={"states_at_exit": sorted(out), "drawing_routines_start_fresh": waived}, slot="close-after-save", where=f.loc(),
              note="an open figure is reused by the next plot: its file then shows two markers / ten regions / two profiles")
        ck.count("save entry points (lifecycle)")
    ck.floor("save entry points (lifecycle)", ck.analysed.get("save entry points (lifecycle)", 0), 5)


def _shared_defaults(ck, prog):
    """MDEF: a list/dict default (`label=[]`) is one object shared by every call that omits the argument; a plotting routine that mutates it
    (directly or in a callee it hands it to) carries labels from one plot into the next.  Effect summaries closed over the call graph."""
    from lcsa.eff import Effects
    E = Effects(prog)
    n = 0
    for f in prog.all_funcs():
        if not (f.mod.rel in (PLT, "plots.py") or (f.mod.rel == SP and f.name.startswith(("show_", "save_")))):
            continue
        d = f.defaults()
        md = [p for p, v in d.items() if isinstance(v, (ast.List, ast.Dict, ast.Set)) or (isinstance(v, ast.Call) and getattr(v.func, "id", "") in ("list", "dict", "set"))]
        if not md:
            continue
        s = E.sum.get(f.key)
        if s is None:
            continue
        n += 1
        for p in md:
            sites = s.param_muts.get(p, [])
            named = any(k in f.name.lower() for k in ("phase", "uversky", "multiple_plot", "single_plot", "linearplot", "linearncpr", "linearfcr", "linearsigma", "linearhydropathy"))
            if not named:
                # composition / complexity plots are not among the entry points this property names
                if sites:
                    ck.info("%s mutates its shared default '%s' (not an entry point named by the property; information only)" % (f.qual, p))
                continue
            ck.ob("MDEF", f.mod.relpath + ":" + f.qual, not sites, expected="the shared default of '%s' is never mutated" % p,
                  found={"mutated_at": sites[:3]} if sites else "not mutated", slot="default:" + p, where=f.loc(),
                  note="state carried between calls: the next plot that omits the argument starts from the previous plot's labels")
    ck.count("plotting routines with a mutable default", n)
    ck.floor("plotting routines with a mutable default", n, 8)


def run_thorough(ck, prog):
    from props import thorough
    ck.attempt(thorough.whole_package_bind, ck, prog)
