"""C19 - plots place sequences at true coordinates in the regions that classify them.

Decides: argument binding through every plotting entry point (plots module, SequenceParameters methods, backend) - a bare
name that is one of the caller's parameters must reach the callee parameter of the same name (or a confirmed rename), and
the parameters the statement names (coordinates, label(s), title, xLim, yLim, getFig, filename) must reach the backend on
every path; provenance of the marker coordinates, title, axis limits and annotation text at the matplotlib sinks;
getFig discipline; the five filled polygons equal the closures of the five cells of get_phasePlotRegion's own decision
table (so picture and classifier share their thresholds by construction) and the legend order matches; the linear plots
draw one bar per column of the same backend profile the get_linear_* methods return.
Does not decide anything about rendered pixels / matplotlib behaviour."""
import ast
from fractions import Fraction

from lcsa.alg import Rat
from lcsa.lin import Lin, dnf, vertices, feasible, interior_nonempty
from lcsa.model import Undecided, unparse, const_number
from lcsa.ref import Pair
from lcsa.dt import conj_formula
from lcsa import bind
from props.common import SEQ, SP, SEQ_PATH

PLOTS = "plots.py"
PLT = "backend/plotting.py"
RENAMES = {("label_list", "label"), ("label", "label_list"), ("blobLen", "bloblen"),
           ("fp", "x"), ("fn", "y"), ("fp_list", "x_list"), ("fn_list", "y_list"),
           ("mean_net_charge", "x"), ("hydropathy", "y"), ("mean_net_charge_list", "x_list"), ("hydropathy_list", "y_list"),
           ("initial_plottingObject", "plt")}
NAMED = {"fp", "fn", "fp_list", "fn_list", "hydropathy", "mean_net_charge", "hydropathy_list", "mean_net_charge_list",
         "label", "label_list", "title", "xLim", "yLim", "getFig", "filename", "blobLen", "SeqObj"}


def run(ck, prog):
    ck.explanation = (
        "Every call in the plotting layers is resolved and its actual arguments bound to the callee's formal parameters; the "
        "forwarding rule is checked call by call and the named parameters are followed to the matplotlib sinks. The polygons "
        "are compared, as exact rational point sets, with the cells of the decision table that lcsa derives from "
        "Sequence.phasePlotRegion itself.")
    ck.attempt(_plots_module, ck, prog)
    ck.attempt(_sp_methods, ck, prog)
    ck.attempt(_backend_entry, ck, prog)
    ck.attempt(_sinks, ck, prog)
    ck.attempt(_polygons, ck, prog)
    ck.attempt(_linear, ck, prog)
    ck.floor("forwarding calls checked", ck.analysed.get("forwarding calls checked", 0), 40)


def forward(ck, prog, f, call, required=(), rule="BIND"):
    """the forwarding rule at one resolved call"""
    callee, b = bind.bind(prog, f, call)
    if callee is None:
        return None
    construct = f.mod.relpath + ":" + f.qual
    own = set(f.params())
    formals = callee.params()[1:] if callee.cls else callee.params()
    good = True
    for formal, actual in b.items():
        if formal.startswith("*"):
            good &= ck.ob(rule, construct, False, expected="arity of %s%s" % (callee.qual, tuple(formals)), found="extra argument %s" % unparse(actual),
                          slot="%s:arity" % callee.name, where=f.loc(call))
            continue
        if isinstance(actual, ast.Name) and actual.id in own and actual.id != "self":
            ok = actual.id == formal or (actual.id, formal) in RENAMES
            good &= ck.ob(rule, construct, ok, expected="%s -> %s.%s" % (actual.id, callee.name, actual.id), found="%s -> %s.%s" % (actual.id, callee.name, formal),
                          slot="%s:%s" % (callee.name, actual.id), where=f.loc(call),
                          note="a caller parameter passed on must bind to the callee parameter of the same name (or a confirmed rename)")
    passed = {a.id for a in b.values() if isinstance(a, ast.Name)}
    for r in required:
        if r in own and r not in passed:
            good &= ck.ob(rule, construct, False, expected="parameter '%s' reaches %s on this path" % (r, callee.name),
                          found="'%s' is not passed (the callee falls back to its default)" % r, slot="%s:%s:reaches" % (callee.name, r), where=f.loc(call))
    ck.count("forwarding calls checked")
    return callee


def _calls(prog, f, pred=None):
    out = []
    for n in ast.walk(f.node):
        if isinstance(n, ast.Call):
            c = prog.resolve_call(f, n)
            if c is not None and (pred is None or pred(c)):
                out.append((n, c))
    return out


def _getfig_discipline(ck, f, wrapper_of=None):
    """show_* : in the getFig branch the figure object (or the callee's result) is returned"""
    construct = f.mod.relpath + ":" + f.qual
    if "getFig" not in f.params():
        return
    rets = bind.returns_of(f)
    top = [s for s in f.body() if isinstance(s, ast.Return)]
    ok = False
    if top and top[-1].value is not None:
        ok = True                              # unconditional `return <callee result>`
    for s in ast.walk(f.node):
        if isinstance(s, ast.If) and unparse(s.test) == "getFig":
            ok = any(isinstance(x, ast.Return) and x.value is not None for x in s.body)
    ck.ob("GETFIG", construct, ok, expected="with getFig the figure (the callee's result) is returned", found=[unparse(r) for r in rets][:3],
          slot="returns-figure", where=f.loc())


def _plots_module(ck, prog):
    m = prog.mod(PLOTS)
    n = 0
    for name, f in sorted(m.funcs.items()):
        if name.startswith("_"):
            continue                                    # private helpers are followed from the public entry points
        calls = _calls(prog, f, lambda c: c.mod.rel == PLT)
        construct = f.mod.relpath + ":" + f.qual
        ck.shape(len(calls) == 1, "%s: one forwarding call into the plotting backend" % name, f.loc())
        call, callee = calls[0]
        req = [p for p in f.params() if p in NAMED]
        forward(ck, prog, f, call, required=req)
        # same-named backend
        base = name.replace("Plot2", "Plot")
        ck.ob("BIND", construct, callee.name == base, expected="plotting." + base, found="plotting." + callee.name, slot="callee", where=f.loc(call))
        if name.startswith("show_"):
            _getfig_discipline(ck, f)
        if name.endswith("2"):
            _plot2_lists(ck, prog, f, call)
        dropped = [p for p in f.params() if p not in NAMED and p != "SeqParam_list"
                   and p not in {a.id for a in call.args if isinstance(a, ast.Name)} | {k.value.id for k in call.keywords if isinstance(k.value, ast.Name)}]
        if dropped:
            ck.info("%s does not forward %s (not named by the property; reported as information only)" % (construct, dropped))
        n += 1
    ck.count("plots.py entry points", n)
    ck.floor("plots.py entry points", n, 12)


def _plot2_lists(ck, prog, f, call):
    """the ...Plot2 functions build the coordinate lists from the objects' own getters, in order"""
    construct = f.mod.relpath + ":" + f.qual
    phase = "phase" in f.name
    want = {"fp_list": "get_fraction_positive", "fn_list": "get_fraction_negative"} if phase else \
        {"hydropathy_list": "get_uversky_hydropathy", "mean_net_charge_list": "get_mean_net_charge"}
    loops = [s for s in f.body() if isinstance(s, ast.For)]
    got = {}
    ck.shape(len(loops) == 1 and unparse(loops[0].iter) == "SeqParam_list" and isinstance(loops[0].target, ast.Name),
             "%s: coordinate lists built in one loop over the objects" % f.name, f.loc())
    if len(loops) == 1 and unparse(loops[0].iter) == "SeqParam_list":
        v = loops[0].target.id
        for s in loops[0].body:
            if isinstance(s, ast.Expr) and isinstance(s.value, ast.Call) and getattr(s.value.func, "attr", "") == "append":
                lst = unparse(s.value.func.value)
                a = s.value.args[0]
                if isinstance(a, ast.Call) and isinstance(a.func, ast.Attribute) and unparse(a.func.value) == v and not a.args:
                    got[lst] = a.func.attr
    ck.shape(set(got) == set(want), "%s: both coordinate lists appended from the loop variable's getters" % f.name, f.loc())
    ck.ob("PROV", construct, got == want, expected=want, found=got, slot="coordinate-lists", where=f.loc(),
          note="one coordinate pair per object, from its own getters, in the order given")
    # and these lists are what is passed as the coordinates
    callee, b = bind.bind(prog, f, call)
    for lst in want:
        a = b.get(lst)
        ck.ob("PROV", construct, isinstance(a, ast.Name) and a.id == lst, expected="%s -> %s" % (lst, lst), found=unparse(a) if a is not None else None,
              slot="list:%s" % lst, where=f.loc(call))


def _sp_methods(ck, prog):
    coords = {"phaseDiagramPlot": {"fp": "self.get_fraction_positive()", "fn": "self.get_fraction_negative()"},
              "uverskyPlot": {"hydropathy": "self.get_uversky_hydropathy()", "mean_net_charge": "self.get_mean_net_charge()"}}
    backend = {"show_phaseDiagramPlot": "show_single_phasePlot", "save_phaseDiagramPlot": "save_single_phasePlot",
               "show_uverskyPlot": "show_single_uverskyPlot", "save_uverskyPlot": "save_single_uverskyPlot"}
    for name, be in backend.items():
        f = prog.fn(SP, "SequenceParameters." + name)
        construct = f.mod.relpath + ":" + f.qual
        calls = _calls(prog, f, lambda c: c.mod.rel == PLT)
        ck.ob("BIND", construct, len(calls) >= 1 and all(c.name == be for _, c in calls), expected="plotting." + be,
              found=[c.name for _, c in calls], slot="callee", where=f.loc())
        req = [p for p in f.params() if p in NAMED]
        for call, callee in calls:
            forward(ck, prog, f, call, required=req)
            _, b = bind.bind(prog, f, call)
            for formal, src in coords[name.split("_", 1)[1]].items():
                a = b.get(formal)
                ck.ob("PROV", construct, a is not None and unparse(a) == src, expected="%s = %s" % (formal, src), found=unparse(a) if a is not None else None,
                      slot="%s@%d" % (formal, call.lineno - f.node.lineno), where=f.loc(call),
                      note="marker coordinates come from the object's own composition getters")
        if name.startswith("show_"):
            _getfig_discipline(ck, f)
            # every path forwards (both branches of `if getFig`)
            ifs = [s for s in f.body() if isinstance(s, ast.If) and unparse(s.test) == "getFig"]
            if ifs:
                both = all(any(isinstance(x, ast.Call) and prog.resolve_call(f, x) is not None and prog.resolve_call(f, x).name == be
                               for st in br for x in ast.walk(st)) for br in (ifs[0].body, ifs[0].orelse))
                ck.ob("BIND", construct, both, expected="both branches draw through plotting." + be, found=both, slot="both-branches", where=f.loc())
    # the getters those coordinates come from are C04's wrappers (checked there); here: they exist
    ck.count("SequenceParameters plot methods", len(backend))


def _backend_entry(ck, prog):
    spec = {
        "show_single_phasePlot": ("single_plot", {"x": "fp", "y": "fn"}, "finalize_DasPappu"),
        "save_single_phasePlot": ("single_plot", {"x": "fp", "y": "fn"}, "finalize_DasPappu"),
        "show_multiple_phasePlot": ("multiple_plot", {"x_list": "fp_list", "y_list": "fn_list"}, "finalize_DasPappu"),
        "save_multiple_phasePlot": ("multiple_plot", {"x_list": "fp_list", "y_list": "fn_list"}, "finalize_DasPappu"),
        "show_single_uverskyPlot": ("single_plot", {"x": "mean_net_charge", "y": "hydropathy"}, "finalize_uversky"),
        "save_single_uverskyPlot": ("single_plot", {"x": "mean_net_charge", "y": "hydropathy"}, "finalize_uversky"),
        "show_multiple_uverskyPlot": ("multiple_plot", {"x_list": "mean_net_charge_list", "y_list": "hydropathy_list"}, "finalize_uversky"),
        "save_multiple_uverskyPlot": ("multiple_plot", {"x_list": "mean_net_charge_list", "y_list": "hydropathy_list"}, "finalize_uversky"),
    }
    for name, (marker, xy, fin) in spec.items():
        f = prog.fn(PLT, name)
        construct = f.mod.relpath + ":" + f.qual
        calls = _calls(prog, f, lambda c: c.mod.rel == PLT)
        mk = [(n, c) for n, c in calls if c.name == marker]
        fz = [(n, c) for n, c in calls if c.name == fin]
        ck.ob("BIND", construct, len(mk) == 1 and len(fz) == 1, expected="%s then %s" % (marker, fin), found=[c.name for _, c in calls], slot="pipeline", where=f.loc())
        for call, callee in mk:
            forward(ck, prog, f, call, required=[p for p in f.params() if p in ("label", "label_list")] + list(xy.values()))
            _, b = bind.bind(prog, f, call)
            for formal, src in xy.items():
                a = b.get(formal)
                ck.ob("PROV", construct, isinstance(a, ast.Name) and a.id == src, expected="%s = %s" % (formal, src), found=unparse(a) if a is not None else None,
                      slot="marker-%s" % formal, where=f.loc(call),
                      note="phase diagram: (f+, f-); Uversky: (mean net charge, hydropathy)")
        for call, callee in fz:
            forward(ck, prog, f, call, required=["title", "xLim", "yLim"])
            _, b = bind.bind(prog, f, call)
            first = call.args[0] if call.args else None
            src_ok = isinstance(first, ast.Name) and any(isinstance(s, ast.Assign) and unparse(s.targets[0]) == first.id and isinstance(s.value, ast.Call)
                                                          and prog.resolve_call(f, s.value) is not None and prog.resolve_call(f, s.value).name == marker
                                                          for s in ast.walk(f.node))
            ck.ob("ORDER", construct, src_ok, expected="the figure that received the markers is the one finalised", found=unparse(first) if first is not None else None,
                  slot="same-figure", where=f.loc(call))
        if name.startswith("show_"):
            _getfig_discipline(ck, f)
            ifs = [s for s in f.body() if isinstance(s, ast.If) and unparse(s.test) == "getFig"]
            fig = unparse(fz[0][0]) if fz else None
            okr = False
            if ifs:
                rv = [x for x in ifs[0].body if isinstance(x, ast.Return)]
                assigned = [unparse(s.targets[0]) for s in f.body() if isinstance(s, ast.Assign) and isinstance(s.value, ast.Call)
                            and prog.resolve_call(f, s.value) is not None and prog.resolve_call(f, s.value).name == fin]
                okr = bool(rv) and rv[0].value is not None and unparse(rv[0].value) in assigned
            ck.ob("GETFIG", construct, okr, expected="getFig returns the finalised figure", found=okr, slot="returns-finalised", where=f.loc())
        else:
            saves = [(f, n) for n in ast.walk(f.node) if isinstance(n, ast.Call) and getattr(n.func, "attr", "") == "savefig"]
            names = {"filename"}
            if not saves:
                # the write may live in a small helper that is handed the file name
                for n, c in _calls(prog, f, lambda cc: cc.mod.rel == PLT):
                    _, b = bind.bind(prog, f, n)
                    for formal, actual in (b or {}).items():
                        if isinstance(actual, ast.Name) and actual.id == "filename":
                            hs = [(c, x) for x in ast.walk(c.node) if isinstance(x, ast.Call) and getattr(x.func, "attr", "") == "savefig"]
                            if hs:
                                saves += hs
                                names.add(formal)
            ck.shape(bool(saves), "%s: a savefig call (directly or in a helper that receives the file name)" % name, f.loc())
            ok = all(sv.args and unparse(sv.args[0]) in names for _, sv in saves)
            ck.ob("PROV", construct, ok, expected="savefig(filename, ...)", found=[unparse(sv)[:60] for _, sv in saves], slot="filename", where=f.loc())
    ck.count("backend entry points", len(spec))


def _sinks(ck, prog):
    # single_plot: scatter(x, y) of the (float-converted) parameters; annotation text = label
    f = prog.fn(PLT, "single_plot")
    c = f.mod.relpath + ":" + f.qual
    sc = [n for n in ast.walk(f.node) if isinstance(n, ast.Call) and unparse(n.func) == "plt.scatter"]
    ok = len(sc) == 1 and [unparse(a) for a in sc[0].args[:2]] == ["x", "y"]
    rebind = [unparse(s) for s in f.body() if isinstance(s, ast.Assign) and unparse(s.targets[0]) in ("x", "y")]
    ok = ok and all(r.replace(" ", "") in ("x=float(x)", "y=float(y)") for r in rebind)
    ck.ob("PROV-sink", c, ok, expected="plt.scatter(x, y) with x, y the (float-converted) coordinates", found=[unparse(s)[:60] for s in sc] + rebind, slot="scatter", where=f.loc())
    an = [n for n in ast.walk(f.node) if isinstance(n, ast.Call) and unparse(n.func) == "plt.annotate"]
    ck.ob("PROV-sink", c, len(an) == 1 and unparse(an[0].args[0]) == "label", expected="plt.annotate(label, ...)", found=[unparse(a)[:50] for a in an], slot="annotate",
          where=f.loc())
    g = prog.fn(PLT, "multiple_plot")
    c2 = g.mod.relpath + ":" + g.qual
    loops = [s for s in g.body() if isinstance(s, ast.For) and isinstance(s.iter, ast.Call) and getattr(s.iter.func, "id", "") == "zip"]
    ok = False
    if len(loops) == 1:
        lp = loops[0]
        zargs = [unparse(a) for a in lp.iter.args]
        tg = [unparse(e) for e in lp.target.elts] if isinstance(lp.target, ast.Tuple) else []
        sc = [n for n in ast.walk(lp) if isinstance(n, ast.Call) and unparse(n.func) == "plt.scatter"]
        an = [n for n in ast.walk(lp) if isinstance(n, ast.Call) and unparse(n.func) == "plt.annotate"]
        ok = zargs == ["x_list", "y_list", "label_list"] and len(tg) == 3 and len(sc) == 1 and [unparse(a) for a in sc[0].args[:2]] == tg[:2] \
            and len(an) == 1 and unparse(an[0].args[0]) == tg[2]
    ck.ob("PROV-sink", c2, ok, expected="for x, y, label in zip(x_list, y_list, label_list): scatter(x, y); annotate(label)", found=ok, slot="scatter", where=g.loc())
    for name in ("finalize_DasPappu", "finalize_uversky"):
        h = prog.fn(PLT, name)
        c3 = h.mod.relpath + ":" + h.qual
        want = {"plt.title": "title", "plt.xlim": "[0, xLim]", "plt.ylim": "[0, yLim]"}
        for fn, arg in want.items():
            calls = [n for n in ast.walk(h.node) if isinstance(n, ast.Call) and unparse(n.func) == fn]
            ck.ob("PROV-sink", c3, len(calls) == 1 and calls[0].args and unparse(calls[0].args[0]) == arg, expected="%s(%s)" % (fn, arg),
                  found=[unparse(x)[:50] for x in calls], slot=fn, where=h.loc())
        rets = bind.returns_of(h)
        ck.ob("GETFIG", c3, len(rets) == 1 and unparse(rets[0].value) == h.params()[0], expected="returns the figure it was given", found=[unparse(r.value) for r in rets],
              slot="returns-figure", where=h.loc())
    ck.count("drawing sinks traced", 2 + 2 + 6)


# ------------------------------------------------------------------------------------ polygons
def _cells_from_classifier(prog):
    """region -> list of convex pieces (each a list of Lin over x=f+, y=f-) from phasePlotRegion's own decision table"""
    pair = Pair(prog, positive=("N",))
    f, rows = pair.code_rows(SEQ, "Sequence.phasePlotRegion")
    from lcsa.dt import abs_side_conditions, _atoms_of
    from lcsa.lin import f_and
    dom = [Lin({"x": -1}, 0, "<="), Lin({"y": -1}, 0, "<="), Lin({"x": 1, "y": 1}, -1, "<=")]
    cells = {}
    for conds, out in rows:
        if not (isinstance(out, Rat) and out.is_const()):
            continue
        k = int(out.const_value())
        form = conj_formula(conds, {"N"})
        atoms = set()
        _atoms_of(form, atoms)
        side = abs_side_conditions(atoms, {"N"})
        for conj in dnf(f_and(form, *side)):
            piece = []
            for c in conj:
                co = dict(c.co)
                const = c.c + co.pop("N", 0)          # N := 1 (conditions are homogeneous in (n+, n-, N))
                lin = {}
                if "npos" in co:
                    lin["x"] = co.pop("npos")
                if "nneg" in co:
                    lin["y"] = co.pop("nneg")
                # abs atoms were eliminated through their side conditions as equalities
                for a, v in list(co.items()):
                    lin[a] = v
                piece.append(Lin(lin, const, c.op))
            piece = _eliminate_aux(piece)
            if piece is None:
                continue
            full = piece + dom
            if feasible(full) and interior_nonempty(full):
                cells.setdefault(k, []).append(full)
    return cells


def _eliminate_aux(piece):
    """substitute away auxiliary variables (abs atoms) that are fixed by an equality"""
    while True:
        aux = {v for c in piece for v in c.co if v not in ("x", "y")}
        if not aux:
            return piece
        v = sorted(aux)[0]
        eq = next((c for c in piece if c.op == "==" and v in c.co), None)
        if eq is None:
            return None
        a = eq.co[v]
        new = []
        for c in piece:
            if c is eq:
                continue
            if v in c.co:
                fct = c.co[v] / a
                co = dict(c.co)
                del co[v]
                for k, w in eq.co.items():
                    if k != v:
                        co[k] = co.get(k, 0) - fct * w
                new.append(Lin(co, c.c - fct * eq.c, c.op))
            else:
                new.append(c)
        piece = new


def _in_closure(pt, cons):
    x, y = pt
    for c in cons:
        v = c.co.get("x", 0) * x + c.co.get("y", 0) * y + c.c
        if c.op in ("<", "<=") and v > 0:
            return False
        if c.op == "==" and v != 0:
            return False
    return True


def _in_convex_polygon(pt, poly):
    sign = 0
    n = len(poly)
    for i in range(n):
        ax, ay = poly[i]
        bx, by = poly[(i + 1) % n]
        cross = (bx - ax) * (pt[1] - ay) - (by - ay) * (pt[0] - ax)
        if cross != 0:
            s = 1 if cross > 0 else -1
            if sign == 0:
                sign = s
            elif s != sign:
                return False
    return True


def _polygons(ck, prog):
    f = prog.fn(PLT, "finalize_DasPappu")
    construct = f.mod.relpath + ":" + f.qual
    fills = []
    for s in f.body():
        if isinstance(s, ast.Assign) and isinstance(s.value, ast.Call) and unparse(s.value.func) == "plt.fill":
            xs, ys = s.value.args[0], s.value.args[1]
            if not (isinstance(xs, ast.List) and isinstance(ys, ast.List) and len(xs.elts) == len(ys.elts)):
                raise Undecided("plt.fill vertex lists are not literal lists", f.loc(s))
            pts = [(const_number(f.mod, a), const_number(f.mod, b)) for a, b in zip(xs.elts, ys.elts)]
            if any(p[0] is None or p[1] is None for p in pts):
                raise Undecided("non-literal polygon vertex", f.loc(s))
            tgt = s.targets[0]
            name = unparse(tgt.elts[0]) if isinstance(tgt, ast.Tuple) else unparse(tgt)
            fills.append((name, pts, s))
    ck.ob("POLY", construct, len(fills) == 5, expected="five filled regions", found=len(fills), slot="count", where=f.loc())
    cells = _cells_from_classifier(prog)
    ck.ob("POLY", construct, sorted(cells) == [1, 2, 3, 4, 5], expected=[1, 2, 3, 4, 5], found=sorted(cells), slot="classifier-cells")
    region_of = {}
    for name, pts, node in fills:
        match = None
        for k, pieces in cells.items():
            inside = all(any(_in_closure(p, pc) for pc in pieces) for p in pts)
            cover = all(_in_convex_polygon(v, pts) for pc in pieces for v in vertices(pc))
            if inside and cover:
                match = k
        region_of[name] = match
        ck.ob("POLY", construct, match is not None, expected="polygon = closure of one cell of get_phasePlotRegion's partition",
              found={"vertices": [(str(a), str(b)) for a, b in pts], "matches_region": match}, slot="polygon:" + name, where=f.loc(node),
              note="thresholds are read from the classifier itself, so changing either side alone is reported")
    ck.ob("POLY", construct, sorted(v for v in region_of.values() if v) == [1, 2, 3, 4, 5], expected="one polygon per region", found=region_of, slot="bijection")
    # legend order
    lg = [n for n in ast.walk(f.node) if isinstance(n, ast.Call) and unparse(n.func) == "plt.legend"]
    ok = False
    found = None
    if len(lg) == 1 and len(lg[0].args) >= 2 and isinstance(lg[0].args[0], ast.List) and isinstance(lg[0].args[1], ast.List):
        handles = [unparse(e) for e in lg[0].args[0].elts]
        texts = [e.value if isinstance(e, ast.Constant) else "" for e in lg[0].args[1].elts]
        order = [region_of.get(h) for h in handles]
        key = {1: "weak", 2: "janus", 3: "strong polyampholyte", 4: "negatively", 5: "positively"}
        found = list(zip(order, [t.split(":")[0] for t in texts]))
        ok = len(handles) == 5 == len(texts) and all(r is not None and key[r] in t.lower() for r, t in zip(order, texts))
    ck.ob("POLY", construct, ok, expected="legend entry of each handle describes the region its polygon covers", found=found, slot="legend", where=f.loc())
    ck.count("polygons compared with classifier cells", len(fills))


# ------------------------------------------------------------------------------------ linear plots
def _linear(ck, prog):
    prof = {"build_NCPR_plot": "linearDistOfNCPR", "build_FCR_plot": "linearDistOfFCR", "build_sigma_plot": "linearDistOfSigma",
            "build_hydropathy_plot": "linearDistOfHydropathy"}
    api = {"NCPR": "build_NCPR_plot", "FCR": "build_FCR_plot", "Sigma": "build_sigma_plot", "Hydropathy": "build_hydropathy_plot"}
    blp = prog.fn(PLT, "__build_linear_plot")
    for b, be in prof.items():
        f = prog.fn(PLT, b)
        c = f.mod.relpath + ":" + f.qual
        calls = [n for n in ast.walk(f.node) if isinstance(n, ast.Call) and prog.resolve_call(f, n) is blp]
        ok = len(calls) == 1 and calls[0].args and unparse(calls[0].args[0]) == "SeqObj.%s(blobLen)" % be
        ck.ob("PROV", c, ok, expected="bars of SeqObj.%s(blobLen) - the profile get_linear_* returns" % be, found=[unparse(x.args[0]) if x.args else None for x in calls],
              slot="profile", where=f.loc())
        ck.count("forwarding calls checked")
    bars = [n for n in ast.walk(blp.node) if isinstance(n, ast.Call) and unparse(n.func) == "plt.bar"]
    ok = len(bars) == 1 and [unparse(a).replace(" ", "") for a in bars[0].args[:2]] == ["data[0,:]", "data[1,:]"]
    ck.ob("PROV-sink", blp.mod.relpath + ":" + blp.qual, ok, expected="plt.bar(data[0, :], data[1, :]) - one bar per column: position row, value row",
          found=[unparse(x)[:70] for x in bars], slot="bar", where=blp.loc())
    for kind in ("show", "save"):
        for nm, b in api.items():
            f = prog.fn(SP, "SequenceParameters.%s_linear%s" % (kind, nm))
            c = f.mod.relpath + ":" + f.qual
            calls = _calls(prog, f, lambda cc: cc.mod.rel == PLT and cc.name == "%s_linearplot" % kind)
            ok = len(calls) == 1
            if ok:
                call = calls[0][0]
                forward(ck, prog, f, call, required=[p for p in f.params() if p in ("blobLen", "getFig", "filename")])
                _, bnd = bind.bind(prog, f, call)
                ok = unparse(bnd.get("build_fun")) == "plotting." + b and unparse(bnd.get("SeqObj")) == "self.SeqObj"
            ck.ob("BIND", c, ok, expected="plotting.%s_linearplot(plotting.%s, self.SeqObj, blobLen, ...)" % (kind, b),
                  found=[unparse(x[0])[:80] for x in calls], slot="forwards", where=f.loc())
            if kind == "show":
                _getfig_discipline(ck, f)
    for name in ("show_linearplot", "save_linearplot"):
        f = prog.fn(PLT, name)
        c = f.mod.relpath + ":" + f.qual
        calls = [n for n in ast.walk(f.node) if isinstance(n, ast.Call) and unparse(n.func) == "build_fun"]
        ok = len(calls) == 1 and [unparse(a) for a in calls[0].args] == ["SeqObj", "blobLen"]
        ck.ob("BIND", c, ok, expected="build_fun(SeqObj, blobLen)", found=[unparse(x) for x in calls], slot="builder-call", where=f.loc())
        if name.startswith("show"):
            _getfig_discipline(ck, f)
    ck.count("linear plot entry points", 8)


def run_thorough(ck, prog):
    from props import thorough
    ck.attempt(thorough.whole_package_bind, ck, prog)
