"""C04 - composition parameters equal their published per-residue definitions.

Decides: the effective residue->charge map; every parameter is the commutative per-residue fold of the
published table with the right divisor (exact equality of normal forms over the composition atoms
cnt[A..Y] with the reference definitions in spec/ref); the 17 API wrappers forward unchanged.
Does not decide floating-point rounding."""
from fractions import Fraction

from lcsa.alg import Rat
from lcsa.ref import Pair, subst_rows, charge_substitution
from props.common import (SEQ, SP, SEQ_PATH, LETTERS, check_charge_map, compare_tables, check_api)

PARAMS = [
    # backend method, args, reference method
    ("countPos", {}, "countPos"), ("countNeg", {}, "countNeg"), ("countNeut", {}, "countNeut"),
    ("Fplus", {}, "Fplus"), ("Fminus", {}, "Fminus"), ("FCR", {}, "FCR"), ("NCPR", {}, "NCPR"),
    ("mean_net_charge", {}, "mean_net_charge"), ("FER", {}, "FER"),
    ("fraction_disorder_promoting", {}, "fraction_disorder_promoting"),
    ("amino_acid_fraction", {}, "amino_acid_fraction"),
    ("meanHydropathy", {}, "meanHydropathy"), ("uverskyHydropathy", {}, "uverskyHydropathy"),
    ("meanWWHydropathy", {}, "meanWWHydropathy"),
    ("FPPII_chain", {}, "FPPII_hilser"),
    ("FPPII_chain", {"mode": "hilser"}, "FPPII_hilser"),
    ("FPPII_chain", {"mode": "creamer"}, "FPPII_creamer"),
    ("FPPII_chain", {"mode": "kallenbach"}, "FPPII_kallenbach"),
    ("molecular_weight", {}, "molecular_weight"),
]

API = [
    ("get_countPos", "countPos", None), ("get_countNeg", "countNeg", None), ("get_countNeut", "countNeut", None),
    ("get_fraction_positive", "Fplus", None), ("get_fraction_negative", "Fminus", None),
    ("get_FCR", "FCR", None), ("get_NCPR", "NCPR", None), ("get_mean_net_charge", "mean_net_charge", None),
    ("get_fraction_expanding", "FER", None),
    ("get_fraction_disorder_promoting", "fraction_disorder_promoting", None),
    ("get_amino_acid_fractions", "amino_acid_fraction", None),
    ("get_mean_hydropathy", "meanHydropathy", None), ("get_uversky_hydropathy", "uverskyHydropathy", None),
    ("get_WW_hydropathy", "meanWWHydropathy", None), ("get_PPII_propensity", "FPPII_chain", None),
    ("get_molecular_weight", "molecular_weight", None),
]


def run(ck, prog):
    from props.common import check_memos
    ck.attempt(check_memos, ck, prog)
    ck.explanation = (
        "Static analysis of the syntax trees of localcider/backend/{sequence,restable,residue}.py and "
        "data/aminoacids.py. Each composition parameter is mapped to an exact normal form (a rational function "
        "over the composition atoms cnt[A]..cnt[Y]) by a finite case split of its loop body over the 20 letters, "
        "with table lookups resolved through the record layout skeleton->ResTable->Residue; the normal form is "
        "compared by cross-multiplication with that of the reference definition (published tables, sum/N). "
        "Because the normal form depends on the sequence only through the composition atoms, permutation "
        "invariance and the stated identities hold for every sequence, not for sampled ones.")
    ck.assumptions += ["float evaluation differs from the exact rational value by rounding only (not analysed)",
                       "PPII scales (Elam 2013, Rucker 2003, Shi 2005) as frozen in spec/ref from the library's "
                       "documentation; not re-checked against the papers offline"]
    cmap = check_charge_map(ck, prog)
    sub = charge_substitution(cmap)
    pair = Pair(prog)
    for meth, args, refm in PARAMS:
        f, code = pair.code_rows(SEQ, "Sequence." + meth, args)
        ref = pair.ref_rows("Sequence." + refm)
        code = subst_rows(code, sub)
        ref = subst_rows(ref, sub)
        slot = meth + ("(%s)" % ",".join("%s=%s" % kv for kv in sorted(args.items())) if args else "")
        if meth == "amino_acid_fraction":
            _dict_rows(ck, f, code, ref, slot)
            continue
        compare_tables(ck, "FOLD-ALG", SEQ_PATH + ":Sequence." + meth, code, ref, slot, where=f.loc(),
                       note="parameter must equal (sum over residues of the published value)/N")
        ck.count("parameters compared")
    ck.sample({"parameter": "meanHydropathy", "normal_form_of_reference": repr(pair.ref_rows("Sequence.meanHydropathy")[0][1])[:200]})
    # identities (consequences of the normal forms; recorded as obligations of the reference too)
    _, fcr = pair.code_rows(SEQ, "Sequence.FCR")
    _, ncpr = pair.code_rows(SEQ, "Sequence.NCPR")
    _, fp = pair.code_rows(SEQ, "Sequence.Fplus")
    _, fm = pair.code_rows(SEQ, "Sequence.Fminus")
    if all(len(r) == 1 and isinstance(r[0][1], Rat) for r in (fcr, ncpr, fp, fm)):
        ck.ob("ALG-identity", SEQ_PATH + ":Sequence.FCR", fcr[0][1].equals(fp[0][1] + fm[0][1]),
              expected="FCR == Fplus + Fminus", found=repr(fcr[0][1]), slot="FCR=f+ + f-")
        ck.ob("ALG-identity", SEQ_PATH + ":Sequence.NCPR", ncpr[0][1].equals(fp[0][1] - fm[0][1]),
              expected="NCPR == Fplus - Fminus", found=repr(ncpr[0][1]), slot="NCPR=f+ - f-")
    ck.attempt(check_api, ck, prog, API, allow_pre=("__verify_pH",))
    ck.floor("composition parameters", ck.analysed.get("parameters compared", 0), 17)
    ck.floor("api wrappers", ck.analysed.get("api wrappers checked", 0), 16)


def _dict_rows(ck, f, code, ref, slot):
    construct = SEQ_PATH + ":Sequence.amino_acid_fraction"
    if len(code) != 1:
        # paths that cannot happen for a sequence over the twenty letters (N is the sum of the twenty counts) are dropped exactly
        from lcsa.dt import feasible_with
        from lcsa.lin import Lin
        ident = [Lin(dict({"cnt[%s]" % L: 1 for L in LETTERS}, N=-1), 0, "==")] + [Lin({"cnt[%s]" % L: -1}, 0, "<=") for L in LETTERS]
        code = [(c, o) for c, o in code if feasible_with(c, ident, {"N"}) is not None]
    ck.shape(len(code) == 1 and len(ref) == 1 and isinstance(code[0][1], dict), "amino_acid_fraction: one reachable path returning a table (%d paths)" % len(code), f.loc())
    c, r = code[0][1], ref[0][1]
    ck.ob("FOLD-ALG", construct, set(c) == set(r), expected=sorted(r), found=sorted(c), slot="keys", where=f.loc())
    for L in sorted(r):
        if L in c:
            ok = isinstance(c[L], Rat) and c[L].equals(r[L])
            ck.ob("FOLD-ALG", construct, ok, expected=repr(r[L]), found=repr(c[L])[:120], slot="fraction[%s]" % L,
                  where=f.loc())
    ck.count("parameters compared")
