"""C05 - patterning parameters see only charge classes; reversal / inversion invariance.

Decides the premises from which the invariances follow for every sequence:
 DEP    kappa, delta, delta-max (value) and SCD read the sequence only through the charge pattern and the length
 PART   the charge pattern is a per-position function of the residue's charge class; Omega's recoding is a function of
        membership in {P,E,D,K,R}
 INV    sigma, the blob statistic of delta and the SCD term are unchanged by exchanging + and - (polynomial identities);
        the documented delta-max families satisfy reverse(invert(F(n+,n-,n0))) = F(n-,n+,n0) as sets (checked on the
        specification that C03 proves the code equal to)
 REV    delta's window family is the complete family [0, N-w] and the blob statistic uses its window only through order-free
        counts; SCD sums over all pairs, its term is symmetric and depends on the indices only through their distance, and the
        pair domain is closed under reversal
The invariances themselves are then lemmas (DESIGN.md C05); kappa and Omega inherit."""
import ast

from lcsa.alg import Rat
from lcsa.eff import Effects
from lcsa.model import Undecided, unparse
from lcsa.ref import Pair, subst_rows
from lcsa.dt import compare_rows, feasible_with
from lcsa.sym import Evaluator, RLEV, subst_deep, deep_atoms, FUNC_REG, fatom, LETTERS
from props.common import CONDITIONAL_CALLEES, SEQ, SEQ_PATH, check_charge_map
from props import C03, C06, C07


def run(ck, prog):
    from props.common import check_memos
    ck.attempt(check_memos, ck, prog)
    ck.explanation = (
        "Dependence is read from the interprocedural read sets and from the atoms of the normal forms; the symmetry premises "
        "are polynomial identities on the normal forms lcsa derives from the code (atoms for + and - counts exchanged); the "
        "family-closure lemma is decided on the documented families by the same block-size polytope inclusion used in C03.")
    ck.attempt(check_charge_map, ck, prog)
    ck.attempt(_dep, ck, prog)
    ck.attempt(_omega_partition, ck, prog)
    ck.attempt(_inversion, ck, prog)
    ck.attempt(_reversal, ck, prog)
    ck.attempt(_family_closure, ck, prog)


def _dep(ck, prog):
    E = Effects(prog, cut=CONDITIONAL_CALLEES)
    methods = {g.name for g in prog.mod(SEQ).funcs.values() if g.cls == "Sequence"}
    want = {"kappa": {"chargePattern", "len", "dmax", "seqDeltaMax", "seq"}, "Omega": {"seq"}}
    # delta / sigma / SCD: read off the normal forms (path-sensitive: the pH branch of NCPR/FCR is not taken)
    pair = Pair(prog)
    for m, args in (("sigma", {}), ("deltaForm", {"bloblen": Rat.atom("w")}), ("delta", {})):
        f, rows = pair.code_rows(SEQ, "Sequence." + m, args)
        atoms = set()
        for conds, out in rows:
            if isinstance(out, Rat):
                atoms |= deep_atoms(out)
            from props.C08 import _cond_atoms
            for c in conds:
                atoms |= _cond_atoms(c)
        bases = {rec["window"][0] for rec in pair.code.wsums if rec.get("window")}
        ok = all(a in ("npos", "nneg", "N", "w") or a.startswith("WS") for a in atoms) and bases <= {"cp"}
        ck.ob("DEP", SEQ_PATH + ":Sequence." + m, ok, expected="normal form over (n+, n-, N) and window counts of the charge pattern only",
              found={"atoms": sorted(atoms), "windows_over": sorted(bases)}, slot="reads", where=f.loc(),
              note="the parameter may see the residues only through the charge pattern")
    g = prog.fn(SEQ, "Sequence.sequence_charge_decoration")
    nf = C07.pair_sum(prog, g, Evaluator(prog))
    ck.ob("DEP", SEQ_PATH + ":Sequence.sequence_charge_decoration", nf["reads"] == ["cp"], expected=["cp"], found=nf["reads"], slot="reads", where=g.loc())
    for m, allowed in want.items():
        s = E.of(SEQ, "Sequence." + m)
        from lcsa import sym as _sym
        # (a field that MEMO-KEY showed to be a complete result cache of the receiver is not an input)
        caches = {t.split("__")[-1] for t in _sym.MEMO_OK_SLOTS | _sym.MEMO_OK_TABLES}
        reads = {r for r in s.self_reads if r not in methods and r.split("__")[-1] not in caches}
        ck.ob("DEP", SEQ_PATH + ":Sequence." + m, reads <= allowed, expected=sorted(allowed), found=sorted(reads), slot="reads",
              note="the parameter may see the residues only through the charge pattern"
                   + (" (kappa reaches self.seq only inside deltaMax, where C03 shows it feeds the permutant, never the value)" if m == "kappa" else ""))
    ck.count("dependence sets", len(want))


def _omega_partition(ck, prog):
    r = C06.recoded(prog, "Omega", {})
    construct = SEQ_PATH + ":Sequence.Omega"
    if r[0] != "ok":
        ck.ob("PART", construct, False, expected="kappa of the two-letter recoding", found=r, slot="shape")
        return
    t = r[1]
    a = {t[L] for L in "PEDKR"}
    b = {t[L] for L in LETTERS if L not in "PEDKR"}
    ck.ob("PART", construct, len(a) == 1 and len(b) == 1 and a != b, expected="constant on {P,E,D,K,R} and on the other fifteen", found={"in": sorted(a), "out": sorted(b)},
          slot="partition", note="replacements within either class leave the recoded sequence, hence Omega, unchanged")


def _inversion(ck, prog):
    pair = Pair(prog)
    swap = {"npos": Rat.atom("nneg"), "nneg": Rat.atom("npos"), "wpos": Rat.atom("wneg"), "wneg": Rat.atom("wpos")}
    # sigma
    f, rows = pair.code_rows(SEQ, "Sequence.sigma")
    mis = compare_rows(rows, subst_rows(rows, swap), positive=("N", "w"))
    ck.ob("INV", SEQ_PATH + ":Sequence.sigma", mis is None, expected="sigma(n+, n-) == sigma(n-, n+)", found=mis or "symmetric", slot="sigma", where=f.loc())
    # blob statistic of delta
    f, rows = pair.code_rows(SEQ, "Sequence.deltaForm", {"bloblen": Rat.atom("w")})
    n = 0
    for rec in pair.code.wsums:
        pieces = rec["pieces"]
        sw = [([_sc(c, swap) for c in conds], subst_deep(t, swap)) for conds, t in pieces]
        # the global sigma inside the term is itself symmetric (above), so exchanging all four atoms must leave the pieces unchanged
        mis = compare_rows(pieces, sw, positive=("N", "w"))
        ck.ob("INV", SEQ_PATH + ":Sequence.deltaForm", mis is None, expected="blob term unchanged by exchanging the + and - counts", found=mis or "symmetric",
              slot="blob-term@%s" % rec["where"].rsplit(":", 1)[-1], where=rec["where"])
        n += 1
    ck.floor("window sums checked for inversion symmetry", n, 1)
    # SCD term: product of the two charges
    g = prog.fn(SEQ, "Sequence.sequence_charge_decoration")
    nf = C07.pair_sum(prog, g, Evaluator(prog))
    term = nf["term"]
    els = sorted(a for a in deep_atoms(term) if a in FUNC_REG and FUNC_REG[a][0].startswith("el:"))
    neg = {a: Rat.const(0) - Rat.atom(a) for a in els}
    ck.ob("INV", SEQ_PATH + ":Sequence.sequence_charge_decoration", len(els) == 2 and subst_deep(term, neg).equals(term),
          expected="term(-q_i, -q_j) == term(q_i, q_j)", found=repr(term), slot="scd-term", where=nf["loc"])


def _sc(c, sub):
    from lcsa.ref import _subst_cond
    return _subst_cond(c, sub)


def _reversal(ck, prog):
    pair = Pair(prog)
    f, rows = pair.code_rows(SEQ, "Sequence.deltaForm", {"bloblen": Rat.atom("w")})
    N, w = Rat.atom("N"), Rat.atom("w")
    for rec in pair.code.wsums:
        full = rec["lo"].equals(Rat.const(0)) and rec["hi"].equals(N - w + Rat.const(1))
        win = rec["window"]
        wok = win is not None and win[0] == "cp" and win[1].equals(Rat.atom("@i")) and win[2].equals(Rat.atom("@i") + w)
        atoms = set()
        for conds, t in rec["pieces"]:
            atoms |= deep_atoms(t)
            for c in conds:
                from props.C08 import _cond_atoms
                atoms |= _cond_atoms(c)
        order_free = atoms <= {"wpos", "wneg", "N", "w", "npos", "nneg"}
        ck.ob("REV", SEQ_PATH + ":Sequence.deltaForm", full and wok and order_free,
              expected="complete window family [0, N-w], window [i, i+w), term over order-free counts only, combined by +",
              found={"domain": [repr(rec["lo"]), repr(rec["hi"])], "window": [repr(x) for x in (win or ())], "atoms": sorted(atoms)},
              slot="windows@%s" % rec["where"].rsplit(":", 1)[-1], where=rec["where"],
              note="reversal maps window i to window N-w-i of the same family with the same counts")
    # SCD
    g = prog.fn(SEQ, "Sequence.sequence_charge_decoration")
    construct = SEQ_PATH + ":Sequence.sequence_charge_decoration"
    nf = C07.pair_sum(prog, g, Evaluator(prog))
    term = nf["term"]
    els = sorted(a for a in deep_atoms(term) if a in FUNC_REG and FUNC_REG[a][0].startswith("el:"))
    ok_fac = False
    if len(els) == 2:
        one = {els[0]: Rat.const(1), els[1]: Rat.const(1)}
        q = term.subst(one)                                   # the distance factor
        free = not any(a in deep_atoms(q) for a in els)
        product = term.equals(q * Rat.atom(els[0]) * Rat.atom(els[1]))
        T = Rat.atom("T")
        shifted = subst_deep(q, {"I": Rat.atom("I") + T, "J": Rat.atom("J") + T})
        ok_fac = free and product and shifted.equals(q)
    ck.ob("REV", construct, ok_fac, expected="term = q_i * q_j * f(i - j): symmetric in the two charges, position enters only through the distance",
          found=repr(term), slot="scd-term", where=nf["loc"])
    # the pair domain is closed under (I, J) -> (N-1-J, N-1-I)
    from lcsa.lin import Lin
    dom = nf["domain"]
    mapped = []
    for c in dom:
        co = dict(c.co)
        i, j = co.pop("I", 0), co.pop("J", 0)
        # substitute I := N-1-J', J := N-1-I'
        const = c.c + (i + j) * (-1)
        co["N"] = co.get("N", 0) + i + j
        if i:
            co["J"] = co.get("J", 0) - i
        if j:
            co["I"] = co.get("I", 0) - j
        mapped.append(Lin(co, const, c.op))
    a = C07.dom_subset(dom, mapped)
    b = C07.dom_subset(mapped, dom)
    ck.ob("REV", construct, a is None and b is None, expected="pair domain invariant under reversal", found={"missing": repr(a), "extra": repr(b)}, slot="scd-domain",
          where=nf["loc"])


def code_family_rows(prog):
    """the candidate families as the code enumerates them: [(conds, ('family', blocks, vars))]"""
    f, ev, results, flag = C03.walk_deltamax(prog)
    rows = []
    for conds, kind, payload in results:
        if kind != "update":
            continue
        node, env, lv = payload
        objs = {unparse(c.func.value) for c in ast.walk(node.test) if isinstance(c, ast.Call) and getattr(c.func, "attr", "") == "delta"}
        if len(objs) != 1:
            raise Undecided("candidate update shape", f.loc(node))
        cand = env.get(next(iter(objs)))
        if not (isinstance(cand, tuple) and cand and cand[0] == "CANDIDATE" and isinstance(cand[1][0], RLEV)):
            raise Undecided("candidate is not a run-length string", f.loc(node))
        names = [v[0] for v in lv]
        base = [c for c in conds if not C03._mentions_loopvar(c, names)]
        rows.append((base, ("family", list(cand[1][0].blocks), [(v, lo, hi) for v, lo, hi, _ in lv])))
    return rows


def _family_closure(ck, prog):
    """reverse(invert(F(n+, n-, n0))) = F(n-, n+, n0) - decided on the families the CODE enumerates (a necessary condition
    of inversion invariance of delta-max that does not go through the documented families), and on the documented ones"""
    for label, spec in (("code", code_family_rows(prog)), ("spec", [r for r in C03.spec_rows() if r[1] is not None and r[1][0] == "family"])):
        _closure_of(ck, label, spec)


def _closure_of(ck, label, spec):
    swap = {"npos": Rat.atom("nneg"), "nneg": Rat.atom("npos")}
    inv = {"+": "-", "-": "+", "0": "0"}
    n = 0
    for conds, (_, blocks, vars_) in spec:
        base_blocks = RLEV(blocks).blocks
        # delta is invariant under inversion and under reversal separately, so any element of the group they generate will do
        images = {"rev.inv": [(inv[c], k) for c, k in reversed(base_blocks)], "inv": [(inv[c], k) for c, k in base_blocks],
                  "id": list(base_blocks), "rev": list(reversed(base_blocks))}
        for conds2, (_, blocks2, vars2) in spec:
            c2 = [_sc(c, swap) for c in conds2]
            both = list(conds) + c2
            if feasible_with(both, C03.DOM, {"N"}, int_atoms=C03.INT) is None:
                continue
            b2 = RLEV([(c, k.subst(swap)) for c, k in blocks2]).blocks
            # rename the loop variables of the second family apart
            ren = {v[0]: Rat.atom(v[0] + "'") for v in vars2}
            b2 = [(c, k.subst(ren)) for c, k in b2]
            v2 = [(v + "'", lo.subst(swap).subst(ren), hi.subst(swap).subst(ren)) for v, lo, hi in vars2]
            r1 = r2 = "no element of {id, inv, rev, rev.inv} maps one family onto the other"
            for gname, tb in images.items():
                tb_s, vs_s, sub = C03._subst_family(both, tb, vars_)
                b2_s = RLEV([(c, k.subst(sub)) for c, k in b2]).blocks
                v2_s = [(v, lo.subst(sub), hi.subst(sub)) for v, lo, hi in v2]
                a1 = C03.family_included(tb_s, vs_s, b2_s, v2_s, both)
                a2 = C03.family_included(b2_s, v2_s, tb_s, vs_s, both)
                if a1 is None and a2 is None:
                    r1 = r2 = None
                    break
                if gname == "rev.inv":
                    r1, r2 = a1, a2
            # inner-choice ties (equal block counts) are left open by the statement: skip pairs that overlap only on a tie
            construct = "spec:deltamax-families" if label == "spec" else SEQ_PATH + ":Sequence.deltaMax"
            ck.ob("INV-families", construct, r1 is None and r2 is None, expected="g(F(n+,n-,n0)) == F(n-,n+,n0) for some g in {id, inv, rev, rev.inv}",
                  found={"forward": r1, "backward": r2}, slot=label + ":" + "".join(c for c, _ in RLEV(blocks).blocks) + "->" + "".join(c for c, _ in b2_s) + "#%d" % n,
                  note="closure of the candidate families under reversal+inversion is what makes delta-max invariant under charge inversion")
            n += 1
    ck.count("family closure cases (%s)" % label, n)
    ck.floor("family closure cases (%s)" % label, n, 6)
