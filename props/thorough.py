"""Thorough-tier extras: documentation agreement and whole-package variants of rules.
Hits on constructs a property does not cover are printed as INFO and never change a verdict."""
import ast
import json
import os
import re
from fractions import Fraction
from decimal import Decimal

from lcsa.model import Undecided, unparse
from lcsa import tab, bind
from lcsa.eff import Effects

HERE = os.path.dirname(os.path.dirname(os.path.abspath(__file__)))


def _doc(prog, name="webpage.MD"):
    p = os.path.join(prog.root, name)
    if not os.path.exists(p):
        return None
    with open(p, encoding="utf-8", errors="replace") as fh:
        return fh.read()


def doc_pka(ck, prog):
    """the pKa line of webpage.MD equals the table the code uses (and the reference in spec/ref)"""
    doc = _doc(prog)
    if doc is None:
        ck.info("webpage.MD not present under the analysed root: documentation agreement skipped")
        return
    m = re.search(r"'C':\s*([\d.]+),\s*'Y':\s*([\d.]+),\s*'H':\s*([\d.]+),\s*'E':\s*([\d.]+),\s*'D':\s*([\d.]+),\s*'K':\s*([\d.]+),\s*'R':\s*([\d.]+)", doc)
    if not m:
        raise Undecided("pKa line not found in webpage.MD")
    docd = dict(zip("CYHEDKR", (Fraction(Decimal(x)) for x in m.groups())))
    code = tab.table_from_func(prog, tab.AA, "get_pKa")
    ck.ob("DOC-pKa", "localcider/backend/data/aminoacids.py:get_pKa", code == docd, expected={k: str(v) for k, v in docd.items()},
          found={k: str(v) for k, v in code.items()}, slot="webpage.MD", note="documented EMBOSS pKa values")


def doc_alphabets(ck, prog):
    doc = _doc(prog)
    with open(os.path.join(HERE, "spec", "alphabets.json")) as fh:
        spec = json.load(fh)
    names = {"two": 2, "three": 3, "four": 4, "five": 5, "six": 6, "eight": 8, "ten": 10, "eleven": 11, "twelve": 12, "fifteen": 15, "eighteen": 18}
    sources = []
    if doc is not None:
        sources.append(("webpage.MD", doc))
    f = prog.fn("backend/sequenceComplexity.py", "SequenceComplexity.reduce_alphabet")
    ds = ast.get_docstring(f.node) or ""
    sources.append(("docstring of reduce_alphabet", ds))
    for label, text in sources:
        found = 0
        for nm, size in names.items():
            m = re.search(r"\b%s\s*-\s*\[(.*?)\]" % nm, text)
            if not m:
                continue
            groups = [frozenset(g) for g in re.findall(r"\(([A-Z]+)\)", m.group(1))]
            want = [frozenset(g) for g in spec[str(size)]]
            ck.ob("DOC-alphabet", "spec/alphabets.json", sorted(map(sorted, groups)) == sorted(map(sorted, want)), expected=sorted("".join(sorted(g)) for g in want),
                  found=sorted("".join(sorted(g)) for g in groups), slot="%s:%s" % (label, nm))
            found += 1
        if found == 0:
            ck.info("no alphabet table found in %s" % label)


def doc_colours(ck, prog, colours):
    f = prog.fn("backend/sequence.py", "Sequence.set_HTMLColorResiduePalette")
    ds = ast.get_docstring(f.node) or ""
    names = re.findall(r"'([a-z]+)'", ds)
    ck.ob("DOC-colours", "localcider/backend/sequence.py:Sequence.set_HTMLColorResiduePalette", sorted(set(names)) == sorted(colours),
          expected=sorted(colours), found=sorted(set(names)), slot="docstring", note="the 17 standard HTML colour names the docstring promises")


def doc_phospho_tuple(ck, prog):
    doc = _doc(prog)
    if doc is None:
        return
    m = re.search(r"calculate the (kappa, fraction positive, fraction negative, FCR, NCPR, mean hydropathy and the phosphostatus)", doc)
    ck.ob("DOC-tuple", "webpage.MD", bool(m), expected="kappa, fraction positive, fraction negative, FCR, NCPR, mean hydropathy and the phosphostatus",
          found=m.group(1) if m else None, slot="phospho-tuple-order")


def whole_package_effects(ck, prog):
    """every function of the package: anything that mutates a module-level object or a parameter with a mutable default"""
    E = Effects(prog)
    n = 0
    for key, s in sorted(E.sum.items()):
        n += 1
        if s.global_muts:
            ck.info("EFF(whole package): %s mutates module-level %s" % (key, sorted("%s:%s" % g for g in s.global_muts)))
        d = s.f.defaults()
        for p, v in d.items():
            if isinstance(v, (ast.List, ast.Dict, ast.Set)) and p in s.param_muts:
                ck.info("MDEF(whole package): %s mutates its mutable default '%s'" % (key, p))
    ck.count("functions in the whole-package effect pass", n)


def whole_package_bind(ck, prog):
    """forwarding rule at every resolved call of the package (information only)"""
    n = bad = 0
    for f in prog.all_funcs():
        own = set(f.params()) - {"self"}
        for node in ast.walk(f.node):
            if not isinstance(node, ast.Call):
                continue
            callee, b = bind.bind(prog, f, node)
            if callee is None:
                continue
            n += 1
            for formal, actual in b.items():
                if formal.startswith("*"):
                    ck.info("BIND(whole package): %s passes too many arguments to %s" % (f.loc(node), callee.qual))
                    bad += 1
                elif isinstance(actual, ast.Name) and actual.id in own and actual.id in (callee.params()) and actual.id != formal:
                    ck.info("BIND(whole package): %s passes its parameter '%s' into '%s' of %s although the callee has a parameter of that name"
                            % (f.loc(node), actual.id, formal, callee.qual))
                    bad += 1
    ck.count("resolved calls in the whole-package binding pass", n)
    ck.count("suspicious bindings (information)", bad)
