"""C09 - pH-dependent charge follows Henderson-Hasselbalch; pI neutralises the chain.

Decides: the titration term of every residue class and the pKa table (exact normal forms vs the reference);
NCPR(pH) non-increasing in pH and |NCPR| <= FCR <= titratable/N (monotonicity / interval reading of the per-residue
terms); FER adds proline; the pH range guard on the four entry points; for the pI search: the only return is at a
pH whose normalised charge is within 0.02 of zero, normalisation divides by the titratable count (0 when none, so
7.0 is returned first), and the loop is bounded by two coupled counters.
Does NOT decide that the search returns rather than raises for every sequence (bisection convergence in floats)."""
import ast
from fractions import Fraction

from lcsa.alg import Rat
from lcsa.lin import Lin
from lcsa.model import Undecided, unparse
from lcsa.ref import Pair, subst_rows, charge_substitution
from lcsa.dt import compare_rows, feasible_with
from lcsa.sym import Evaluator, Path, ObjV, _Frame, FUNC_REG, fatom, LETTERS, fmt_conds
from lcsa import bind
from props.common import SEQ, SP, SEQ_PATH, check_charge_map, compare_tables, check_api

PH = Rat.atom("pH")


def run(ck, prog):
    from props.common import check_memos
    ck.attempt(check_memos, ck, prog)
    ck.explanation = (
        "charge_at_pH is summarised by a finite case split over the 20 letters into per-residue terms "
        "s/(1+10^(+-(pH-pKa))) with exact decimal pKa values and compared with the reference; monotonicity and the "
        "interval bounds are read off those terms. The pH guard and the pI loop are decided on their path tables: one "
        "symbolic iteration of the loop body with the charge evaluation as an uninterpreted function of its pH argument.")
    ck.assumptions += ["that the pI search returns rather than raises for every composition is NOT decided",
                       "10**x is positive and increasing in x"]
    cmap = check_charge_map(ck, prog)
    sub = charge_substitution(cmap)
    pair = Pair(prog)
    cases = [
        ("charge_at_pH", {"pH": PH}, "charge_net", "net charge"),
        ("charge_at_pH", {"pH": PH, "mode": "TOTAL"}, "charge_total", "total charge"),
        ("charge_at_pH", {"pH": PH, "normalize": True}, "charge_normalized", "net charge per titratable residue"),
        ("NCPR", {"pH": PH}, "NCPR_pH", "NCPR(pH)"),
        ("FCR", {"pH": PH}, "FCR_pH", "FCR(pH)"),
        ("FER", {"pH": PH}, "FER_pH", "FER(pH)"),
        ("mean_net_charge", {"pH": PH}, "mean_net_charge_pH", "|NCPR(pH)|"),
    ]
    for meth, args, refm, what in cases:
        f, code = pair.code_rows(SEQ, "Sequence." + meth, args)
        ref = pair.ref_rows("Sequence." + refm, {"pH": PH})
        slot = "%s(%s)" % (meth, ",".join("%s=%s" % (k, v) for k, v in sorted(args.items()) if k != "pH") or "pH")
        compare_tables(ck, "PART-ALG", SEQ_PATH + ":Sequence." + meth, subst_rows(code, sub), subst_rows(ref, sub), slot,
                       where=f.loc(), note=what + ": sum of Henderson-Hasselbalch fractions of K,R,H (+) and D,E,C,Y (-)")
        ck.count("pH formulas compared")
    ck.attempt(_terms, ck, prog, pair)
    ck.attempt(_verify_ph, ck, prog)
    ck.attempt(_pI, ck, prog)
    ck.attempt(check_api, ck, prog, [("get_isoelectric_point", "isoelectric_point", None)])
    ck.floor("pH formulas", ck.analysed.get("pH formulas compared", 0), 7)


# ----------------------------------------------------------------------------------- per-residue terms
def _terms(ck, prog, pair):
    """monotonicity and interval facts, read from the code's own per-letter terms"""
    construct = SEQ_PATH + ":Sequence.charge_at_pH"
    ev = pair.code
    f = prog.fn(SEQ, "Sequence.charge_at_pH")
    out = {}
    for mode in ("", "TOTAL"):
        rows = ev.run_function(f, {"pH": PH, "mode": mode})
        if len(rows) != 1 or not isinstance(rows[0].value, Rat) or not rows[0].value.d.is_const():
            raise Undecided("charge_at_pH is not a single linear form over the composition", f.loc())
        per = {}
        for mono, coef in rows[0].value.n.t.items():
            atoms = dict(mono)
            cn = [a for a in atoms if a.startswith("cnt[")]
            hs = [a for a in atoms if a.startswith("H") and a[1:].isdigit()]
            if len(cn) != 1 or len(hs) != 1 or len(atoms) != 2:
                raise Undecided("unexpected monomial %r in the titration sum" % (mono,), f.loc())
            per[cn[0][4]] = ev.terms[int(hs[0][1:])] * Rat.const(coef / rows[0].value.d.const_value())
        out[mode] = per
    net, tot = out[""], out["TOTAL"]
    ck.ob("PART", construct, set(net) == set("KRHDECY"), expected=sorted("KRHDECY"), found=sorted(net),
          slot="titratable-set", where=f.loc())
    for L in sorted(net):
        t = net[L]
        shape = _hh_shape(t)
        if shape is None:
            ck.ob("MONO", construct, False, expected="s/(1+10^(a*pH+b)), s=+-1, a=+-1", found=repr(t), slot="term[%s]" % L,
                  where=f.loc())
            continue
        s, a, b = shape
        ck.ob("MONO", construct, s * a > 0, expected="non-increasing in pH (sign*slope > 0)",
              found={"sign": str(s), "pH_slope": str(a), "offset": str(b)}, slot="term[%s]" % L, where=f.loc(),
              note="s/(1+10^(a*pH+b)) is non-increasing in pH iff s and a have the same sign")
        ck.ob("INTV", construct, abs(s) == 1, expected="|term| in (0,1): numerator +-1 over 1+positive",
              found=repr(t), slot="bound[%s]" % L, where=f.loc())
        ok = L in tot and (tot[L].equals(t) or tot[L].equals(-t)) and _hh_shape(tot[L]) and _hh_shape(tot[L])[0] == 1
        ck.ob("INTV", construct, bool(ok), expected="TOTAL term = |net term|", found=repr(tot.get(L)),
              slot="total[%s]" % L, where=f.loc(), note="gives |NCPR(pH)| <= FCR(pH) <= titratable/N")
    ck.count("per-residue titration terms", len(net))
    ck.sample({"net_terms": {L: repr(t) for L, t in sorted(net.items())}})


def _hh_shape(t):
    """t == s/(1 + exp10(a*pH + b)) -> (s, a, b)"""
    if not t.n.is_const():
        return None
    s = t.n.const_value()
    d = t.d
    lin = d.linear()
    if lin is None:
        return None
    co, c = lin
    if len(co) != 1:
        return None
    atom, k = next(iter(co.items()))
    if atom not in FUNC_REG or FUNC_REG[atom][0] != "exp10":
        return None
    # normalise so the constant is 1:  s/(c + k*E) = (s/c)/(1 + (k/c)E)
    if c == 0 or k / c != 1:
        return None
    arg = FUNC_REG[atom][1][0]
    al = arg.n.linear() if arg.d.is_const() else None
    if al is None:
        return None
    aco, ac = al
    dd = arg.d.const_value()
    if set(aco) != {"pH"}:
        return None
    return (s / c, aco["pH"] / dd, ac / dd)


# ----------------------------------------------------------------------------------- pH guard
def _verify_ph(ck, prog):
    g = prog.fn(SP, "SequenceParameters.__verify_pH")
    ev = Evaluator(prog)
    rows = [(p.conds, ("raise" if p.kind == "raise" else "ok")) for p in ev.run_function(g, {"pH": PH})]
    spec = [([("cmp", PH, "<", Rat.const(0))], "raise"), ([("cmp", PH, ">", Rat.const(14))], "raise"),
            ([("cmp", PH, ">=", Rat.const(0)), ("cmp", PH, "<=", Rat.const(14))], "ok")]
    mis = compare_rows(rows, spec, positive=())
    ck.ob("DT", g.mod.relpath + ":" + g.qual, mis is None, expected="raises iff pH < 0 or pH > 14", found=mis or "equivalent",
          slot="range", where=g.loc())
    n = 0
    for api, backend in (("get_FCR", "FCR"), ("get_NCPR", "NCPR"), ("get_mean_net_charge", "mean_net_charge"),
                         ("get_fraction_expanding", "FER")):
        f = prog.fn(SP, "SequenceParameters." + api)
        construct = f.mod.relpath + ":" + f.qual
        bind.check_wrapper(ck, prog, "BIND-api", SP, "SequenceParameters." + api, SEQ + ":Sequence." + backend,
                           allow_pre=("__verify_pH",))
        ev = Evaluator(prog)
        ev.opaque_calls[SEQ + ":Sequence." + backend] = lambda b: fatom("BACKEND", b.get("pH") if isinstance(b.get("pH"), Rat) else Rat.const(-999))
        rows = []
        for p in ev.run_function(f, {"pH": PH}, ObjV("SequenceParameters")):
            rows.append((p.conds, "raise" if p.kind == "raise" else ("forward" if isinstance(p.value, Rat) and
                         p.value.equals(fatom("BACKEND", PH)) else "other:" + repr(p.value))))
        spec2 = [(c, "forward" if o == "ok" else o) for c, o in spec]
        mis = compare_rows(rows, spec2, positive=())
        ck.ob("MUST-guard", construct, mis is None,
              expected="pH outside [0,14] rejected before the backend sees it; otherwise forwarded unchanged",
              found=mis or "equivalent", slot="guarded", where=f.loc())
        # and without a pH nothing is rejected
        rows0 = ev.run_function(f, {}, ObjV("SequenceParameters"))
        ck.ob("MUST-guard", construct, len(rows0) == 1 and rows0[0].kind == "return", expected="no rejection when pH is None",
              found=[p.kind for p in rows0], slot="default", where=f.loc())
        n += 1
    ck.count("pH entry points", n)
    ck.floor("pH entry points", n, 4)


# ----------------------------------------------------------------------------------- isoelectric point
def _pI(ck, prog):
    f = prog.fn(SEQ, "Sequence.isoelectric_point")
    construct = SEQ_PATH + ":Sequence.isoelectric_point"
    body = f.body()
    loops = [s for s in body if isinstance(s, (ast.While, ast.For))]
    if len(loops) != 1:
        raise Undecided("isoelectric_point: expected one search loop", f.loc())
    loop = loops[0]
    pre = body[:body.index(loop)]
    post = body[body.index(loop) + 1:]
    always = isinstance(loop, ast.While) and isinstance(loop.test, ast.Constant) and loop.test.value is True
    ev = Evaluator(prog)
    ev.opaque_calls[SEQ + ":Sequence.charge_at_pH"] = lambda b: fatom(
        "CH" + ("n" if b.get("normalize") is True else "x") + ("T" if b.get("mode") == "TOTAL" else ""), b["pH"])
    fr = _Frame(f, 0)
    env = {"self": ObjV("Sequence")}
    for s in pre:
        if isinstance(s, ast.Assign) and isinstance(s.targets[0], ast.Name):
            env[s.targets[0].id] = ev.eval(s.value, env, fr)
        elif not (isinstance(s, ast.Expr) and isinstance(s.value, ast.Constant)):
            raise Undecided("statement before the pI loop", f.loc(s))
    init = dict(env)
    names = [n for n in env if isinstance(env[n], Rat)]
    sym_env = dict(env)
    for n in names:
        sym_env[n] = Rat.atom("v:" + n)
    sym_env["protein_charge"] = Rat.atom("v:protein_charge")
    if isinstance(loop, ast.For) and isinstance(loop.target, ast.Name):
        sym_env[loop.target.id] = Rat.atom("v:" + loop.target.id)
    paths = ev.exec_block(loop.body, [Path([], "live", None, sym_env)], fr)
    # states that reach the statements after the loop: every `break`, and - unless the loop is `while True` - running out of iterations
    exits = [Path(p.conds, "live", None, p.env) for p in paths if p.kind == "break"]
    if not always:
        exits.append(Path([], "live", None, dict(sym_env)))
    after = []
    for st in exits:
        after.extend(ev.exec_block(post, [st], fr))
    paths = [p for p in paths if p.kind != "break"] + [p for p in after if p.kind in ("return", "raise")]
    ck.count("pI loop body paths", len(paths))
    # which pre-loop names are counters / thresholds
    thr = [n for n in names if init[n].is_const() and init[n].const_value() == Fraction(1, 50)]
    ck.ob("LOOP", construct, True, expected="search loop found", found=unparse(loop.test if isinstance(loop, ast.While) else loop.iter), slot="loop")
    rets = [p for p in paths if p.kind == "return"]
    ck.ob("DT-pI", construct, len(rets) >= 1, expected="the search returns a pH on some path", found="%d returning paths" % len(rets), slot="return-site",
          where=f.loc(loop))
    tol = Fraction(1, 50)
    for p in rets:
        v = p.value
        ok = isinstance(v, Rat)
        ch = fatom("CHn", v) if ok else None
        good = False
        if ok:
            # the path condition must imply |CHn(v)| <= 0.02 for the charge evaluated AT the returned pH:
            # conds & (CH > tol or CH < -tol) infeasible
            sub = {"v:" + n: init[n] for n in names if n in thr}
            conds = [_sc(c, sub) for c in p.conds]
            hi = feasible_with(conds + [("cmp", ch, ">", Rat.const(tol))], [], set())
            lo = feasible_with(conds + [("cmp", ch, "<", Rat.const(-tol))], [], set())
            good = hi is None and lo is None and _mentions(conds, ch)
        ck.ob("DT-pI", construct, good,
              expected="returned pH x satisfies |charge_at_pH(x, normalize=True)| <= 0.02",
              found={"returns": repr(v), "under": fmt_conds(p.conds)[:300]}, slot="return@" + fmt_conds(p.conds)[-40:],
              where=f.loc(loop))
    # the midpoint: first iteration with the initial bracket
    if rets:
        first = rets[0].value.subst({"v:" + n: init[n] for n in names}) if isinstance(rets[0].value, Rat) else None
        # on the first iteration the escape clause cannot fire (breakcount 0 -> 1), take the path without it
        firsts = set()
        for p in rets:
            if isinstance(p.value, Rat):
                x = p.value.subst({"v:" + n: init[n] for n in names})
                if x.is_const():
                    firsts.add(x.const_value())
        ck.ob("DT-pI", construct, Fraction(7) in firsts, expected="first midpoint 0.5*(0+14) = 7.0 (returned when nothing titrates)",
              found=sorted(str(x) for x in firsts), slot="first-midpoint", where=f.loc(loop))
    ck.attempt(_bracket, ck, construct, f, loop, paths, names, init)
    # boundedness: two coupled counters (a `for ... in range(k)` loop is bounded by construction)
    if isinstance(loop, ast.While):
        _bounded(ck, construct, f, loop, paths, names, init)


def _bracket(ck, construct, f, loop, paths, names, init):
    """BRACKET: the search keeps the root between its two bounds.  NCPR(pH) does not increase with pH (obligation MONO above), so a positive
    charge at the midpoint puts the root ABOVE it: the lower bound moves up to the midpoint; a negative charge moves the upper bound down.  When
    the bracket is widened because the search is stuck, a positive last charge means the root lies above the upper bound, so it is the upper
    bound that must move out (and the lower one for a negative charge).  A step in the other direction loses the root for good: the search then
    runs into its iteration limit and raises instead of returning."""
    lo = [n for n in names if init[n].is_const() and init[n].const_value() == 0 and not n.lower().endswith("count")]
    hi = [n for n in names if init[n].is_const() and init[n].const_value() == 14]
    lo = [n for n in lo if "min" in n.lower() or "lo" in n.lower()] or lo
    ck.shape(len(lo) == 1 and len(hi) == 1, "isoelectric_point: one lower bound starting at 0 and one upper bound starting at 14 (found %s / %s)" % (lo, hi), f.loc(loop))
    lo, hi = lo[0], hi[0]
    vlo, vhi = Rat.atom("v:" + lo), Rat.atom("v:" + hi)
    n = 0
    for p in [q for q in paths if q.kind == "live"]:
        sign = mid = None
        prev = None
        for c in p.conds:
            if isinstance(c, tuple) and c[0] == "cmp":
                la, ra = sorted(c[1].atoms()), sorted(c[3].atoms())
                chs = [a for a in la if a.startswith("CHn(")]
                if chs and c[2] in (">", ">="):
                    sign, mid = "+", FUNC_REG[chs[0]][1][0] if chs[0] in FUNC_REG else None
                elif chs and c[2] == "<":
                    sign, mid = "-", FUNC_REG[chs[0]][1][0] if chs[0] in FUNC_REG else None
                if la == ["v:protein_charge"] and not ra:
                    prev = "+" if c[2] in (">", ">=") else ("-" if c[2] in ("<", "<=") else prev)
        if sign == "+" and any(isinstance(c, tuple) and c[0] == "cmp" and c[2] == "<" and any(a.startswith("CHn(") for a in c[1].atoms()) for c in p.conds):
            sign = "-"          # `<= thr` and `< -thr` together: the negative arm
        ck.shape(sign is not None and isinstance(mid, Rat), "isoelectric_point: a continuing path decided by the sign of the charge at the midpoint", f.loc(loop))
        nlo, nhi = p.env.get(lo), p.env.get(hi)
        ck.shape(isinstance(nlo, Rat) and isinstance(nhi, Rat), "isoelectric_point: numeric bounds after one iteration", f.loc(loop))
        moved_ok = nlo.equals(mid) if sign == "+" else nhi.equals(mid)
        ck.ob("BRACKET", construct, moved_ok, expected="charge %s 0 at the midpoint: the %s bound becomes the midpoint" % (">" if sign == "+" else "<", "lower" if sign == "+" else "upper"),
              found={"lower": repr(nlo), "upper": repr(nhi), "under": fmt_conds(p.conds)[-160:]}, slot="bisect:%s:%s" % (sign, prev or "plain"), where=f.loc(loop),
              note="NCPR(pH) is non-increasing in pH, so a positive charge means the root is above the midpoint")
        if moved_ok:
            # bounds just before the bisection step: mid = (lo1 + hi1) / 2
            two = Rat.const(2)
            lo1, hi1 = (two * mid - nhi, nhi) if sign == "+" else (nlo, two * mid - nlo)
            dlo, dhi = vlo - lo1, hi1 - vhi
            if prev is not None and not (dlo.is_const() and dhi.is_const()):
                # not "old bound plus a constant": a bound RESET to a constant (`max_pH =+ 1` for `max_pH += 1`) that lies inside the initial
                # bracket [0, 14] pulls the bound in instead of moving it out
                side, newb, limit = ("upper", hi1, 14) if prev == "+" else ("lower", lo1, 0)
                if newb.is_const() and ((prev == "+" and newb.const_value() <= limit) or (prev != "+" and newb.const_value() >= limit)):
                    ck.ob("BRACKET", construct, False, expected="stuck search: the %s bound moves OUT from where it is" % side,
                          found={"%s bound becomes" % side: str(newb.const_value()), "whatever it was": True}, slot="widen:%s:%s" % (sign, prev), where=f.loc(loop),
                          note="a bound reset to a constant inside the starting bracket can never bring the root back inside")
                    n += 1
                    continue
            ck.shape(dlo.is_const() and dhi.is_const(), "isoelectric_point: the bracket is widened by constants", f.loc(loop))
            a, b = dlo.const_value(), dhi.const_value()
            if prev is None:
                okw = a == 0 and b == 0
                exp = "bounds unchanged before the bisection step"
            elif prev == "+":
                okw = a == 0 and b > 0
                exp = "stuck with a positive charge: the UPPER bound moves out"
            else:
                okw = b == 0 and a > 0
                exp = "stuck with a non-positive charge: the LOWER bound moves out"
            ck.ob("BRACKET", construct, okw, expected=exp, found={"lower_moved_down_by": str(a), "upper_moved_up_by": str(b)}, slot="widen:%s:%s" % (sign, prev or "plain"), where=f.loc(loop),
                  note="widening the wrong side can never bring the root back inside; the search then ends in its error branch")
        n += 1
    ck.count("bracket steps checked", n)


def _literal_thr(loop):
    return False


def _sc(c, sub):
    from lcsa.ref import _subst_cond
    return _subst_cond(c, sub)


def _mentions(conds, atom_rat):
    name = next(iter(atom_rat.atoms()))
    from props.C08 import _cond_atoms
    return any(name in _cond_atoms(c) for c in conds)


def _bounded(ck, construct, f, loop, paths, names, init):
    """find counters (bc, ec): on every continuing path either ec' = ec+1 (and bc' = 0) or ec' = ec and
    bc' = bc+1; the first is forced when bc+1 reaches a constant B; a raise is forced when ec reaches a constant E."""
    live = [p for p in paths if p.kind == "live"]
    raises = [p for p in paths if p.kind == "raise"]
    cands = [n for n in names if init[n].is_const() and init[n].const_value() == 0]
    found = None
    for bc in cands:
        for ec in cands:
            if bc == ec:
                continue
            ok = bool(live)
            for p in live:
                b1, e1 = p.env.get(bc), p.env.get(ec)
                vb, ve = Rat.atom("v:" + bc), Rat.atom("v:" + ec)
                step = isinstance(b1, Rat) and isinstance(e1, Rat) and b1.equals(vb + Rat.const(1)) and e1.equals(ve)
                reset = isinstance(b1, Rat) and isinstance(e1, Rat) and b1.equals(Rat.const(0)) and e1.equals(ve + Rat.const(1))
                if not (step or reset):
                    ok = False
                    break
                if step:
                    # a plain step must be impossible once the inner counter hits its limit: conds must bound it
                    pass
            if ok:
                found = (bc, ec)
                break
        if found:
            break
    # no pair of up-counters fits: the loop may be bounded some other way (a countdown, a `for`), or not at all - not decided from here
    ck.shape(found is not None, "isoelectric_point: two coupled up-counters (inner step / reset, outer step) on every continuing path; %d continuing, %d raising paths" % (len(live), len(raises)),
             f.loc(loop))
    ck.ob("LOOP-bounded", construct, found is not None,
          expected="every continuing path increments the inner counter, or resets it and increments the outer one",
          found={"counters": found, "continuing_paths": len(live), "raising_paths": len(raises)}, slot="counters",
          where=f.loc(loop))
    if not found:
        return
    bc, ec = found
    vb, ve = Rat.atom("v:" + bc), Rat.atom("v:" + ec)
    # limits: a step path with bc+1 == B must be infeasible; a non-raising path with bc+1 == B and ec == E too
    B = E = None
    for p in paths:
        for c in p.conds:
            for cc in _flat(c):
                if cc[0] == "cmp" and cc[2] == "==" and cc[3].is_const():
                    if (cc[1] - vb).is_const():
                        B = cc[3].const_value() - (cc[1] - vb).const_value()
                    if (cc[1] - ve).is_const():
                        E = cc[3].const_value() - (cc[1] - ve).const_value()
    okB = okE = False
    if B is not None:
        okB = True
        for p in live:
            if p.env[bc].equals(vb + Rat.const(1)):
                if feasible_with(p.conds + [("cmp", vb, "==", Rat.const(B))], [], set()) is not None:
                    okB = False
    if E is not None and B is not None:
        okE = True
        for p in live:
            if feasible_with(p.conds + [("cmp", vb, "==", Rat.const(B)), ("cmp", ve, "==", Rat.const(E))], [], set()) is not None:
                okE = False
        okE = okE and bool(raises)
    ck.ob("LOOP-bounded", construct, okB and okE,
          expected="inner counter reset is forced at a constant limit and the raise is forced at a constant outer limit",
          found={"inner_limit": str(B), "outer_limit": str(E), "reset_forced": okB, "raise_forced": okE}, slot="limits",
          where=f.loc(loop), note="=> at most (outer_limit+1)*(inner_limit+1) iterations: the search terminates by return or raise")


def _flat(c):
    if isinstance(c, bool):
        return []
    if c[0] in ("and", "or"):
        out = []
        for x in c[1]:
            out += _flat(x)
        return out
    if c[0] == "not":
        return _flat(c[1])
    return [c]


def run_thorough(ck, prog):
    from props import thorough
    ck.attempt(thorough.doc_pka, ck, prog)
