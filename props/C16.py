"""C16 - phosphosites are exactly the requested in-range S/T/Y; derived values follow.

Decides: the setter's per-site decision table (out of range -> nothing; not S/T/Y -> nothing; already present ->
nothing; otherwise append site-1), which includes the 'checked then used' contradiction repaired by a fix: commit;
get_phosphosites is the inverse map (+1); the S/T/Y set is the same in the three places that name it; the setter and
clear write only the phosphosite list; the substitution letter and the positions agree across the three phospho
functions; the per-position walk advances once per residue; the tuple layout of the full distribution comes from one
fresh object per state, iterated as itertools.product("01", ...) with '1' = phosphorylated; API forwarding.
The count 2^k itself follows from itertools.product's semantics (trusted)."""
import ast

from lcsa.alg import Rat
from lcsa.eff import Effects
from lcsa.model import Undecided, unparse, is_self_attr
from lcsa.dt import compare_rows
from lcsa.sym import Evaluator, Path, ObjV, ListAcc, _Frame, fmt_conds
from lcsa import bind
from props.common import CONDITIONAL_CALLEES, SEQ, SP, SEQ_PATH, check_api

STY = {"S", "T", "Y"}


def run(ck, prog):
    from props.common import check_memos

    def decide(r):
        """a result table in the phosphostate enumeration: the k-th flag of every status tuple belongs to the k-th stored site (obligation
        ALG-states / flags-to-sites below), so the result depends on the ORDER of self.phosphosites, not only on the set of sites"""
        from lcsa.bind import inline_locals
        st = r["site"]
        if st.fnode.name != "calculateKappaDistOfPhosphoStates" or st.scope != "object":
            return None
        g = st.mod.funcs.get((st.cls + "." if st.cls else "") + st.fnode.name)
        kx = inline_locals(g, st.key)
        k = unparse(kx).replace(" ", "")
        if getattr(st, "slot", False):
            # a one-slot cache: the validity test is the key.  How does it look at the stored sites?
            uses = [n for n in ast.walk(kx) if is_self_attr(n, "phosphosites")]
            counted = [n for n in ast.walk(kx) if isinstance(n, ast.Call) and getattr(n.func, "id", "") == "len" and n.args and is_self_attr(n.args[0], "phosphosites")]
            counted += [n for n in ast.walk(kx) if isinstance(n, ast.Call) and getattr(n.func, "attr", "") == "calculateNumberDifferentPhosphoStates"]
            whole = [n for n in ast.walk(kx) if isinstance(n, ast.Compare) and any(unparse(x).replace(" ", "") in ("self.phosphosites", "tuple(self.phosphosites)", "list(self.phosphosites)")
                                                                                    for x in [n.left] + n.comparators) and isinstance(n.ops[0], ast.Eq)]
            if whole:
                return True
            if counted and len(uses) <= len([c for c in counted if getattr(c.func, "id", "") == "len"]):
                return {"validity_test": k[:120], "keeps_only": "the NUMBER of stored sites", "needed": "which sites are stored, and in which order"}
            return None
        if k in ("tuple(self.phosphosites)", "str(self.phosphosites)", "repr(self.phosphosites)", "tuple(list(self.phosphosites))"):
            return True
        if k in ("frozenset(self.phosphosites)", "tuple(sorted(self.phosphosites))", "tuple(sorted(set(self.phosphosites)))", "len(self.phosphosites)",
                 "frozenset(set(self.phosphosites))", "tuple(set(self.phosphosites))"):
            return {"key": k, "forgets": "the order in which the sites were stored", "needed_by": "status tuples pair flags with sites by position"}
        return None
    ck.attempt(check_memos, ck, prog, decide_lossy=decide)
    from props.common import check_index_truthiness, FUNCS
    ck.attempt(check_index_truthiness, ck, prog, FUNCS["C16"], {"self.phosphosites", "phosphosites"}, "the stored phosphosites (0-based positions)")
    ck.explanation = (
        "The body of the setter's loop is enumerated into a decision table for one generic requested site (an integer atom), "
        "with `residue at that index is S/T/Y` and `index already stored` as uninterpreted booleans and the append recorded as "
        "the path's effect; it is compared with the stated table by exact feasibility. The other clauses are binding, "
        "literal-set and effect facts read from the syntax trees.")
    for step in (_effects, _setter, _getter, _sty_sets, _substitution, _distribution):
        ck.attempt(step, ck, prog)
    ck.attempt(check_api, ck, prog, [("get_phosphosites", "get_phosphosites", None), ("get_phosphosequence", "get_phosphosequence", None),
                         ("get_all_phosphorylatable_sites", "get_STY_residues", None)])
    ck.attempt(_void_api, ck, prog)


def _setter(ck, prog):
    f = prog.fn(SEQ, "Sequence.setPhosPhoSites")
    construct = SEQ_PATH + ":Sequence.setPhosPhoSites"
    loops = [s for s in f.body() if isinstance(s, ast.For)]
    if len(loops) != 1:
        raise Undecided("setPhosPhoSites: expected one loop over the requested sites", f.loc())
    loop = loops[0]
    param = f.params()[1]
    # what the loop runs over: the parameter itself, or a local that is the parameter after scalar-to-list normalisation
    it = loop.iter
    if isinstance(it, ast.Name) and it.id != param:
        defs = [n.value for n in ast.walk(f.node) if isinstance(n, ast.Assign) and len(n.targets) == 1 and isinstance(n.targets[0], ast.Name) and n.targets[0].id == it.id]
        ck.shape(len(defs) == 1, "setPhosPhoSites: the loop's list is assigned once", f.loc(loop))
        it = defs[0]
    txt = unparse(it).replace(" ", "")
    same = txt == param or (isinstance(it, ast.IfExp) and {unparse(it.body).replace(" ", ""), unparse(it.orelse).replace(" ", "")} == {"[%s]" % param, param})
    changed = any(txt.startswith(p_ % param) for p_ in ("sorted(%s", "set(%s", "reversed(%s", "list(set(%s", "%s[1:", "%s[:-1", "%s[::-1"))
    ck.shape(same or changed, "setPhosPhoSites: loop over the requested sites (found %s)" % unparse(loop.iter), f.loc(loop))
    ck.ob("FOLD", construct, same, expected="every requested site is visited, in order",
          found=unparse(it), slot="domain", where=f.loc(loop))
    ev = Evaluator(prog, positive=("N",))
    ev.int_atoms = {"site"}
    fr = _Frame(f, 0)
    env = {"self": ObjV("Sequence"), loop.target.id: Rat.atom("site")}
    res = ev.exec_block(loop.body, [Path([], "live", None, env)], fr)
    rows = []
    for p in res:
        app = p.env.get("@app:phosphosites", [])
        if p.kind == "raise":
            o = ("raise", p.value)
        else:
            o = tuple(repr(a) for a in app)
        rows.append((p.conds, o))
    site, N = Rat.atom("site"), Rat.atom("N")
    idx = site - Rat.const(1)
    inr = [("cmp", site, ">=", Rat.const(1)), ("cmp", site, "<=", N)]
    sty = ("opaque", "seq[%r] in STY" % idx)
    have = ("opaque", "%r in phosphosites" % idx)
    spec = [([("cmp", site, "<", Rat.const(1))], ()), ([("cmp", site, ">", N)], ()),
            (inr + [("not", sty)], ()), (inr + [sty, have], ()), (inr + [sty, ("not", have)], (repr(idx),))]
    mis = compare_rows(rows, spec, positive=("N",), int_atoms={"site", "N"})
    ck.ob("CONTRA-range", construct, mis is None,
          expected="per requested site: outside 1..N -> ignored; not S/T/Y -> ignored; already stored -> ignored; else append(site-1)",
          found=mis or "equivalent", slot="", where=f.loc(loop),
          note="an index that fails the range check must not be used afterwards (checked-then-used contradiction)")
    ck.count("setter paths", len(rows))
    ck.sample({"setter_table": [(fmt_conds(c), o) for c, o in rows]})
    # int() conversion and single-int convenience
    conv = [n for n in ast.walk(loop) if isinstance(n, ast.Call) and getattr(n.func, "id", None) == "int"]
    ck.ob("DT", construct, bool(conv), expected="each site converted with int()", found=len(conv), slot="int-conversion", where=f.loc(loop))
    wrap = [s for s in f.body() if isinstance(s, ast.If) and "isinstance" in unparse(s.test) and "int" in unparse(s.test)]
    ck.ob("DT", construct, bool(wrap), expected="a single int is wrapped into a one-element list", found=len(wrap), slot="single-int",
          where=f.loc())


def _getter(ck, prog):
    f = prog.fn(SEQ, "Sequence.get_phosphosites")
    construct = SEQ_PATH + ":Sequence.get_phosphosites"
    ev = Evaluator(prog)
    rows = ev.run_function(f, {}, ObjV("Sequence"))
    v = rows[0].value if len(rows) == 1 and rows[0].kind == "return" else None
    ok = isinstance(v, tuple) and len(v) == 3 and v[0] == "fieldmap" and v[1] == "phosphosites" and isinstance(v[2], Rat) \
        and v[2].equals(Rat.atom("@e:phosphosites") + Rat.const(1))
    ck.ob("ALG-inverse", construct, ok, expected="[i + 1 for i in phosphosites] (the inverse of idx = site - 1, same order)",
          found=repr(v), slot="plus-one", where=f.loc())


def _membership_literals(f, var=None, prog=None):
    """membership tests against a literal collection, or against a module-level constant that folds to one"""
    out = []
    for n in ast.walk(f.node):
        if not (isinstance(n, ast.Compare) and len(n.ops) == 1 and isinstance(n.ops[0], (ast.In, ast.NotIn))):
            continue
        c0 = n.comparators[0]
        if isinstance(c0, (ast.List, ast.Tuple, ast.Set)):
            try:
                lit = {e.value for e in c0.elts}
            except AttributeError:
                continue
            out.append((n, lit))
        elif prog is not None and isinstance(c0, (ast.Name, ast.Attribute)):
            g = prog.resolve_global(f.mod, c0)
            if g and g[1] in g[0].globals:
                from lcsa import tab
                try:
                    v = tab.global_literal(prog, g[0].rel, g[1])
                except Undecided:
                    continue
                if isinstance(v, (list, tuple, set, frozenset, str)) and all(isinstance(x, str) for x in v):
                    out.append((n, set(v)))
    return out


def _sty_sets(ck, prog):
    for meth in ("setPhosPhoSites", "get_phosphosequence", "get_STY_residues"):
        f = prog.fn(SEQ, "Sequence." + meth)
        lits = [l for l in _membership_literals(f, prog=prog) if all(isinstance(x, str) and len(x) == 1 for x in l[1])]
        ck.shape(len(lits) == 1, "%s: exactly one membership test against a literal residue set" % meth, f.loc())
        ck.ob("PART-STY", SEQ_PATH + ":Sequence." + meth, lits[0][1] == STY, expected=sorted(STY), found=sorted(lits[0][1]), slot="residue-set",
              where=f.loc(lits[0][0]))
    # get_STY_residues: positions (1-based) of the members, in order
    f = prog.fn(SEQ, "Sequence.get_STY_residues")
    construct = SEQ_PATH + ":Sequence.get_STY_residues"
    loops = [s for s in f.body() if isinstance(s, ast.For)]
    comps = [n for n in ast.walk(f.node) if isinstance(n, (ast.ListComp, ast.GeneratorExp)) and len(n.generators) == 1]
    ck.shape(len(loops) + len(comps) == 1, "get_STY_residues: one loop", f.loc())
    # a local that only stands for the stored sequence (`seq = self.seq`) is read as the field
    seq_alias = {s.targets[0].id for s in f.body() if isinstance(s, ast.Assign) and len(s.targets) == 1 and isinstance(s.targets[0], ast.Name)
                 and is_self_attr(s.value, "seq")}
    seq_alias = {a for a in seq_alias if sum(1 for n in ast.walk(f.node) if isinstance(n, ast.Name) and n.id == a and isinstance(n.ctx, ast.Store)) == 1}

    def src(e):
        class R(ast.NodeTransformer):
            def visit_Name(self, n):
                return ast.copy_location(ast.parse("self.seq", mode="eval").body, n) if n.id in seq_alias and isinstance(n.ctx, ast.Load) else n
        import copy
        return unparse(R().visit(copy.deepcopy(e))).replace(" ", "")
    if comps:
        # comprehension form: [<value> for <target> in <iter> if <member test>] - the element expression is what the loop form appends
        cp = comps[0]
        lp = ast.For(target=cp.generators[0].target, iter=cp.generators[0].iter, body=[], orelse=[], lineno=cp.lineno, col_offset=cp.col_offset)
        arg = cp.elt
        init = {}
    else:
        lp = loops[0]
        init = {s.targets[0].id: s.value for s in f.body() if isinstance(s, ast.Assign) and isinstance(s.targets[0], ast.Name)}
        apps = [n for n in ast.walk(lp) if isinstance(n, ast.Call) and getattr(n.func, "attr", "") == "append"]
        ck.shape(len(apps) == 1 and len(apps[0].args) == 1, "get_STY_residues: one append in the loop", f.loc(lp))
        arg = apps[0].args[0]
    it = src(lp.iter)
    offset = None
    if it == "self.seq" and isinstance(lp.target, ast.Name):
        # hand-kept counter: find `c = c + 1` / `c += 1` at top level of the body and where it sits relative to the append
        ctr = None
        for s in lp.body:
            txt = unparse(s).replace(" ", "")
            for name in init:
                if txt in ("%s=%s+1" % (name, name), "%s+=1" % name, "%s=1+%s" % (name, name)):
                    ctr = (name, s)
        ck.shape(ctr is not None and isinstance(arg, ast.Name) and arg.id == ctr[0] and isinstance(init[ctr[0]], ast.Constant),
                 "get_STY_residues: appended value is a hand-kept position counter", f.loc(lp))
        app_stmt = next(s for s in lp.body if any(n is apps[0] for n in ast.walk(s)))
        before = lp.body.index(ctr[1]) < lp.body.index(app_stmt)
        jumps = [n for n in ast.walk(lp) if isinstance(n, (ast.Continue, ast.Break))]
        ck.shape(not jumps, "get_STY_residues: no continue/break around the counter", f.loc(lp))
        offset = init[ctr[0]].value + (1 if before else 0)
    elif it in ("enumerate(self.seq)", "enumerate(self.seq,1)", "enumerate(self.seq,start=1)") and isinstance(lp.target, ast.Tuple):
        iv = unparse(lp.target.elts[0])
        start = 1 if it != "enumerate(self.seq)" else 0
        txt = unparse(arg).replace(" ", "")
        ck.shape(txt in (iv, iv + "+1", "1+" + iv), "get_STY_residues: appended value is the enumerate index (+1)", f.loc(lp))
        offset = start + (0 if txt == iv else 1)
    elif it in ("range(self.len)", "range(0,self.len)", "range(len(self.seq))", "range(0,len(self.seq))") and isinstance(lp.target, ast.Name):
        iv = lp.target.id
        txt = unparse(arg).replace(" ", "")
        ck.shape(txt in (iv, iv + "+1", "1+" + iv), "get_STY_residues: appended value is the loop index (+1)", f.loc(lp))
        offset = 0 if txt == iv else 1
    else:
        ck.shape(False, "get_STY_residues: loop over the residues", f.loc(lp))
    ck.ob("FOLD-positions", construct, offset == 1, expected="positions are 1-based (first residue is position 1)", found="first residue reported as position %s" % offset,
          slot="positions", where=f.loc(lp))


def _effects(ck, prog):
    E = Effects(prog, cut=CONDITIONAL_CALLEES)
    s = E.of(SEQ, "Sequence.setPhosPhoSites")
    # emptying a one-slot result cache (`self.F = None`, F a slot MEMO-KEY knows) is invalidation, not a write of the phosphosite data: whether
    # the cache is emptied everywhere it has to be is MEMO-KEY's verdict, not this rule's
    from lcsa import memo as _memo
    slot_names = {st.table.split("__")[-1] for st in _memo.find_slot_sites(prog)}

    def _only_invalidation(fi, fld):
        if fld.split("__")[-1] not in slot_names:
            return False
        ws = [n for n in ast.walk(fi.node) if isinstance(n, (ast.Assign, ast.AugAssign, ast.Delete))
              and any(is_self_attr(x, fld) or (isinstance(x, ast.Attribute) and is_self_attr(x) and x.attr.split("__")[-1] == fld.split("__")[-1])
                      for t in (n.targets if not isinstance(n, ast.AugAssign) else [n.target]) for x in ast.walk(t))]
        return bool(ws) and all(isinstance(n, ast.Assign) and isinstance(n.value, ast.Constant) and n.value.value is None for n in ws)
    f0 = prog.fn(SEQ, "Sequence.setPhosPhoSites")
    w_set = {k: sorted(v) for k, v in s.self_writes.items() if not (v == {"rebind"} and _only_invalidation(f0, k))}
    ck.ob("EFF", SEQ_PATH + ":Sequence.setPhosPhoSites", w_set == {"phosphosites": ["mutate"]},
          expected={"phosphosites": ["mutate"]}, found={k: sorted(v) for k, v in s.self_writes.items()}, slot="writes",
          note="append-only on the phosphosite list; the stored sequence is never touched")
    f = prog.fn(SEQ, "Sequence.setPhosPhoSites")
    muts = [n for n in ast.walk(f.node) if isinstance(n, ast.Call) and isinstance(n.func, ast.Attribute) and is_self_attr(n.func.value, "phosphosites")]
    ck.ob("EFF", SEQ_PATH + ":Sequence.setPhosPhoSites", [m.func.attr for m in muts] == ["append"], expected=["append"],
          found=[m.func.attr for m in muts], slot="append-only", where=f.loc())
    ck.ob("EFF", SEQ_PATH + ":Sequence.setPhosPhoSites", not s.param_muts, expected="the caller's list is not modified", found=dict(s.param_muts),
          slot="argument")
    c = E.of(SEQ, "Sequence.clear_phosphosites")
    g = prog.fn(SEQ, "Sequence.clear_phosphosites")
    asg = [n for n in ast.walk(g.node) if isinstance(n, ast.Assign) and not (len(n.targets) == 1 and is_self_attr(n.targets[0]) and n.targets[0].attr != "phosphosites"
                                                                           and _only_invalidation(g, n.targets[0].attr))]
    ok = {k: sorted(v) for k, v in c.self_writes.items() if not (v == {"rebind"} and _only_invalidation(g, k))} == {"phosphosites": ["rebind"]} \
        and len(asg) == 1 and unparse(asg[0].value) in ("[]", "list()")
    ck.ob("EFF", SEQ_PATH + ":Sequence.clear_phosphosites", ok, expected="self.phosphosites = []  and nothing else", found=unparse(g.node.body[-1]), slot="clear",
          where=g.loc())
    STATE = {"phosphosites", "seq", "len", "chargePattern"}
    for meth in ("get_phosphosites", "get_phosphosequence", "kappa_at_maxPhos", "calculateKappaDistOfPhosphoStates", "get_STY_residues"):
        sm = E.of(SEQ, "Sequence." + meth)
        writes = {k: sorted(v) for k, v in sm.self_writes.items() if k not in ("dmax", "seqDeltaMax")}
        bad = {k: v for k, v in writes.items() if k.split(".")[0] in STATE}
        other = sorted(k for k in writes if k.split(".")[0] not in STATE)
        # a field of its own that a query writes and reads back (a result cache) is not this property's state; whether it can go stale is a
        # memo question (MEMO-KEY / C15), not decided by this rule
        if other and not bad:
            from lcsa import memo as memo_mod
            res = memo_mod.analyse(prog, E)
            verdicts = {o: [x["verdict"] for x in res if x["site"].scope == "object" and x["site"].table == o.split(".")[0]] for o in other}
            # result tables: MEMO-KEY (run above, with this property's order-sensitivity decision) has the verdict; anything else is not judged here
            ck.shape(all(v for v in verdicts.values()), "%s writes new field(s) %s besides the phosphosite state; not result tables MEMO-KEY recognises" % (meth, other))
        ck.ob("EFF", SEQ_PATH + ":Sequence." + meth, not bad, expected="no write to the phosphosite list, the sequence or its charge pattern", found=bad or writes, slot="read-only")


def _phos_aliases(f):
    """names that stand for the stored phosphosite list inside f"""
    names = {"self.phosphosites"}
    for n in ast.walk(f.node):
        if isinstance(n, ast.Assign) and isinstance(n.targets[0], ast.Name) and unparse(n.value).replace(" ", "") in (
                "self.phosphosites", "list(self.phosphosites)", "tuple(self.phosphosites)", "self.phosphosites[:]"):
            names.add(n.targets[0].id)
    return names


def _const_stores(f):
    """subscript stores of string constants: (store node, base name, index node, constant)"""
    out = []
    for n in ast.walk(f.node):
        if isinstance(n, ast.Assign) and len(n.targets) == 1 and isinstance(n.targets[0], ast.Subscript) and isinstance(n.value, ast.Constant) \
                and isinstance(n.value.value, str) and isinstance(n.targets[0].value, ast.Name):
            out.append((n, n.targets[0].value.id, n.targets[0].slice, n.value.value))
    return out


def _substitution(ck, prog):
    """positions = the stored phosphosites and letter 'E' in all three phospho functions"""
    # ---- kappa_at_maxPhos
    f = prog.fn(SEQ, "Sequence.kappa_at_maxPhos")
    c = SEQ_PATH + ":Sequence.kappa_at_maxPhos"
    fresh = [n for n in ast.walk(f.node) if isinstance(n, ast.Call) and prog.class_of_ctor(f.mod, n) == "Sequence"]
    ck.shape(len(fresh) == 1, "kappa_at_maxPhos: one derived object", f.loc())
    # where the substitution is written: here, or in a helper of the class that hands the substituted string to Sequence(...)
    host = f
    stores = _const_stores(f)
    if not stores and fresh[0].args and isinstance(fresh[0].args[0], ast.Call) and not fresh[0].args[0].args and not fresh[0].args[0].keywords:
        helper = prog.resolve_call(f, fresh[0].args[0])
        if helper is not None and helper.cls == "Sequence":
            host = helper
            stores = _const_stores(host)
            hrets = [n for n in ast.walk(host.node) if isinstance(n, ast.Return)]
            bases = {b for _, b, _, _ in stores}
            ck.shape(len(hrets) == 1 and len(bases) == 1 and hrets[0].value is not None
                     and unparse(hrets[0].value).replace('"', "'").replace(" ", "") == "''.join(%s)" % next(iter(bases)),
                     "kappa_at_maxPhos: helper %s returns the joined working copy" % host.name, host.loc())
    ck.shape(len(stores) >= 1, "kappa_at_maxPhos: substitution written as constant stores into a list copy", f.loc())
    al = _phos_aliases(host)
    for node, base, idx, letter in stores:
        ck.ob("SIB-substitution", c, letter == "E", expected="E", found=letter, slot="letter", where=host.loc(node), note="phosphorylated residues are replaced by glutamate")
        # the index: loop variable of a loop over the phosphosites
        lp = next((l for l in ast.walk(host.node) if isinstance(l, ast.For) and any(x is node for x in ast.walk(l))), None)
        ck.shape(lp is not None and unparse(lp.iter).replace(" ", "") in al and isinstance(lp.target, ast.Name), "kappa_at_maxPhos: store inside a loop over the phosphosites", host.loc(node))
        ck.ob("SIB-substitution", c, isinstance(idx, ast.Name) and idx.id == lp.target.id, expected="index = the stored (0-based) phosphosite", found=unparse(idx), slot="positions",
              where=host.loc(node))
        src = [n for n in ast.walk(host.node) if isinstance(n, ast.Assign) and unparse(n.targets[0]) == base and isinstance(n.value, ast.Call)]
        ck.shape(len(src) >= 1, "kappa_at_maxPhos: working copy assigned once", host.loc())
        first = sorted((n for n in src if n.lineno < node.lineno), key=lambda n: n.lineno)
        ck.shape(len(first) >= 1, "kappa_at_maxPhos: working copy assigned before the stores", host.loc())
        ck.ob("SIB-substitution", c, unparse(first[-1].value).replace(" ", "") == "list(self.seq)", expected="a copy of the stored sequence: list(self.seq)",
              found=unparse(first[-1].value), slot="copy", where=host.loc(first[-1]))
    from props.common import carried_state
    cs_ = carried_state(prog, f, fresh[0])
    ck.shape(not any(k_ == "unknown" for k_, _ in cs_), "kappa_at_maxPhos: what Sequence(...) is handed besides the string (%s)" % [t_ for _, t_ in cs_], f.loc(fresh[0]))
    ck.ob("CTOR-fresh", c, not [1 for k_, _ in cs_ if k_ in ("dmax", "alias")], expected="Sequence(<substituted string>) and nothing carried over (a consistently patched copy of the charge pattern excepted)", found=unparse(fresh[0]), slot="result-object",
          where=f.loc(fresh[0]))
    rets = [n for n in ast.walk(f.node) if isinstance(n, ast.Return) and n.value is not None]
    kinds = sorted(unparse(r.value) for r in rets)
    ck.shape(all(k.endswith(".kappa()") for k in kinds) and kinds, "kappa_at_maxPhos: every return is some object's kappa()", f.loc())
    objname = None
    for n in ast.walk(f.node):
        if isinstance(n, ast.Assign) and n.value is fresh[0] and isinstance(n.targets[0], ast.Name):
            objname = n.targets[0].id
    if objname is None:
        objname = unparse(fresh[0])          # `return Sequence(<substituted>).kappa()` without a local
    others = [k for k in kinds if k not in ("self.kappa()", "%s.kappa()" % objname)]
    ck.ob("SIB-substitution", c, ("%s.kappa()" % objname) in kinds and not others, expected="kappa of the substituted object (own kappa only when there are no sites)", found=kinds,
          slot="result", where=f.loc())
    # ---- get_phosphosequence: decision table of the per-residue walk
    g = prog.fn(SEQ, "Sequence.get_phosphosequence")
    c2 = SEQ_PATH + ":Sequence.get_phosphosequence"
    loops = [s for s in g.body() if isinstance(s, ast.For)]
    ck.shape(len(loops) == 1, "get_phosphosequence: one loop over the residues", g.loc())
    lp = loops[0]
    it_txt = unparse(lp.iter).replace(" ", "")
    enum = it_txt in ("enumerate(self.seq)", "enumerate(self.seq,0)", "enumerate(self.seq,start=0)") and isinstance(lp.target, ast.Tuple) and len(lp.target.elts) == 2 \
        and all(isinstance(e, ast.Name) for e in lp.target.elts)
    ck.shape(enum or (it_txt == "self.seq" and isinstance(lp.target, ast.Name)), "get_phosphosequence: one loop over the residues", g.loc(lp))
    from lcsa.sym import AStr, astr_cat, ListAcc
    ev = Evaluator(prog, positive=())
    fr = _Frame(g, 0)
    env = {"self": ObjV("Sequence")}
    for st in g.body()[:g.body().index(lp)]:
        if isinstance(st, ast.Assign) and isinstance(st.targets[0], ast.Name):
            env[st.targets[0].id] = ev.eval(st.value, env, fr)
    strs = [n for n, v in env.items() if isinstance(v, str) and v == ""]
    lists = [n for n, v in env.items() if isinstance(v, ListAcc) and not v.items]
    nums = [n for n, v in env.items() if isinstance(v, Rat) and v.equals(Rat.const(0))]
    ck.shape(len(strs) + len(lists) == 1 and (enum or len(nums) == 1), "get_phosphosequence: one accumulator ('' or []) and one index (0, or the enumerate index)", g.loc())
    S = (strs + lists)[0]
    as_list = bool(lists)
    e2 = dict(env)
    e2[S] = ListAcc([]) if as_list else AStr("S")
    if enum:
        I = lp.target.elts[0].id
        resvar = lp.target.elts[1].id
        ck.shape(not any(isinstance(n, ast.Name) and n.id == I and isinstance(n.ctx, ast.Store) for b in lp.body for n in ast.walk(b)),
                 "get_phosphosequence: the enumerate index is not reassigned in the loop", g.loc(lp))
    else:
        I = nums[0]
        resvar = lp.target.id
    e2[I] = Rat.atom("i")
    e2[resvar] = AStr("seq[i]")
    nxt = repr(Rat.atom("i") + Rat.const(1))

    def grown(v):
        """the accumulator after one residue, as the string it stands for"""
        if not as_list:
            return repr(v)
        if not isinstance(v, ListAcc):
            return repr(v)
        acc = AStr("S")
        for item in v.items:
            acc = astr_cat(acc, item)
        return repr(acc)
    rows = []
    for p in ev.exec_block(lp.body, [Path([], "live", None, e2)], fr):
        kind = "next" if p.kind in ("live", "continue") else p.kind
        rows.append((p.conds, (kind, grown(p.env.get(S)), nxt if enum else repr(p.env.get(I))) if kind == "next" else (kind,)))
    isp = ("opaque", "i in phosphosites")
    sty = ("opaque", "seq[i] in STY")
    spec = [([isp, sty], ("next", repr(astr_cat(AStr("S"), "E")), nxt)),
            ([("not", isp)], ("next", repr(astr_cat(AStr("S"), AStr("seq[i]"))), nxt))]
    mis = compare_rows(rows, spec, positive=())
    ck.ob("SIB-substitution", c2, mis is None, expected="per residue: 'E' when its index is a stored phosphosite, the residue itself otherwise; index advanced once per residue",
          found=mis or "equivalent", slot="walk", where=g.loc(lp), note="(a stored site that is not S/T/Y is a don't-care: the setter never stores one)")
    rets = [n for n in ast.walk(g.node) if isinstance(n, ast.Return) and n.value is not None]
    want_ret = ["''.join(%s)" % S] if as_list else [S]
    # an early `return self.seq` under "no phosphosite is stored" is the walk's own answer for that case (every residue is carried over)
    al2 = _phos_aliases(g)
    early = []
    for st_ in g.body():
        if isinstance(st_, ast.If) and not st_.orelse and st_.body and isinstance(st_.body[-1], ast.Return) and st_.body[-1].value is not None \
                and unparse(st_.body[-1].value).replace(" ", "") in ("self.seq", "str(self.seq)"):
            t_ = unparse(st_.test).replace(" ", "")
            if any(t_ in ("not" + a_, "len(%s)==0" % a_, "%s==[]" % a_, "len(%s)<1" % a_, "notlen(%s)" % a_) for a_ in al2):
                early.append(st_.body[-1])
    rets = [r for r in rets if not any(r is e_ for e_ in early)]
    ck.ob("SIB-substitution", c2, [unparse(r.value).replace('"', "'").replace(" ", "") for r in rets] == want_ret, expected="returns the accumulated string",
          found=[unparse(r.value) for r in rets], slot="returns", where=g.loc())
    # ---- calculateKappaDistOfPhosphoStates
    h = prog.fn(SEQ, "Sequence.calculateKappaDistOfPhosphoStates")
    c3 = SEQ_PATH + ":Sequence.calculateKappaDistOfPhosphoStates"
    stores = _const_stores(h)
    ck.shape(len(stores) >= 1, "phosphostate enumeration: substitution written as constant stores", h.loc())
    al = _phos_aliases(h)
    for node, base, idx, letter in stores:
        ck.ob("SIB-substitution", c3, letter == "E", expected="E", found=letter, slot="letter", where=h.loc(node))
        reordered = {n.targets[0].id: unparse(n.value) for n in ast.walk(h.node) if isinstance(n, ast.Assign) and isinstance(n.targets[0], ast.Name)
                     and unparse(n.value).replace(" ", "") in ("sorted(self.phosphosites)", "sorted(set(self.phosphosites))", "list(set(self.phosphosites))", "list(reversed(self.phosphosites))",
                                                                "self.phosphosites[::-1]", "sorted(self.phosphosites,reverse=True)")}
        if isinstance(idx, ast.Subscript) and unparse(idx.value) in reordered:
            ck.ob("ALG-states", c3, False, expected="the k-th flag of a status tuple belongs to the k-th site as stored (the order get_phosphosites reports)",
                  found="%s = %s" % (unparse(idx.value), reordered[unparse(idx.value)]), slot="flags-to-sites-order", where=h.loc(node),
                  note="sites are stored in the order they were set; pairing the flags with a re-ordered copy attaches each state's values to the wrong status tuple")
            continue
        ck.shape(isinstance(idx, ast.Subscript) and unparse(idx.value).replace(" ", "") in al, "phosphostate enumeration: index read from the phosphosite list", h.loc(node))


def _distribution(ck, prog):
    h = prog.fn(SEQ, "Sequence.calculateKappaDistOfPhosphoStates")
    c = SEQ_PATH + ":Sequence.calculateKappaDistOfPhosphoStates"
    outer = [s for s in h.body() if isinstance(s, ast.For)]
    ck.shape(len(outer) == 1 and isinstance(outer[0].iter, ast.Call) and unparse(outer[0].iter.func) in ("itertools.product", "product") and isinstance(outer[0].target, ast.Name),
             "phosphostate enumeration: one loop over itertools.product(...)", h.loc())
    it = outer[0].iter
    a0 = it.args[0] if it.args else None
    rep = [k for k in it.keywords if k.arg == "repeat"]
    ck.shape(isinstance(a0, ast.Constant) and len(rep) == 1, "phosphostate enumeration: product(<literal>, repeat=...)", h.loc(it))
    ck.ob("ALG-states", c, a0.value == "01", expected="product over '01' (binary counting order: off before on)", found=a0.value, slot="alphabet", where=h.loc(it))
    ck.ob("ALG-states", c, unparse(rep[0].value).replace(" ", "") in ("len(self.phosphosites)",), expected="repeat = number of stored phosphosites (2^k states)",
          found=unparse(rep[0].value), slot="repeat", where=h.loc(it))
    lp = outer[0]
    status = lp.target.id
    inner = [s for s in lp.body if isinstance(s, ast.For)]
    ck.shape(len(inner) == 1 and unparse(inner[0].iter) == status and isinstance(inner[0].target, ast.Name), "phosphostate enumeration: inner walk over the status flags", h.loc(lp))
    iv = inner[0].target.id
    ifs = [s for s in inner[0].body if isinstance(s, ast.If)]
    rest = [s for s in inner[0].body if not isinstance(s, ast.If)]
    ck.shape(len(ifs) == 1 and not ifs[0].orelse and isinstance(ifs[0].test, ast.Compare) and len(ifs[0].body) >= 1, "phosphostate enumeration: `if <flag is on>: substitute`", h.loc(inner[0]))
    t = unparse(ifs[0].test).replace(" ", "")
    on_tests = {"int(%s)==1" % iv: True, "%s=='1'" % iv: True, '%s=="1"' % iv: True, "int(%s)==0" % iv: False, "%s=='0'" % iv: False, "int(%s)!=0" % iv: True, "int(%s)!=1" % iv: False}
    ck.shape(t in on_tests, "phosphostate enumeration: flag test against a literal", h.loc(ifs[0]))
    ck.ob("ALG-states", c, on_tests[t], expected="flag 1 = phosphorylated", found=unparse(ifs[0].test), slot="flag-meaning", where=h.loc(ifs[0]))
    sts = [x for x in ifs[0].body if isinstance(x, ast.Assign) and isinstance(x.targets[0], ast.Subscript) and isinstance(x.targets[0].slice, ast.Subscript)]
    ck.shape(len(sts) == 1, "phosphostate enumeration: one store at phosphosites[k] under the flag test", h.loc(ifs[0]))
    st = sts[0]
    ctr = unparse(st.targets[0].slice.slice)
    incs = [s for s in rest if unparse(s).replace(" ", "") in ("%s=%s+1" % (ctr, ctr), "%s+=1" % ctr)]
    cond_incs = [x for x in ifs[0].body if unparse(x).replace(" ", "") in ("%s=%s+1" % (ctr, ctr), "%s+=1" % ctr)]
    ck.shape(len(ifs[0].body) == 1 + len(cond_incs), "phosphostate enumeration: only the store (and counter updates) under the flag test", h.loc(ifs[0]))
    inits = [s for s in lp.body if isinstance(s, ast.Assign) and unparse(s.targets[0]) == ctr]
    ck.shape(len(inits) == 1 and isinstance(inits[0].value, ast.Constant), "phosphostate enumeration: flag counter initialised per state", h.loc(lp))
    ck.ob("ALG-states", c, len(incs) == 1 and not cond_incs and inits[0].value.value == 0,
          expected="k-th flag belongs to the k-th stored site: counter starts at 0 and advances once per flag (on or off)",
          found={"init": unparse(inits[0].value), "unconditional_increments": len(incs), "increments_only_when_on": len(cond_incs)}, slot="flags-to-sites", where=h.loc(inner[0]))
    copies = [s for s in lp.body if isinstance(s, ast.Assign) and unparse(s.targets[0]) == unparse(st.targets[0].value)]
    ck.shape(len(copies) >= 1, "phosphostate enumeration: working copy assigned in the state loop", h.loc(lp))
    ck.ob("ALG-states", c, unparse(copies[0].value).replace(" ", "") == "list(self.seq)" and lp.body.index(copies[0]) < lp.body.index(inner[0]),
          expected="each state starts from a fresh copy of the stored sequence", found=unparse(copies[0].value), slot="fresh-copy", where=h.loc(copies[0]))
    # tuple layout
    ctors = [n for n in ast.walk(lp) if isinstance(n, ast.Assign) and isinstance(n.value, ast.Call) and prog.class_of_ctor(h.mod, n.value) == "Sequence"]
    apps = [n for n in ast.walk(lp) if isinstance(n, ast.Call) and getattr(n.func, "attr", "") == "append" and n.args and isinstance(n.args[0], ast.Tuple)]
    ck.shape(len(ctors) == 1 and len(apps) == 1 and isinstance(ctors[0].targets[0], ast.Name), "phosphostate enumeration: one derived object and one appended tuple per state", h.loc(lp))
    ck.ob("CTOR-fresh", c, len(ctors[0].value.args) == 1 and not ctors[0].value.keywords, expected="Sequence(<substituted string>) per state", found=unparse(ctors[0].value), slot="state-object",
          where=h.loc(ctors[0]))
    obj = ctors[0].targets[0].id
    elts = apps[0].args[0].elts
    want = ["kappa", "Fplus", "Fminus", "FCR", "NCPR", "meanHydropathy"]
    got = []
    for e in elts[:-1]:
        if isinstance(e, ast.Call) and isinstance(e.func, ast.Attribute) and not e.args:
            got.append((unparse(e.func.value), e.func.attr))
        else:
            got.append((None, unparse(e)))
    ck.ob("ALG-tuple", c, len(elts) == 7 and [g[1] for g in got] == want and all(g[0] == obj for g in got) and unparse(elts[-1]) == status,
          expected="(kappa, f+, f-, FCR, NCPR, hydropathy, status) all of the state's own object", found=[unparse(e) for e in elts], slot="layout", where=h.loc(apps[0]))
    rets = [n for n in ast.walk(h.node) if isinstance(n, ast.Return) and n.value is not None]
    ck.shape(len(rets) >= 1, "phosphostate enumeration returns something", h.loc())
    lst = unparse(apps[0].func.value)
    # what is returned: the list just built (or a copy of it); a return of an entry of a result table is a memo hit, judged by MEMO-KEY
    own, memo_hits, other = [], [], []
    for r in rets:
        t = unparse(r.value).replace(" ", "")
        inner = r.value.args[0] if isinstance(r.value, ast.Call) and getattr(r.value.func, "id", "") in ("list", "tuple") and len(r.value.args) == 1 else r.value
        if t in (lst, "list(%s)" % lst, "%s[:]" % lst, "%s.copy()" % lst):
            own.append(r)
        elif isinstance(inner, ast.Subscript) and is_self_attr(inner.value):
            memo_hits.append(r)
        else:
            other.append(r)
    ck.shape(not other and len(own) >= 1, "phosphostate enumeration: returns the list it built (returns found: %s)" % [unparse(r.value) for r in rets], h.loc())
    ck.ob("ALG-tuple", c, len(own) >= 1, expected="returns the list of state tuples", found=[unparse(r.value) for r in rets], slot="returns", where=h.loc())


def _void_api(ck, prog):
    """set_phosphosites / clear_phosphosites (void) and the two kappa getters"""
    bind.check_wrapper(ck, prog, "BIND-api", SP, "SequenceParameters.set_phosphosites", SEQ + ":Sequence.setPhosPhoSites", argmap={"phosphosites": "listOfPsites"}, void=True)
    bind.check_wrapper(ck, prog, "BIND-api", SP, "SequenceParameters.clear_phosphosites", SEQ + ":Sequence.clear_phosphosites", void=True)
    bind.check_wrapper(ck, prog, "BIND-api", SP, "SequenceParameters.get_kappa_after_phosphorylation", SEQ + ":Sequence.kappa_at_maxPhos")
    bind.check_wrapper(ck, prog, "BIND-api", SP, "SequenceParameters.get_full_phosphostatus_kappa_distribution", SEQ + ":Sequence.calculateKappaDistOfPhosphoStates")
