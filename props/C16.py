"""C16 - phosphosites are exactly the requested in-range S/T/Y; derived values follow.

Decides: the setter's per-site decision table (out of range -> nothing; not S/T/Y -> nothing; already present ->
nothing; otherwise append site-1), which includes the 'checked then used' contradiction repaired by a fix: commit;
get_phosphosites is the inverse map (+1); the S/T/Y set is the same in the three places that name it; the setter and
clear write only the phosphosite list; the substitution letter and the positions agree across the three phospho
functions; the per-position walk advances once per residue; the tuple layout of the full distribution comes from one
fresh object per state, iterated as itertools.product("01", ...) with '1' = phosphorylated; API forwarding.
The count 2^k itself follows from itertools.product's semantics (trusted)."""
import ast

from lcsa.alg import Rat
from lcsa.eff import Effects
from lcsa.model import Undecided, unparse, is_self_attr
from lcsa.dt import compare_rows
from lcsa.sym import Evaluator, Path, ObjV, ListAcc, _Frame, fmt_conds
from lcsa import bind
from props.common import CONDITIONAL_CALLEES, SEQ, SP, SEQ_PATH, check_api

STY = {"S", "T", "Y"}


def run(ck, prog):
    from props.common import check_memos
    ck.attempt(check_memos, ck, prog)
    ck.explanation = (
        "The body of the setter's loop is enumerated into a decision table for one generic requested site (an integer atom), "
        "with `residue at that index is S/T/Y` and `index already stored` as uninterpreted booleans and the append recorded as "
        "the path's effect; it is compared with the stated table by exact feasibility. The other clauses are binding, "
        "literal-set and effect facts read from the syntax trees.")
    for step in (_effects, _setter, _getter, _sty_sets, _substitution, _distribution):
        ck.attempt(step, ck, prog)
    check_api(ck, prog, [("get_phosphosites", "get_phosphosites", None), ("get_phosphosequence", "get_phosphosequence", None),
                         ("get_all_phosphorylatable_sites", "get_STY_residues", None)])
    _void_api(ck, prog)


def _setter(ck, prog):
    f = prog.fn(SEQ, "Sequence.setPhosPhoSites")
    construct = SEQ_PATH + ":Sequence.setPhosPhoSites"
    loops = [s for s in f.body() if isinstance(s, ast.For)]
    if len(loops) != 1:
        raise Undecided("setPhosPhoSites: expected one loop over the requested sites", f.loc())
    loop = loops[0]
    param = f.params()[1]
    ck.ob("FOLD", construct, isinstance(loop.iter, ast.Name) and loop.iter.id == param, expected="every requested site is visited, in order",
          found=unparse(loop.iter), slot="domain", where=f.loc(loop))
    ev = Evaluator(prog, positive=("N",))
    ev.int_atoms = {"site"}
    fr = _Frame(f, 0)
    env = {"self": ObjV("Sequence"), loop.target.id: Rat.atom("site")}
    res = ev.exec_block(loop.body, [Path([], "live", None, env)], fr)
    rows = []
    for p in res:
        app = p.env.get("@app:phosphosites", [])
        if p.kind == "raise":
            o = ("raise", p.value)
        else:
            o = tuple(repr(a) for a in app)
        rows.append((p.conds, o))
    site, N = Rat.atom("site"), Rat.atom("N")
    idx = site - Rat.const(1)
    inr = [("cmp", site, ">=", Rat.const(1)), ("cmp", site, "<=", N)]
    sty = ("opaque", "seq[%r] in STY" % idx)
    have = ("opaque", "%r in phosphosites" % idx)
    spec = [([("cmp", site, "<", Rat.const(1))], ()), ([("cmp", site, ">", N)], ()),
            (inr + [("not", sty)], ()), (inr + [sty, have], ()), (inr + [sty, ("not", have)], (repr(idx),))]
    mis = compare_rows(rows, spec, positive=("N",), int_atoms={"site", "N"})
    ck.ob("CONTRA-range", construct, mis is None,
          expected="per requested site: outside 1..N -> ignored; not S/T/Y -> ignored; already stored -> ignored; else append(site-1)",
          found=mis or "equivalent", slot="", where=f.loc(loop),
          note="an index that fails the range check must not be used afterwards (checked-then-used contradiction)")
    ck.count("setter paths", len(rows))
    ck.sample({"setter_table": [(fmt_conds(c), o) for c, o in rows]})
    # int() conversion and single-int convenience
    conv = [n for n in ast.walk(loop) if isinstance(n, ast.Call) and getattr(n.func, "id", None) == "int"]
    ck.ob("DT", construct, bool(conv), expected="each site converted with int()", found=len(conv), slot="int-conversion", where=f.loc(loop))
    wrap = [s for s in f.body() if isinstance(s, ast.If) and "isinstance" in unparse(s.test) and "int" in unparse(s.test)]
    ck.ob("DT", construct, bool(wrap), expected="a single int is wrapped into a one-element list", found=len(wrap), slot="single-int",
          where=f.loc())


def _getter(ck, prog):
    f = prog.fn(SEQ, "Sequence.get_phosphosites")
    construct = SEQ_PATH + ":Sequence.get_phosphosites"
    ev = Evaluator(prog)
    rows = ev.run_function(f, {}, ObjV("Sequence"))
    v = rows[0].value if len(rows) == 1 and rows[0].kind == "return" else None
    ok = isinstance(v, tuple) and len(v) == 3 and v[0] == "fieldmap" and v[1] == "phosphosites" and isinstance(v[2], Rat) \
        and v[2].equals(Rat.atom("@e:phosphosites") + Rat.const(1))
    ck.ob("ALG-inverse", construct, ok, expected="[i + 1 for i in phosphosites] (the inverse of idx = site - 1, same order)",
          found=repr(v), slot="plus-one", where=f.loc())


def _membership_literals(f, var=None):
    out = []
    for n in ast.walk(f.node):
        if isinstance(n, ast.Compare) and len(n.ops) == 1 and isinstance(n.ops[0], (ast.In, ast.NotIn)) \
                and isinstance(n.comparators[0], (ast.List, ast.Tuple, ast.Set)):
            try:
                lit = {e.value for e in n.comparators[0].elts}
            except AttributeError:
                continue
            out.append((n, lit))
    return out


def _sty_sets(ck, prog):
    for meth in ("setPhosPhoSites", "get_phosphosequence", "get_STY_residues"):
        f = prog.fn(SEQ, "Sequence." + meth)
        lits = _membership_literals(f)
        ok = len(lits) == 1 and lits[0][1] == STY
        ck.ob("PART-STY", SEQ_PATH + ":Sequence." + meth, ok, expected=sorted(STY), found=[sorted(l) for _, l in lits], slot="residue-set",
              where=f.loc(lits[0][0]) if lits else f.loc())
    # get_STY_residues: 1-based counter advanced once per residue, positions appended for members
    f = prog.fn(SEQ, "Sequence.get_STY_residues")
    construct = SEQ_PATH + ":Sequence.get_STY_residues"
    loops = [s for s in f.body() if isinstance(s, ast.For)]
    init = {s.targets[0].id: s.value for s in f.body() if isinstance(s, ast.Assign) and isinstance(s.targets[0], ast.Name)}
    ok = False
    if len(loops) == 1 and unparse(loops[0].iter) == "self.seq":
        lp = loops[0]
        incs = [s for s in lp.body if (isinstance(s, ast.Assign) and isinstance(s.targets[0], ast.Name)) or isinstance(s, ast.AugAssign)]
        ctr = None
        for s in incs:
            t = s.targets[0] if isinstance(s, ast.Assign) else s.target
            txt = unparse(s).replace(" ", "")
            if txt in ("%s=%s+1" % (t.id, t.id), "%s+=1" % t.id):
                ctr = t.id
        apps = [n for n in ast.walk(lp) if isinstance(n, ast.Call) and getattr(n.func, "attr", "") == "append"]
        cond_app = [s for s in lp.body if isinstance(s, ast.If)]
        ok = ctr is not None and ctr in init and unparse(init[ctr]) == "1" and len(apps) == 1 and unparse(apps[0].args[0]) == ctr \
            and lp.body.index([s for s in incs if unparse(s).replace(" ", "").startswith(ctr)][-1]) > lp.body.index(cond_app[0]) if cond_app else False
    ck.ob("FOLD-positions", construct, bool(ok), expected="1-based position counter, advanced once per residue after its use", found=ok, slot="positions",
          where=f.loc())


def _effects(ck, prog):
    E = Effects(prog, cut=CONDITIONAL_CALLEES)
    s = E.of(SEQ, "Sequence.setPhosPhoSites")
    ck.ob("EFF", SEQ_PATH + ":Sequence.setPhosPhoSites", {k: sorted(v) for k, v in s.self_writes.items()} == {"phosphosites": ["mutate"]},
          expected={"phosphosites": ["mutate"]}, found={k: sorted(v) for k, v in s.self_writes.items()}, slot="writes",
          note="append-only on the phosphosite list; the stored sequence is never touched")
    f = prog.fn(SEQ, "Sequence.setPhosPhoSites")
    muts = [n for n in ast.walk(f.node) if isinstance(n, ast.Call) and isinstance(n.func, ast.Attribute) and is_self_attr(n.func.value, "phosphosites")]
    ck.ob("EFF", SEQ_PATH + ":Sequence.setPhosPhoSites", [m.func.attr for m in muts] == ["append"], expected=["append"],
          found=[m.func.attr for m in muts], slot="append-only", where=f.loc())
    ck.ob("EFF", SEQ_PATH + ":Sequence.setPhosPhoSites", not s.param_muts, expected="the caller's list is not modified", found=dict(s.param_muts),
          slot="argument")
    c = E.of(SEQ, "Sequence.clear_phosphosites")
    g = prog.fn(SEQ, "Sequence.clear_phosphosites")
    asg = [n for n in ast.walk(g.node) if isinstance(n, ast.Assign)]
    ok = {k: sorted(v) for k, v in c.self_writes.items()} == {"phosphosites": ["rebind"]} and len(asg) == 1 and unparse(asg[0].value) in ("[]", "list()")
    ck.ob("EFF", SEQ_PATH + ":Sequence.clear_phosphosites", ok, expected="self.phosphosites = []  and nothing else", found=unparse(g.node.body[-1]), slot="clear",
          where=g.loc())
    for meth in ("get_phosphosites", "get_phosphosequence", "kappa_at_maxPhos", "calculateKappaDistOfPhosphoStates", "get_STY_residues"):
        sm = E.of(SEQ, "Sequence." + meth)
        bad = {k: sorted(v) for k, v in sm.self_writes.items() if k not in ("dmax", "seqDeltaMax")}
        ck.ob("EFF", SEQ_PATH + ":Sequence." + meth, not bad, expected="no write besides the delta-max memo", found=bad, slot="read-only")


def _substitution(ck, prog):
    """positions = self.phosphosites and letter 'E' in all three phospho functions"""
    # kappa_at_maxPhos
    f = prog.fn(SEQ, "Sequence.kappa_at_maxPhos")
    c = SEQ_PATH + ":Sequence.kappa_at_maxPhos"
    loops = [n for n in ast.walk(f.node) if isinstance(n, ast.For)]
    ok = False
    letter = None
    if len(loops) == 1 and unparse(loops[0].iter) == "self.phosphosites":
        v = loops[0].target.id
        st = loops[0].body
        if len(st) == 1 and isinstance(st[0], ast.Assign) and isinstance(st[0].targets[0], ast.Subscript) \
                and unparse(st[0].targets[0].slice) == v and isinstance(st[0].value, ast.Constant):
            letter = st[0].value.value
            base = unparse(st[0].targets[0].value)
            # base is list(self.seq); result object from "".join(base) -> Sequence(...) fresh -> .kappa()
            src = [n for n in ast.walk(f.node) if isinstance(n, ast.Assign) and unparse(n.targets[0]) == base]
            ok = letter == "E" and any(unparse(n.value) == "list(self.seq)" for n in src)
    ck.ob("SIB-substitution", c, ok, expected="E written at every index of self.phosphosites in a copy of the sequence", found=letter, slot="letter-and-positions",
          where=f.loc())
    rets = [n for n in ast.walk(f.node) if isinstance(n, ast.Return)]
    kinds = sorted(unparse(r.value) for r in rets)
    fresh = [n for n in ast.walk(f.node) if isinstance(n, ast.Call) and prog.class_of_ctor(f.mod, n) == "Sequence"]
    okr = len(rets) == 2 and "self.kappa()" in kinds and len(fresh) == 1 and len(fresh[0].args) == 1 and not fresh[0].keywords \
        and any(k.endswith(".kappa()") and k != "self.kappa()" for k in kinds)
    ck.ob("SIB-substitution", c, okr, expected="kappa of a fresh object built from the substituted string (own kappa when there are no sites)",
          found=kinds, slot="result", where=f.loc())
    # get_phosphosequence
    g = prog.fn(SEQ, "Sequence.get_phosphosequence")
    c2 = SEQ_PATH + ":Sequence.get_phosphosequence"
    loops = [s for s in g.body() if isinstance(s, ast.For)]
    ok2 = False
    detail = {}
    if len(loops) == 1 and unparse(loops[0].iter) == "self.seq":
        lp = loops[0]
        ifs = [s for s in lp.body if isinstance(s, ast.If)]
        if len(ifs) == 1 and isinstance(ifs[0].test, ast.Compare) and isinstance(ifs[0].test.ops[0], ast.In) \
                and unparse(ifs[0].test.comparators[0]) == "self.phosphosites":
            ctr = unparse(ifs[0].test.left)
            t_apps = [s for s in ifs[0].body if isinstance(s, ast.Assign) and isinstance(s.value, ast.BinOp)]
            e_apps = [s for s in ifs[0].orelse if isinstance(s, ast.Assign) and isinstance(s.value, ast.BinOp)]
            acc = unparse(t_apps[0].targets[0]) if t_apps else None
            on = unparse(t_apps[0].value).replace(" ", "") if t_apps else None
            off = unparse(e_apps[0].value).replace(" ", "") if e_apps else None
            inc = [s for s in lp.body if unparse(s).replace(" ", "") in ("%s=%s+1" % (ctr, ctr), "%s+=1" % ctr)]
            init = [s for s in g.body() if isinstance(s, ast.Assign) and unparse(s.targets[0]) == ctr and unparse(s.value) == "0"]
            detail = {"on": on, "off": off, "counter": ctr, "increments": len(inc), "init0": bool(init)}
            jumps = [n for n in ast.walk(lp) if isinstance(n, (ast.Continue, ast.Break))]
            detail["jumps"] = len(jumps)
            ok2 = not jumps and acc is not None and on == "%s+'E'" % acc and off in ("%s+self.seq[%s]" % (acc, ctr), "%s+%s" % (acc, lp.target.id)) \
                and len(inc) == 1 and lp.body.index(inc[0]) > lp.body.index(ifs[0]) and bool(init) \
                and len(t_apps) == 1 and len(e_apps) == 1
    ck.ob("SIB-substitution", c2, ok2, expected="one output letter per residue: 'E' at stored indices, the residue itself elsewhere; index advanced once per residue",
          found=detail, slot="walk", where=g.loc())
    # calculateKappaDistOfPhosphoStates
    h = prog.fn(SEQ, "Sequence.calculateKappaDistOfPhosphoStates")
    c3 = SEQ_PATH + ":Sequence.calculateKappaDistOfPhosphoStates"
    stores = [n for n in ast.walk(h.node) if isinstance(n, ast.Assign) and isinstance(n.targets[0], ast.Subscript)
              and isinstance(n.value, ast.Constant) and isinstance(n.value.value, str)]
    ok3 = len(stores) == 1 and stores[0].value.value == "E" and unparse(stores[0].targets[0].slice).startswith("self.phosphosites[")
    ck.ob("SIB-substitution", c3, ok3, expected="E written at self.phosphosites[k] for the k-th switched-on site", found=[unparse(s) for s in stores],
          slot="letter-and-positions", where=h.loc())


def _distribution(ck, prog):
    h = prog.fn(SEQ, "Sequence.calculateKappaDistOfPhosphoStates")
    c = SEQ_PATH + ":Sequence.calculateKappaDistOfPhosphoStates"
    outer = [s for s in h.body() if isinstance(s, ast.For)]
    ok_it = False
    if len(outer) == 1 and isinstance(outer[0].iter, ast.Call) and unparse(outer[0].iter.func) == "itertools.product":
        it = outer[0].iter
        a0 = it.args[0] if it.args else None
        rep = [k for k in it.keywords if k.arg == "repeat"]
        ok_it = isinstance(a0, ast.Constant) and a0.value == "01" and len(rep) == 1 and unparse(rep[0].value) == "len(self.phosphosites)"
    ck.ob("ALG-states", c, ok_it, expected="itertools.product('01', repeat=len(self.phosphosites)) (binary counting order, 2^k states)",
          found=unparse(outer[0].iter) if outer else None, slot="iteration", where=h.loc())
    if not outer:
        return
    lp = outer[0]
    status = lp.target.id
    # inner walk: for i in status: if int(i) == 1: store ; indx += 1 unconditionally
    inner = [s for s in lp.body if isinstance(s, ast.For)]
    ok_in = False
    if len(inner) == 1 and unparse(inner[0].iter) == status:
        iv = inner[0].target.id
        ifs = [s for s in inner[0].body if isinstance(s, ast.If)]
        ctr_inc = [s for s in inner[0].body if not isinstance(s, ast.If)]
        if len(ifs) == 1 and unparse(ifs[0].test).replace(" ", "") in ("int(%s)==1" % iv, "%s=='1'" % iv) and not ifs[0].orelse:
            st = ifs[0].body
            if len(st) == 1 and isinstance(st[0], ast.Assign) and isinstance(st[0].targets[0], ast.Subscript):
                k = unparse(st[0].targets[0].slice)
                ctr = k[len("self.phosphosites["):-1] if k.startswith("self.phosphosites[") else None
                ok_in = ctr is not None and len(ctr_inc) == 1 and unparse(ctr_inc[0]).replace(" ", "") in ("%s=%s+1" % (ctr, ctr), "%s+=1" % ctr) \
                    and any(isinstance(s, ast.Assign) and unparse(s.targets[0]) == ctr and unparse(s.value) == "0" for s in lp.body)
    ck.ob("ALG-states", c, ok_in, expected="k-th flag '1' switches on the k-th stored site; counter reset per state and advanced once per flag",
          found=ok_in, slot="flags-to-sites", where=h.loc())
    # fresh copy per state
    copies = [s for s in lp.body if isinstance(s, ast.Assign) and unparse(s.value) == "list(self.seq)"]
    ck.ob("ALG-states", c, len(copies) == 1 and lp.body.index(copies[0]) == 0, expected="each state starts from a fresh copy of the stored sequence",
          found=[unparse(s) for s in copies], slot="fresh-copy", where=h.loc())
    # tuple layout
    ctors = [n for n in ast.walk(lp) if isinstance(n, ast.Assign) and isinstance(n.value, ast.Call) and prog.class_of_ctor(h.mod, n.value) == "Sequence"]
    apps = [n for n in ast.walk(lp) if isinstance(n, ast.Call) and getattr(n.func, "attr", "") == "append" and n.args and isinstance(n.args[0], ast.Tuple)]
    want = ["kappa", "Fplus", "Fminus", "FCR", "NCPR", "meanHydropathy"]
    ok_t = False
    found = None
    if len(ctors) == 1 and len(apps) == 1 and len(ctors[0].value.args) == 1 and not ctors[0].value.keywords:
        obj = unparse(ctors[0].targets[0])
        elts = apps[0].args[0].elts
        found = [unparse(e) for e in elts]
        ok_t = len(elts) == 7 and all(isinstance(e, ast.Call) and unparse(e.func) == "%s.%s" % (obj, w) and not e.args for e, w in zip(elts[:6], want)) \
            and unparse(elts[6]) == status
        rets = [n for n in ast.walk(h.node) if isinstance(n, ast.Return) and n.value is not None]
        ok_t = ok_t and len(rets) == 1 and unparse(rets[0].value) == unparse(apps[0].func.value)
    ck.ob("ALG-tuple", c, ok_t, expected="(kappa, f+, f-, FCR, NCPR, hydropathy, status) of ONE fresh Sequence(<substituted string>) per state",
          found=found, slot="layout", where=h.loc())


def _void_api(ck, prog):
    """clear_phosphosites / get_kappa_after_phosphorylation / get_full_phosphostatus_kappa_distribution"""
    f = prog.fn(SP, "SequenceParameters.set_phosphosites")
    calls = [n for n in ast.walk(f.node) if isinstance(n, ast.Call)]
    ok = len(calls) == 1 and unparse(calls[0]) == "self.SeqObj.setPhosPhoSites(%s)" % f.params()[1]
    ck.ob("BIND-api", f.mod.relpath + ":" + f.qual, ok, expected="self.SeqObj.setPhosPhoSites(<the argument>)", found=[unparse(c) for c in calls],
          slot="forwards", where=f.loc())
    f = prog.fn(SP, "SequenceParameters.clear_phosphosites")
    calls = [n for n in ast.walk(f.node) if isinstance(n, ast.Call)]
    ok = len(calls) == 1 and unparse(calls[0]) == "self.SeqObj.clear_phosphosites()"
    ck.ob("BIND-api", f.mod.relpath + ":" + f.qual, ok, expected="self.SeqObj.clear_phosphosites()", found=[unparse(c) for c in calls], slot="forwards", where=f.loc())
    for api, backend in (("get_kappa_after_phosphorylation", "kappa_at_maxPhos"),
                         ("get_full_phosphostatus_kappa_distribution", "calculateKappaDistOfPhosphoStates")):
        f = prog.fn(SP, "SequenceParameters." + api)
        rets = bind.returns_of(f)
        ok = len(rets) == 1 and unparse(rets[0].value) == "self.SeqObj.%s()" % backend
        ck.ob("BIND-api", f.mod.relpath + ":" + f.qual, ok, expected="return self.SeqObj.%s()" % backend, found=[unparse(r.value) for r in rets],
              slot="forwards", where=f.loc())


def run_thorough(ck, prog):
    from props import thorough
    ck.attempt(thorough.doc_phospho_tuple, ck, prog)
