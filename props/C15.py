"""C15 - read-only queries are history-independent and never change the object.

A history property decided as an effect property: if no read-only query can write anything but a well-formed memo, no
history can be observed, whatever its length.  Decides:
 EFF   writes of every read-only API method (closed over the resolved call graph) are within the delta-max memo pair;
       no module-level object and no caller-supplied argument is mutated; who-may-write table for every Sequence field
 MEMO  deltaMax: hit-guards test 'computed' for every field they return (M1); on the miss path every memo field is written
       before it is read (M2 - the stale-cache defect, repaired by a fix: commit); values written depend on
       immutable-after-construction state only (M3); every regime writes the permutant when asked (M4)
 ALIAS no read-only query returns a reference to a mutable field or module-level table
 MDEF  mutable default arguments are never mutated, except the one idempotent fill whose premises are re-derived here"""
import ast

from lcsa.eff import Effects
from lcsa.model import Undecided, unparse, is_self_attr
from lcsa import tab, bind
from props.common import SEQ, SP, SEQ_PATH

MEMO = {"dmax", "seqDeltaMax"}
IMMUTABLE_VALUED = {"seq", "len", "dmax", "seqDeltaMax"}       # str / int / float / None-or-str
MUTABLE_FIELDS = {"phosphosites", "aminoAcidColorMap", "chargePattern", "ComplexityObject"}
WRITERS = {
    "seq": {"__init__"}, "len": {"__init__"}, "chargePattern": {"__init__"}, "ComplexityObject": {"__init__"},
    "phosphosites": {"__init__", "setPhosPhoSites", "clear_phosphosites"},
    "aminoAcidColorMap": {"__init__", "set_HTMLColorResiduePalette"},
    "dmax": {"__init__", "deltaMax"}, "seqDeltaMax": {"__init__", "deltaMax"},
}


def read_only_api(prog):
    m = prog.mod(SP)
    out = []
    for q, f in sorted(m.funcs.items()):
        if f.cls != "SequenceParameters":
            continue
        if f.name.startswith("get_") or f.name in ("__len__", "__str__", "__repr__", "__unicode__"):
            out.append(f)
    return out


def run(ck, prog):
    ck.explanation = (
        "Whole-package effect analysis on the syntax trees: per function the fields of the receiver it may write (rebinding "
        "or in-place mutation through aliases), the parameters and module-level objects it may mutate and what its result "
        "may alias, computed flow-sensitively inside a function and closed over the resolved call graph; plus a def-use "
        "(written-before-read) analysis of the delta-max memo on every path of deltaMax.")
    E = Effects(prog)
    api = read_only_api(prog)
    ck.count("read-only API methods", len(api))
    ck.floor("read-only API methods", len(api), 41)
    from props.common import check_memos
    ck.attempt(check_memos, ck, prog, scope=_reachable(E, {f.key for f in api}), E=E)
    for step, args in ((_who_may_write, (ck, prog, E)), (_memo, (ck, prog, E)), (_alias, (ck, prog, E, api)), (_mdef, (ck, prog, E, api)),
                       (_fresh_ctors, (ck, prog)), (_eff, (ck, prog, E, api)), (_positive_control, (ck,))):
        ck.attempt(step, *args)


def _eff(ck, prog, E, api):
    from lcsa import memo
    memo_res = memo.analyse(prog, E)
    sound_tables = {}
    for r in memo_res:
        s0 = r["site"]
        if s0.scope == "object":
            sound_tables.setdefault((s0.cls, s0.table), []).append(r["verdict"])
    undecided_tables = set()
    ctor_keys = {g.key for g in prog.all_funcs() if g.name == "__init__"}
    reach_keys = _reachable(E, {f.key for f in api} | {k for k in ctor_keys if k in E.sum})
    for f in api:
        s = E.sum[f.key]
        construct = f.mod.relpath + ":" + f.qual
        bad = {}
        for path, kinds in s.self_writes.items():
            parts = path.split(".")
            if parts[0] == "SeqObj" and len(parts) >= 2 and parts[1] in MEMO and len(parts) == 2:
                continue
            if parts[0] == "SeqObj" and len(parts) >= 2 and (parts[1] not in WRITERS or len(parts) > 2):
                # a field the analysis has no writer table for (possibly of a helper object the sequence owns): a new memo table.
                # Judged by MEMO-KEY, not by the writer table
                v = sound_tables.get(("Sequence", parts[1])) if len(parts) == 2 else \
                    [x for (c_, t_), vs_ in sound_tables.items() if t_ == parts[-1] for x in vs_]
                if v and all(x == "ok" for x in v):
                    continue
                if v and any(x == "violation" for x in v):
                    bad[path] = sorted(kinds) + ["memo key incomplete"]
                    continue
                undecided_tables.add(parts[-1])
                continue
            bad[path] = sorted(kinds)
        sites = {p: [w for w in s.write_sites.get(p, [])][:3] for p in bad}
        ck.ob("EFF-receiver", construct, not bad, expected="writes within {SeqObj.dmax, SeqObj.seqDeltaMax}",
              found={"writes": bad, "sites": sites} if bad else sorted(s.self_writes), slot="writes", where=f.loc(),
              note="a read-only query must not change the stored sequence, the phosphosite list, the palette or anything else")
        gm = dict(s.global_muts)
        for k in list(gm):
            # a module-level result table (`if key not in T: T[key] = ...`) is judged by MEMO-KEY: unobservable iff the key determines the value
            res = [r["verdict"] for r in memo_res if r["site"].scope in ("module", "closure") and r["site"].mod.rel == k[0] and r["site"].table == k[1]]
            if not res:
                # an instance of a package class kept at module level (a shared helper object): writing its fields is observable only if some
                # method uses a field before assigning it in the same call (state left by an earlier call); otherwise each call starts over
                cls = prog.global_types.get(k)
                if cls and cls in prog.class_mod:
                    from lcsa import flow
                    cm = prog.class_mod[cls]
                    flds = set()
                    for g in cm.funcs.values():
                        if g.cls == cls and g.name != "__init__" and g.key in E.sum:
                            flds |= {a.split(".")[0] for a in E.sum[g.key].self_writes}
                    # a field that is a result table of the helper object (`if k not in self.T: self.T[k] = ...`) is read before it is assigned by
                    # design: whether that is observable is MEMO-KEY's verdict on the table, not a carried state
                    for fld in sorted(flds):
                        vs_ = [r["verdict"] for r in memo_res if r["site"].scope == "object" and r["site"].cls == cls and r["site"].table.split("__")[-1] == fld.split("__")[-1]]
                        if vs_ and all(v_ == "ok" for v_ in vs_):
                            flds.discard(fld)
                    carried = {}
                    for g in cm.funcs.values():
                        if g.cls != cls or g.name == "__init__":
                            continue
                        for fld in sorted(flds):
                            u = flow.used_before_assigned(g.body(), fld)
                            if u is not None:
                                carried["%s.%s" % (g.name, fld)] = g.loc(u)
                    if not carried:
                        del gm[k]
                    else:
                        gm[k] = list(gm[k]) + [{"state_left_by_an_earlier_call_is_used": carried}]
                elif not _global_is_read(prog, k, reach_keys):
                    # written but never read by anything a query or a constructor reaches (a counter, a log): unobservable through the API
                    ck.info("%s writes module-level %s:%s, which nothing reachable from the API reads" % (f.qual, k[0], k[1]))
                    del gm[k]
                continue
            if all(x == "ok" for x in res):
                del gm[k]
            elif any(x == "violation" for x in res):
                gm[k] = list(gm[k]) + ["memo key incomplete"]
            else:
                undecided_tables.add("%s:%s" % k)
                del gm[k]
        ck.ob("EFF-globals", construct, not gm, expected="no module-level object written (a result table whose key determines the stored value excepted)",
              found={"%s:%s" % k: v[:2] for k, v in gm.items()}, slot="globals", where=f.loc())
        pm = {p: w for p, w in s.param_muts.items() if not (f.name == "get_linear_sequence_composition" and p == "grps")}
        ck.ob("EFF-arguments", construct, not pm, expected="no caller-supplied argument mutated", found={p: w[:2] for p, w in pm.items()},
              slot="arguments", where=f.loc())
    if undecided_tables:
        raise Undecided("read-only queries write new field(s) / module table(s) %s whose memo discipline lcsa cannot judge" % sorted(undecided_tables))
    # unresolved self-calls would hide effects
    unresolved = sorted({u for f in api for u in E.sum[f.key].unresolved})
    ck.ob("EFF-resolution", "localcider/sequenceParameters.py:SequenceParameters", not unresolved, expected="every self.* call resolved",
          found=unresolved, slot="call-resolution")


def _who_may_write(ck, prog, E):
    """direct write sites of every Sequence field, anywhere in the package"""
    direct = {}
    for key, s in E.sum.items():
        for path, sites in s.write_sites.items():
            for kind, where in sites:
                if kind == "via":
                    continue
                parts = path.split(".")
                fld = None
                if s.f.cls == "Sequence" and len(parts) == 1:
                    fld = parts[0]
                elif len(parts) >= 2 and prog.attr_types.get((s.f.cls, parts[0])) == "Sequence":
                    fld = parts[1]
                if fld in WRITERS or fld == "*":
                    direct.setdefault(fld, set()).add((s.f.cls, s.f.name, where))
    # a private helper that is called only from allowed writers (recursively) writes on their behalf
    callers = {}
    for key, s in E.sum.items():
        for callee, recv, _, _ in s.calls:
            if callee.cls == "Sequence" and ("self" in recv):
                callers.setdefault(callee.name, set()).add((s.f.cls, s.f.name))

    def may_write(name, allowed, depth=0):
        if name in allowed:
            return True
        if depth > 4 or not name.startswith("_") or name.startswith("__init"):
            return False
        cs = callers.get(name, set())
        return bool(cs) and all(c == "Sequence" and may_write(n, allowed, depth + 1) for c, n in cs)
    for fld, allowed in sorted(WRITERS.items()):
        got = direct.get(fld, set())
        extra = sorted((c, n, w) for c, n, w in got if not (c == "Sequence" and may_write(n, allowed)))
        ck.ob("EFF-who-may-write", SEQ_PATH + ":Sequence." + fld, not extra, expected=sorted(allowed),
              found=sorted({n for _, n, _ in got}) if not extra else extra, slot="writers", note="who-may-write table")
    ck.ob("EFF-who-may-write", SEQ_PATH + ":Sequence.*", not direct.get("*"), expected="no whole-object mutation", found=sorted(direct.get("*", [])),
          slot="object")
    # in-place mutation of the charge pattern (the constructor stores a shared default list / a caller's array)
    mut = []
    for key, s in E.sum.items():
        for path, kinds in s.self_writes.items():
            if path.split(".")[-1] == "chargePattern" and "mutate" in kinds:
                mut.append(key)
    ck.ob("EFF-who-may-write", SEQ_PATH + ":Sequence.chargePattern", not mut, expected="charge pattern only rebound, never mutated in place",
          found=mut, slot="no-inplace")
    ck.count("fields with a writer table", len(WRITERS))


# ----------------------------------------------------------------------------------------- MEMO
def _memo(ck, prog, E):
    f = prog.fn(SEQ, "Sequence.deltaMax")
    construct = SEQ_PATH + ":Sequence.deltaMax"
    flag = f.params()[1] if len(f.params()) > 1 else None
    body = f.body()
    # the M-rules read deltaMax as: hit guards on the object's own two memo fields, then the regimes.  A further result table inside it (shared
    # between objects, say) adds short-circuits that are neither; its soundness is MEMO-KEY's verdict, and the structure here is then not decided
    from lcsa import memo as memo_mod
    foreign = [t for t in memo_mod.find_sites(prog) if t.fnode is f.node]
    ck.shape(not foreign, "deltaMax: besides self.dmax / self.seqDeltaMax it keeps results in %s; the hit-guard / regime structure is not the recognised one"
             % sorted({t.table for t in foreign}), f.loc())
    # ---- M1: early returns of memo fields are guarded by a 'computed' test for every field they return
    hits = []

    def collect_returns(stmts, guards):
        for s in stmts:
            if isinstance(s, ast.If):
                collect_returns(s.body, guards + [(s.test, True)])
                collect_returns(s.orelse, guards + [(s.test, False)])
            elif isinstance(s, ast.Return):
                hits.append((s, list(guards)))
            elif isinstance(s, (ast.For, ast.While)):
                collect_returns(s.body, guards)
    collect_returns(body, [])
    # the hit guards are the returning arms of the leading if/elif chain
    lead = None
    for st in body:
        if isinstance(st, ast.If) and any(isinstance(x, ast.Return) for x in st.body):
            lead = st
            break
        if not isinstance(st, (ast.Assign, ast.Expr)):
            break
    # every returning arm of the leading chain must be a test of the object's own memo fields; a short-circuit on anything else (a table shared
    # between objects, say) is a different memo, judged by MEMO-KEY, and makes the regime structure below unrecognisable
    node = lead
    while isinstance(node, ast.If):
        if any(isinstance(x, ast.Return) for x in node.body):
            ck.shape(any(is_self_attr(n) and n.attr in MEMO for n in ast.walk(node.test)),
                     "deltaMax: a leading short-circuit that does not test the object's own memo fields (%s)" % unparse(node.test)[:60], f.loc(node))
        node = node.orelse[0] if len(node.orelse) == 1 and isinstance(node.orelse[0], ast.If) else None
    lead_returns = set()
    node = lead
    while isinstance(node, ast.If):
        for x in node.body:
            if isinstance(x, ast.Return):
                lead_returns.add(id(x))
        node = node.orelse[0] if len(node.orelse) == 1 and isinstance(node.orelse[0], ast.If) else None
    early = [h for h in hits if id(h[0]) in lead_returns]
    for r, guards in early:
        returned = {n.attr for n in ast.walk(r.value) if is_self_attr(n)} & MEMO
        tested = set()
        unknown_tests = []
        for g, pol in guards:
            if not pol:
                continue
            for c in ast.walk(g):
                if isinstance(c, ast.Compare) and is_self_attr(c.left) and c.left.attr in MEMO:
                    op = c.ops[0]
                    rhs = unparse(c.comparators[0]).replace(" ", "")
                    if c.left.attr == "dmax":
                        if (isinstance(op, ast.NotEq) and rhs == "-1") or (isinstance(op, ast.GtE) and rhs in ("0", "0.0")) or (isinstance(op, ast.Gt) and rhs == "-1"):
                            tested.add("dmax")
                        else:
                            unknown_tests.append(unparse(c))
                    if c.left.attr == "seqDeltaMax":
                        if (isinstance(op, ast.IsNot) and rhs == "None") or (isinstance(op, ast.NotEq) and rhs == "None"):
                            tested.add("seqDeltaMax")
                        else:
                            unknown_tests.append(unparse(c))
                elif isinstance(c, ast.Attribute) and is_self_attr(c) and c.attr == "seqDeltaMax" and isinstance(g, ast.BoolOp) and any(v is c for v in g.values):
                    tested.add("seqDeltaMax")       # truthiness of the permutant string
        ck.shape(returned <= tested or not unknown_tests, "deltaMax: cache test(s) %s in a form lcsa does not recognise" % unknown_tests, f.loc(r))
        ck.ob("MEMO-M1", construct, returned <= tested, expected="hit-guard tests 'computed' for %s" % sorted(returned),
              found=sorted(tested), slot="early-return@%s" % unparse(r.value)[:40], where=f.loc(r))
    ck.count("memo early returns", len(early))
    # ---- M2: on the miss path every memo field is written before it is read
    stale = []

    def reads_of(expr):
        return [n for n in ast.walk(expr) if is_self_attr(n) and n.attr in MEMO and isinstance(n.ctx, ast.Load)]

    def walk(stmts, defined, on_miss):
        """defined: set of memo fields certainly written in this call; on_miss: past the hit guards"""
        for s in stmts:
            if isinstance(s, ast.If):
                is_hit = any(isinstance(x, ast.Return) for x in s.body) and not on_miss and bool(reads_of(s.test))
                if not is_hit:
                    for n in reads_of(s.test):
                        if n.attr not in defined and on_miss:
                            stale.append((n.attr, f.loc(n), "test"))
                d1 = walk(s.body, set(defined), on_miss or False) if not is_hit else set(defined)
                d2 = walk(s.orelse, set(defined), on_miss if not is_hit else on_miss)
                defined = (d1 & d2) if not is_hit else d2
                continue
            if isinstance(s, (ast.For, ast.While)):
                d = walk(s.body, set(defined), True)
                continue
            if isinstance(s, ast.Return):
                if on_miss and s.value is not None:
                    for n in reads_of(s.value):
                        if n.attr == "dmax" and n.attr not in defined:
                            stale.append((n.attr, f.loc(n), "return"))
                continue
            if isinstance(s, ast.Assign):
                for n in reads_of(s.value):
                    if n.attr not in defined and on_miss:
                        stale.append((n.attr, f.loc(n), "rhs"))
                for t in s.targets:
                    if is_self_attr(t) and t.attr in MEMO:
                        defined.add(t.attr)
                continue
            for n in reads_of(s) if isinstance(s, ast.AST) else []:
                if n.attr not in defined and on_miss:
                    stale.append((n.attr, f.loc(n), "stmt"))
        return defined
    # the hit guards are the leading if/elif arms that return; everything after them is the miss path
    first = lead
    if not isinstance(first, ast.If):
        raise Undecided("deltaMax has no cache short-circuit", f.loc())
    # arms of the leading chain
    arms, node = [], first
    while isinstance(node, ast.If):
        arms.append(node)
        node = node.orelse[0] if len(node.orelse) == 1 and isinstance(node.orelse[0], ast.If) else None
    miss_stmts = []
    hit_arms = [a for a in arms if any(isinstance(x, ast.Return) for x in a.body)]
    last_hit = hit_arms[-1] if hit_arms else None
    if last_hit is not None:
        miss_stmts = list(last_hit.orelse)
        # non-returning arms of the same chain that follow the hit arms are part of the miss path
    rest = body[body.index(lead) + 1:]
    walk(miss_stmts + rest, set(), True)
    uniq = sorted({(a, w) for a, w, _ in stale if a == "dmax"})
    ck.ob("MEMO-M2", construct, not uniq, expected="on the miss path self.dmax is written before it is read",
          found=[{"field": a, "stale_read_at": w} for a, w in uniq][:8], slot="written-before-read", where=f.loc(),
          note="a cached dmax met by `if self.dmax < candidate.delta()` is never improved on, so the permutant stays None")
    # ---- M4: every regime writes the permutant when asked
    regimes = _regimes(f, arms, rest)
    for name, stmts in regimes:
        writes = [n for st in stmts for n in ast.walk(st) if isinstance(n, ast.Assign) and any(is_self_attr(t, "seqDeltaMax") for t in n.targets)]
        # ... or through a helper of the receiver that writes it
        for st in stmts:
            for n in ast.walk(st):
                if isinstance(n, ast.Call) and isinstance(n.func, ast.Attribute) and is_self_attr(n.func):
                    callee = prog.method("Sequence", n.func.attr)
                    if callee is not None and "seqDeltaMax" in E.sum[callee.key].self_writes:
                        writes.append(n)
        ck.ob("MEMO-M4", construct, bool(writes), expected="regime writes self.seqDeltaMax (under the flag)", found=len(writes),
              slot="regime:" + name, where=f.loc(stmts[0]) if stmts else f.loc(),
              note="branch-level necessary condition for 'returns ... a sequence'")
    ck.count("deltaMax regimes", len(regimes))
    ck.floor("deltaMax regimes", len(regimes), 5)
    # ---- M3: values written depend on immutable-after-construction state only
    s = E.sum[f.key]
    methods = {g.name for g in prog.mod(SEQ).funcs.values() if g.cls == "Sequence"}
    reads = {r for r in s.self_reads if r not in methods}
    # a field that is itself a result table with a complete key (MEMO-KEY: ok) is unobservable and does not count as changing state
    mres = memo_mod.analyse(prog, E)
    for r in sorted(reads - {"seq", "len", "chargePattern", "dmax", "seqDeltaMax"}):
        vs = [x["verdict"] for x in mres if x["site"].scope == "object" and x["site"].cls == "Sequence" and x["site"].table.lstrip("_") == r.lstrip("_").replace("Sequence__", "")]
        if vs and all(v == "ok" for v in vs):
            reads.discard(r)
        elif vs and not any(v == "violation" for v in vs):
            ck.shape(False, "deltaMax reaches a read of the result table self.%s whose key MEMO-KEY cannot judge" % r, f.loc())
    ck.ob("MEMO-M3", construct, reads <= {"seq", "len", "chargePattern", "dmax", "seqDeltaMax"},
          expected="deltaMax (and everything it calls on the receiver) reads only construction-time state and the memo",
          found=sorted(reads), slot="reads", where=f.loc())
    # the flag only gates which fields are written
    cond_writes = []
    for n in ast.walk(f.node):
        if isinstance(n, ast.If) and flag and any(isinstance(x, ast.Name) and x.id == flag for x in ast.walk(n.test)):
            for st in n.body:
                for a in ast.walk(st):
                    if isinstance(a, ast.Assign) and any(is_self_attr(t, "dmax") for t in a.targets):
                        cond_writes.append(f.loc(a))
    ck.ob("MEMO-M3", construct, not cond_writes, expected="the value of dmax does not depend on the flag", found=cond_writes, slot="flag-gates-only",
          where=f.loc())


def _regimes(f, arms, rest):
    """regime branches: the arms of the if/elif cascade on the miss path"""
    out = []
    # find the cascade whose first test mentions FCR()
    chain = None
    cands = [s for s in rest if isinstance(s, ast.If)]
    for a in arms:
        if not any(isinstance(x, ast.Return) for x in a.body):
            chain = a
            break
    if chain is None and cands:
        chain = cands[0]
    node, i = chain, 0
    while isinstance(node, ast.If):
        out.append(("R%d:%s" % (i, unparse(node.test)[:30]), node.body))
        i += 1
        if len(node.orelse) == 1 and isinstance(node.orelse[0], ast.If):
            node = node.orelse[0]
        else:
            if node.orelse:
                out.append(("R%d:else" % i, node.orelse))
            node = None
    return out


MOVES = {"swapRes", "swapRandChargeRes", "full_shuffle", "permute_block_swap", "permute_cluster_charges"}


def _fresh_ctors(ck, prog):
    """derived sequences (recodings, phosphostates, delta-max candidates) are built as fresh objects: outside the
    rearranging moves no Sequence(...) carries the receiver's dmax or charge pattern over"""
    n = 0
    for f in prog.mod(SEQ).funcs.values():
        if f.cls != "Sequence" or f.name in MOVES:
            continue
        for c in ast.walk(f.node):
            if isinstance(c, ast.Call) and prog.class_of_ctor(f.mod, c) == "Sequence":
                from props.common import carried_state
                cs = carried_state(prog, f, c)
                ck.shape(not any(k == "unknown" for k, _ in cs), "%s: what Sequence(...) is handed besides the string (%s)" % (f.name, [t for _, t in cs]), f.loc(c))
                extra = [t for k, t in cs if k in ("dmax", "alias")]
                ck.ob("CTOR-fresh", f.mod.relpath + ":" + f.qual, not extra, expected="Sequence(<derived string>) with no carried-over state (a consistently patched copy of the charge pattern excepted)",
                      found=unparse(c)[:100], slot="ctor@%s" % unparse(c.args[0])[:30] if c.args else "ctor", where=f.loc(c),
                      note="a carried dmax is valid only for rearrangements of the same composition (the moves)")
                n += 1
    ck.count("derived-object constructions", n)
    ck.floor("derived-object constructions", n, 8)


# ----------------------------------------------------------------------------------------- ALIAS
# methods of Sequence whose result is a python number (their formulas are what C01-C09 decide)
SCALAR_METHODS = {"delta", "deltaMax", "deltaForm", "sigma", "kappa", "FCR", "FER", "NCPR", "Fplus", "Fminus", "countPos", "countNeg", "countNeut",
                  "meanHydropathy", "uverskyHydropathy", "charge_at_pH", "Omega", "kappa_X", "sequence_charge_decoration", "isoelectric_point",
                  "mean_net_charge", "kappa_at_maxPhos", "phasePlotRegion", "molecular_weight", "fraction_disorder_promoting"}
IMMUTABLE_CALLS = {"int", "float", "str", "len", "round", "abs", "min", "max", "sum", "bool", "tuple", "frozenset"}
MUTABLE_CALLS = {"list", "dict", "set", "np.array", "np.zeros", "np.vstack", "np.arange", "np.asarray", "sorted", "bytearray"}


def _immutable_result(prog, f, node, depth=0):
    """True: certainly an immutable value (number, str, None, tuple of those); False: certainly a mutable container; None: unknown"""
    if depth > 6 or node is None:
        return None
    if isinstance(node, ast.Constant):
        return True
    if isinstance(node, (ast.List, ast.Dict, ast.Set, ast.ListComp, ast.DictComp, ast.SetComp)):
        return False
    if isinstance(node, (ast.Compare, ast.BoolOp, ast.JoinedStr)) or (isinstance(node, ast.UnaryOp) and isinstance(node.op, ast.Not)):
        return True
    if isinstance(node, ast.Tuple):
        ks = [_immutable_result(prog, f, e, depth + 1) for e in node.elts]
        return False if False in ks else (None if None in ks else True)
    if isinstance(node, ast.Call):
        fn = unparse(node.func)
        if fn in IMMUTABLE_CALLS:
            return True
        if fn in MUTABLE_CALLS:
            return False
        callee = prog.resolve_call(f, node) if f is not None else None
        if callee is None:
            return None
        if callee.cls == "Sequence" and callee.name in SCALAR_METHODS:
            return True                # numbers (deltaMax: a number, or a (number, str) pair)
        ks = [_immutable_result(prog, callee, r.value, depth + 1) for r in bind.returns_of(callee)]
        if not ks:
            return True            # returns None
        return False if False in ks else (None if None in ks else True)
    if isinstance(node, ast.Name) and f is not None:
        if node.id in f.params():
            return None
        vals = [n.value for n in ast.walk(f.node) if isinstance(n, ast.Assign) and len(n.targets) == 1 and isinstance(n.targets[0], ast.Name) and n.targets[0].id == node.id]
        # other ways the NAME is bound (loop target, augmented assignment of the name itself); element updates `name[k] += 1` do not rebind it
        other = [n for n in ast.walk(f.node) if not isinstance(n, ast.Assign) and hasattr(n, "target")
                 and any(isinstance(x, ast.Name) and x.id == node.id and isinstance(x.ctx, ast.Store) for x in ast.walk(n.target))]
        if not vals or other:
            return None
        ks = {_immutable_result(prog, f, v, depth + 1) for v in vals}
        return False if ks == {False} else (True if ks == {True} else None)
    if isinstance(node, ast.BinOp):
        ks = [_immutable_result(prog, f, node.left, depth + 1), _immutable_result(prog, f, node.right, depth + 1)]
        return True if ks == [True, True] else (False if False in ks else None)
    if isinstance(node, ast.IfExp):
        ks = [_immutable_result(prog, f, node.body, depth + 1), _immutable_result(prog, f, node.orelse, depth + 1)]
        return False if False in ks else (None if None in ks else True)
    return None


def _table_element(ck, prog, f, o, tabs):
    """the origin is a result table (`T[key] = value` ... `T[key]`).  What reaches the caller is a stored element (or something unpacked / copied from
    it), shared with every later caller: harmless when the stored values are immutable, a violation when a certainly mutable stored value is handed
    out as it is, undecided otherwise (the effect summaries do not see inside stored tuples)."""
    kinds = set()
    direct = True
    for t in tabs:
        g = prog.mods[t.mod.rel].funcs.get((t.cls + "." if t.cls else "") + t.fnode.name)
        kinds.add(_immutable_result(prog, g, t.value))
        name = t.table
        for r in bind.returns_of(g):
            v = r.value
            if v is None:
                continue
            if getattr(t, "slot", False) and isinstance(v, ast.Attribute) and v.attr == name:
                continue                # a one-slot cache: the field IS the stored value - judged by its mutability like any element
            if isinstance(v, ast.Name) and v.id == name or (isinstance(v, ast.Attribute) and v.attr == name):
                return False            # the table itself escapes
            if isinstance(v, ast.Name) and isinstance(t.value, ast.Name) and v.id == t.value.id:
                continue                # `T[key] = value; return value`: the very object that was stored
            if isinstance(v, ast.Name) and isinstance(t.value, (ast.Tuple, ast.List)) and any(isinstance(e, ast.Name) and e.id == v.id for e in t.value.elts):
                # `T = (k, value); return value`: a component of what was stored is handed out as it is
                if _immutable_result(prog, g, v) is False:
                    return False
                direct = False
                continue
            if not (isinstance(v, ast.Subscript) and unparse(v.value).split(".")[-1] == name):
                direct = False
    if kinds == {True}:
        return True
    if False in kinds and direct:
        return False
    raise Undecided("an element of result table %s reaches the result of %s: cannot tell whether mutable storage is shared" % (o, f.qual), f.loc())


def _returns_table_itself(f, name):
    return any(isinstance(r.value, ast.Name) and r.value.id == name for r in bind.returns_of(f) if r.value is not None)


def _alias(ck, prog, E, api):
    from lcsa import memo
    tables = memo.find_sites(prog)
    global_mutables = set()
    for m in prog.mods.values():
        for name, val in m.globals.items():
            if isinstance(val, (ast.Dict, ast.List, ast.Set)) or (isinstance(val, ast.Call) and prog.class_of_ctor(m, val)):
                global_mutables.add("global:%s:%s" % (m.rel, name))
    for f in api:
        s = E.sum[f.key]
        bad = []
        for o in s.returns:
            if isinstance(o, tuple) or o == "fresh":
                continue
            if o.startswith("global:"):
                if o in global_mutables:
                    tabs = [t for t in tables if t.scope == "module" and "global:%s:%s" % (t.mod.rel, t.table) == o]
                    if tabs and _table_element(ck, prog, f, o, tabs):
                        continue
                    bad.append(o)
                continue
            parts = o.split(".")
            if parts[0] == "self" and len(parts) >= 3 and parts[1] == "SeqObj":
                if parts[2] in IMMUTABLE_VALUED:
                    continue
                tabs = [t for t in tables if t.scope == "object" and t.cls == "Sequence" and t.table == parts[2]]
                if tabs and len(parts) == 3 and _table_element(ck, prog, f, o, tabs):
                    continue
                bad.append(o)
            elif o in ("self", "self.SeqObj"):
                bad.append(o)
            elif o.startswith("param:"):
                continue
            else:
                bad.append(o)
        ck.ob("ALIAS", f.mod.relpath + ":" + f.qual, not bad, expected="result shares no mutable storage with the object or the module",
              found=sorted(bad), slot="returns", where=f.loc())
    # the stored immutables really are immutable-valued: constructor assigns str.upper(), len(), number, None
    f = prog.fn(SEQ, "Sequence.__init__")
    kinds = {}
    for n in ast.walk(f.node):
        if isinstance(n, ast.Assign) and is_self_attr(n.targets[0]):
            kinds.setdefault(n.targets[0].attr, []).append(unparse(n.value))
    def strish(v):
        return v.endswith(".upper()") or v.endswith(".lower()") or v.startswith(("str(", "self.validateSequence(", "''.join(", '"".join(')) or v == "seq"
    ok = all(strish(v) for v in kinds.get("seq", ["?"])) and all(v.startswith("len(") for v in kinds.get("len", ["?"])) \
        and kinds.get("seqDeltaMax") == ["None"]
    if not ok:
        # cannot tell the types any more: undecided, never a verdict (the rule above relies on seq/len/seqDeltaMax being immutable values)
        raise Undecided("constructor assigns seq/len/seqDeltaMax in a form whose type lcsa does not recognise: %s" % {k: kinds.get(k) for k in ("seq", "len", "seqDeltaMax")})
    ck.ob("ALIAS", SEQ_PATH + ":Sequence.__init__", ok, expected="seq is a str, len an int (len()), seqDeltaMax starts as None",
          found={k: kinds.get(k) for k in ("seq", "len", "seqDeltaMax")}, slot="immutable-valued-fields", where=f.loc())


# ----------------------------------------------------------------------------------------- MDEF
def _mutable_default(node):
    if isinstance(node, (ast.List, ast.Dict, ast.Set)):
        return True
    if isinstance(node, ast.Call) and getattr(node.func, "id", None) in ("list", "dict", "set"):
        return True
    return False


def _mdef(ck, prog, E, api):
    n_funcs = 0
    mutated = []
    for f in prog.all_funcs():
        d = f.defaults()
        md = [p for p, v in d.items() if _mutable_default(v)]
        if not md:
            continue
        n_funcs += 1
        s = E.sum[f.key]
        for p in md:
            if p in s.param_muts:
                mutated.append((f, p, s.param_muts[p]))
    ck.count("functions with a mutable default", n_funcs)
    ck.floor("functions with a mutable default", n_funcs, 30)
    accepted = {(SEQ + ":Sequence.linearCompositions", "grps"), (SP + ":SequenceParameters.get_linear_sequence_composition", "grps")}
    api_keys = {f.key for f in api}
    reach = _reachable(E, api_keys)
    for f, p, sites in mutated:
        key = (f.key, p)
        construct = f.mod.relpath + ":" + f.qual
        if key in accepted:
            continue
        ck.ob("MDEF", construct, f.key not in reach, expected="a mutated shared default is not reachable from a read-only query",
              found={"param": p, "mutated_at": sites[:3], "reachable_from_get": f.key in reach}, slot="default:" + p, where=f.loc())
    # the one accepted fill: premises re-derived
    f = prog.fn(SEQ, "Sequence.linearCompositions")
    construct = SEQ_PATH + ":Sequence.linearCompositions"
    s = E.sum[f.key]
    sites = s.param_muts.get("grps", [])
    if not sites:
        # nothing left to justify: the shared default is no longer filled in place
        ck.ob("MDEF-idempotent-fill", construct, True, expected="the shared default of `grps` is never mutated", found="not mutated", slot="premise-i", where=f.loc())
        return
    guard = None
    for st in f.body():
        if isinstance(st, ast.If) and unparse(st.test).replace(" ", "") in ("len(grps)>0", "len(grps)!=0", "grps"):
            guard, empty_arm, full_arm = st, st.orelse, st.body
        elif isinstance(st, ast.If) and unparse(st.test).replace(" ", "") in ("len(grps)==0", "len(grps)<1", "notgrps", "grps==[]", "notlen(grps)"):
            guard, empty_arm, full_arm = st, st.body, st.orelse            # the same test written the other way round: the fill is the `if` arm
    ok_i = ok_ii = False
    lits = []
    ck.shape(guard is not None, "linearCompositions: emptiness test of the groups parameter", f.loc())
    if guard is not None:
        else_calls = [n for b in empty_arm for n in ast.walk(b) if isinstance(n, ast.Call) and isinstance(n.func, ast.Attribute)
                      and n.func.attr in ("append", "extend", "insert") and unparse(n.func.value) == "grps"]
        all_muts = [n for n in ast.walk(f.node) if isinstance(n, ast.Call) and isinstance(n.func, ast.Attribute)
                    and n.func.attr in ("append", "extend", "insert", "pop", "remove", "clear", "sort") and unparse(n.func.value) == "grps"]
        ok_i = len(else_calls) == len(all_muts) and bool(else_calls)
        # premise (ii) needs the appended values as literals; a fill written as a loop over a constant is not decided here
        lits = [tab.literal(f.mod, c.args[0]) for c in else_calls]          # raises Undecided when not literal
        aas = set(tab.global_literal(prog, tab.AA, "TWENTY_AAs"))
        ok_ii = all(isinstance(g, list) and g and all(isinstance(x, str) and x in aas and x.isupper() for x in g) for g in lits)
    ck.ob("MDEF-idempotent-fill", construct, ok_i, expected="every mutation of the default is dominated by the emptiness test of that parameter",
          found={"guard": unparse(guard.test) if guard is not None else None, "sites": len(sites)}, slot="premise-i", where=f.loc())
    ck.ob("MDEF-idempotent-fill", construct, ok_ii, expected="only literal groups of upper-case amino-acid letters are appended (one fixed post-state)",
          found=lits, slot="premise-ii", where=f.loc())
    # premise iii: on the non-empty branch the name is rebound to __parse_group images, groups are used only via `in`
    ok_iii = False
    if guard is not None:
        rebinds = [n for b in full_arm for n in ast.walk(b) if isinstance(n, ast.Assign) and unparse(n.targets[0]) == "grps"]
        parses = [n for b in full_arm for n in ast.walk(b) if isinstance(n, ast.Call) and getattr(n.func, "attr", "") == "__parse_group"]
        ok_iii = bool(rebinds) and bool(parses)
    ck.ob("MDEF-idempotent-fill", construct, ok_iii, expected="non-empty branch rebinds the name to validated copies (a second call computes what the first did)",
          found=ok_iii, slot="premise-iii", where=f.loc())
    g = prog.fn(SP, "SequenceParameters.get_linear_sequence_composition")
    sg = E.sum[g.key]
    only_fwd = all(w.startswith("localcider/sequenceParameters.py") for w in sg.param_muts.get("grps", []))
    ck.ob("MDEF-idempotent-fill", g.mod.relpath + ":" + g.qual, only_fwd and len(sg.param_muts.get("grps", [])) <= 1,
          expected="the API default is only forwarded to linearCompositions", found=sg.param_muts.get("grps"), slot="api-forward", where=g.loc())
    # premise iv: the filled default is one object shared by every later default call; the wrapper must only hand it on.  Anything else it does
    # with it (validating, measuring, iterating) behaves differently once the backend has filled it
    fwd = [n for n in ast.walk(g.node) if isinstance(n, ast.Call) and prog.resolve_call(g, n) is not None and prog.resolve_call(g, n).key == f.key]
    arg_ids = {id(a) for c in fwd for a in list(c.args) + [k.value for k in c.keywords]}
    others = [n for n in ast.walk(g.node) if isinstance(n, ast.Name) and n.id == "grps" and isinstance(n.ctx, ast.Load) and id(n) not in arg_ids]
    ck.shape(bool(fwd), "get_linear_sequence_composition forwards to linearCompositions", g.loc())
    ck.ob("MDEF-idempotent-fill", g.mod.relpath + ":" + g.qual, not others, expected="the shared default is only handed on to linearCompositions, never inspected in the wrapper",
          found=[g.loc(n) for n in others][:3] or "only forwarded", slot="premise-iv", where=g.loc(),
          note="after the first default call the shared list holds the seven standard groups: a wrapper that looks at it answers differently from then on")
    # Sequence.__init__'s own chargePattern=[] default is stored, never mutated (see EFF-who-may-write no-inplace)


def _global_is_read(prog, k, reach_keys):
    """is the module-level object read (other than as the target of the very mutation) in a function of reach_keys?"""
    rel, name = k
    for g in prog.all_funcs():
        if g.key not in reach_keys:
            continue
        writes = set()
        for n in ast.walk(g.node):
            if isinstance(n, ast.AugAssign):
                writes |= {id(x) for x in ast.walk(n.target)}
            elif isinstance(n, (ast.Assign, ast.Delete)):
                for t in (n.targets):
                    if isinstance(t, ast.Subscript):
                        writes |= {id(x) for x in ast.walk(t.value)}
            elif isinstance(n, ast.Call) and isinstance(n.func, ast.Attribute) and n.func.attr in ("append", "extend", "add", "update", "clear", "insert", "pop", "remove", "setdefault", "sort"):
                writes |= {id(x) for x in ast.walk(n.func.value)}
        for n in ast.walk(g.node):
            if isinstance(n, ast.Name) and n.id == name and isinstance(n.ctx, ast.Load) and id(n) not in writes:
                gl = prog.resolve_global(g.mod, n)
                if gl and gl[0].rel == rel:
                    return True
            if isinstance(n, ast.Attribute) and n.attr == name and isinstance(n.ctx, ast.Load) and id(n) not in writes:
                gl = prog.resolve_global(g.mod, n)
                if gl and gl[0].rel == rel and gl[1] == name:
                    return True
    return False


def _reachable(E, roots):
    seen, todo = set(roots), list(roots)
    while todo:
        k = todo.pop()
        for callee, _, _, _ in E.sum[k].calls:
            if callee.key not in seen and callee.key in E.sum:
                seen.add(callee.key)
                todo.append(callee.key)
    return seen


# ----------------------------------------------------------------------------------------- positive control
CONTROL = '''
class Sequence:
    def __init__(self, seq):
        self.seq = seq
        self.cache = []
    def get_bad(self):
        self.cache.append(1)
        self.seq = self.seq[::-1]
        return self.cache
'''


def _positive_control(ck):
    """zero-expected rules carry an embedded positive example that must match on every run"""
    import os
    import tempfile
    import shutil
    from lcsa.model import Program
    d = tempfile.mkdtemp(prefix="lcsa_ctl_")
    try:
        os.makedirs(os.path.join(d, "localcider"))
        with open(os.path.join(d, "localcider", "ctl.py"), "w") as fh:
            fh.write(CONTROL)
        p = Program(d)
        E = Effects(p)
        s = E.of("ctl.py", "Sequence.get_bad")
        alive = "seq" in s.self_writes and "cache" in s.self_writes and "self.cache" in s.returns
    finally:
        shutil.rmtree(d, ignore_errors=True)
    if not alive:
        raise Undecided("effect matcher failed its embedded positive example")
    ck.count("positive controls matched")


def run_thorough(ck, prog):
    from props import thorough
    ck.attempt(thorough.whole_package_effects, ck, prog)
