"""C12 - reduced alphabets implement the documented residue partitions.

Decides everything in the statement: for each of the 12 sizes the residue -> representative map (240 cells) equals
the documented groups, the number of groups is the size, each representative is a member of its group, the alphabet
list is exactly the set of representatives, exactly one output letter per input letter on every path (=> same length,
reduce(a+b) = reduce(a)+reduce(b)), map o map = map; every other integer size is rejected; a user alphabet is
validated for all 20 keys (present, value an amino acid) before it is applied letter by letter."""
import ast
import json
import os

from lcsa.alg import Rat
from lcsa.model import Undecided, unparse
from lcsa.sym import Evaluator, ObjV, SeqV, StrMapV, LETTERS
from lcsa import bind
from props.common import SEQ, SP

CX = "backend/sequenceComplexity.py"
CX_PATH = "localcider/backend/sequenceComplexity.py"
SIZES = [2, 3, 4, 5, 6, 8, 10, 11, 12, 15, 18, 20]
HERE = os.path.dirname(os.path.dirname(os.path.abspath(__file__)))


def reduction(prog, size=None, user=None):
    """-> ('ok', letter->letter table, alphabet list) | ('raise', exception name)"""
    f = prog.fn(CX, "SequenceComplexity.reduce_alphabet")
    ev = Evaluator(prog)
    args = {"sequence": SeqV("seq")}
    if size is not None:
        args["alphabetSize"] = size if isinstance(size, str) else Rat.const(size)
    if user is not None:
        args["userAlphabet"] = user
    paths = ev.run_function(f, args, ObjV("SequenceComplexity"))
    paths = [p for p in paths if not (p.kind == "raise" and any(c[0] == "opaque" for c in p.conds if not isinstance(c, bool)))]
    if len(paths) != 1:
        raise Undecided("reduce_alphabet(size=%s) does not reduce to one path (%d)" % (size, len(paths)), f.loc())
    p = paths[0]
    if p.kind == "raise":
        return ("raise", p.value)
    v = p.value
    if not (isinstance(v, tuple) and len(v) == 2 and isinstance(v[0], StrMapV)):
        raise Undecided("reduce_alphabet result shape: %r" % (v,), f.loc())
    alpha = v[1]
    if isinstance(alpha, (StrMapV, SeqV)):
        # the alphabet was accumulated inside the loop over the sequence: it depends on which residues occur
        return ("ok", v[0].table, None)
    if not isinstance(alpha, (list, tuple)) and not hasattr(alpha, "items"):
        raise Undecided("alphabet is not a list", f.loc())
    alpha = list(alpha.items) if hasattr(alpha, "items") and not isinstance(alpha, dict) else list(alpha)
    return ("ok", v[0].table, alpha)


def run(ck, prog):
    from props.common import check_memos
    ck.attempt(check_memos, ck, prog)
    ck.level = "proof"
    ck.extra["exhaustive"] = True
    ck.explanation = (
        "reduce_alphabet is evaluated by a finite case split: for each integer size in -2..30 the size cascade is "
        "decided on constants, and the per-letter loop body is folded for each of the 20 letters (membership tests "
        "against literal tuples, including the `x in ('H')` substring idiom). The resulting 12 x 20 map, group counts, "
        "representatives, alphabet lists, the one-append-per-letter fact and idempotence are compared with "
        "spec/alphabets.json. The user-alphabet branch is decided for every (key, value-class) pair of the validation loop.")
    with open(os.path.join(HERE, "spec", "alphabets.json")) as fh:
        spec = json.load(fh)
    f = prog.fn(CX, "SequenceComplexity.reduce_alphabet")
    construct = CX_PATH + ":SequenceComplexity.reduce_alphabet"
    cells = 0
    for size in range(-2, 31):
        res = reduction(prog, size=size)
        if size not in SIZES:
            ck.ob("DT-size", construct, res[0] == "raise", expected="size %d rejected" % size, found=res[0],
                  slot="size=%d" % size, where=f.loc())
            continue
        if res[0] != "ok":
            ck.ob("DT-size", construct, False, expected="size %d accepted" % size, found=res, slot="size=%d" % size, where=f.loc())
            continue
        _, table, alpha = res
        groups = spec[str(size)]
        want = {}
        for g in groups:
            for c in g:
                want[c] = g[0]
        for L in LETTERS:
            ck.ob("PART-map", construct, table.get(L) == want[L], expected=want[L], found=table.get(L),
                  slot="size=%d:%s" % (size, L), where=f.loc(),
                  note="residue must map to the representative of its documented group %s" % [g for g in groups if L in g])
            cells += 1
        reps = set(table.values())
        ck.ob("PART-groups", construct, len(reps) == size, expected=size, found=len(reps), slot="size=%d:group-count" % size, where=f.loc())
        ck.ob("PART-groups", construct, all(table.get(r) == r for r in reps), expected="every representative is in its own group",
              found=sorted(r for r in reps if table.get(r) != r), slot="size=%d:representative-member" % size, where=f.loc())
        ck.ob("PART-groups", construct, all(table.get(table[L]) == table[L] for L in table), expected="map o map = map",
              found="idempotent" if all(table.get(table[L]) == table[L] for L in table) else "not idempotent",
              slot="size=%d:idempotent" % size, where=f.loc())
        ck.ob("TAB-alphabet", construct, alpha is not None and sorted(alpha) == sorted(reps) and len(alpha) == len(set(alpha)),
              expected=sorted(reps), found=sorted(map(str, alpha)) if alpha is not None else "depends on the sequence", slot="size=%d:alphabet" % size, where=f.loc(),
              note="the returned alphabet lists exactly the representatives")
    ck.count("(size, residue) cells", cells)
    ck.floor("(size, residue) cells", cells, 240)
    ck.attempt(_string_sizes, ck, prog, f, construct)
    ck.sample({"size": 6, "map": reduction(prog, size=6)[1]})
    ck.attempt(_size_guard, ck, prog, f, construct)
    ck.attempt(_user, ck, prog, f, construct)
    bind.check_wrapper(ck, prog, "BIND-api", SP, "SequenceParameters.get_reduced_alphabet_sequence",
                       SEQ + ":Sequence.get_reducedAlphabetSequence")
    g = prog.fn(SEQ, "Sequence.get_reducedAlphabetSequence")
    bind.check_wrapper(ck, prog, "BIND-api", SEQ, "Sequence.get_reducedAlphabetSequence", CX + ":SequenceComplexity.reduce_alphabet",
                       argmap={"alphabetSize": "alphabetSize", "userAlphabet": "userAlphabet"})
    for r in bind.returns_of(g):
        if isinstance(r.value, ast.Call):
            _, b = bind.bind(prog, g, r.value)
            a = b.get("sequence") if b else None
            ck.shape(a is not None, "get_reducedAlphabetSequence: sequence argument bound", g.loc(r))
            ck.ob("BIND-api", g.mod.relpath + ":" + g.qual, unparse(a) == "self.seq", expected="sequence = self.seq", found=unparse(a), slot="sequence", where=g.loc(r))


def _string_sizes(ck, prog, f, construct):
    """a size given as a string that converts to an integer ('5') is a documented way of asking for that alphabet: sequence map and alphabet
    list must be those of the integer"""
    n = 0
    for size in SIZES:
        ri = reduction(prog, size=size)
        rs = reduction(prog, size=str(size))
        same = ri[0] == rs[0] == "ok" and ri[1] == rs[1] and (ri[2] is not None and rs[2] is not None and list(map(str, ri[2])) == list(map(str, rs[2])))
        ck.ob("DT-size", construct, same, expected="size '%d' (a string) gives the reduction and the alphabet of size %d" % (size, size),
              found={"map_equal": ri[0] == rs[0] == "ok" and ri[1] == rs[1], "alphabet_for_string": None if rs[0] != "ok" or rs[2] is None else sorted(map(str, rs[2])),
                     "alphabet_for_integer": None if ri[0] != "ok" or ri[2] is None else sorted(map(str, ri[2]))}, slot="size='%d'" % size, where=f.loc(),
              note="the size is converted with int() before anything is looked up")
        n += 1
    ck.count("string sizes compared", n)


def _size_guard(ck, prog, f, construct):
    """for all integers (not only -2..30): a `raise` guarded by `alphabetSize not in <literal list>` precedes the cascade"""
    guard = None
    for s in f.body():
        if isinstance(s, ast.If) and isinstance(s.test, ast.Compare) and isinstance(s.test.ops[0], ast.NotIn) \
                and unparse(s.test.left) == "alphabetSize" and any(isinstance(x, ast.Raise) for x in s.body):
            cmp0 = s.test.comparators[0]
            try:
                lst = ast.literal_eval(cmp0)
            except Exception:
                lst = None
                # a named table: the keys (members) of the module-level constant it folds to
                g = prog.resolve_global(f.mod, cmp0) if isinstance(cmp0, (ast.Name, ast.Attribute)) else None
                if g and g[1] in g[0].globals:
                    from lcsa import tab
                    try:
                        v = tab.global_literal(prog, g[0].rel, g[1])
                        lst = [int(k) for k in (v.keys() if isinstance(v, dict) else v)]
                    except (Undecided, TypeError, ValueError):
                        lst = None
            guard = (s, lst)
            break
    # (sizes -2..30 are decided one by one above; this rule extends the rejection to every other integer when the guard is visible)
    ck.shape(guard is not None and guard[1] is not None, "reduce_alphabet: sizes rejected by `if alphabetSize not in <list or table that folds>: raise`", f.loc())
    ok = sorted(guard[1]) == SIZES
    ck.ob("DT-size", construct, ok, expected="raise unless size in %s" % SIZES, found=guard[1] if guard else None,
          slot="size-guard", where=f.loc(guard[0]) if guard else f.loc())


def _user(ck, prog, f, construct):
    ident = {L: L for L in LETTERS}
    three = {L: ("A" if L in "AGSTP" else ("K" if L in "KRH" else "L")) for L in LETTERS}
    n = 0
    for name, user in (("identity", ident), ("three-groups", three)):
        res = reduction(prog, user=dict(user))
        ok = res[0] == "ok" and res[1] == user
        ck.ob("PART-user", construct, ok, expected="applied letter by letter", found=res[1] if res[0] == "ok" else res,
              slot="user:%s:map" % name, where=f.loc())
        if res[0] == "ok":
            ck.ob("PART-user", construct, res[2] is not None and sorted(res[2]) == sorted(set(user.values())) and len(res[2]) == len(set(res[2])),
                  expected=sorted(set(user.values())), found=sorted(res[2]) if res[2] is not None else "built from the residues that occur in the sequence",
                  slot="user:%s:alphabet" % name, where=f.loc(),
                  note="the alphabet (and with it the entropy base of the WF complexity) must not depend on the sequence")
        n += 1
    from lcsa import tab
    order = list(tab.global_literal(prog, tab.AA, "TWENTY_AAs"))
    ck.shape(sorted(order) == sorted(LETTERS), "data.aminoacids.TWENTY_AAs lists the twenty letters")
    for L in LETTERS:
        d = dict(three)
        del d[L]
        res = reduction(prog, user=d)
        ck.ob("DT-user-validate", construct, res[0] == "raise", expected="missing key %s rejected" % L, found=res[0],
              slot="user:missing:%s" % L, where=f.loc())
        # strings that a containment test on a joined string of the residues (rather than on the list) would let through: the empty string,
        # a run of neighbours in the library's own residue order, the whole run
        k = order.index(L)
        runs = [("", "empty string"), (order[k] + order[(k + 1) % 20], "two neighbouring letters"), ("".join(order), "all twenty letters"),
                ("".join(sorted(order))[:3], "first three letters alphabetically")]
        for bad, why in [("X", "non-amino-acid"), (three[L].lower(), "lower-case"), ("AL", "two letters")] + runs:
            d = dict(three)
            d[L] = bad
            res = reduction(prog, user=d)
            ck.ob("DT-user-validate", construct, res[0] == "raise", expected="%s value for %s rejected" % (why, L),
                  found=res[0], slot="user:%s:%s" % (why, L), where=f.loc())
        n += 8
    ck.count("user-alphabet cases", n)
    # a non-dict user alphabet is rejected
    res = reduction(prog, user=["A", "B"])
    ck.ob("DT-user-validate", construct, res[0] == "raise", expected="non-dict rejected", found=res[0], slot="user:non-dict",
          where=f.loc())


def run_thorough(ck, prog):
    from props import thorough
    ck.attempt(thorough.doc_alphabets, ck, prog)
