"""Reference definitions of localCIDER's sequence parameters, written from the property statements
(C01-C11), the library's documentation (webpage.MD) and the published scales.

THIS FILE IS NEVER IMPORTED OR EXECUTED.  It is parsed with `ast` and mapped by lcsa.sym to the same
normal forms as the repository's code; the checks compare normal forms, not text.  It is written in the
small Python subset the normaliser understands (self.seq, self.len, self.chargePattern, literal tables).
"""
import numpy as np

# ---- published per-residue scales (one-letter keys) -------------------------------------------------
# Kyte & Doolittle 1982
KD = {'I': 4.5, 'V': 4.2, 'L': 3.8, 'F': 2.8, 'C': 2.5, 'M': 1.9, 'A': 1.8, 'G': -0.4, 'T': -0.7, 'S': -0.8,
      'W': -0.9, 'Y': -1.3, 'P': -1.6, 'H': -3.2, 'E': -3.5, 'Q': -3.5, 'D': -3.5, 'N': -3.5, 'K': -3.9, 'R': -4.5}
# Wimley & White 1996 interfacial scale, sign flipped (positive = hydrophobic) as the library documents it
WW = {'I': 0.31, 'V': -0.07, 'L': 0.56, 'F': 1.13, 'C': 0.24, 'M': 0.23, 'A': -0.17, 'G': -0.01, 'T': -0.14,
      'S': -0.13, 'W': 1.85, 'Y': 0.94, 'P': -0.45, 'H': -0.96, 'E': -2.02, 'Q': -0.58, 'D': -1.23, 'N': -0.42,
      'K': -0.99, 'R': -0.81}
# PPII propensities: Elam et al. 2013 (hilser), Rucker et al. 2003 (creamer), Shi et al. 2005 (kallenbach)
PPII_HILSER = {'I': 0.39, 'V': 0.39, 'L': 0.24, 'F': 0.17, 'C': 0.25, 'M': 0.36, 'A': 0.37, 'G': 0.13, 'T': 0.32,
               'S': 0.24, 'W': 0.25, 'Y': 0.25, 'P': 1.00, 'H': 0.20, 'E': 0.42, 'Q': 0.53, 'D': 0.30, 'N': 0.27,
               'K': 0.56, 'R': 0.38}
PPII_CREAMER = {'I': 0.50, 'V': 0.49, 'L': 0.58, 'F': 0.58, 'C': 0.55, 'M': 0.55, 'A': 0.61, 'G': 0.58, 'T': 0.53,
                'S': 0.58, 'W': 0.58, 'Y': 0.58, 'P': 0.67, 'H': 0.55, 'E': 0.61, 'Q': 0.66, 'D': 0.63, 'N': 0.55,
                'K': 0.59, 'R': 0.61}
PPII_KALLENBACH = {'I': 0.519, 'V': 0.743, 'L': 0.574, 'F': 0.639, 'C': 0.557, 'M': 0.498, 'A': 0.818, 'G': 0.5,
                   'T': 0.553, 'S': 0.774, 'W': 0.764, 'Y': 0.63, 'P': 1.0, 'H': 0.428, 'E': 0.684, 'Q': 0.654,
                   'D': 0.552, 'N': 0.667, 'K': 0.581, 'R': 0.638}
# average masses of the free amino acids, Da
MW = {'I': 131.2, 'V': 117.1, 'L': 131.2, 'F': 165.2, 'C': 121.2, 'M': 149.2, 'A': 89.1, 'G': 75.1, 'T': 119.1,
      'S': 105.1, 'W': 204.2, 'Y': 181.2, 'P': 115.1, 'H': 155.2, 'E': 147.1, 'Q': 146.2, 'D': 133.1, 'N': 132.1,
      'K': 146.2, 'R': 174.2}
# EMBOSS pKa values as documented in webpage.MD
PKA = {'C': 8.5, 'Y': 10.1, 'H': 6.5, 'E': 4.1, 'D': 3.9, 'K': 10.0, 'R': 12.5}

POSITIVE = ('K', 'R')
NEGATIVE = ('D', 'E')
EXPANDING = ('D', 'E', 'K', 'R', 'P')
DISORDER_PROMOTING = ('T', 'A', 'G', 'R', 'D', 'H', 'Q', 'K', 'S', 'E', 'P')
TITRATABLE_POS = ('K', 'R', 'H')
TITRATABLE_NEG = ('D', 'E', 'C', 'Y')


class Sequence:

    # ---- C04: composition parameters = (sum over residues of the published per-residue value) / N
    def countPos(self):
        t = 0
        for r in self.seq:
            if r in POSITIVE:
                t += 1
        return t

    def countNeg(self):
        t = 0
        for r in self.seq:
            if r in NEGATIVE:
                t += 1
        return t

    def countNeut(self):
        t = 0
        for r in self.seq:
            if r not in POSITIVE and r not in NEGATIVE:
                t += 1
        return t

    def Fplus(self):
        return self.countPos() / self.len

    def Fminus(self):
        return self.countNeg() / self.len

    def FCR(self):
        return self.Fplus() + self.Fminus()

    def NCPR(self):
        return self.Fplus() - self.Fminus()

    def mean_net_charge(self):
        return abs(self.NCPR())

    def FER(self):
        t = 0
        for r in self.seq:
            if r in EXPANDING:
                t += 1
        return t / self.len

    def fraction_disorder_promoting(self):
        t = 0
        for r in self.seq:
            if r in DISORDER_PROMOTING:
                t += 1
        return t / self.len

    def amino_acid_fraction(self):
        out = {'A': 0, 'C': 0, 'D': 0, 'E': 0, 'F': 0, 'G': 0, 'H': 0, 'I': 0, 'K': 0, 'L': 0,
               'M': 0, 'N': 0, 'P': 0, 'Q': 0, 'R': 0, 'S': 0, 'T': 0, 'V': 0, 'W': 0, 'Y': 0}
        for r in self.seq:
            out[r] += 1 / self.len
        return out

    def meanHydropathy(self):
        t = 0
        for r in self.seq:
            t += KD[r] + 4.5
        return t / self.len

    def uverskyHydropathy(self):
        t = 0
        for r in self.seq:
            t += (KD[r] + 4.5) / 9.0
        return t / self.len

    def meanWWHydropathy(self):
        t = 0
        for r in self.seq:
            t += WW[r]
        return t / self.len

    def FPPII_hilser(self):
        t = 0
        for r in self.seq:
            t += PPII_HILSER[r]
        return t / self.len

    def FPPII_creamer(self):
        t = 0
        for r in self.seq:
            t += PPII_CREAMER[r]
        return t / self.len

    def FPPII_kallenbach(self):
        t = 0
        for r in self.seq:
            t += PPII_KALLENBACH[r]
        return t / self.len

    def molecular_weight(self):
        t = 0
        for r in self.seq:
            t += MW[r]
        return t - 18 * (self.len - 1)

    # ---- C02: delta = mean over blob sizes 5, 6 of the mean squared deviation of blob sigma from sigma
    def sigma(self):
        p = len(np.where(self.chargePattern > 0)[0])
        n = len(np.where(self.chargePattern < 0)[0])
        if p + n == 0:
            return 0
        else:
            return ((p - n) / self.len) ** 2 / ((p + n) / self.len)

    def deltaForm(self, w):
        s = self.sigma()
        nblobs = self.len - w + 1
        total = 0
        for i in range(0, nblobs):
            blob = self.chargePattern[i:i + w]
            p = len(np.where(blob > 0)[0])
            n = len(np.where(blob < 0)[0])
            if p + n == 0:
                bs = 0
            else:
                bs = ((p - n) / w) ** 2 / ((p + n) / w)
            total += (s - bs) ** 2 / nblobs
        return total

    def delta(self):
        return (self.deltaForm(5) + self.deltaForm(6)) / 2

    # ---- C10: statistic of the w-residue window starting at array index i
    def win_NCPR(self, w, i):
        blob = self.chargePattern[i:i + w]
        p = len(np.where(blob > 0)[0])
        n = len(np.where(blob < 0)[0])
        return (p - n) / w

    def win_FCR(self, w, i):
        blob = self.chargePattern[i:i + w]
        p = len(np.where(blob > 0)[0])
        n = len(np.where(blob < 0)[0])
        return (p + n) / w

    def win_sigma(self, w, i):
        blob = self.chargePattern[i:i + w]
        p = len(np.where(blob > 0)[0])
        n = len(np.where(blob < 0)[0])
        if p + n == 0:
            return 0
        return ((p - n) / w) ** 2 / ((p + n) / w)

    def win_hydropathy(self, w, i):
        chain = [(KD[r] + 4.5) / 9.0 for r in self.seq]
        return sum(chain[i:i + w]) / w

    def win_density(self, w, i, targets):
        chain = [(1 if r in targets else 0) for r in self.seq]
        return sum(chain[i:i + w]) / w

    # ---- C11: Wootton-Federhen complexity of one window = Shannon entropy of its composition, base |alphabet|
    def win_entropy(self, reduced, alphabet, w, step):
        window = reduced[step:step + w]
        h = 0
        for x in alphabet:
            p = window.count(x) / w
            if p > 0:
                h = h - p * np.log(p, len(alphabet))
        return h

    # ---- C07: Sawle-Ghosh sequence charge decoration, residues numbered 1..N
    def sequence_charge_decoration(self):
        total = 0
        for m in range(2, self.len + 1):
            for n in range(1, m):
                total += self.chargePattern[m - 1] * self.chargePattern[n - 1] * (m - n) ** 0.5
        return total / self.len

    # ---- C01 (delta-max itself is C03's; here it is an opaque non-negative quantity)
    def deltaMax(self):
        return self.dmax

    def kappa(self):
        if self.deltaMax() == 0:
            return -1
        k = self.delta() / self.deltaMax()
        if k > 1.0 and k < 1.1:
            return 1.0
        return k

    # ---- C08: fp, fn are the fractions of positive / negative residues
    def phasePlotRegion(self):
        fp = len(np.where(self.chargePattern > 0)[0]) / self.len
        fn = len(np.where(self.chargePattern < 0)[0]) / self.len
        if fp + fn < 0.25:
            return 1
        if fp + fn <= 0.35:
            return 2
        if abs(fp - fn) < 0.35:
            return 3
        if fp > fn:
            return 5
        if fn > fp:
            return 4
        return 'tie'

    # ---- C09: Henderson-Hasselbalch
    def charge_net(self, pH):
        t = 0
        for r in self.seq:
            if r in TITRATABLE_POS:
                t += 1 / (1 + 10 ** (pH - PKA[r]))
            if r in TITRATABLE_NEG:
                t += -1 / (1 + 10 ** (PKA[r] - pH))
        return t

    def charge_total(self, pH):
        t = 0
        for r in self.seq:
            if r in TITRATABLE_POS:
                t += 1 / (1 + 10 ** (pH - PKA[r]))
            if r in TITRATABLE_NEG:
                t += 1 / (1 + 10 ** (PKA[r] - pH))
        return t

    def charge_normalized(self, pH):
        t = 0
        k = 0
        for r in self.seq:
            if r in TITRATABLE_POS:
                t += 1 / (1 + 10 ** (pH - PKA[r]))
                k += 1
            if r in TITRATABLE_NEG:
                t += -1 / (1 + 10 ** (PKA[r] - pH))
                k += 1
        if k == 0:
            return 0
        return t / k

    def NCPR_pH(self, pH):
        return self.charge_net(pH) / self.len

    def FCR_pH(self, pH):
        return self.charge_total(pH) / self.len

    def FER_pH(self, pH):
        return (self.charge_total(pH) + self.seq.count('P')) / self.len

    def mean_net_charge_pH(self, pH):
        return abs(self.NCPR_pH(pH))
