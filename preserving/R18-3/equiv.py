"""
Differential check for R3 (swapRandChargeRes / full_shuffle: one module-level
random.Random re-seeded at the start of every call instead of a fresh generator
per call; swapRandChargeRes if/elif chains replaced by an indexable tuple of
index sets).

Run once with cwd=/tmp/seed/R18 (changed) and once with cwd=/repo (unchanged);
the printed output (including the final digest) must be identical.
"""
import os
import sys
sys.path.insert(0, os.getcwd())

import contextlib
import hashlib
import io
import random
import time

import numpy as np

import localcider.backend.sequence as S
from localcider.backend.sequence import Sequence
from localcider.sequenceParameters import SequenceParameters
from localcider.sequencePermutants import SequencePermutants

assert os.path.abspath(S.__file__).startswith(os.path.abspath(os.getcwd())), S.__file__

# status messages are hushed by default: switch them on so that the
# 'swap will not change kappa' message is part of the compared output
import localcider.backend.backendtools as BT
BT.HUSH_STATUS = False
BT.HUSH_ALL = False

# --- make the time-seeded moves deterministic ------------------------------
_NOW = [0.0]
time.time = lambda: _NOW[0]

LINES = []


def emit(*parts):
    LINES.append(repr(parts))


def describe(obj):
    if isinstance(obj, SequenceParameters):
        return ("SequenceParameters", describe(obj.SeqObj))
    if isinstance(obj, Sequence):
        cpat = obj.chargePattern
        return ("Sequence", obj.seq, obj.len, type(cpat).__name__,
                str(getattr(cpat, "dtype", None)), [float(x) for x in cpat],
                repr(obj.dmax), obj.seqDeltaMax, list(obj.phosphosites))
    return (type(obj).__name__, repr(obj))


def run(fn, parent=None):
    buf = io.StringIO()
    try:
        with contextlib.redirect_stdout(buf):
            res = fn()
        out = ("ok", describe(res), res is parent)
    except Exception as e:  # noqa
        out = ("exc", type(e).__name__, str(e))
    return out, buf.getvalue()


SEQS = [
    "",                                   # chargePattern stays a list
    "A", "K", "E", "KE", "KA", "EA", "KEA",
    "AAAAAAAA", "KKKKKKKK", "EEEEEEEE",
    "KKKKEEEE", "KKKKAAAA", "EEEEAAAA",
    "MKKEEDDRRKKSSTTEEDDKKRRAAGG",
    "GSGSGSKGSGSGSEGSGSGSKGSGSGSE",
    "ACDEFGHIKLMNPQRSTVWY",
    "mkkeeddrrkksstteeddkkrraagg",
    "++--00+-0",
    "KEKEKEKEKEKEKEKEKEKEGGGGGGGGGGGGGGGGGGGG",
]


def frozen_sets(seq):
    n = len(seq)
    pos = {i for i, c in enumerate(seq.upper()) if c in "KR+"}
    neg = {i for i, c in enumerate(seq.upper()) if c in "DE-"}
    neut = set(range(n)) - pos - neg
    out = [set(), frozenset(), pos, neg, neut, pos | neg, pos | neut, neg | neut,
           set(range(n)), {0}, {n - 1}, {-1, n, n + 5, 10 ** 6},
           set(range(0, n, 2)), {np.int64(i) for i in range(0, n, 3)},
           {float(i) for i in range(1, n, 2)}, {"x", None, (1, 2)}]
    return out


SEEDS = [0.0, 1.0, 2.5, 1234.5678, 1.7e9, 1700000000.123456, -3.0, 42.0, 43.0, 44.0, 45.0, 46.0]

# --- swapRandChargeRes -----------------------------------------------------
for seq in SEQS:
    so = Sequence(seq)
    before = describe(so)
    for fz in frozen_sets(seq):
        for seed in SEEDS:
            _NOW[0] = seed
            emit("swap", seq, sorted(map(repr, fz)), seed,
                 run(lambda: so.swapRandChargeRes(fz), so))
    _NOW[0] = 9.0
    emit("swap-default", seq, run(so.swapRandChargeRes, so))
    # frozen that is not a set -> TypeError from the set difference
    for bad in ([], [0, 1], (0,), None, "ab", 3):
        emit("swap-badfrozen", seq, repr(bad), run(lambda: so.swapRandChargeRes(bad), so))
    assert describe(so) == before, "parent object was modified"

# --- full_shuffle / get_shuffled_sequence / get_permutant -------------------
for seq in SEQS:
    so = Sequence(seq, dmax=0.25) if seq else Sequence(seq)
    before = describe(so)
    n = len(seq)
    fzs = [set(), [], (), frozenset(), {0}, [0], {n - 1}, set(range(n)), list(range(n)),
           set(range(0, n, 2)), list(range(1, n, 2)), tuple(range(0, n, 3)),
           {-1, n, n + 7}, [n, n + 1], {np.int64(i) for i in range(0, n, 2)},
           {float(i) for i in range(0, n, 2)}, range(0, n, 2), "ab", "", None, 3,
           [[0]], {"x", None}]
    for fz in fzs:
        for seed in SEEDS[:8]:
            _NOW[0] = seed
            emit("shuffle", seq, repr(fz), seed, run(lambda: so.full_shuffle(fz), so))
    _NOW[0] = 11.0
    emit("shuffle-default", seq, run(so.full_shuffle, so))
    assert describe(so) == before, "parent object was modified"
    if seq and "+" not in seq:      # SequenceParameters validates: amino acids only
        sp = SequenceParameters(seq)
        for seed in SEEDS[:6]:
            _NOW[0] = seed
            emit("SP-shuffled", seq, seed, run(sp.get_shuffled_sequence),
                 run(lambda: sp.get_shuffled_sequence(frozen={0, 1, 2})),
                 run(lambda: sp.get_shuffled_sequence(frozen=[0, 1, 2])))
        with contextlib.redirect_stdout(io.StringIO()):
            pm = SequencePermutants(seq)      # prints a 'not ready yet' banner
        for seed in SEEDS[:6]:
            _NOW[0] = seed
            emit("SPerm", seq, seed, run(pm.get_permutant))

# --- the moves do not leak generator state into each other ------------------
# (a call's result depends only on its own seed, whatever ran before it; the
#  global `random` module state is left alone)
random.seed(99)
g0 = random.getstate()
so = Sequence("MKKEEDDRRKKSSTTEEDDKKRRAAGG")
other = Sequence("GSGSGSKGSGSGSEGSGSGSKGSGSGSE")
for seed in SEEDS:
    _NOW[0] = seed
    alone_swap = run(so.swapRandChargeRes, so)
    alone_shuf = run(so.full_shuffle, so)
    _NOW[0] = seed + 1000
    run(other.full_shuffle)
    run(other.swapRandChargeRes)
    run(lambda: other.swapRandChargeRes(set(range(28))))      # early-return path
    run(other.permute_block_swap)
    run(other.permute_cluster_charges)
    _NOW[0] = seed
    again_swap = run(so.swapRandChargeRes, so)
    again_shuf = run(so.full_shuffle, so)
    assert alone_swap == again_swap and alone_shuf == again_shuf
    _NOW[0] = seed + 1000
    emit("interleave", seed, alone_swap, alone_shuf,
         run(other.permute_block_swap), run(other.permute_cluster_charges))
assert random.getstate() == g0
emit("global-random-untouched", random.random())

# a real clock still works (only shape is checked: result is time dependent)
time.time = time.monotonic
r = so.full_shuffle()
assert sorted(r.seq) == sorted(so.seq)
r = so.swapRandChargeRes()
assert sorted(r.seq) == sorted(so.seq)

for line in LINES:
    print(line)
print("DIGEST", hashlib.sha256("\n".join(LINES).encode()).hexdigest(), len(LINES))
