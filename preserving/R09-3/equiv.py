"""
Differential script for R3 (hoisting / augmented assignment / renames in
SequenceComplexity.CWF, SequenceComplexity.LZW and
SequenceComplexity.get_indexed_complexity_vector).  Run once
with cwd=/tmp/seed/R09 (changed) and once with cwd=/repo (unchanged); the
printed output must be identical.
"""
import os
import sys
sys.path.insert(0, os.getcwd())

import collections
import contextlib
import copy
import hashlib
import io
import random

import numpy as np

import localcider.backend.backendtools as _bt
_bt.HUSH_ALL = False

from localcider.backend.sequenceComplexity import SequenceComplexity
from localcider.backend.data import aminoacids
from localcider.backend.restable import ResTable
from localcider.sequenceParameters import SequenceParameters

results = []


def canon(x):
    if isinstance(x, np.ndarray):
        return ('ndarray', str(x.dtype), x.shape, canon(x.tolist()))
    if isinstance(x, (list, tuple)):
        return (type(x).__name__, [canon(i) for i in x])
    if isinstance(x, dict):
        # keep the insertion order: it is observable
        return (type(x).__name__, [(canon(k), canon(v)) for k, v in x.items()])
    if isinstance(x, (float, np.floating)):
        return (type(x).__name__, repr(float(x)))
    return (type(x).__name__, repr(x))


def run(label, fn, *args, **kwargs):
    buf = io.StringIO()
    with contextlib.redirect_stdout(buf):
        try:
            out = ('OK', canon(fn(*args, **kwargs)))
        except BaseException as e:  # noqa
            out = ('EXC', type(e).__name__, str(e))
    results.append((label, out, buf.getvalue()))


random.seed(4321)
AAS = "ACDEFGHIKLMNPQRSTVWY"
SEQS = ["", "A", "AC", "AAAAAAAAAAAA", "ACDEFGHIKLMNPQRSTVWY", "ACDEFGHIKLMNPQRSTVWY" * 3,
        "EKEKEKEKEKEKEKEKEKEKEKEK", "GSGSGSGSGSPPPPPPGSGSQQQQQNNNNKKKKRRRDDDEEE",
        "MDVFMKGLSKAKEGVVAAAEKTKQGVAEAAGKTKEGVLYVGSKTKEGVVHGVATVAEKTKEQVTNVGGAVVTGVTAVAQKTVEGAGSIAAATGFVKKDQLGKNEEGAPQEGILEDMPVDPDNEAYEMPSEEGYQDYEPEA",
        "ACDXZ", "acdef", "AC DE", "A*"]
for n in (5, 13, 31, 60):
    SEQS.append("".join(random.choice(AAS) for _ in range(n)))
    SEQS.append("".join(random.choice("EKG") for _ in range(n)))
LIST_SEQS = [list("ACDEFGHIKLMNPQRSTVWY"), ["A", "", "CD", "E", "H", "K"], [], ["A", 1, "C"], tuple("GSGSEKEK")]

SC = SequenceComplexity()


two_state = {a: ('E' if a in 'EDKR' else 'G') for a in AAS}

ALPHABETS = [list(AAS), ['L', 'E'], ['L', 'A', 'F', 'E', 'K'], ['E'], [], "EKG", ('E', 'K'), ['E', 'E', 'K'], ['', 'A']]
WINDOWS = [0, 1, 2, 3, 5, 10, 20, 25, 1000, -1, -5]
STEPS = [1, 2, 3, 7, 100]

# ---------------------------------------------------------------- CWF / LZW
for s in SEQS + LIST_SEQS:
    for al in ALPHABETS:
        for w in WINDOWS:
            for st in STEPS:
                run(("CWF", repr(s), repr(al), w, st), SC.CWF, s, al, w, st)
                run(("LZW", repr(s), repr(al), w, st), SC.LZW, s, al, w, st)
    run(("CWF-kw", repr(s)), SC.CWF, sequence=s, alphabet=list(AAS), windowSize=4, stepSize=2)
    run(("LZW-kw", repr(s)), SC.LZW, sequence=s, alphabet=list(AAS), windowSize=4, stepSize=2)

# odd argument types (must raise / behave identically)
S10 = "ACDEFGHIKLAACCDDAA"
ODD = [(S10, list(AAS), 5.0, 1), (S10, list(AAS), 5, 1.0), (S10, list(AAS), 5, 1.5), (S10, list(AAS), 5, 0.5),
       (S10, list(AAS), "5", 1), (S10, None, 5, 1), (None, list(AAS), 5, 1), (S10, list(AAS), None, 1),
       (S10, list(AAS), 5, None), (S10, list(AAS), 5, "1"), (S10, list(AAS), np.int64(5), np.int64(2)),
       (S10, list(AAS), 5, np.array(2)), (S10, list(AAS), 5, np.array([2])), (S10, list(AAS), np.array(5), 3),
       (S10, list(AAS), 5, np.float64(2.0)), (S10, list(AAS), 5, np.uint8(200)),
       (S10, 5, 5, 1), (S10, iter(AAS), 5, 1), (S10, (a for a in AAS), 18, 1), (S10, (a for a in "XZ"), 18, 1),
       (np.array(list(S10)), list(AAS), 5, 1), ([["A"], ["C"], ["D"], ["E"]], list(AAS), 3, 1),
       ([("A",), ("C",)], list(AAS), 1, 1), (S10.encode(), list(AAS), 5, 1), (S10.encode(), [65, 67], 5, 2),
       (S10, list(AAS), True, True), (S10, list(AAS), 18, 5), (S10, list(AAS), 19, 5), (S10, list(AAS), 17, 5),
       (S10, list(AAS), 5, [1]), (S10, list(AAS), [5], 1), (42, list(AAS), 5, 1)]
for oi, args in enumerate(ODD):
    run(("CWF-odd", oi), SC.CWF, *args)
for oi, args in enumerate(ODD):
    # generators are single-use: rebuild the ones used above
    if oi in (17, 18, 19):
        args = (args[0], iter(AAS) if oi == 17 else (a for a in (AAS if oi == 18 else "XZ")), args[2], args[3])
    run(("LZW-odd", oi), SC.LZW, *args)

# caller-owned mutable step must not be modified in place
st_arr = np.array([2])
run("CWF-steparr", SC.CWF, S10, list(AAS), 5, st_arr)
run("LZW-steparr", SC.LZW, S10, list(AAS), 5, st_arr)
results.append(("steparr-after", canon(st_arr)))

# ---------------------------------------------------------------- get_indexed_complexity_vector
for seq_len in list(range(0, 40)) + [100, 101, 1000, -1, -7, 10.0, 10.5, 7.25, np.int64(33), True, None, "10"]:
    for n in [0, 1, 2, 3, 4, 5, 7, 10, 11, 33, 50]:
        vec = [float(i) / 7 for i in range(n)]
        run(("indexed", repr(seq_len), n), SC.get_indexed_complexity_vector, vec, seq_len)
        run(("indexed-np", repr(seq_len), n), SC.get_indexed_complexity_vector, np.array(vec), seq_len)
run("indexed-tuple", SC.get_indexed_complexity_vector, (0.1, 0.2, 0.3), 11)
run("indexed-kw", SC.get_indexed_complexity_vector, complexity_vector=[0.5, 0.25], seq_len=9)
run("indexed-none", SC.get_indexed_complexity_vector, None, 9)
run("indexed-2d", SC.get_indexed_complexity_vector, [[0.5, 0.25], [1, 2]], 9)
run("indexed-str", SC.get_indexed_complexity_vector, ["a", "b"], 9)

# ---------------------------------------------------------------- wrappers
for s in SEQS:
    for size in (20, 5, 2, 9):
        for w, st in [(10, 1), (5, 2), (3, 1), (50, 1), (1, 1), (4, 3), (0, 1), (2, 7)]:
            run(("get_WF", s, size, w, st), SC.get_WF_complexity, s, size, {}, w, st)
            run(("get_LZW", s, size, w, st), SC.get_LZW_complexity, s, size, {}, w, st)
    run(("get_WF-default", s), SC.get_WF_complexity, s)
    run(("get_LZW-default", s), SC.get_LZW_complexity, s)
    run(("get_LC-default", s), SC.get_LC_complexity, s)
    run(("get_WF-user", s), SC.get_WF_complexity, s, userAlphabet=two_state, windowSize=6)
    run(("get_LZW-user", s), SC.get_LZW_complexity, s, userAlphabet=two_state, windowSize=6, stepSize=2)

for s in SEQS:
    def front(s=s):
        sp = SequenceParameters(s)
        out = []
        for ctype in ("LC", "WF", "LZW"):
            out.append(sp.get_linear_complexity(complexityType=ctype, alphabetSize=8, blobLen=6, wordSize=2))
            out.append(sp.get_linear_complexity(complexityType=ctype, userAlphabet=two_state))
            out.append(sp.get_linear_complexity(complexityType=ctype))
            out.append(sp.get_linear_complexity(complexityType=ctype, blobLen=3, stepSize=4))
        return out
    run(("frontend", s), front)

# repeated calls on one object give the same answer (the class is stateless)
for rep in range(3):
    run(("repeat", rep), lambda: [SC.CWF(SEQS[8], list(AAS), 7, 2), SC.LZW(SEQS[8], list(AAS), 7, 2), vars(SC)])

digest = hashlib.sha256(repr(results).encode("utf-8")).hexdigest()
n_exc = sum(1 for r in results if len(r) == 3 and isinstance(r[1], tuple) and r[1][0] == 'EXC')
print("cases=%i exceptions=%i" % (len(results), n_exc))
print("digest=" + digest)
