"""
Differential script for the plotting back-end (save_* entry points,
show_linearplot and __build_linear_plot).

Run once with cwd=<changed tree> and once with cwd=<unchanged tree>; the two
printed outputs must be identical.

    cd /tmp/seed/R26 && /venv/bin/python /tmp/seed/R26_out/R1/equiv.py > new.txt
    cd /repo         && /venv/bin/python /tmp/seed/R26_out/R1/equiv.py > old.txt
"""
import os
import sys

sys.path.insert(0, os.getcwd())

import hashlib
import shutil
import warnings
import logging

import matplotlib
matplotlib.use('Agg')
import matplotlib.pyplot as plt
import numpy as np

warnings.simplefilter('ignore')
logging.getLogger('matplotlib').setLevel(logging.CRITICAL)
logging.getLogger('matplotlib.font_manager').setLevel(logging.CRITICAL)

from localcider.backend import plotting
from localcider.backend.sequence import Sequence
from localcider import plots
from localcider.sequenceParameters import SequenceParameters

assert os.path.abspath(plotting.__file__).startswith(os.getcwd() + os.sep), plotting.__file__

HERE = os.path.dirname(os.path.abspath(__file__))
SCRATCH = os.path.join(HERE, '_scratch')
if os.path.exists(SCRATCH):
    shutil.rmtree(SCRATCH)
os.makedirs(SCRATCH)

LINES = []


def emit(*parts):
    LINES.append(' | '.join(str(p) for p in parts).replace(SCRATCH, '<S>'))


def r(x):
    """stable repr of numbers / arrays / colours"""
    if isinstance(x, (tuple, list, np.ndarray)):
        return '[' + ','.join(r(v) for v in x) + ']'
    if isinstance(x, (float, np.floating)):
        return '%.6g' % float(x)
    return repr(x)


def describe_figure():
    """digest of every open figure (patches, lines, texts, limits, legend)"""
    out = []
    for num in plt.get_fignums():
        fig = plt.figure(num)
        out.append('fig%d' % num)
        for ax in fig.get_axes():
            out.append('xlim=' + r(ax.get_xlim()) + ' ylim=' + r(ax.get_ylim()))
            for lab in (ax.xaxis.label, ax.yaxis.label, ax.title):
                out.append('T:%r:%s:%s' % (lab.get_text(), r(lab.get_fontsize()), lab.get_fontweight()))
            for p in ax.patches:
                try:
                    geo = r(p.get_xy()) + r(p.get_width()) + 'x' + r(p.get_height())
                except AttributeError:
                    geo = r(np.asarray(p.get_xy()).ravel())
                out.append('P:' + geo + ' fc=' + r(p.get_facecolor()) + ' ec=' + r(p.get_edgecolor())
                           + ' lw=' + r(p.get_linewidth()) + ' z=' + r(p.get_zorder()))
            for l in ax.lines:
                out.append('L:' + r(l.get_xdata()) + r(l.get_ydata()) + ' c=' + r(l.get_color())
                           + ' lw=' + r(l.get_linewidth()) + ' ls=' + r(l.get_linestyle()))
            for c in ax.collections:
                out.append('C:' + r(np.asarray(c.get_offsets()).ravel()) + ' s=' + r(c.get_sizes())
                           + ' fc=' + r(np.asarray(c.get_facecolor()).ravel()) + ' z=' + r(c.get_zorder()))
            for t in ax.texts:
                out.append('A:%r@%s fs=%s' % (t.get_text(), r(t.xy if hasattr(t, 'xy') else t.get_position()),
                                              r(t.get_fontsize())))
            leg = ax.get_legend()
            if leg is not None:
                out.append('LEG:' + repr([t.get_text() for t in leg.get_texts()])
                           + ' fs=' + r(leg.get_texts()[0].get_fontsize() if leg.get_texts() else None))
    return hashlib.sha1('\n'.join(out).encode()).hexdigest()[:16] + '(%d items)' % len(out)


def describe_file(path):
    if not os.path.lexists(path):
        return 'absent'
    if os.path.isdir(path):
        return 'dir'
    with open(path, 'rb') as fh:
        blob = fh.read()
    head = blob[:8]
    if head.startswith(b'\x89PNG'):
        from PIL import Image
        im = Image.open(path)
        im.load()
        return 'png %s dpi=%s px=%s' % (im.size, r(tuple(round(v) for v in im.info.get('dpi', (0, 0)))),
                                        hashlib.sha1(im.convert('RGBA').tobytes()).hexdigest()[:16])
    if head.startswith(b'%PDF'):
        return 'pdf nonempty=%s' % (len(blob) > 500)
    if head.startswith(b'%!PS'):
        return 'ps nonempty=%s' % (len(blob) > 500)
    if blob.lstrip().startswith(b'<?xml') or b'<svg' in blob[:400]:
        return 'svg nonempty=%s' % (len(blob) > 500)
    return 'other %d %s' % (len(blob), hashlib.sha1(blob).hexdigest()[:12])


def rc_state():
    return '%s/%s/%s' % (matplotlib.rcParams['font.family'], matplotlib.rcParams['font.weight'],
                         matplotlib.rcParams['font.size'])


def call(tag, fun, *args, **kwargs):
    """run fun, report return / exception, open figures (+digest), then close all"""
    files = kwargs.pop('_files', ())
    keep = kwargs.pop('_keep', False)
    try:
        ret = fun(*args, **kwargs)
        if ret is plt:
            res = 'ret=<pyplot>'
        elif ret is None:
            res = 'ret=None'
        else:
            res = 'ret=' + type(ret).__name__ + ':' + repr(ret)
    except BaseException as e:  # noqa
        res = 'EXC %s: %s' % (type(e).__name__, e)
    emit(tag, res, 'figs=%s' % plt.get_fignums(), 'figdigest=' + describe_figure(), 'rc=' + rc_state(),
         *['%s=%s' % (os.path.basename(f), describe_file(f)) for f in files])
    if not keep:
        plt.close('all')


def P(name):
    return os.path.join(SCRATCH, name)


class FakePlot(object):
    """stand-in plot object recording exactly how it is driven"""

    def __init__(self, fail_on_save=False):
        self.log = []
        self.fail_on_save = fail_on_save

    def savefig(self, *a, **k):
        self.log.append(('savefig', a, sorted(k.items())))
        if self.fail_on_save:
            raise RuntimeError('cannot save')

    def close(self, *a, **k):
        self.log.append(('close', a, sorted(k.items())))

    def show(self, *a, **k):
        self.log.append(('show', a, sorted(k.items())))

    def __repr__(self):
        return '<FakePlot>'


class StrEq(str):
    """str subclass that counts equality tests"""
    count = 0

    def __eq__(self, other):
        StrEq.count += 1
        return str.__eq__(self, other)

    def __ne__(self, other):
        StrEq.count += 1
        return str.__ne__(self, other)

    __hash__ = str.__hash__


# ---------------------------------------------------------------------------
# 1. save_single_phasePlot
# ---------------------------------------------------------------------------
matplotlib.rcdefaults()
for i, (fp, fn, kw) in enumerate([
        (0.1, 0.2, {}),
        (0.1, 0.2, {'saveFormat': 'png'}),
        (0.1, 0.2, {'saveFormat': 'svg', 'label': 'hello'}),
        (0.95, 0.97, {'saveFormat': 'png', 'label': 'a long label', 'legendOn': False, 'fontSize': 14}),
        ('0.3', '0.4', {'saveFormat': 'png', 'title': 'T', 'xLim': 0.5, 'yLim': 0.7}),
        (0, 1, {'saveFormat': 'ps'}),
        (0.2, 0.2, {'saveFormat': 'xyz'}),
        (0.2, 0.2, {'saveFormat': None}),
        (0.2, 0.2, {'saveFormat': 'PNG'}),
        ('abc', 0.2, {'saveFormat': 'png'}),
        (0.2, 'abc', {'saveFormat': 'png'}),
        (1.5, 0.2, {'saveFormat': 'png'}),
        (0.2, -0.1, {'saveFormat': 'png'}),
        (None, 0.2, {'saveFormat': 'png'}),
        (float('nan'), 0.2, {'saveFormat': 'png'}),
        (np.float64(0.25), np.int64(0), {'saveFormat': 'png', 'label': 'np'}),
]):
    f = P('ssp_%d' % i)
    with open(f, 'w') as fh:       # a pre-existing file that may or may not get removed
        fh.write('old')
    call('save_single_phasePlot#%d' % i, plotting.save_single_phasePlot, fp, fn, f, _files=[f], **kw)

call('save_single_phasePlot#nodir', plotting.save_single_phasePlot, 0.1, 0.1, P('nodir/x.png'), saveFormat='png',
     _files=[P('nodir/x.png')])
os.makedirs(P('adir'))
call('save_single_phasePlot#isdir', plotting.save_single_phasePlot, 0.1, 0.1, P('adir'), saveFormat='png',
     _files=[P('adir')])
call('save_single_phasePlot#positional', plotting.save_single_phasePlot, 0.4, 0.1, P('ssp_pos'), 'lab', 'tt', False,
     0.9, 0.8, 7, 'png', _files=[P('ssp_pos')])
# repeated calls without closing in between
call('save_single_phasePlot#rep1', plotting.save_single_phasePlot, 0.4, 0.1, P('rep.png'), saveFormat='png',
     _files=[P('rep.png')], _keep=True)
call('save_single_phasePlot#rep2', plotting.save_single_phasePlot, 0.4, 0.9, P('rep.png'), saveFormat='bad',
     _files=[P('rep.png')], _keep=True)
call('save_single_phasePlot#rep3', plotting.save_single_phasePlot, 0.1, 0.3, P('rep.png'), saveFormat='png',
     _files=[P('rep.png')])
StrEq.count = 0
call('save_single_phasePlot#streq', plotting.save_single_phasePlot, 0.4, 0.1, P('streq.png'),
     saveFormat=StrEq('png'), _files=[P('streq.png')])
emit('streq-count', StrEq.count)

# ---------------------------------------------------------------------------
# 2. save_multiple_phasePlot
# ---------------------------------------------------------------------------
for i, (fpl, fnl, kw) in enumerate([
        ([0.1, 0.2, 0.3], [0.3, 0.2, 0.1], {}),
        ([0.1, 0.2, 0.3], [0.3, 0.2, 0.1], {'label': ['a', 'b', 'c'], 'saveFormat': 'pdf'}),
        ([0.1, 0.2, 0.3], [0.3, 0.2, 0.1], {'label': ['a', 'b'], 'saveFormat': 'png'}),
        ([0.1, 0.2, 0.3], [0.3, 0.2], {'saveFormat': 'png'}),
        ([], [], {}),
        ([], [], {'label': ['x']}),
        ([0.1, 1.2], [0.3, 0.2], {}),
        ([0.1, 'q'], [0.3, 0.2], {}),
        ((0.5,), (0.5,), {'legendOn': False, 'title': 'tuple input', 'xLim': 2, 'yLim': 3, 'fontSize': 5,
                          'saveFormat': 'svg'}),
        ([0.1, 0.2], [0.3, 0.2], {'saveFormat': 'nope'}),
        (iter([0.1, 0.2]), iter([0.3, 0.2]), {}),
        (5, [0.3], {}),
]):
    f = P('smp_%d' % i)
    with open(f, 'w') as fh:
        fh.write('old')
    call('save_multiple_phasePlot#%d' % i, plotting.save_multiple_phasePlot, fpl, fnl, f, _files=[f], **kw)
call('save_multiple_phasePlot#nodir', plotting.save_multiple_phasePlot, [0.1], [0.1], P('nodir/x.png'),
     _files=[P('nodir/x.png')])

# ---------------------------------------------------------------------------
# 3. save_single_uverskyPlot / save_multiple_uverskyPlot
# ---------------------------------------------------------------------------
for i, (h, c, kw) in enumerate([
        (0.4, 0.1, {}),
        (0.4, 0.1, {'saveFormat': 'pdf', 'label': 'L'}),
        (0.95, 0.95, {'label': 'corner', 'legendOn': False}),
        ('0.5', '0.5', {'title': 'strings', 'xLim': 0.6, 'yLim': 0.6, 'fontSize': 3}),
        ('zz', 0.5, {}),
        (0.5, None, {}),
        (0.4, 0.1, {'saveFormat': 'bogus'}),
        (5, -3, {'saveFormat': 'svg'}),
]):
    f = P('sup_%d' % i)
    with open(f, 'w') as fh:
        fh.write('old')
    call('save_single_uverskyPlot#%d' % i, plotting.save_single_uverskyPlot, h, c, f, _files=[f], **kw)
call('save_single_uverskyPlot#nodir', plotting.save_single_uverskyPlot, 0.1, 0.1, P('nodir/u.png'),
     _files=[P('nodir/u.png')])
call('save_single_uverskyPlot#isdir', plotting.save_single_uverskyPlot, 0.1, 0.1, P('adir'), _files=[P('adir')])

for i, (hl, cl, kw) in enumerate([
        ([0.4, 0.5], [0.1, 0.2], {}),
        ([0.4, 0.5], [0.1, 0.2], {'label': ['p', 'q'], 'saveFormat': 'pdf'}),
        ([0.4, 0.5], [0.1, 0.2], {'label': ['p']}),
        ([0.4], [0.1, 0.2], {}),
        ([], [], {}),
        ([0.4, 0.5], [0.1, 0.2], {'saveFormat': 'bogus'}),
        ([0.4, 0.5], [0.1, 0.2], {'legendOn': False, 'title': 'x', 'xLim': 3, 'yLim': 0.1, 'fontSize': 20,
                                  'saveFormat': 'svg'}),
        (None, [0.1], {}),
]):
    f = P('mup_%d' % i)
    with open(f, 'w') as fh:
        fh.write('old')
    call('save_multiple_uverskyPlot#%d' % i, plotting.save_multiple_uverskyPlot, hl, cl, f, _files=[f], **kw)
call('save_multiple_uverskyPlot#nodir', plotting.save_multiple_uverskyPlot, [0.1], [0.1], P('nodir/u.png'),
     _files=[P('nodir/u.png')])
# two figures open: which one gets closed?
plt.figure(1)
plt.figure(2)
plt.figure(1)
call('save_multiple_uverskyPlot#twofigs', plotting.save_multiple_uverskyPlot, [0.1], [0.1], P('two.png'),
     _files=[P('two.png')])
plt.figure(1)
plt.figure(2)
plt.figure(1)
call('save_single_uverskyPlot#twofigs', plotting.save_single_uverskyPlot, 0.1, 0.1, P('two1.png'),
     _files=[P('two1.png')])

# ---------------------------------------------------------------------------
# 4. save_linearplot / show_linearplot and the four builders
# ---------------------------------------------------------------------------
SEQS = {
    'mixed': 'MEEEKKKRDSTGAPLLVVIWFYHQNCMEEDDKRKRSSGG',
    'neutral': 'GSGSGSGSGSGSGSQQQNNNAAA',
    'neg': 'EEEEDDDDEEEEDDDD',
    'pos': 'KKKKRRRRKKKKRRRR',
    'short': 'MKE',
    'one': 'K',
    'long': ('EKEKGSDRAPQ' * 12),           # 132 residues -> reduced edge width
    'vlong': ('GGGSEEEEKKKKGGGGGGAAAAPQ' * 11),  # 264 residues -> zero edge width and zero-NCPR blobs
}
BUILDERS = [('NCPR', plotting.build_NCPR_plot), ('FCR', plotting.build_FCR_plot),
            ('sigma', plotting.build_sigma_plot), ('hydro', plotting.build_hydropathy_plot)]

for sname in sorted(SEQS):
    so = Sequence(SEQS[sname])
    for blob in (1, 2, 5, 6, len(SEQS[sname]), len(SEQS[sname]) + 1, 0, 2.0):
        for bname, bf in BUILDERS:
            if sname in ('long', 'vlong') and (blob not in (1, 5, 6) or bname in ('sigma',)):
                continue
            tag = '%s/%s/blob%s' % (sname, bname, blob)
            f = P('lin_%s_%s_%s.png' % (sname, bname, blob))
            call('save_linearplot ' + tag, plotting.save_linearplot, bf, so, blob, f, _files=[f])
            call('show_linearplot(getFig) ' + tag, plotting.show_linearplot, bf, so, blob, True)
    # same object again (repeated calls on one object), other formats
    call('save_linearplot pdf ' + sname, plotting.save_linearplot, plotting.build_NCPR_plot, so, 1,
         P('lin_%s.pdf' % sname), 'pdf', _files=[P('lin_%s.pdf' % sname)])
    call('save_linearplot bad ' + sname, plotting.save_linearplot, plotting.build_FCR_plot, so, 1,
         P('lin_%s.bad' % sname), saveFormat='bad', _files=[P('lin_%s.bad' % sname)])
    call('show_linearplot(noFig) ' + sname, plotting.show_linearplot, plotting.build_NCPR_plot, so, 1)
    call('show_linearplot(getFig=0) ' + sname, plotting.show_linearplot, plotting.build_FCR_plot, so, 1, 0)
    call('show_linearplot(getFig="y") ' + sname, plotting.show_linearplot, plotting.build_FCR_plot, so, 1, 'y')

so = Sequence(SEQS['mixed'])
call('save_linearplot nodir', plotting.save_linearplot, plotting.build_NCPR_plot, so, 3, P('nodir/l.png'),
     _files=[P('nodir/l.png')])
for bname, bf in BUILDERS:
    call('save_linearplot notSeq ' + bname, plotting.save_linearplot, bf, 'ACDE', 2, P('ns.png'), _files=[P('ns.png')])
    call('show_linearplot notSeq ' + bname, plotting.show_linearplot, bf, None, 2, True)
    call('show_linearplot strblob ' + bname, plotting.show_linearplot, bf, so, 'x', True)

# the thin wrappers
for nm in ('save_linearNCPR', 'save_linearFCR', 'save_linearSigma', 'save_linearHydropathy'):
    f = P(nm + '.png')
    call(nm, getattr(plotting, nm), so, 4, f, _files=[f])
    call(nm + ' svg', getattr(plotting, nm), so, 4, f + '.svg', 'svg', _files=[f + '.svg'])
for nm in ('show_linearNCPR', 'show_linearFCR', 'show_linearSigma', 'show_linearHydropathy'):
    call(nm + ' fig', getattr(plotting, nm), so, 4, True)
    call(nm + ' nofig', getattr(plotting, nm), so, 4)

# custom build functions: how is the returned object driven?
for fmt in ('png', 'pdf', StrEq('png'), None, 3):
    fake = FakePlot()
    call('save_linearplot fake %r' % (fmt,), plotting.save_linearplot, lambda s, b: fake, 'S', 9, 'somewhere', fmt)
    emit('fake-log', fake.log)
fake = FakePlot()
call('save_linearplot fake default', plotting.save_linearplot, lambda s, b: fake, 'S', 9, 'somewhere')
emit('fake-log', fake.log)
fake = FakePlot(fail_on_save=True)
call('save_linearplot fake failing', plotting.save_linearplot, lambda s, b: fake, 'S', 9, 'somewhere')
emit('fake-log', fake.log)
for gf in (True, False, None, 1, [], 'no'):
    fake = FakePlot()
    call('show_linearplot fake %r' % (gf,), plotting.show_linearplot, lambda s, b: fake, 'S', 9, gf)
    emit('fake-log', fake.log)
seen = []
call('show_linearplot args', plotting.show_linearplot, lambda s, b: seen.append((s, b)), 'SEQ', 7, True)
emit('seen', seen)
seen = []
call('save_linearplot args', plotting.save_linearplot, lambda s, b: seen.append((s, b)), 'SEQ', 7, 'f')
emit('seen', seen)


def boom(s, b):
    raise KeyError('boom')


call('save_linearplot boom', plotting.save_linearplot, boom, 1, 2, 'f')
call('show_linearplot boom', plotting.show_linearplot, boom, 1, 2)
call('save_linearplot returns None', plotting.save_linearplot, lambda s, b: None, 1, 2, 'f')
call('show_linearplot returns None', plotting.show_linearplot, lambda s, b: None, 1, 2)
call('show_linearplot returns None fig', plotting.show_linearplot, lambda s, b: None, 1, 2, True)

# ---------------------------------------------------------------------------
# 5. __build_linear_plot called directly
# ---------------------------------------------------------------------------
blp = getattr(plotting, '__build_linear_plot')
rng = np.random.RandomState(12345)


def mk(n, kind):
    x = np.arange(1, n + 1)
    if kind == 'rand':
        y = rng.uniform(-1, 1, n)
    elif kind == 'zeros':
        y = np.zeros(n)
    elif kind == 'mix':
        y = np.round(rng.uniform(-1, 1, n), 1)
        y[::3] = 0
    elif kind == 'nan':
        y = rng.uniform(-1, 1, n)
        y[::4] = np.nan
    elif kind == 'negzero':
        y = np.array([-0.0, 0.0, 1e-300, -1e-300] * (n // 4 + 1))[:n]
    elif kind == 'int':
        return np.vstack((x, rng.randint(-2, 3, n)))
    return np.vstack((x, y))


for n in (0, 1, 2, 7, 109, 110, 111, 150, 219, 220, 221, 300):
    for kind in ('rand', 'zeros', 'mix', 'nan', 'negzero', 'int'):
        for pn in (False, True):
            d = mk(n, kind)
            call('blp n=%d %s pn=%s' % (n, kind, pn), blp, d, setPositiveNegativeBars=pn)
            fpath = P('blp_%d_%s_%s.png' % (n, kind, pn))
            if n in (7, 221) and kind in ('mix', 'nan'):
                call('blp+save n=%d %s pn=%s' % (n, kind, pn), plotting.save_linearplot,
                     lambda s, b: blp(s, title='t', ylimits=[-1, 1], setPositiveNegativeBars=b),
                     d, pn, fpath, _files=[fpath])

d = mk(12, 'mix')
call('blp all-args', blp, d, 'Title', 'X', 'Y', [-2, 2], [0.2, -0.2], True)
call('blp kw', blp, d, title='Title', xlabel='', ylabel='Y', ylimits=(-0.5, 0.5), hline=0.3)
call('blp truthy pn', blp, d, setPositiveNegativeBars=1)
call('blp falsy pn', blp, d, setPositiveNegativeBars=[])
call('blp pn str', blp, d, setPositiveNegativeBars='yes')
call('blp ylim None', blp, d, ylimits=None)
call('blp bad ylim', blp, d, ylimits='ab', setPositiveNegativeBars=True)
call('blp list data', blp, [[1, 2, 3], [0.1, -0.2, 0]], setPositiveNegativeBars=True)
call('blp 1d data', blp, np.array([1.0, 2.0, 3.0]), setPositiveNegativeBars=True)
call('blp 3row data', blp, np.vstack((np.arange(5), -np.arange(5), np.arange(5))), setPositiveNegativeBars=True)
call('blp 1row data', blp, np.arange(5).reshape(1, 5), setPositiveNegativeBars=True)
call('blp 1row data nopn', blp, np.arange(5).reshape(1, 5))
call('blp None', blp, None)
call('blp str rows', blp, np.array([['a', 'b'], ['c', 'd']]), setPositiveNegativeBars=True)
call('blp object rows', blp, np.array([[1, 2, 3, 4], [0, -1, 'a', 0]], dtype=object), setPositiveNegativeBars=True)
call('blp 3d data', blp, np.ones((2, 3, 2)), setPositiveNegativeBars=True)
call('blp bool rows', blp, np.array([[True, False], [False, True]]), setPositiveNegativeBars=True)
call('blp duplicate x', blp, np.array([[1, 1, 2, 2], [0.5, -0.5, 0, 0.1]]), setPositiveNegativeBars=True)
# drawing on an already populated figure, and consecutive builds on the same figure
call('blp first', blp, mk(5, 'mix'), setPositiveNegativeBars=True, _keep=True)
call('blp second', blp, mk(8, 'rand'), title='second', _keep=True)
call('blp third', blp, mk(230, 'mix'), ylimits=[-1, 1], setPositiveNegativeBars=True)
# default-argument object must not be mutated
emit('blp defaults', blp.__defaults__)

# ---------------------------------------------------------------------------
# 6. through the public API (plots.py and SequenceParameters)
# ---------------------------------------------------------------------------
call('plots.save_single_phasePlot', plots.save_single_phasePlot, 0.2, 0.3, P('pub1'), 'lab', _files=[P('pub1') + '.png', P('pub1')])
call('plots.save_single_phasePlot bad', plots.save_single_phasePlot, 2, 0.3, P('pub1b'), _files=[P('pub1b') + '.png'])
call('plots.save_multiple_phasePlot', plots.save_multiple_phasePlot, [0.2, 0.1], [0.3, 0.4], P('pub2'), ['a', 'b'],
     _files=[P('pub2') + '.png', P('pub2')])
call('plots.save_single_uverskyPlot', plots.save_single_uverskyPlot, 0.5, 0.1, P('pub3'), _files=[P('pub3') + '.png', P('pub3')])
call('plots.save_multiple_uverskyPlot', plots.save_multiple_uverskyPlot, [0.5, 0.4], [0.1, 0.3], P('pub4'),
     _files=[P('pub4') + '.png', P('pub4')])
sp1 = SequenceParameters(SEQS['mixed'])
sp2 = SequenceParameters(SEQS['neg'])
try:
    call('plots.save_multiple_phasePlot2', plots.save_multiple_phasePlot2, [sp1, sp2], P('pub5'), ['m', 'n'],
         _files=[P('pub5') + '.png', P('pub5')])
    call('plots.save_multiple_uverskyPlot2', plots.save_multiple_uverskyPlot2, [sp1, sp2], P('pub6'),
         _files=[P('pub6') + '.png', P('pub6')])
except Exception as e:  # pragma: no cover
    emit('plots2 failed', type(e).__name__, e)

for sname in ('mixed', 'neutral', 'short', 'vlong'):
    sp = SequenceParameters(SEQS[sname])
    for meth in ('save_phaseDiagramPlot', 'save_uverskyPlot'):
        for fmt in ('png', 'pdf', 'zzz'):
            f = P('sp_%s_%s_%s' % (sname, meth, fmt))
            call('SP.%s %s %s' % (meth, sname, fmt), getattr(sp, meth), f, saveFormat=fmt,
                 _files=[f, f + '.' + fmt])
    for meth in ('save_linearNCPR', 'save_linearFCR', 'save_linearSigma', 'save_linearHydropathy'):
        for blob in (1, 3, 5, 50):
            for fmt in ('png', 'svg'):
                f = P('sp_%s_%s_%s_%s' % (sname, meth, blob, fmt))
                call('SP.%s %s blob=%s %s' % (meth, sname, blob, fmt), getattr(sp, meth), f, blob, fmt,
                     _files=[f, f + '.' + fmt])
    for meth in ('show_linearNCPR', 'show_linearFCR', 'show_linearSigma', 'show_linearHydropathy'):
        for blob in (1, 4, 50):
            call('SP.%s %s blob=%s fig' % (meth, sname, blob), getattr(sp, meth), blob, True)
            call('SP.%s %s blob=%s' % (meth, sname, blob), getattr(sp, meth), blob)

shutil.rmtree(SCRATCH, ignore_errors=True)

text = '\n'.join(LINES)
# paths differ only by the scratch dir, which is the same for both runs
print(text)
print('LINES', len(LINES))
print('DIGEST', hashlib.sha256(text.encode()).hexdigest())
