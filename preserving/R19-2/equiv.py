"""
Differential script for localcider/backend/wang_landau.py (WangLandauMachine).

Run once with cwd=/tmp/seed/R19 (changed tree) and once with cwd=/repo
(unchanged tree); the printed output (per-section digests + one final digest)
must be identical.

    cd /tmp/seed/R19 && /venv/bin/python /tmp/seed/R19_out/<X>/equiv.py
    cd /repo         && /venv/bin/python /tmp/seed/R19_out/<X>/equiv.py

Everything that is non-deterministic in the library (the Monte Carlo RNGs are
all seeded from time.time()) is made deterministic by replacing time.time with
a counter; that also makes the digest sensitive to the NUMBER of time.time()
and rand.random() calls made, i.e. to the exact RNG stream consumed.
"""
import os
import sys
if os.environ.get("PYTHONHASHSEED") != "0":
    # str(set_of_strings) is printed by __init__; pin the hash seed so the
    # printed order is reproducible between the two runs
    os.environ["PYTHONHASHSEED"] = "0"
    os.environ["PYTHONDONTWRITEBYTECODE"] = "1"
    os.execv(sys.executable, [sys.executable] + sys.argv)
sys.path.insert(0, os.getcwd())

import io
import time
import shutil
import hashlib
import warnings
import contextlib

import numpy as np

# ---------------------------------------------------------------- fake clock
_clock = [0]


def _fake_time():
    _clock[0] += 1
    return 1000.0 + 0.37 * _clock[0]


time.time = _fake_time

import localcider
from localcider.backend import wang_landau as WLmod
from localcider.backend.wang_landau import WangLandauMachine
from localcider.backend.sequence import Sequence

assert os.path.abspath(localcider.__file__).startswith(os.getcwd()), \
    (localcider.__file__, os.getcwd())

SCRATCH = "/tmp/seed/R19_out/_scratch"

_all = hashlib.sha256()
_section = [None, None]


def begin(name):
    _section[0] = name
    _section[1] = hashlib.sha256()


def emit(*parts):
    s = " | ".join(str(p) for p in parts) + "\n"
    b = s.encode("utf8", "backslashreplace")
    _section[1].update(b)
    _all.update(b)
    if VERBOSE:
        sys.stdout.write(s)


def end():
    print("%-28s %s" % (_section[0], _section[1].hexdigest()[:24]))


VERBOSE = "-v" in sys.argv


def desc(v):
    """deterministic, type-revealing description of a value"""
    if isinstance(v, np.ndarray):
        return "ndarray(%s,%s,%s)" % (v.dtype, v.shape, [repr(float(x)) if v.dtype.kind == 'f' else repr(x.item()) for x in v.ravel()])
    if isinstance(v, np.generic):
        return "%s(%r)" % (type(v).__name__, v.item())
    if isinstance(v, (list, tuple)):
        return "%s[%s]" % (type(v).__name__, ", ".join(desc(x) for x in v))
    if isinstance(v, (set, frozenset)):
        return "%s{%s}" % (type(v).__name__, ", ".join(sorted(desc(x) for x in v)))
    if isinstance(v, Sequence):
        return "Sequence(%s,%r,%r)" % (v.seq, v.dmax, None if v.chargePattern is None else desc(np.asarray(v.chargePattern)))
    return "%s(%r)" % (type(v).__name__, v)


def state(obj):
    """public state of a WangLandauMachine (private '_' helper attributes are
    implementation detail and not part of the comparison)"""
    out = []
    for k in sorted(obj.__dict__):
        if k.startswith("_"):
            continue
        out.append("%s=%s" % (k, desc(obj.__dict__[k])))
    return "; ".join(out)


def call(fn, *a, **kw):
    """run fn capturing stdout, warnings and the outcome"""
    buf = io.StringIO()
    with warnings.catch_warnings(record=True) as wlist:
        warnings.simplefilter("always")
        with contextlib.redirect_stdout(buf):
            try:
                res = ("ok", fn(*a, **kw))
            except BaseException as e:   # noqa
                res = ("exc", type(e).__name__, str(e))
    wl = sorted("%s:%s" % (w.category.__name__, w.message) for w in wlist)
    return res, buf.getvalue(), wl


def show(tag, fn, *a, **kw):
    res, out, wl = call(fn, *a, **kw)
    if res[0] == "ok":
        emit(tag, "ok", desc(res[1]))
    else:
        emit(tag, *res)
    emit(tag, "stdout", repr(out))
    emit(tag, "warnings", wl)
    return res


def fresh_dir(name):
    d = os.path.join(SCRATCH, name)
    if os.path.isdir(d):
        shutil.rmtree(d)
    os.makedirs(d)
    return d


def dump_dir(tag, d):
    for fn in sorted(os.listdir(d)):
        with open(os.path.join(d, fn)) as fh:
            emit(tag, "file", fn, repr(fh.read()))


def make(*a, **kw):
    res, out, wl = call(WangLandauMachine, *a, **kw)
    assert res[0] == "ok", res
    return res[1]


SEQS = ["EKEKEKEKEKEKEKEK",
        "EEEEEEEEKKKKKKKK",
        "GSGSEGSGKGSGSEGSKGSGS",
        "MEEPQSDPSVEPPLSQETFSDLWKLLPENNVLSPLPSQAMDDLMLSPDDIEQWFTEDPGPDEAPRMPEAAPPV",
        "DDDDRRRRAAAAGGGG"]

# ============================================================ 1. constructor
begin("init")
wd = fresh_dir("init")
ctor_cases = [
    dict(),
    dict(nbins=5),
    dict(nbins=5, binmin=0.2, binmax=0.7),
    dict(nbins=7, binmin=0.1, binmax=0.45),
    dict(nbins=3, binmin=0.0, binmax=0.1),
    dict(nbins=1, binmin=0.3, binmax=0.31),
    dict(nbins=10, binmin=0.5, binmax=1.0),
    dict(nbins=10, binmin=0.9, binmax=1.0),
    dict(nbins=4, binmin=0.6, binmax=0.2),          # inverted range
    dict(nbins=4, binmin=0.5, binmax=0.5),          # zero width -> ZeroDivisionError
    dict(nbins=0),                                  # ZeroDivisionError
    dict(nbins=-3),
    dict(nbins="6", binmin="0.25", binmax="0.75"),
    dict(nbins=2.9, binmin=0, binmax=1),
    dict(nbins=12, binmin=0, binmax=3),             # nbins_actual = 4 < target
    dict(nbins=2, binmin=0, binmax=5),              # round(1/2.5)=0 -> ZeroDivisionError
    dict(nbins="x"),
    dict(nbins=None),
    dict(flatchk=0),
    dict(flatchk=5),
    dict(flatchk=19.9),
    dict(flatchk=20),
    dict(flatchk=45, flatcrit=1, convergence=2),
    dict(flatchk="abc"),
    dict(flatcrit="q"),
    dict(convergence=None),
    dict(WL_type="ZOOM"),
    dict(WL_type="ZOOM", nbins=25, binmin=0.3, binmax=0.4),
    dict(WL_type="ZOOM", nbins=0),
    dict(WL_type="ZOOM", nbins="7"),
    dict(WL_type="ZOOM", nbins="x"),
    dict(WL_type="zoom", nbins=8),
    dict(WL_type=None, nbins=8),
    dict(frozenResidues=set([1, 2, 3])),
    dict(frozenResidues=[3, 3, 4]),
    dict(frozenResidues=range(2)),
    dict(frozenResidues=5),                          # TypeError
    dict(frozenResidues="ab"),
]
for s in SEQS:
    for i, kw in enumerate(ctor_cases):
        for as_obj in (False, True):
            if as_obj and i % 5:
                continue
            _clock[0] = 0
            seq = Sequence(s) if as_obj else s
            res, out, wl = call(WangLandauMachine, seq, wd, **kw)
            tag = "init %s %d %s" % (s[:6], i, as_obj)
            if res[0] == "ok":
                emit(tag, "ok", state(res[1]), "seqtype", type(res[1].seq).__name__,
                     "same-seq-object", res[1].seq is seq)
            else:
                emit(tag, *res)
            emit(tag, "stdout", repr(out))
            emit(tag, "warnings", wl)
# unusual 'sequence' arguments
for bad in ["", "ekek", "EKXEK", "EK EK", 5, None, ["E", "K"]]:
    res, out, wl = call(WangLandauMachine, bad, wd)
    emit("init-bad", repr(bad), res[0], res[1] if res[0] == "exc" else state(res[1]), res[2] if res[0] == "exc" else "")
    emit("init-bad", "stdout", repr(out))
# relative writedir (abspath is printed; cwd differs between the two runs so normalise)
res, out, wl = call(WangLandauMachine, SEQS[0], "some/rel/dir")
emit("init-rel", res[0], out.replace(os.getcwd(), "<CWD>"))
# frozen default must not be shared / mutated
a = make(SEQS[0], wd)
a.frozen.add(99)
b = make(SEQS[0], wd)
emit("frozen-default", desc(b.frozen), desc(a.frozen))
fr = set([1, 2])
c = make(SEQS[0], wd, frozenResidues=fr)
emit("frozen-copy", c.frozen is fr, desc(c.frozen))
end()

# ============================================= 2. getBinSize / getBinCenters
begin("bins")
wd = fresh_dir("bins")
m = make(SEQS[0], wd, nbins=5, binmin=0.2, binmax=0.7)
nb_values = [10, 1, 2, 3, 7, 100, 1000, 0, -1, -4, 2.0, 2.5, 0.5, True, False,
             np.int64(6), np.int32(3), np.float64(4.0), np.float64(0.0), np.int64(0),
             float("nan"), float("inf"), "8", "x", None, [3], np.array([4]), np.array([2, 3]),
             10**6 + 1, 10, 10, 2, 2.0, 2, True, 1, np.int64(1), 1.0]
for nb in nb_values:
    m.nbins_actual = nb
    for rep in range(3):
        show("getBinSize %r #%d" % (nb, rep), m.getBinSize)
        r = show("getBinCenters %r #%d" % (nb, rep), m.getBinCenters)
        if r[0] == "ok" and isinstance(r[1], np.ndarray) and r[1].size:
            # caller mutates what it got back; must not leak into later calls
            emit("writeable", r[1].flags.writeable, r[1].flags.owndata, r[1].base is None)
            try:
                r[1][0] = -123.0
                r[1] *= 3
            except Exception as e:
                emit("mutate-failed", type(e).__name__, e)
    emit("state", state(m))
# two results of successive calls must be distinct objects
m.nbins_actual = 6
x1 = m.getBinCenters()
x2 = m.getBinCenters()
emit("distinct", x1 is x2, np.shares_memory(x1, x2), desc(x1), desc(x2))
x1[:] = 0
emit("after-mutation", desc(m.getBinCenters()), desc(x2))
# interleaving of different objects and values
m2 = make(SEQS[1], wd, nbins=4)
for nb1, nb2 in [(3, 3), (3, 4), (4, 3), (5, 5), (5, 50), (50, 5)]:
    m.nbins_actual = nb1
    m2.nbins_actual = nb2
    emit("interleave", nb1, nb2, desc(m.getBinCenters()), desc(m2.getBinCenters()),
         desc(m.getBinCenters()), desc(m2.getBinCenters()))
# object built without __init__ (e.g. unpickled / copy-constructed)
raw = WangLandauMachine.__new__(WangLandauMachine)
show("raw-no-attr size", raw.getBinSize)
show("raw-no-attr centers", raw.getBinCenters)
raw.nbins_actual = 4
show("raw size", raw.getBinSize)
show("raw centers", raw.getBinCenters)
show("raw centers", raw.getBinCenters)
import copy
import pickle
m.nbins_actual = 9
m.getBinCenters()
mc = copy.deepcopy(m)
mc.nbins_actual = 3
emit("deepcopy", desc(mc.getBinCenters()), desc(m.getBinCenters()))
mp = pickle.loads(pickle.dumps(m))
mp.nbins_actual = 2
emit("pickle", desc(mp.getBinCenters()), desc(m.getBinCenters()), state(mp))
# subclass overriding getBinSize
class Sub(WangLandauMachine):
    scale = 1.0

    def getBinSize(self):
        return self.scale * WangLandauMachine.getBinSize(self)


sm = call(Sub, SEQS[0], wd, nbins=4)[0][1]
for sc in (1.0, 2.0, 1.0, 0.5):
    sm.scale = sc
    emit("subclass", sc, desc(sm.getBinCenters()), desc(sm.getBinCenters()))
end()

# ============================================ 3. indexInsideRelevantRegion
begin("inside")
wd = fresh_dir("inside")
m = make(SEQS[0], wd, nbins=5, binmin=0.2, binmax=0.7)
idx_values = [-5, -1, 0, 1, 2, 3, 5, 6, 7, 8, 100, 2.0, 6.0, 6.5, 1.999, True, False,
              np.int64(2), np.int64(6), np.int64(7), np.int64(-1), np.float64(3.3),
              np.array(3), np.array([3]), np.array([9]), np.array([1, 3]), np.array([]),
              float("nan"), float("inf"), -float("inf"), "3", None, [3], (3,), 3 + 0j]
for (rmin, rmax) in [(None, None), (0, 0), (3, 2), (0, 9), (np.int64(2), np.int64(6)), (2.5, 6.5),
                     ("a", "z"), (None, 3), (float("nan"), 5), (2, float("nan"))]:
    if rmin is not None or rmax is not None:
        m.relevant_min, m.relevant_max = rmin, rmax
    for idx in idx_values:
        show("inside [%r,%r] %r" % (m.relevant_min, m.relevant_max, idx),
             m.indexInsideRelevantRegion, idx)
mz = make(SEQS[0], wd, nbins=8, WL_type="ZOOM")
for idx in idx_values:
    show("inside zoom %r" % (idx,), mz.indexInsideRelevantRegion, idx)
end()

# =========================================================== 4. log writers
begin("logwriters")
wd = fresh_dir("logwriters")
m = make(SEQS[0], wd, nbins=5)


def gen(vals):
    for v in vals:
        yield v


vectors = [
    [], (), [0], [1, 2, 3], [0] * 40, list(range(-3, 300)), [1.5, 2.49, 2.5, -0.5, 1e10, 1e-10],
    [10**30, -10**30], [True, False], [np.int64(3), np.float64(2.25), np.float32(0.1)],
    np.array([]), np.array([1, 2, 3]), np.array([0.125, 0.375, 0.625]), np.arange(0, 1, 0.01),
    np.array([[1, 2], [3, 4]]), np.array(5), np.array([np.nan, np.inf, -np.inf]),
    [float("nan")], [float("inf")], ["1"], ["a"], [None], [[1]], [1, 2, "x", 4], [1 + 2j],
    "", "abc", "123", b"ab", 5, 5.5, None, {3: 1, 4: 2}, set([7]), range(4), range(0),
    [np.array([1.0])], [np.array([1.0, 2.0])],
]
for name in ("fprintHVector", "fprintGVector", "fprintVertVector"):
    for v in vectors:
        show("%s %s" % (name, desc(v) if not isinstance(v, (dict, range, bytes)) else repr(v)), getattr(m, name), v)
    show("%s gen" % name, getattr(m, name), gen([1, 2.5, 3]))
    show("%s gen-bad" % name, getattr(m, name), gen([1, "q", 3]))
    g_ = gen([1, "q", 3, 4])
    show("%s gen-bad-partial" % name, getattr(m, name), g_)
    emit("rest-of-generator", list(g_))
    show("%s noargs" % name, getattr(m, name))

# mklog / writeLog
p = os.path.join(wd, "a.txt")
show("mklog", m.mklog, p)
show("mklog-initial", m.mklog, os.path.join(wd, "b.txt"), "hello\n")
show("mklog-initial-kw", m.mklog, os.path.join(wd, "c.txt"), initial="x")
show("mklog-bad-initial", m.mklog, os.path.join(wd, "d.txt"), 5)
show("mklog-bad-initial2", m.mklog, os.path.join(wd, "e.txt"), None)
show("mklog-missing-dir", m.mklog, os.path.join(wd, "nope", "e.txt"))
show("mklog-isdir", m.mklog, wd)
show("mklog-bad-path", m.mklog, None)
show("writeLog", m.writeLog, p, "one\n")
show("writeLog", m.writeLog, p, "two\n")
show("writeLog-empty", m.writeLog, p, "")
show("writeLog-new", m.writeLog, os.path.join(wd, "new.txt"), "created by append\n")
show("writeLog-bad", m.writeLog, p, 7)
show("writeLog-bad2", m.writeLog, p, None)
show("writeLog-bytes", m.writeLog, p, b"x")
show("writeLog-missing-dir", m.writeLog, os.path.join(wd, "nope", "f.txt"), "x")
show("mklog-overwrite", m.mklog, os.path.join(wd, "b.txt"))
show("writeLog-vert", m.writeLog, p, m.fprintVertVector(np.arange(5) / 3.0))
show("writeLog-H", m.writeLog, p, m.fprintHVector([5, 6, 7]) + "\n")
show("writeLog-G", m.writeLog, p, m.fprintGVector([5, 6.12345, 7]) + "\n")
dump_dir("logwriters", wd)
end()

# ============================================================ 5. flatcheck
begin("flatcheck")
wd = fresh_dir("flatcheck")
flat = "_WangLandauMachine__run_flatcheck"
fc_cases = [
    # (ctor kwargs, H, slice?, niter, f, g)
    (dict(nbins=5), [10, 10, 10, 10, 10], 0, np.exp(1), [1.0, 2.0, 3.0, 4.0, 5.0]),
    (dict(nbins=5), [10, 10, 10, 10, 6], 0, np.exp(1), [1.0, 2.0, 3.0, 4.0, 5.0]),
    (dict(nbins=5), [10, 10, 10, 10, 7], 3, np.exp(1) ** 0.5, [1, 2, 3, 4, 5]),
    (dict(nbins=5), [10, 10, 10, 10, 8], 3, np.exp(1) ** 0.5, [1, 2, 3, 4, 5]),
    (dict(nbins=5), [0, 0, 0, 0, 0], 0, np.exp(1), [0] * 5),
    (dict(nbins=5), [0, 0, 0, 0, 1], 0, np.exp(1), [0] * 5),
    (dict(nbins=5, flatcrit=0), [0, 0, 0, 0, 1], 0, np.exp(1), [0] * 5),
    (dict(nbins=5, flatcrit=0), [0, 0, 0, 0, 0], 0, np.exp(1), [0] * 5),
    (dict(nbins=5, flatcrit=-1), [0, 0, 0, 0, 0], 0, np.exp(1), [0] * 5),
    (dict(nbins=5, flatcrit=1.0), [4, 4, 4, 4, 4], 7, 1.0000001, [0.5] * 5),
    (dict(nbins=5, flatcrit=1.0), [4, 4, 4, 4, 5], 7, 1.0000001, [0.5] * 5),
    (dict(nbins=5, flatcrit=0.7, convergence=1.5), [4, 4, 4, 4, 5], 1, 2.0, [0.5] * 5),
    (dict(nbins=5, flatcrit=0.7, convergence=1.5), [4, 4, 4, 4, 5], 1, 2.25, [0.5] * 5),
    (dict(nbins=5, flatcrit=0.7, convergence=1.5), [4, 4, 4, 4, 5], 1, 2.2500001, [0.5] * 5),
    (dict(nbins=4, binmin=0.25, binmax=0.75), [1, 9, 9, 9, 9, 1, 0, 0], 0, np.exp(1), list(np.arange(8) * 1.5)),
    (dict(nbins=4, binmin=0.25, binmax=0.75), [100, 9, 3, 9, 9, 100, 0, 0], 0, np.exp(1), list(np.arange(8) * 1.5)),
    (dict(nbins=4, binmin=0.25, binmax=0.75), [0, 0, 9, 9, 9, 9, 0, 0], 2, np.float64(1.3), list(np.arange(8) * 1.5)),
    (dict(nbins=1, binmin=0.3, binmax=0.31), [0] * 30 + [5] + [0] * 69, 0, np.exp(1), [0.25] * 100),
    (dict(nbins=12, binmin=0, binmax=3), [3, 3, 3, 3], 0, np.exp(1), [0.25] * 4),   # Hlocal shorter than target
    (dict(nbins=3, WL_type="ZOOM"), [3, 4, 3], 0, np.exp(1), [0.25] * 3),
    (dict(nbins=3, WL_type="ZOOM"), [3, 40, 3], 0, np.exp(1), [0.25] * 3),
]
for i, (kw, H, niter, f, g) in enumerate(fc_cases):
    m = make(SEQS[0], wd, **kw)
    hlog = m.mklog(os.path.join(wd, "hlog%d.txt" % i))
    glog = m.mklog(os.path.join(wd, "glog%d.txt" % i))
    Hlocal = H[m.relevant_min:m.relevant_max + 1]
    H0, g0, Hl0 = list(H), list(g), list(Hlocal)
    r = show("flatcheck %d" % i, getattr(m, flat), H, Hlocal, niter, f, hlog, glog, g)
    emit("inputs-untouched", H == H0, g == g0, Hlocal == Hl0)
    if r[0] == "ok":
        emit("H-identity", r[1][0] is H, type(r[1][1]).__name__, type(r[1][2]).__name__, type(r[1][3]).__name__)
    emit("state", state(m))
# degenerate direct calls
m = make(SEQS[0], wd, nbins=5)
hlog = m.mklog(os.path.join(wd, "hlogX.txt"))
glog = m.mklog(os.path.join(wd, "glogX.txt"))
show("flatcheck empty Hlocal", getattr(m, flat), [1, 2, 3, 4, 5, 6, 7, 8, 9, 10], [], 0, np.exp(1), hlog, glog, [0] * 10)
show("flatcheck array Hlocal", getattr(m, flat), np.arange(10), np.array([5, 5, 5, 5, 5]), 0, np.exp(1), hlog, glog, np.zeros(10))
show("flatcheck array Hlocal2", getattr(m, flat), np.arange(10), np.array([5, 5, 5, 5, 1]), 0, np.exp(1), hlog, glog, np.zeros(10))
show("flatcheck float Hlocal", getattr(m, flat), [0] * 10, [5.0, 5.5, 5.0, 5.2, 5.1], 0, 4.0, hlog, glog, [0.0] * 10)
show("flatcheck negative", getattr(m, flat), [0] * 10, [-5, -5, -5, -5, -5], 0, 4.0, hlog, glog, [0.0] * 10)
show("flatcheck mixed-sign", getattr(m, flat), [0] * 10, [-5, 5, -5, 5, 1], 0, 4.0, hlog, glog, [0.0] * 10)
show("flatcheck bad g", getattr(m, flat), [0] * 10, [5, 5, 5, 5, 5], 0, 4.0, hlog, glog, ["a"])
show("flatcheck bad glog", getattr(m, flat), [0] * 10, [5, 5, 5, 5, 5], 0, 4.0, hlog, os.path.join(wd, "no", "glog"), [0.0] * 10)
show("flatcheck bad hlog", getattr(m, flat), [0] * 10, [5, 5, 5, 5, 5], 0, 4.0, os.path.join(wd, "no", "hlog"), glog, [0.0] * 10)
show("flatcheck bad Hlocal", getattr(m, flat), [0] * 10, ["a", "b"], 0, 4.0, hlog, glog, [0.0] * 10)
show("flatcheck None Hlocal", getattr(m, flat), [0] * 10, None, 0, 4.0, hlog, glog, [0.0] * 10)
m.relevant_max = 50
show("flatcheck relevant_max out of range", getattr(m, flat), [0] * 10, [5, 5, 5, 5, 5], 0, 4.0, hlog, glog, [0.0] * 10)
m.relevant_max = 4
m.nbins_actual = 0
show("flatcheck nbins_actual=0", getattr(m, flat), [0] * 10, [5, 5, 5, 5, 5], 0, 4.0, hlog, glog, [0.0] * 10)
dump_dir("flatcheck", wd)
end()

# ========================================================= 6. run_normal_WL
begin("run_normal_WL")
run_cases = [
    # name, seq, ctor kwargs
    ("r0", SEQS[0], dict(nbins=4, binmin=0.0, binmax=1.0, flatchk=150, flatcrit=0.3, convergence=np.exp(0.3))),
    ("r1", SEQS[1], dict(nbins=5, binmin=0.0, binmax=0.5, flatchk=200, flatcrit=0.2, convergence=np.exp(0.3))),
    ("r2", SEQS[2], dict(nbins=2, binmin=0.0, binmax=1.0, flatchk=100, flatcrit=0.1, convergence=np.exp(0.2))),
    ("r3", SEQS[4], dict(nbins=3, binmin=0.1, binmax=0.7, flatchk=120, flatcrit=0.2, convergence=np.exp(0.3),
                         frozenResidues=set([0, 1]))),
    ("r4", SEQS[0], dict(nbins=4, binmin=0.0, binmax=1.0, flatchk=7, flatcrit=0.0, convergence=np.exp(0.05))),
    ("r5", SEQS[0], dict(nbins=4, binmin=0.0, binmax=1.0, flatchk=1, flatcrit=-1, convergence=np.exp(0.1))),
    ("r6-noiter", SEQS[0], dict(nbins=4, flatchk=50, convergence=3.0)),        # loop never entered
    ("r7-noiter", SEQS[3], dict(nbins=10, flatchk=50, convergence=np.exp(1))),  # f > conv false at once
    ("r8-flatchk0", SEQS[0], dict(nbins=4, flatchk=0, flatcrit=0.0, convergence=np.exp(0.3))),  # ZeroDivisionError
    ("r9-baddir", SEQS[0], dict(nbins=4, flatchk=10, convergence=np.exp(0.3))),
    ("r10-narrow", SEQS[1], dict(nbins=2, binmin=0.6, binmax=1.0, flatchk=60, flatcrit=0.0, convergence=np.exp(0.3))),
    ("r11-long", SEQS[3], dict(nbins=2, binmin=0.0, binmax=0.4, flatchk=40, flatcrit=0.0, convergence=np.exp(0.3))),
]
for name, s, kw in run_cases:
    wd = fresh_dir(name)
    _clock[0] = 0
    if name == "r9-baddir":
        wdir = os.path.join(wd, "does", "not", "exist")
    else:
        wdir = wd
    res, out, wl = call(WangLandauMachine, s, wdir, **kw)
    emit(name, "ctor", res[0], repr(out))
    if res[0] != "ok":
        continue
    m = res[1]
    for rep in range(2):                       # repeated calls on one object
        via_run = (rep == 1)
        r = show("%s run#%d" % (name, rep), m.run if via_run else m.run_normal_WL)
        emit(name, "state", state(m))
        emit(name, "clock", _clock[0])
        dump_dir("%s run#%d" % (name, rep), wd)
end()

# ================================================== 7. histogramZoom driver
# (shares __run_flatcheck / getBinCenters / the log writers with normal WL)
begin("run_histogramZoomWL")
zoom_cases = [
    ("z0", SEQS[0], dict(nbins=3, flatchk=80, flatcrit=0.0, convergence=np.exp(0.3), WL_type="ZOOM")),
    ("z1", SEQS[1], dict(nbins=2, flatchk=60, flatcrit=-1, convergence=np.exp(0.2), WL_type="ZOOM")),
    ("z2-noiter", SEQS[0], dict(nbins=3, flatchk=80, convergence=3.0, WL_type="ZOOM")),
]
for name, s, kw in zoom_cases:
    wd = fresh_dir(name)
    _clock[0] = 0
    m = make(s, wd, **kw)
    show("%s run()" % name, m.run)                 # AttributeError in both trees
    r = show("%s zoom" % name, m.run_histogramZoomWL)
    emit(name, "state", state(m))
    emit(name, "clock", _clock[0])
    dump_dir(name, wd)
end()

shutil.rmtree(SCRATCH, ignore_errors=True)
print("TOTAL", _all.hexdigest())
