"""
Differential script for the phospho / swapRes area of localcider.backend.sequence.

Run once with cwd=/tmp/seed/R35 (changed tree) and once with cwd=/repo
(unchanged tree); the printed output (per-case lines and the final digest)
must be identical.
"""
import os
import sys

sys.path.insert(0, os.getcwd())

import contextlib
import hashlib
import io

import numpy as np

from localcider.backend.sequence import Sequence
from localcider.sequenceParameters import SequenceParameters

LINES = []


def emit(*parts):
    LINES.append(" | ".join(str(p) for p in parts))


def describe(value):
    """Deterministic, type-aware description of a value."""
    if isinstance(value, Sequence):
        return "Sequence<%s>" % snapshot(value)
    if isinstance(value, np.ndarray):
        return "ndarray(%s,%s,%s)" % (value.dtype, value.shape, value.tolist())
    if isinstance(value, np.generic):
        return "%s(%r)" % (type(value).__name__, value.item())
    if isinstance(value, float):
        return "float(%.12g)" % value
    if isinstance(value, (list, tuple)):
        return "%s[%s]" % (type(value).__name__,
                           ",".join(describe(v) for v in value))
    return "%s(%r)" % (type(value).__name__, value)


def snapshot(obj):
    """Full state of a Sequence object that the area may touch or derive."""
    return ";".join([
        "seq=" + describe(obj.seq),
        "len=" + describe(obj.len),
        "dmax=" + describe(obj.dmax),
        "seqDeltaMax=" + describe(obj.seqDeltaMax),
        "cp=" + describe(obj.chargePattern),
        "ps=" + describe(obj.phosphosites),
    ])


def call(label, fn, *args, **kwargs):
    buf = io.StringIO()
    try:
        with contextlib.redirect_stdout(buf):
            res = fn(*args, **kwargs)
        out = "OK " + describe(res)
    except BaseException as e:  # noqa - we want everything
        res = None
        out = "EXC %s: %s" % (type(e).__name__, e)
    emit(label, out, "stdout=" + repr(buf.getvalue()))
    return res


SEQS = [
    "",
    "A",
    "S",
    "E",
    "ST",
    "KE",
    "STY",
    "sTyKe",
    "KKKYKKK",
    "EKEKSKEKTKEKYEKE",
    "MSTYEEKKRRDDSSTTYYGG",
    "EEEEEKKKKKSTYSTY",
    "GSGSGSGSGS",
    "ACDEFGHIKLMNPQRSTVWY",
    "KSKSKSESESE",
    "RRRRRSSSSSDDDDDTTTTTYYYYY",
]

SITE_SETS = [
    [],
    [1],
    [2, 3],
    [3, 2, 1],
    [1, 1, 1],
    [4],
    [0, -3, 100],
    list(range(1, 30)),
]


def fresh(seq):
    buf = io.StringIO()
    with contextlib.redirect_stdout(buf):
        return Sequence(seq)


# ---------------------------------------------------------------- STY / phos
for seq in SEQS:
    for sites in SITE_SETS:
        tag = "%r/%r" % (seq, sites)
        obj = fresh(seq)
        call(tag + " STY0", obj.get_STY_residues)
        call(tag + " set", obj.setPhosPhoSites, sites)
        emit(tag + " state-after-set", snapshot(obj))
        call(tag + " STY1", obj.get_STY_residues)
        call(tag + " psites", obj.get_phosphosites)
        call(tag + " pseq", obj.get_phosphosequence)
        call(tag + " pseq-again", obj.get_phosphosequence)
        emit(tag + " state-after-pseq", snapshot(obj))
        if len(seq) <= 16:
            call(tag + " kmax", obj.kappa_at_maxPhos)
            call(tag + " kmax-again", obj.kappa_at_maxPhos)
            emit(tag + " state-after-kmax", snapshot(obj))
        old = obj.phosphosites
        call(tag + " clear", obj.clear_phosphosites)
        emit(tag + " clear-rebinds", obj.phosphosites is not old,
             describe(old), describe(obj.phosphosites))
        call(tag + " clear2", obj.clear_phosphosites)
        call(tag + " pseq-cleared", obj.get_phosphosequence)
        if len(seq) <= 16:
            call(tag + " kmax-cleared", obj.kappa_at_maxPhos)
        emit(tag + " final", snapshot(obj))

# hand-edited phosphosite lists (state poked directly, as a user could)
for seq, raw in [
    ("KKSKKTKKYKK", [2, 5, 8]),
    ("KKSKKTKKYKK", [8, 2, 2, 5]),
    ("KKSKKTKKYKK", [0]),           # K at index 0 -> not phosphorylatable
    ("KKSKKTKKYKK", [2, 0]),
    ("KKSKKTKKYKK", [-3]),          # negative index: Y from the end
    ("KKSKKTKKYKK", [-1]),
    ("KKSKKTKKYKK", [50]),          # out of range
    ("KKSKKTKKYKK", [2, 50]),
    ("KKSKKTKKYKK", [2.0, 5]),      # float index
    ("KKSKKTKKYKK", ["2"]),
    ("KKSKKTKKYKK", (2, 5)),        # tuple instead of list
    ("KKSKKTKKYKK", np.array([2, 5])),
    ("KKSKKTKKYKK", np.array([], dtype=int)),
    ("KKSKKTKKYKK", {2: "x"}),
    ("KKSKKTKKYKK", None),
    ("sty", [0, 1, 2]),
    ("", [0]),
]:
    tag = "raw %r/%s" % (seq, describe(raw))
    obj = fresh(seq)
    obj.phosphosites = raw
    call(tag + " pseq", obj.get_phosphosequence)
    call(tag + " kmax", obj.kappa_at_maxPhos)
    call(tag + " STY", obj.get_STY_residues)
    emit(tag + " same-object", obj.phosphosites is raw, snapshot(obj))
    call(tag + " clear", obj.clear_phosphosites)
    emit(tag + " after-clear", obj.phosphosites is raw, snapshot(obj))

# ------------------------------------------------------------------ swapRes
SWAP_SEQS = ["", "A", "KE", "EKS", "EKEKSKEKTKEKYEKE", "KKKKEEEESTY", "hkrde"]
INDEX_PAIRS = [
    (0, 0), (0, 1), (1, 0), (1, 1), (0, 2), (2, 0), (3, 7), (7, 3),
    (-1, 0), (0, -1), (-1, -1), (-2, -1), (-1, 2), (2, -1),
    (0, 100), (100, 0), (100, 100), (100, 200), (200, 100), (-100, 1),
    (1.0, 1), (1.0, 2), (2, 1.0), (1.5, 2), ("a", 1), (1, "a"), ("a", "a"),
    ("a", "b"), ("b", "a"), (None, 1), (None, None), (True, False),
    (np.int64(1), 2), (2, np.int64(1)), (np.int64(3), np.int64(3)),
]


def swap_case(tag, obj, i, j):
    cp_before = obj.chargePattern
    before = snapshot(obj)
    res = call(tag + " swap(%r,%r)" % (i, j), obj.swapRes, i, j)
    emit(tag + " parent-unchanged", snapshot(obj) == before,
         obj.chargePattern is cp_before)
    if isinstance(res, Sequence):
        emit(tag + " derived", snapshot(res),
             "cp-aliased=%s" % (res.chargePattern is obj.chargePattern),
             "cp-shares-mem=%s" % (
                 isinstance(res.chargePattern, np.ndarray)
                 and isinstance(obj.chargePattern, np.ndarray)
                 and np.shares_memory(res.chargePattern, obj.chargePattern)),
             "ps-aliased=%s" % (res.phosphosites is obj.phosphosites),
             "palette-aliased=%s" % (getattr(res, "colorDict", 1) is getattr(obj, "colorDict", 2)))
    return res


for seq in SWAP_SEQS:
    for (i, j) in INDEX_PAIRS:
        obj = fresh(seq)
        swap_case("swap %r" % seq, obj, i, j)

# parent carrying non-default state: dmax, phosphosites, user charge patterns
for seq, dmax, cp in [
    ("EKEKSKEK", 0.25, []),
    ("EKEKSKEK", 0.25, [1, 2, 3, 4, 5, 6, 7, 8]),
    ("EKEKSKEK", -1, (1, 2, 3, 4, 5, 6, 7, 8)),
    ("EKEKSKEK", 7, np.array([1., 2., 3., 4., 5., 6., 7., 8.])),
    ("EKEKSKEK", None, np.array([1, 2, 3, 4, 5, 6, 7, 8])),
    ("EKEKSKEK", 0.5, [1, 2, 3]),                    # shorter than seq
    ("EKEKSKEK", 0.5, np.array([1, 2, 3])),          # shorter than seq
    ("EKEKSKEK", 0.5, [[1], [2], [3], [4], [5], [6], [7], [8]]),
    ("EKEKSKEK", 0.5, np.arange(16).reshape(8, 2)),
    ("EKEKSKEK", 0.5, "abcdefgh"),
]:
    for (i, j) in [(0, 0), (0, 1), (1, 0), (2, 7), (7, 2), (1, 5), (5, 1),
                   (-1, 0), (0, 9), (4, 2), (2, 4)]:
        tag = "swapstate %r dmax=%r cp=%s" % (seq, dmax, describe(cp))
        buf = io.StringIO()
        try:
            with contextlib.redirect_stdout(buf):
                obj = Sequence(seq, dmax, cp)
                obj.setPhosPhoSites([5])
        except Exception as e:
            emit(tag, "ctor EXC %s: %s" % (type(e).__name__, e))
            continue
        res = swap_case(tag, obj, i, j)
        if isinstance(res, Sequence) and isinstance(cp, (list, np.ndarray)) \
                and len(cp) == len(seq) and np.ndim(cp) == 1:
            # mutating the derived pattern must not leak into the parent
            before = describe(obj.chargePattern)
            try:
                res.chargePattern[0] = 99
            except Exception as e:
                emit(tag + " poke EXC", type(e).__name__)
            emit(tag + " leak", before == describe(obj.chargePattern))
            # numerical results of the derived object
            call(tag + " derived.delta", res.delta)
            call(tag + " derived.FCR", res.FCR)

# chained swaps + numbers off the derived object
obj = fresh("EKEKSKEKTKEKYEKE")
call("chain kappa0", obj.kappa)
emit("chain state0", snapshot(obj))
cur = obj
for (i, j) in [(0, 1), (3, 2), (5, 5), (15, 0), (7, 8), (2, 9)]:
    cur = swap_case("chain", cur, i, j)
    call("chain delta", cur.delta)
    call("chain kappa", cur.kappa)
    emit("chain state", snapshot(cur))

# get_STY_residues hands out a fresh plain list of ints on every call
for seq in SEQS:
    obj = fresh(seq)
    a = obj.get_STY_residues()
    b = obj.get_STY_residues()
    emit("STY-fresh %r" % seq, a is not b, a == b, type(a).__name__,
         [type(x).__name__ for x in a])
    a.append(-5)
    emit("STY-no-leak %r" % seq, describe(obj.get_STY_residues()), snapshot(obj))

# ------------------------------------------------- API layer (forwarding)
buf = io.StringIO()
with contextlib.redirect_stdout(buf):
    sp = SequenceParameters("EKEKSKEKTKEKYEKE")
call("api STY", sp.get_all_phosphorylatable_sites)
call("api kmax0", sp.get_kappa_after_phosphorylation)
call("api set", sp.set_phosphosites, [5, 9, 13, 2])
call("api get", sp.get_phosphosites)
call("api pseq", sp.get_phosphosequence)
call("api kmax", sp.get_kappa_after_phosphorylation)
call("api clear", sp.clear_phosphosites)
call("api pseq2", sp.get_phosphosequence)
call("api kmax2", sp.get_kappa_after_phosphorylation)

for line in LINES:
    print(line)
print("CASES", len(LINES))
print("DIGEST", hashlib.sha256("\n".join(LINES).encode("utf-8")).hexdigest())
