"""
Differential check for refactorings of localcider/backend/sequence.py
(deltaMax, __permutant_from_reduced_seq, Omega, Omega_seq, kappa_X, __parse_group
and the helpers around them).

Run once with cwd=<changed tree> and once with cwd=<unchanged tree> and compare the
printed output (every line, plus the final digest).
"""
import os
import sys

# set-iteration order of str sets depends on the hash seed: pin it so that the
# output is reproducible between processes
if os.environ.get("PYTHONHASHSEED") != "0":
    env = dict(os.environ)
    env["PYTHONHASHSEED"] = "0"
    os.execve(sys.executable, [sys.executable] + sys.argv, env)

sys.path.insert(0, os.getcwd())

import contextlib
import hashlib
import io
import random

import numpy as np

from localcider.backend.sequence import Sequence
from localcider.sequenceParameters import SequenceParameters

assert os.path.abspath(sys.modules["localcider"].__file__).startswith(os.getcwd()), \
    "imported localcider from the wrong place"

LINES = []


def emit(label, value):
    LINES.append("%s => %s" % (label, value))


def show(x):
    """deterministic text form of a result"""
    if isinstance(x, float):
        return "float:" + repr(x)
    if isinstance(x, (np.floating, np.integer)):
        return type(x).__name__ + ":" + repr(x.item())
    if isinstance(x, tuple):
        return "(" + ", ".join(show(i) for i in x) + ")"
    if isinstance(x, list):
        return "[" + ", ".join(show(i) for i in x) + "]"
    if isinstance(x, (set, frozenset)):
        # keep iteration order - it is observable (which bad residue is reported first)
        return type(x).__name__ + "{" + ", ".join(show(i) for i in x) + "}"
    if isinstance(x, np.ndarray):
        return "ndarray" + repr(x.tolist())
    if isinstance(x, (Sequence, SequenceParameters)):
        return "<%s object>" % type(x).__name__      # default repr has an address in it
    return type(x).__name__ + ":" + repr(x)


def call(label, fn, *args, **kwargs):
    """run fn, record return value or exception, plus anything printed"""
    buf = io.StringIO()
    try:
        with contextlib.redirect_stdout(buf):
            out = fn(*args, **kwargs)
        res = "OK " + show(out)
    except BaseException as e:  # noqa
        out = None
        res = "EXC %s: %s" % (type(e).__name__, e)
    printed = buf.getvalue()
    emit(label, res + (" | printed=%r" % printed if printed else ""))
    return out


def state(label, s):
    emit(label + " state", "seq=%r len=%r dmax=%s seqDeltaMax=%s cp=%s" % (
        s.seq, s.len, show(s.dmax), show(s.seqDeltaMax), show(s.chargePattern)))


def make(label, *args, **kwargs):
    return call(label + " ctor", Sequence, *args, **kwargs)


# ------------------------------------------------------------------------------------
# a spread of sequences
rnd = random.Random(20161021)
AAS = "ACDEFGHIKLMNPQRSTVWY"


def rseq(n, alphabet=AAS):
    return "".join(rnd.choice(alphabet) for _ in range(n))


SEQS = [
    "",                       # empty
    "A", "K", "E", "P",       # single residue
    "KE", "EK", "AK", "GGGG", "KKKK", "EEEE", "KEKE",
    "AAAAA", "KKKKK", "AAKAA", "AKEAA", "KEKEKE", "KKKEEE",
    "KKKKKKKKAA",             # only positive, charged block longer than neutral
    "AAAAAAAAKK",             # only positive, neutral block longer
    "EEEEEGGGGG",             # only negative, blocks of equal length
    "DDDDDDDDGGGGGGGGGGGGG",  # only negative, neutral longer
    "GDGDGDGD",
    "KKKKKKEEE",              # no neutrals, pos > neg
    "KKKEEEEEEE",             # no neutrals, neg > pos
    "RRRRDDDD",               # no neutrals, equal
    "RKRKDEDE",
    "AAAAAAAAAAAAAAAAAAKE",   # exactly 18 neutrals
    "AAAAAAAAAAAAAAAAAKE",    # 17 neutrals
    "GSGSGSGSGSGSGSGSGSGSGSKKKKEEEEGSGSGS",
    "MEEPQSDPSVEPPLSQETFSDLWKLLPENNVLSPLPSQAMDDLMLSPDDIEQWFTEDPGPDEAPRMPEAAPPVAPAPAAPTPAAPAPAPSWPL",
    "mkkdesrtnqcgpailmfwyv",  # lower case
    "HHHHHHKKEE",             # histidine is neutral here
    "PEDKRPEDKRAAAA",         # the Omega alphabet
    "PPPPPPPPPP",
    "AKXEA",                  # unusual residue
    "AK EA",
    "AB*Z",
    "+-0+-0",                 # reduced alphabet passed directly
    "++++000",
    "straße",            # upper() changes the length
    "KEßAAAAAAKE",
    "EKEKEKEKEKEKEKEKEKEKEKEKEKEKEKEKEKEKEKEKEKEKEKEKEK",
    "EEEEEEEEEEEEEEEEEEEEEEEEEKKKKKKKKKKKKKKKKKKKKKKKKK",
]
SEQS += [rseq(n) for n in (3, 5, 6, 7, 11, 19, 23, 30, 42, 57)]
SEQS += [rseq(n, "KEAG") for n in (6, 9, 14, 25)]
SEQS += [rseq(n, "KAGSQ") for n in (8, 20, 33)]
SEQS += [rseq(n, "DEKR") for n in (5, 12, 21)]
SEQS += [rseq(n, "AGSTQNPKE" + "AGSTQN" * 3) for n in (28, 40, 61)]

GROUPS = [
    (["E", "D"], None),
    (["E", "D"], ["K", "R"]),
    (["P", "E", "D", "K", "R"], None),
    (["a", "c", "d", "e"], None),
    ("ed", "kr"),
    (("A", "G"), ("S",)),
    ({"A", "K", "P", "G"}, {"R", "E", "F", "Y"}),
    (["E", "D"], ["E", "K"]),        # overlapping groups
    ([], None),                      # empty first group
    ([], ["K"]),
    (["E"], []),                     # empty second group
    (["E"], ""),
    (["E"], ()),
    (["K", "K", "K"], ["k"]),
    (["E", "X"], None),              # invalid residue
    (["E"], ["K", "B"]),
    (["Z", "B", "J", "O", "U", "X"], None),   # several invalid: which one is reported?
    (["E"], ["Z", "B", "J", "O", "U", "X"]),
    (["ED"], None),                  # multi-letter entry
    (["E", 1], None),                # non-string entry in a list
    (("E", 1), None),                # non-string entry in a tuple
    ((1,), None),
    ([None], None),
    (None, None),                    # not iterable
    (5, None),
    (["E"], 5),
    (["E"], 0),
    (["E"], np.array(["K"])),
    (np.array(["E", "D"]), None),
    (["E"], np.array(["K", "R"])),   # ambiguous truth value
    (["E"], "GEN_EMPTY"),            # generators built freshly below
    (["E"], "GEN_KR"),
    ("GEN_ED", None),
]


def build_group(g):
    if isinstance(g, str) and g == "GEN_EMPTY":
        return (x for x in [])
    if isinstance(g, str) and g == "GEN_KR":
        return (x for x in ["K", "R"])
    if isinstance(g, str) and g == "GEN_ED":
        return (x for x in ["E", "D"])
    return g


# ------------------------------------------------------------------------------------
# 1. per-sequence behaviour, different call orders on fresh and on re-used objects
for idx, seq in enumerate(SEQS):
    tag = "S%02d[%s]" % (idx, seq if len(seq) <= 24 else seq[:21] + "...")

    # order A: plain deltaMax first, then the permutant, then again
    s = make(tag + " A", seq)
    if s is not None:
        state(tag + " A0", s)
        call(tag + " A deltaMax()", s.deltaMax)
        state(tag + " A1", s)
        call(tag + " A deltaMax(True)", s.deltaMax, True)
        state(tag + " A2", s)
        call(tag + " A deltaMax() again", s.deltaMax)
        call(tag + " A deltaMax(returnSeqDeltaMax=True) again", s.deltaMax, returnSeqDeltaMax=True)
        state(tag + " A3", s)
        call(tag + " A kappa", s.kappa)
        call(tag + " A delta", s.delta)

    # order B: permutant first
    s = make(tag + " B", seq)
    if s is not None:
        call(tag + " B deltaMax(True)", s.deltaMax, True)
        state(tag + " B1", s)
        call(tag + " B deltaMax()", s.deltaMax)
        call(tag + " B deltaMax(False)", s.deltaMax, False)
        state(tag + " B2", s)

    # order C: kappa first, Omega family, kappa_X
    s = make(tag + " C", seq)
    if s is not None:
        call(tag + " C kappa", s.kappa)
        state(tag + " C1", s)
        call(tag + " C Omega", s.Omega)
        call(tag + " C Omega_seq", s.Omega_seq)
        call(tag + " C Omega again", s.Omega)
        call(tag + " C Omega_seq again", s.Omega_seq)
        state(tag + " C2", s)
        for gi, (g1, g2) in enumerate(GROUPS):
            # keep the big group sweep to a subset of the sequences to bound run time
            if idx % 3 != 0 and gi > 7:
                continue
            call(tag + " C kappa_X#%d" % gi, s.kappa_X, build_group(g1), build_group(g2))
            if g2 is None:
                call(tag + " C kappa_X#%d (1 arg)" % gi, s.kappa_X, build_group(g1))
        call(tag + " C kappa_X kw", s.kappa_X, grp1=["K"], grp2=["E"])
        call(tag + " C kappa_X noarg", s.kappa_X)
        state(tag + " C3", s)

    # order D: pre-seeded dmax
    for pre in (0, 0.5, 1.5, -1, -2):
        s = make(tag + " D%s" % pre, seq, dmax=pre)
        if s is not None:
            call(tag + " D%s deltaMax()" % pre, s.deltaMax)
            call(tag + " D%s kappa" % pre, s.kappa)
            call(tag + " D%s deltaMax(True)" % pre, s.deltaMax, True)
            state(tag + " D%s" % pre, s)
            call(tag + " D%s deltaMax(True) again" % pre, s.deltaMax, True)
            state(tag + " D%s'" % pre, s)

# ------------------------------------------------------------------------------------
# 2. user supplied charge patterns (consistent and not) and odd constructor input
CP_CASES = [
    ("AKEAA", np.array([0, 1, -1, 0, 0])),
    ("AKEAA", np.array([1, 1, -1, -1, 0])),      # disagrees with the residues
    ("AAAAA", np.array([1, 0, 0, 0, 0])),
    ("AAAAA", np.array([1, -1, 1, -1, 1])),
    ("KKKKK", np.array([0, 0, 0, 0, 0])),
    ("AAAA", np.array([1, 0])),                  # wrong length
    ("AK", np.array([1, 0, 0, -1, 0, 0])),
    ("AKEAA", [0, 1, -1, 0, 0]),                 # a plain list
    ("AKEAA", np.array([0.5, 2, -3, 0, 0])),
    ("GSGSGSGSGSGSGSGSGSGSKE", np.array([0] * 20 + [-1, 1])),
    ("GSGSGSGSGSGSGSGSGSGSKE", np.array([1, -1] + [0] * 20)),
    ("KEKEAAAAAAAAAAAAAAAAAAAAAA", np.array([1, 1, 1, 1] + [0] * 22)),
]
for ci, (seq, cp) in enumerate(CP_CASES):
    tag = "CP%02d" % ci
    for flag_first in (False, True):
        s = make(tag, seq, chargePattern=cp)
        if s is None:
            continue
        call(tag + " deltaMax(%s)" % flag_first, s.deltaMax, flag_first)
        state(tag + " 1", s)
        call(tag + " deltaMax(%s)" % (not flag_first), s.deltaMax, not flag_first)
        state(tag + " 2", s)
        call(tag + " kappa", s.kappa)
        call(tag + " Omega", s.Omega)
        call(tag + " Omega_seq", s.Omega_seq)
        call(tag + " kappa_X", s.kappa_X, ["A"], ["K"])

for bad in (None, 5, b"AKE", ["A", "K"], u"AKE"):
    make("BADCTOR %r" % (bad,), bad)
for seq in ("ak e\nA", "AKXE", "PPPPKE", "akeaa"):
    s = make("VALIDATE %r" % seq, seq, validateSeq=True)
    if s is not None:
        state("VALIDATE %r" % seq, s)
        call("VALIDATE %r deltaMax(True)" % seq, s.deltaMax, True)
        call("VALIDATE %r Omega" % seq, s.Omega)
        call("VALIDATE %r Omega_seq" % seq, s.Omega_seq)
        call("VALIDATE %r kappa_X" % seq, s.kappa_X, "ED", "KR")

# ------------------------------------------------------------------------------------
# 3. the private helpers, called directly (name-mangled)
host = Sequence("AKEAA")
for gi, (g1, g2) in enumerate(GROUPS):
    for which, g in (("g1", g1), ("g2", g2)):
        call("PARSE#%d %s" % (gi, which), host._Sequence__parse_group, build_group(g))
# argument must not be modified in place
lst = ["e", "d", "e"]
call("PARSE inplace", host._Sequence__parse_group, lst)
emit("PARSE inplace arg", show(lst))

def lenient(text):
    """build a Sequence even from residues the lookup table does not know"""
    try:
        return Sequence(text)
    except Exception:
        return Sequence(text, chargePattern=np.zeros(max(len(text), 1)))


PERM_CASES = [
    ("+-000", "AKEAA"),
    ("000+-", "AKEAA"),
    ("0+0-0", "ARDGS"),
    ("++--", "KRDE"),
    ("--++", "KRDE"),
    ("+-+-", "RKED"),
    ("", ""),
    ("", "AKE"),
    ("+", ""),            # nothing to draw from
    ("++", "K"),
    ("-", "K"),
    ("0", "K"),
    ("000", "AKE"),
    ("+0", "AKE"),
    ("xyz", "AGS"),       # anything that is not +/- counts as neutral
    ("AKE", "AKE"),
    ("+-0", "hke"),
    ("+-0+-0", "HKEXRD"),
    ("0+-", "akE"),
]
for pi, (reduced, parent) in enumerate(PERM_CASES):
    r = lenient(reduced)
    p = lenient(parent)
    call("PERM#%d %r<-%r" % (pi, reduced, parent), r._Sequence__permutant_from_reduced_seq, p)
    call("PERM#%d kw" % pi, r._Sequence__permutant_from_reduced_seq, parentSeqObj=p)
    state("PERM#%d reduced" % pi, r)
    state("PERM#%d parent" % pi, p)
# parent whose .seq was swapped for something that is not a plain string
p = Sequence("AKE")
p.seq = ["A", "K", "E", 7]
call("PERM list-parent", Sequence("+-00")._Sequence__permutant_from_reduced_seq, p)
p.seq = ("R", "D")
call("PERM tuple-parent", Sequence("-+")._Sequence__permutant_from_reduced_seq, p)

# ------------------------------------------------------------------------------------
# 4. through the public SequenceParameters front end
for idx, seq in enumerate(SEQS):
    if idx % 2:
        continue
    tag = "SP%02d" % idx
    sp = call(tag + " ctor", SequenceParameters, seq)
    if sp is None:
        continue
    call(tag + " get_kappa", sp.get_kappa)
    call(tag + " get_deltaMax", sp.get_deltaMax)
    call(tag + " get_deltaMax(True)", sp.get_deltaMax, True)
    call(tag + " get_delta", sp.get_delta)
    call(tag + " get_Omega", sp.get_Omega)
    call(tag + " get_Omega_sequence", sp.get_Omega_sequence)
    call(tag + " get_kappa_X 1", sp.get_kappa_X, ["A", "K", "P", "G"])
    call(tag + " get_kappa_X 2", sp.get_kappa_X, ["A", "K", "P", "G"], ["R", "E", "F", "Y"])
    call(tag + " get_kappa_X bad", sp.get_kappa_X, ["A", "?"])
    state(tag, sp.SeqObj)

# ------------------------------------------------------------------------------------
for line in LINES:
    print(line)
print("cases:", len(LINES))
print("digest:", hashlib.sha256("\n".join(LINES).encode("utf-8")).hexdigest())
