"""Differential script for R2 (nardini wrappers: shared private helper + message constant).

Run once with cwd=/tmp/seed/R07 (changed) and once with cwd=/repo (unchanged);
the printed output must be identical.
"""
import os, sys
sys.path.insert(0, os.getcwd())
import io, contextlib, hashlib, types

import localcider
assert os.path.abspath(localcider.__file__).startswith(os.getcwd()), localcider.__file__
import localcider.sequenceParameters as spmod
from localcider.sequenceParameters import SequenceParameters
from localcider.backend.sequence import Sequence

LINES = []
CALLS = []


def run(tag, fn):
    buf = io.StringIO()
    del CALLS[:]
    try:
        with contextlib.redirect_stdout(buf):
            out = ('OK', repr(fn()))
    except BaseException as e:  # noqa
        out = ('EXC', type(e).__name__, str(e))
    LINES.append(repr((tag, out, buf.getvalue(), list(CALLS))))


def describe_records(records):
    return (type(records).__name__, len(records),
            [(type(r).__name__, r.id, r.name, r.description, str(r.seq)) for r in records])


class FrozenDatetime(object):
    """stands in for the module level name 'datetime' so that generated seeds are deterministic"""
    n = 0

    @classmethod
    def now(cls):
        cls.n += 1
        CALLS.append(('datetime.now', cls.n))
        return cls()

    def timestamp(self):
        return 1700000000.75 + FrozenDatetime.n


class Seedish(object):
    def __repr__(self):
        return 'Seedish()'
    def __str__(self):
        return 'seedish-str'
    def __format__(self, spec):
        CALLS.append(('format', spec))
        return 'seedish-fmt'


def install_fake_nardini(with_plotting=True, with_names=True, raising=False):
    for k in [k for k in sys.modules if k == 'nardini' or k.startswith('nardini.')]:
        del sys.modules[k]
    pkg = types.ModuleType('nardini')
    pkg.__path__ = []
    sap = types.ModuleType('nardini.score_and_plot')
    const = types.ModuleType('nardini.constants')
    plot = types.ModuleType('nardini.plotting')

    def calculate_zscore_and_plot(records, typeall, num_scrambles, seed):
        CALLS.append(('calculate_zscore_and_plot', describe_records(records), typeall, repr(num_scrambles), repr(seed)))
        if raising:
            raise RuntimeError('boom-plot')
        return 'ignored-return'

    def calculate_zscore(records, typeall, num_scrambles, seed):
        CALLS.append(('calculate_zscore', describe_records(records), typeall, repr(num_scrambles), repr(seed)))
        if raising:
            raise RuntimeError('boom-calc')
        return {'seq1': [str(records[0].seq), 'scr', 1, repr(seed)]}

    def plot_zscore_matrix(*args):
        CALLS.append(('plot_zscore_matrix', [str(a) if isinstance(a, SequenceParameters) else repr(a) for a in args]))  # str(): repr() embeds id()
        return 'plot-return'

    if with_names:
        sap.calculate_zscore_and_plot = calculate_zscore_and_plot
        sap.calculate_zscore = calculate_zscore
    const.TYPEALL = ('pol', 'hyd', 'pos', 'neg')
    plot.plot_zscore_matrix = plot_zscore_matrix
    sys.modules['nardini'] = pkg
    sys.modules['nardini.score_and_plot'] = sap
    sys.modules['nardini.constants'] = const
    if with_plotting:
        sys.modules['nardini.plotting'] = plot


def remove_fake_nardini():
    for k in [k for k in sys.modules if k == 'nardini' or k.startswith('nardini.')]:
        del sys.modules[k]


def make_objects():
    objs = [('plain', SequenceParameters("MEEEKKKKSTTYQPPGNRDE")),
            ('single', SequenceParameters("A")),
            ('ws', SequenceParameters("MKV LAAG\nIVEEDD kkrr")),
            ('seqobj', SequenceParameters(SeqObj=Sequence("GSGSEKEKDRDRPPYYWWHHCC"))),
            ('shuffled-parent', SequenceParameters("QQQQNNNNGGGGSSSS"))]
    # object whose Sequence was swapped in by hand (as sequencePermutants does)
    sp = SequenceParameters("A")
    sp.SeqObj = Sequence("mkvlaagiv")
    objs.append(('manual', sp))
    # phosphosites set: state must not be disturbed by the nardini wrappers
    sp2 = SequenceParameters("MSSTTYYEEKK")
    sp2.set_phosphosites([2, 3])
    objs.append(('phos', sp2))
    return objs


SEEDS = [None, 0, 1, 42, -7, 1.5, "abc", "", True, False, (1, 2), Seedish()]
SCRAMBLES = [100000, 0, 10, -1, None, "x"]

# ---------------------------------------------------------------- phase A: nardini not installed
remove_fake_nardini()
try:
    import nardini  # noqa
    LINES.append('real nardini present')
except ImportError:
    LINES.append('nardini absent')
spmod.datetime = FrozenDatetime
for name, sp in make_objects():
    for seed in SEEDS:
        run(('A-save', name, repr(seed)), lambda: sp.save_zscoresAndPlots(random_seed=seed))
        run(('A-calc', name, repr(seed)), lambda: sp.calculate_zscore(10, seed))
    run(('A-save-default', name), lambda: sp.save_zscoresAndPlots())
    run(('A-calc-default', name), lambda: sp.calculate_zscore())
    run(('A-plot-inst', name), lambda: sp.plot_nardini_zscores('n', 'z', 't', 0, 's', False))
    run(('A-plot-inst5', name), lambda: sp.plot_nardini_zscores('z', 't', 0, 's', False))
run(('A-plot-cls',), lambda: SequenceParameters.plot_nardini_zscores('n', 'z', 't', 0, 's', False))
run(('A-plot-cls-bad',), lambda: SequenceParameters.plot_nardini_zscores('n'))

# ---------------------------------------------------------------- phase B: fake nardini available
for variant, kw in [('full', {}), ('raising', {'raising': True}),
                    ('noplotting', {'with_plotting': False}), ('nonames', {'with_names': False})]:
    install_fake_nardini(**kw)
    FrozenDatetime.n = 0
    for name, sp in make_objects():
        for seed in SEEDS:
            for ns in SCRAMBLES:
                run(('B-save', variant, name, repr(seed), repr(ns)),
                    lambda: sp.save_zscoresAndPlots(ns, seed))
                run(('B-calc', variant, name, repr(seed), repr(ns)),
                    lambda: sp.calculate_zscore(num_scrambles=ns, random_seed=seed))
        run(('B-save-default', variant, name), lambda: sp.save_zscoresAndPlots())
        run(('B-calc-default', variant, name), lambda: sp.calculate_zscore())
        # repeated calls on one object
        run(('B-repeat', variant, name), lambda: [sp.calculate_zscore(3, 9), sp.save_zscoresAndPlots(3, 9), sp.calculate_zscore(3)])
        run(('B-plot-inst5', variant, name), lambda: sp.plot_nardini_zscores('z', 't', 0, 's', False))
        run(('B-state', variant, name), lambda: (sp.get_sequence(), sp.get_phosphosites(), sorted(vars(sp))))
    run(('B-plot-cls', variant), lambda: SequenceParameters.plot_nardini_zscores('n', 'z', 't', 0, 's', True))
    # a broken Sequence object (no seq attribute / non-string seq)
    broken = SequenceParameters("A")
    broken.SeqObj = object()
    run(('B-broken', variant), lambda: broken.calculate_zscore(1, 1))
    run(('B-broken-save', variant), lambda: broken.save_zscoresAndPlots(1, None))
    odd = SequenceParameters("A")
    odd.SeqObj.seq = ""
    run(('B-emptyseq', variant), lambda: odd.calculate_zscore(1, 1))
    odd.SeqObj.seq = ("A", "C")
    run(('B-tupleseq', variant), lambda: odd.calculate_zscore(1, 1))
    odd.SeqObj.seq = "AC\n>second\nDE"
    run(('B-tworecords', variant), lambda: odd.save_zscoresAndPlots(1, None))
remove_fake_nardini()

# public surface unchanged
LINES.append(repr(sorted(n for n in dir(SequenceParameters) if not n.startswith('_'))))
LINES.append(repr(sorted(n for n in dir(spmod) if not n.startswith('_'))))

blob = "\n".join(LINES)
print("n_cases", len(LINES))
print("sha256", hashlib.sha256(blob.encode('utf-8')).hexdigest())
print("n_exceptions", sum(1 for l in LINES if "('EXC'" in l))
for l in (LINES[1], LINES[3], LINES[400], LINES[401]):
    print(l[:400])
if os.environ.get("EQUIV_DUMP"):
    open(os.environ["EQUIV_DUMP"], "w").write(blob)
