"""Differential check for SequenceFileParser.parseSeqFile / __final_validation.

Run once with cwd=/tmp/seed/R23 (changed) and once with cwd=/repo (unchanged);
the printed output (per-case lines + final digest) must be identical.
"""
import os
import sys
sys.path.insert(0, os.getcwd())

import contextlib
import hashlib
import io
import random
import shutil
import tempfile

from localcider.backend.seqfileparser import SequenceFileParser
from localcider.sequenceParameters import SequenceParameters

assert os.path.abspath(sys.modules['localcider'].__file__).startswith(os.getcwd()), \
    sys.modules['localcider'].__file__

TMP = tempfile.mkdtemp(prefix="r23equiv")
LINES = []


def emit(*parts):
    LINES.append(" | ".join(repr(p) for p in parts))


def run(label, fn):
    buf = io.StringIO()
    try:
        with contextlib.redirect_stdout(buf):
            res = fn()
        out = ("ok", res)
    except BaseException as e:  # noqa
        msg = str(e).replace(TMP, "<TMP>")
        out = ("exc", type(e).__name__, msg)
    emit(label, out, buf.getvalue().replace(TMP, "<TMP>"))


def write(name, text, binary=False):
    path = os.path.join(TMP, name)
    if binary:
        with open(path, "wb") as fh:
            fh.write(text)
    else:
        with open(path, "w", newline="") as fh:
            fh.write(text)
    return path


CASES = [
    "",
    "\n",
    "\n\n   \n\t\n",
    ">header only\n",
    ">header only",
    ">h\nACDEFGHIKLMNPQRSTVWY\n",
    ">h\nACDEFGHIKLMNPQRSTVWY",
    "ACDEFGHIKLMNPQRSTVWY\n",
    "ACDEF\nGHIKL\n\nMNPQR\n",
    ">h1\nACD\n>h2\nEFG\n",
    "ACD\n>h1\nEFG\n",
    "ACD\n>h1\nEFG\n>h2\nKKK\n",
    ">h1\n>h2\n",
    ">h1\nAXC\n>h2\n",          # invalid residue before second header
    ">h1\nACD\n>h2\nAXC\n",      # second header before invalid residue
    "   >indented header\nACD\n",
    "ACD>EFG\n",
    "A>\n",
    "  ACD  \n  EFG\n",
    "A C D E F\n",
    "1 ACDEF GHIKL 10\n11 MNPQR STVWY 20\n",
    "1234567890\n",
    "ACD*\n",
    "ACD*",
    "ACD\n*\n",
    "*\n",
    "*",
    "**\n",
    "*ACD\n",
    "AC*D\n",
    "AC*D*\n",
    "A*C*D\n",
    "ACD**\n",
    "ACD*\n*\n",
    "ACD*\nEFG\n",
    "ACD* \n",
    "ACD*1\n",
    "ACD * 2\n",
    ">h\n*\n",
    ">h\n1 2 3\n",
    "acdef\n",
    "ACDxEF\n",
    "ACD\tEFG\n",
    "ACD-EFG\n",
    "ACDBEFG\n",
    "ACDZ\n",
    "ACDU\n",
    "ACDO\n",
    "ACDX\n",
    "ACDJ\n",
    "ACD\r\nEFG\r\n",
    "ACD\rEFG\r",
    ">h\r\nACD\r\n",
    "ACD\x0cEFG\n",
    "ACD\x0bEFG\n",
    "ACD\x1cEFG\n",
    "ACD EFG\n",
    "ACD\x85EFG\n",
    "\x0cACD\x0c\n",
    "ACDé\n",
    "﻿ACD\n",
    "ACD\n\n\n>h\n",
    "9\n>h\n9\n>h\n",
    "A1*\n",
    "A*1*\n",
    " \n>\n \n",
    ">\n>\n",
    "ACD\n X \n",
    "AC D1E*F2G*\n",
    "ACD\n*\n*\n",
    "ACD\n*\nA\n",
]

rng = random.Random(20231)
ALPHA = "ACDEFGHIKLMNPQRSTVWY" * 3 + "   \n\n\n" + "0123456789" + "***" + ">>" + "xB\t-"
for _ in range(400):
    n = rng.randint(0, 40)
    CASES.append("".join(rng.choice(ALPHA) for _ in range(n)))
ALPHA2 = "ACDEFGHIKLMNPQRSTVWY" * 4 + " \n\n" + "17" + "*"
for _ in range(400):
    n = rng.randint(0, 30)
    txt = "".join(rng.choice(ALPHA2) for _ in range(n))
    if rng.random() < 0.4:
        txt = ">hdr %d\n" % rng.randint(0, 9) + txt
    if rng.random() < 0.4:
        txt = txt + "*"
    if rng.random() < 0.3:
        txt = txt + "\n"
    CASES.append(txt)

import localcider.backend.backendtools as _bt


def battery(mode):
    parser = SequenceFileParser()      # one object reused for every call (stateless)
    for i, text in enumerate(CASES):
        path = write("case%04d.txt" % i, text)
        run((mode, "parse", i, False), lambda: parser.parseSeqFile(path))
        run(("parse", i, True), lambda: parser.parseSeqFile(path, True))
        run(("parse-kw", i), lambda: parser.parseSeqFile(filename=path, silent=0))
        run(("parse-fresh", i), lambda: SequenceFileParser().parseSeqFile(path, silent="yes"))
        # state of the parser object must stay empty
        emit((mode, "state", i), sorted(vars(parser).items()))

        def sp():
            obj = SequenceParameters(sequenceFile=path)
            return (obj.get_sequence(), len(obj.get_sequence()))
        if i < 120 or i % 7 == 0:
            run(("SequenceParameters", i), sp)

    # odd file arguments
    run("missing", lambda: parser.parseSeqFile(os.path.join(TMP, "does_not_exist.txt")))
    run("directory", lambda: parser.parseSeqFile(TMP))
    run("none", lambda: parser.parseSeqFile(None))
    run("emptyname", lambda: parser.parseSeqFile(""))
    run("noarg", lambda: parser.parseSeqFile())
    run("bytesname", lambda: parser.parseSeqFile(os.fsencode(write("bytesname.txt", ">h\nACD*\n"))))
    binpath = write("binary.bin", b"ACD\n\xff\xfe\x00X\n>h\n>h\n", binary=True)
    run("undecodable", lambda: parser.parseSeqFile(binpath))
    binpath2 = write("binary2.bin", b"AXD\n>h\n>h\n\xff\xfe\n", binary=True)
    run("undecodable-late", lambda: parser.parseSeqFile(binpath2))
    run("SP-missing", lambda: SequenceParameters(sequenceFile=os.path.join(TMP, "nope")).get_sequence())
    run("SP-empty", lambda: SequenceParameters(sequenceFile="").get_sequence())

    # the private validator, driven directly with strings
    fv = parser._SequenceFileParser__final_validation
    STRS = ["", "A", "*", "**", "***", "A*", "*A", "A*A", "A**", "*A*", "**A", "A*A*",
            "ACDEFGHIKLMNPQRSTVWY*", "ACDEFGHIKLMNPQRSTVWY", " *", "* ", "\n*", "*\n"]
    for _ in range(600):
        n = rng.randint(0, 12)
        STRS.append("".join(rng.choice("ACDEK*K*G ") for _ in range(n)))
    for j, s in enumerate(STRS):
        run(("final", j, s), lambda: fv(s))
        run(("final-kw", j), lambda: fv(seq=s))



battery('hushed')            # library default: HUSH_ALL = True
_bt.HUSH_ALL = False         # now let status/warning messages through
battery('verbose')

shutil.rmtree(TMP, ignore_errors=True)

blob = "\n".join(LINES)
for ln in LINES[:25]:
    print(ln)
verbose_lines = [ln for ln in LINES if ln.startswith("('verbose', 'parse'")]
for ln in verbose_lines[18:60]:
    print(ln)
print("lines with printed text:", sum(1 for ln in LINES if ln.count(" | ") >= 2 and not ln.endswith("| ''")))
print("lines:", len(LINES))
print("exceptions:", sum(1 for ln in LINES if "('exc'" in ln))
print("digest:", hashlib.sha256(blob.encode("utf-8", "backslashreplace")).hexdigest())
