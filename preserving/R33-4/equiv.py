"""
Differential script for the amino-acid data tables / ResTable / Residue.

Run twice and compare the printed output:

    cd /tmp/seed/R33 && /venv/bin/python /tmp/seed/R33_out/RX/equiv.py   # changed
    cd /repo         && /venv/bin/python /tmp/seed/R33_out/RX/equiv.py   # unchanged

The library that gets imported is the one in the current working directory.
"""
import os
import sys

sys.path.insert(0, os.getcwd())
sys.dont_write_bytecode = True

import hashlib
import re
import io
import contextlib
import warnings

warnings.filterwarnings("ignore")

import numpy as np

import localcider
from localcider.backend.data import aminoacids as aa
from localcider.backend import restable as restable_mod
from localcider.backend.restable import ResTable
from localcider.backend.residue import Residue
from localcider.sequenceParameters import SequenceParameters

assert os.path.abspath(localcider.__file__).startswith(os.path.abspath(os.getcwd())), localcider.__file__

LINES = []


def emit(tag, value):
    LINES.append("%s :: %s" % (tag, value))


def typed(x):
    """repr that also pins down container and scalar types and dict order"""
    if isinstance(x, dict):
        return "%s{%s}" % (type(x).__name__, ", ".join("%s: %s" % (typed(k), typed(v)) for k, v in x.items()))
    if isinstance(x, (list, tuple, set, frozenset)):
        items = list(x)
        if isinstance(x, (set, frozenset)):
            items = sorted(items, key=repr)
        return "%s[%s]" % (type(x).__name__, ", ".join(typed(i) for i in items))
    if isinstance(x, np.ndarray):
        return "ndarray(%s,%s,%s)" % (x.dtype, x.shape, x.tolist())
    if isinstance(x, Residue):
        return "Residue(%s)" % typed(vars(x))
    return "%s(%s)" % (type(x).__name__, re.sub(r"0x[0-9a-fA-F]+", "0xADDR", repr(x)))


def attempt(tag, fn, *args, **kwargs):
    out = io.StringIO()
    try:
        with contextlib.redirect_stdout(out):
            res = fn(*args, **kwargs)
        emit(tag, "OK " + typed(res) + " |stdout=" + repr(out.getvalue()))
        return res
    except BaseException as e:  # noqa
        emit(tag, "EXC %s %r |stdout=%r" % (type(e).__name__, re.sub(r"0x[0-9a-fA-F]+", "0xADDR", str(e)),
                                            out.getvalue()))
        return None


# ---------------------------------------------------------------- module constants
for name in ("THREE_TO_ONE", "ONE_TO_THREE", "TWENTY_AAs", "DEFAULT_COLOR_PALETTE"):
    emit("const " + name, typed(getattr(aa, name)))
emit("const inverse", all(aa.THREE_TO_ONE[v] == k for k, v in aa.ONE_TO_THREE.items()))
emit("const distinct objects", aa.THREE_TO_ONE is not aa.ONE_TO_THREE)
emit("restable imports same objects",
     (restable_mod.ONE_TO_THREE is aa.ONE_TO_THREE, restable_mod.THREE_TO_ONE is aa.THREE_TO_ONE))

# ---------------------------------------------------------------- table functions
TABLE_FUNCS = ["get_KD_original", "get_residue_charge", "get_KD_shifted", "get_KD_uversky",
               "get_WW_original", "get_PPII_Hilser", "get_PPII_Creamer", "get_PPII_Kallenbach",
               "get_pKa", "get_molecular_weight_Da"]
for fname in TABLE_FUNCS:
    fn = getattr(aa, fname)
    first = attempt("table " + fname, fn)
    # exact float bits
    emit("table-hex " + fname,
         [(k, float(v).hex()) for k, v in first.items()])
    # every call must give a fresh, independent dict
    second = fn()
    emit("table-fresh " + fname, (first is not second, first == second))
    first[list(first)[0]] = "poisoned"
    first["NEW"] = 1
    del first[list(first)[1]]
    third = fn()
    emit("table-unpoisoned " + fname, typed(third) == typed(second))
    emit("table-doc " + fname, fn.__doc__ is not None)
    attempt("table-args " + fname, fn, 1)

# derived tables must not be affected by mutation of a previously returned base table
base = aa.get_KD_original()
base["ILE"] = 1000.0
emit("derived after base mutation", typed(aa.get_KD_shifted()) + typed(aa.get_KD_uversky()))
sh = aa.get_KD_shifted()
sh["ILE"] = -5
emit("uversky after shifted mutation", typed(aa.get_KD_uversky()))
emit("charge after kd mutation", typed(aa.get_residue_charge()))

# ---------------------------------------------------------------- skeleton
for fname in ("buildTable", "build_amino_acids_skeleton"):
    fn = getattr(aa, fname)
    sk = attempt("skeleton " + fname, fn)
    emit("skeleton-types " + fname, (type(sk).__name__, [type(r).__name__ for r in sk], [len(r) for r in sk]))
    emit("skeleton-hex " + fname, [[float(v).hex() for v in r[3:]] for r in sk])
    sk2 = fn()
    emit("skeleton-fresh " + fname, (sk is not sk2, all(a is not b for a, b in zip(sk, sk2)), sk == sk2))
    sk[0][3] = "poison"
    sk[1].append("extra")
    sk.pop()
    emit("skeleton-unpoisoned " + fname, typed(fn()) == typed(sk2))
    attempt("skeleton-args " + fname, fn, 1)

# update_hydrophobicity: in-place, returns same list
sk = aa.buildTable()
ret = attempt("update_hydrophobicity WW", aa.update_hydrophobicity, sk, aa.get_WW_original())
emit("update_hydrophobicity identity", ret is sk)
attempt("update_hydrophobicity missing key", aa.update_hydrophobicity, aa.buildTable(), {"ALA": 1})
attempt("update_hydrophobicity empty", aa.update_hydrophobicity, [], {})
emit("table after update", typed(aa.buildTable()))

# ---------------------------------------------------------------- Residue
attempt("Residue positional", Residue, "n", "XYZ", "X", 1.5, -1, 0.1, 0.2, 0.3)
attempt("Residue keyword", Residue, name="n", letterCode3="XYZ", letterCode1="X", hydropathy=1.5, charge=-1,
        PPII_Hilser=0.1, PPII_Creamer=0.2, PPII_Kallenbach=0.3)
attempt("Residue mixed", Residue, "n", "XYZ", "X", PPII_Kallenbach=[3], PPII_Creamer=None, PPII_Hilser="h",
        charge="c", hydropathy=(1, 2))
attempt("Residue too few", Residue, "n", "XYZ", "X")
attempt("Residue too many", Residue, 1, 2, 3, 4, 5, 6, 7, 8, 9)
attempt("Residue bad kw", Residue, 1, 2, 3, 4, 5, 6, 7, 8, foo=1)
r = Residue("n", "XYZ", "X", 1.5, -1, 0.1, 0.2, 0.3)
emit("Residue attr order", list(vars(r)))
emit("Residue PPII order", (type(r.PPII).__name__, list(r.PPII)))
lst = [0.1]
r1 = Residue("n", "XYZ", "X", lst, lst, lst, lst, lst)
emit("Residue keeps references", (r1.hydropathy is lst, r1.PPII["hilser"] is lst, r1.PPII["kallenbach"] is lst))
r2 = Residue("n", "XYZ", "X", 1, 2, 3, 4, 5)
emit("Residue PPII independent", r.PPII is not r2.PPII)

# ---------------------------------------------------------------- ResTable
attempt("ResTable args", ResTable, 1)
rt = ResTable()
emit("ResTable attrs", list(vars(rt)))
emit("ResTable table", typed(rt.residue_table))
emit("ResTable key order", list(rt.residue_table))
emit("ResTable hex", [(k, float(v.hydropathy).hex(), [float(p).hex() for p in v.PPII.values()])
                      for k, v in rt.residue_table.items()])
rt_b = ResTable()
emit("ResTable independent", (rt.residue_table is not rt_b.residue_table,
                              all(rt.residue_table[k] is not rt_b.residue_table[k] for k in rt.residue_table)))


class Weird(str):
    pass


class LenOnly(object):
    def __init__(self, n):
        self.n = n

    def __len__(self):
        return self.n

    def __repr__(self):
        return "LenOnly(%d)" % self.n

    __str__ = __repr__


class EqA(object):
    """length-1 object comparing equal to 'A' but not hashable the same way"""
    def __len__(self):
        return 1

    def __eq__(self, other):
        return other == 'A'

    __hash__ = None

    def __str__(self):
        return "EqA"


class EqAla(object):
    def __len__(self):
        return 3

    def __eq__(self, other):
        return other == 'ALA'

    def __hash__(self):
        return hash('ALA')

    def __str__(self):
        return "EqAla"


CODES = list(aa.ONE_TO_THREE) + list(aa.THREE_TO_ONE) + [
    '', ' ', 'a', 'ala', 'Ala', 'X', 'B', 'Z', 'U', 'O', 'J', '*', '+', '-', '0', '1', '++', '+-0', '000',
    'XXX', 'XX', 'AL', 'ALAA', 'ALA ', ' ALA', 'AAA', 'A A', '\n', 'Å', 'Å',
    0, 1, -1, 1.0, None, True, False, b'A', b'ALA', b'+', ['A'], ['ALA'], ['A', 'L', 'A'], ('A',), ('ALA',),
    ('A', 'L', 'A'), [], (), {}, {'A': 1}, {'A'}, frozenset(['A']), frozenset(['+']), ['+'], ('+',), ['0'],
    np.array(['A']), np.array(['A', 'L', 'A']), np.array(['ALA']), np.array('A'), np.array(['+']),
    np.array([0]), np.str_('A'), np.str_('ALA'), np.str_('+'), np.str_('X'), np.int64(0),
    Weird('A'), Weird('ALA'), Weird('+'), Weird('Q?'), LenOnly(1), LenOnly(3), LenOnly(0), LenOnly(2),
    EqA(), EqAla(), bytearray(b'A'), range(1), range(3), 'ARG', 'arg', 'R', 'r',
]

MODES = ['hilser', 'creamer', 'kallenbach', 'HILSER', 'Creamer', 'KallenBach', 'hilser ', '', 'foo', 'PPII',
         None, 5, b'hilser', ['hilser'], ('hilser',), Weird('CREAMER'), np.str_('Kallenbach'), 'hİlser',
         'Kallenbach']

for rep in range(2):   # repeated calls on one object
    for i, code in enumerate(CODES):
        label = "%d:%d:%s" % (rep, i, typed(code) if not isinstance(code, (LenOnly, EqA, EqAla)) else str(code))
        res = attempt("lookForRes " + label, rt.lookForRes, code)
        if res is not None:
            emit("lookForRes identity " + label, [k for k, v in rt.residue_table.items() if v is res])
        attempt("lookUpHydropathy " + label, rt.lookUpHydropathy, code)
        attempt("lookUpCharge " + label, rt.lookUpCharge, code)
        attempt("lookUpPPII default " + label, rt.lookUpPPII, code)
        if rep == 0:
            for j, mode in enumerate(MODES):
                attempt("lookUpPPII %s mode%d" % (label, j), rt.lookUpPPII, code, mode)
                if j % 4 == 0:
                    attempt("lookUpPPII-kw %s mode%d" % (label, j), rt.lookUpPPII, resCode=code, mode=mode)
    emit("ResTable state after lookups %d" % rep, typed(rt.residue_table))

attempt("lookForRes noargs", rt.lookForRes)
attempt("lookUpCharge noargs", rt.lookUpCharge)
attempt("lookUpPPII noargs", rt.lookUpPPII)
attempt("lookUpPPII 3 args", rt.lookUpPPII, 'A', 'hilser', 1)
attempt("lookUpCharge kw", rt.lookUpCharge, resCode='K')
attempt("lookForRes kw", rt.lookForRes, resCode='LYS')
attempt("lookUpHydropathy kw", rt.lookUpHydropathy, resCode='LYS')

# a ResTable whose table has been edited by the caller
rt_c = ResTable()
del rt_c.residue_table['ALA']
rt_c.residue_table['GLY'] = "replaced"
attempt("edited table lookForRes A", rt_c.lookForRes, 'A')
attempt("edited table lookForRes ALA", rt_c.lookForRes, 'ALA')
attempt("edited table lookUpCharge A", rt_c.lookUpCharge, 'A')
attempt("edited table lookUpCharge +", rt_c.lookUpCharge, '+')
attempt("edited table lookUpHydropathy G", rt_c.lookUpHydropathy, 'G')
attempt("edited table lookUpPPII G", rt_c.lookUpPPII, 'G', 'creamer')
attempt("edited table lookUpPPII G bad mode", rt_c.lookUpPPII, 'G', 'nope')
attempt("edited table lookUpPPII A bad mode", rt_c.lookUpPPII, 'A', 'nope')
rt_d = ResTable()
rt_d.residue_table['LYS'].charge = 7
rt_d.residue_table['LYS'].PPII = {'hilser': 'only'}
attempt("edited residue charge", rt_d.lookUpCharge, 'K')
attempt("edited residue PPII hilser", rt_d.lookUpPPII, 'K', 'HILSER')
attempt("edited residue PPII creamer", rt_d.lookUpPPII, 'K', 'creamer')

# ---------------------------------------------------------------- through the public API
SEQS = ["A", "K", "E", "GS", "ACDEFGHIKLMNPQRSTVWY", "RHKDESTNQCGPAILMFWYV" * 3,
        "MEEPQSDPSVEPPLSQETFSDLWKLLPENNVLSPLPSQAMDDLMLSPDDIEQWFTEDPGPDEAPRMPEAAPPVAPAPAAPTPAAPAPAPSWPL",
        "KKKKKKKKEEEEEEEE", "KEKEKEKEKEKEKEKE", "GGGGGGGGGG", "PPPPPPP", "WWWYYYFFF",
        "mkdeLLipq", "ac de\tfg", "AXBZ", "", "A1C", "A-K+", "EEEEEKKKKKGGGGGSSSSSPPPPPQQQQQ" * 2]

API = ["get_sequence", "get_length", "get_mean_hydropathy", "get_uversky_hydropathy", "get_WW_hydropathy",
       "get_fraction_disorder_promoting", "get_amino_acid_fractions", "get_countPos", "get_countNeg",
       "get_countNeut", "get_fraction_positive", "get_fraction_negative", "get_FCR", "get_NCPR",
       "get_fraction_expanding", "get_mean_net_charge", "get_isoelectric_point", "get_molecular_weight",
       "get_phasePlotRegion", "get_kappa", "get_Omega", "get_SCD", "get_delta", "get_HTMLColorString",
       "get_all_phosphorylatable_sites", "get_linear_NCPR", "get_linear_FCR", "get_linear_hydropathy",
       "get_linear_sigma", "get_Omega_sequence"]

for si, s in enumerate(SEQS):
    obj = attempt("SP build %d" % si, SequenceParameters, s)
    if obj is None:
        continue
    for rep in range(2):
        for name in API:
            attempt("SP %d.%d %s" % (si, rep, name), getattr(obj, name))
        for mode in ("hilser", "creamer", "kallenbach", "Hilser", "bogus"):
            attempt("SP %d.%d PPII %s" % (si, rep, mode), obj.get_PPII_propensity, mode)
        for ph in (2.0, 7.0, 12.0):
            attempt("SP %d.%d FCR pH %s" % (si, rep, ph), obj.get_FCR, ph)
            attempt("SP %d.%d NCPR pH %s" % (si, rep, ph), obj.get_NCPR, pH=ph)
        for blob in (1, 3, 50):
            attempt("SP %d.%d linhyd %d" % (si, rep, blob), obj.get_linear_hydropathy, blob)
        for size in (2, 8, 20):
            attempt("SP %d.%d reduced %d" % (si, rep, size), obj.get_reduced_alphabet_sequence, size)
        attempt("SP %d.%d complexity" % (si, rep), obj.get_linear_complexity)
    attempt("SP %d palette copy" % si, lambda o=obj: o.SeqObj.set_HTMLColorResiduePalette({'A': 'red'}))
    attempt("SP %d html after palette" % si, obj.get_HTMLColorString)

emit("palette constant after use", typed(aa.DEFAULT_COLOR_PALETTE))
emit("constants after use", typed(aa.ONE_TO_THREE) + typed(aa.THREE_TO_ONE) + typed(aa.TWENTY_AAs))
from localcider.backend import sequence as seqmod
emit("module lkupTab after use", typed(seqmod.lkupTab.residue_table))

blob = "\n".join(LINES)
digest = hashlib.sha256(blob.encode("utf-8", "backslashreplace")).hexdigest()
if "--dump" in sys.argv:
    sys.stdout.write(blob.encode("ascii", "backslashreplace").decode("ascii") + "\n")
print("lines", len(LINES))
print("ok-lines", sum(1 for l in LINES if ":: OK " in l), "exc-lines", sum(1 for l in LINES if ":: EXC " in l))
print("sha256", digest)
