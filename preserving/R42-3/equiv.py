import os, sys; sys.path.insert(0, os.getcwd())
import hashlib, time, random, io, contextlib, itertools
import numpy as np
import localcider
assert os.path.abspath(localcider.__file__).startswith(os.path.abspath(os.getcwd()) + os.sep), localcider.__file__
from localcider.backend import sequence as S
from localcider.backend.sequence import Sequence

# un-hush status messages so that they are part of the comparison
from localcider.backend import backendtools as BT
BT.HUSH_ALL = False

# make the time-seeded generator reproducible and count the clock reads
CLOCK = {'n': 0, 'base': 5000.0}
def fake_time():
    CLOCK['n'] += 1
    return CLOCK['base'] + CLOCK['n'] * 0.371
time.time = fake_time
assert S.time.time is fake_time

OUT = []
def emit(*a):
    OUT.append(repr(a))

def cpat(cp):
    return (type(cp).__name__, [repr(x) for x in cp])

def snap(o):
    if not isinstance(o, Sequence):
        return ('NOTSEQ', repr(o))
    return (o.seq, o.len, repr(o.dmax), cpat(o.chargePattern), repr(o.seqDeltaMax), repr(o.phosphosites))

def run(tag, fn):
    c0 = CLOCK['n']
    buf = io.StringIO()
    try:
        with contextlib.redirect_stdout(buf), contextlib.redirect_stderr(buf):
            r = fn()
        emit(tag, 'OK', snap(r), CLOCK['n'] - c0, buf.getvalue())
        return r
    except BaseException as e:
        emit(tag, 'EXC', type(e).__name__, str(e), CLOCK['n'] - c0, buf.getvalue())
        return None

class RSub:
    """frozen object that answers `set - self` itself"""
    def __init__(self, result): self.result = result
    def __rsub__(self, other): return self.result(other)

seqs = ["", "A", "K", "E", "KK", "EE", "AA", "KE", "KA", "EA", "KEA", "AEK", "KKEE", "KKAA", "EEAA", "KEKE",
        "AAAAAA", "KKKKEEEE", "RRRRRR", "DDDD", "MKDESTYAGRPQWHHC", "kEdRa", "EEEEKKKKGGGGSSSSPPPP", "ßKKEE",
        "GSGSGSGSK", "GSGSGSGSE", "KKKKKKKG", "EEEEEEEG", "KEEEEEEE", "EKKKKKKK",
        "MEEPQSDPSVEPPLSQETFSDLWKLLPENNVLSPLPSQAMDDLMLSPDDIEQWFTEDPGPDEAPRMPEAAPPVAPAPAAPTPAAPAPAPSWPL"]

def frozen_inputs(o):
    cp = o.chargePattern
    try:
        pos = set(int(i) for i in np.where(cp > 0)[0]); neg = set(int(i) for i in np.where(cp < 0)[0])
        neu = set(int(i) for i in np.where(cp == 0)[0])
    except Exception:
        pos = neg = neu = set()
    n = o.len
    yield 'set()', set()
    yield 'frozenset()', frozenset()
    yield 'pos', set(pos); yield 'neg', set(neg); yield 'neu', set(neu)
    yield 'pos+neg', pos | neg; yield 'pos+neu', pos | neu; yield 'neg+neu', neg | neu
    yield 'all', pos | neg | neu
    yield 'all-frozenset', frozenset(pos | neg | neu)
    yield 'pos-but-one', set(sorted(pos)[1:]); yield 'neg-but-one', set(sorted(neg)[:-1]); yield 'neu-but-one', set(sorted(neu)[1:])
    yield 'all-but-one-each', set(sorted(pos)[1:]) | set(sorted(neg)[1:]) | set(sorted(neu)[1:])
    yield 'np-keys', set(np.int64(i) for i in sorted(pos | neu))
    yield 'floats', set(float(i) for i in neg)
    yield 'junk', {-1, n, n + 5, 'a', None, 2.5}
    yield 'evens', set(range(0, n, 2))
    yield 'list', sorted(pos); yield 'empty-list', []; yield 'tuple', (); yield 'None', None; yield 'int', 0
    yield 'dict', {}; yield 'dict-keys', {0: 1}.keys(); yield 'str', ""; yield 'range', range(2)
    yield 'np-array', np.array([0, 1]); yield 'np-empty', np.array([], dtype=int)
    yield 'np-obj', np.array([{0}, {1}], dtype=object)
    yield 'rsub-set', RSub(lambda s: s - {0}); yield 'rsub-list', RSub(lambda s: sorted(s))
    yield 'rsub-empty-tuple', RSub(lambda s: ()); yield 'rsub-int', RSub(lambda s: 3)
    yield 'rsub-arr', RSub(lambda s: np.array(sorted(s)))

for s in seqs:
    for dmax in (-1, 0.42):
        o = run(('ctor', s, dmax), lambda: Sequence(s, dmax))
        if o is None:
            continue
        before = snap(o)
        for rep in range(4):
            r = run(('default', s, dmax, rep), lambda: o.swapRandChargeRes())
            emit('ret-is-self', r is o)
        for name, fz in list(frozen_inputs(o)):
            fz_before = repr(fz) if not isinstance(fz, RSub) else None
            for rep in range(3):
                r = run(('fz', s, dmax, name, rep), lambda: o.swapRandChargeRes(fz))
                emit('ret-is-self', r is o, None if r is None else r.chargePattern is o.chargePattern)
            emit('frozen-unchanged', fz_before == (repr(fz) if not isinstance(fz, RSub) else None))
        emit('parent-unchanged', snap(o) == before)

# user-supplied charge patterns (lists make the comparisons fail, arrays of odd length are accepted)
for pat in ([1, -1, 0], (1, 0), np.array([1., -1., 0., 0., 1.]), np.array([1., -1.]), np.array([0., 0., 0., 0.]),
            np.array([1, 1, -1, -1]), np.array([[1., -1.], [0., 0.]]), "+-0", np.array([np.nan, 1., -1., 0.])):
    for s in ("KEAK", "KEAKKE"):
        o = run(('ctor-pat', repr(pat), s), lambda: Sequence(s, 0.3, pat))
        if o is None:
            continue
        for rep in range(4):
            run(('pat', repr(pat), s, rep), lambda: o.swapRandChargeRes())
            run(('pat-fz', repr(pat), s, rep), lambda: o.swapRandChargeRes({0}))

# random sequences / random frozen sets, chained
r_ = random.Random(77)
for t in range(600):
    n = r_.choice([1, 2, 3, 4, 5, 8, 13, 30, 64, 120])
    alphabet = r_.choice(["KE", "KA", "EA", "KEA", "KRDEGS", "ACDEFGHIKLMNPQRSTVWY", "G", "K"])
    s = "".join(r_.choice(alphabet) for _ in range(n))
    fz = set(r_.randint(-1, n) for _ in range(r_.randint(0, n)))
    o = Sequence(s, r_.choice([-1, 0.1]))
    cur = o
    for step in range(4):
        nxt = run(('rnd', t, step, s, repr(sorted(fz))), lambda: cur.swapRandChargeRes(frozenset(fz) if step % 2 else set(fz)))
        if nxt is None:
            break
        emit('frozen-kept', [nxt.seq[i] == o.seq[i] for i in sorted(fz) if 0 <= i < n])
        cur = nxt

emit('default-arg', repr(Sequence.swapRandChargeRes.__defaults__))

if os.environ.get("EQUIV_DUMP"):
    open(os.environ["EQUIV_DUMP"], "w").write("\n".join(OUT))
print(len(OUT), hashlib.sha256("\n".join(OUT).encode()).hexdigest())
