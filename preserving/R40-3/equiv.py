"""Differential check for R3 (SequenceFileParser). Run with cwd=/tmp/seed/R40 and cwd=/repo; stdout must match."""
import os, sys, io, hashlib, contextlib, random, shutil
sys.path.insert(0, os.getcwd())
sys.dont_write_bytecode = True
import warnings
warnings.simplefilter('ignore')

import localcider
from localcider.backend import backendtools as bt
from localcider.backend import seqfileparser as sfp
from localcider.backend.seqfileparser import SequenceFileParser
from localcider.sequenceParameters import SequenceParameters

assert os.path.realpath(sfp.__file__).startswith(os.path.realpath(os.getcwd())), sfp.__file__

out = []
def rec(*a):
    out.append(repr(a))

def capture(fn, *a, **k):
    buf = io.StringIO()
    try:
        with contextlib.redirect_stdout(buf):
            r = fn(*a, **k)
        res = ('ok', r, type(r).__name__)
    except BaseException as e:
        res = ('exc', type(e).__name__, str(e), type(e.__context__).__name__)
    return res + (buf.getvalue(),)

WORK = '/tmp/seed/R40_out/R3/_files'
shutil.rmtree(WORK, ignore_errors=True)
os.makedirs(WORK)

rng = random.Random(4043)
AA = "ACDEFGHIKLMNPQRSTVWY"
texts = [
    "", "\n", "\n\n\n", "   \n\t\n", ">hdr\n", ">hdr", ">\n", ">", ">a\n>b\n", ">a\nACD\n>b\nEFG\n", "ACD\n>late header\nEFG\n",
    "ACD\n>h1\nEFG\n>h2\n", "ACDEFGHIKLMNPQRSTVWY", "ACDEFGHIKLMNPQRSTVWY\n", ">sp|P1|X\nACDEF\nGHIKL\n", ">h\n\nACD\n\n\nEFG\n\n",
    "  ACD  \n\tEFG\t\n", "A C D E\n", "AC\tDE\n", "1 ACDEF 6\n7 GHIKL 12\n", "10 20 30\n", "0123456789\n", "A1C2D3\n",
    ">h\nACD*\n", "ACD*", "*", "**", "*\n*\n", "A*C\n", "*ACD\n", "ACD*\nEFG\n", "ACD\nEFG*\n", "ACD*\nEFG*\n", "ACD**\n", "A*C*\n",
    "ACD *\n", "ACD* \n", "ACD\n*\n", "ACD\n * \n", "acd\n", "aCd\n", "ACDX\n", "ACDB\n", "ACDZ\n", "ACD-EFG\n", "ACD.EFG\n", "ACD>EFG\n",
    " >indented header\nACD\n", "> \n> \n", "ACD\n\n>\n", ">h\nAC%sD\n", ">h\nAC%D\n", "%\n", "ACD\\n\n", "AC\x0bD\n", "AC\x0cD\n", "AC D\n",
    "AC　D\n", "ACé\n", "²\n", "١\n", "ACD\r\nEFG\r\n", "ACD\rEFG\r", ">h\r\nACD\r\n", ";comment\nACD\n", "#ACD\n", "ACD,EFG\n",
    ">h\n" + "P" * 50 + "\n", ">h\n" + ("ACDEFGHIKL " * 6 + "\n") * 5, "ACD\n1\n2\n*\n", "1*\n", " * ", "* *", ">*\n", ">h\n>*\n", "*\n>h\n>g\n",
    ">1\n", "1>\n", ">h\n  \n>g\n", "A\n" * 30, "A" * 2000 + "\n",
]
for _ in range(150):
    nl = rng.randint(0, 6)
    lines = []
    for _ in range(nl):
        k = rng.random()
        if k < 0.15:
            lines.append(">" + "".join(rng.choice("abc |123") for _ in range(rng.randint(0, 6))))
        elif k < 0.25:
            lines.append(rng.choice(["", " ", "\t"]))
        else:
            pool = AA * 4 + "   " + "0123456789" + ("*" if rng.random() < 0.4 else "") + ("xX-b" if rng.random() < 0.15 else "")
            lines.append("".join(rng.choice(pool) for _ in range(rng.randint(1, 30))))
    if rng.random() < 0.3:
        lines.append(rng.choice(["*", "ACD*", " * ", "A*"]))
    texts.append("\n".join(lines) + rng.choice(["", "\n"]))

paths = []
for i, t in enumerate(texts):
    p = os.path.join(WORK, 'f%03d.txt' % i)
    with open(p, 'w', encoding='utf-8', newline='') as fh:
        fh.write(t)
    paths.append(p)
binp = os.path.join(WORK, 'binary.dat')
with open(binp, 'wb') as fh:
    fh.write(b'ACD\n\xff\xfe\n>h\n>g\n')
paths += [binp, os.path.join(WORK, 'missing.txt'), WORK, "", None, 5, 3.5, ["x"], b'/tmp/seed/R40_out/R3/_files/f012.txt']

saved = (bt.HUSH_WARNINGS, bt.HUSH_STATUS, bt.HUSH_ALL)
parser = SequenceFileParser()
for flags in [(False, False, True), (False, False, False), (True, False, False), (False, True, False)]:
    bt.HUSH_WARNINGS, bt.HUSH_STATUS, bt.HUSH_ALL = flags
    for idx, p in enumerate(paths):
        before = dict(parser.__dict__)
        for silent in (False, True, 0, "yes"):
            rec('parse', flags, idx, silent, capture(parser.parseSeqFile, p, silent))
        rec('parse-kw', flags, idx, capture(parser.parseSeqFile, filename=p, silent=True))
        rec('parse-default', flags, idx, capture(SequenceFileParser().parseSeqFile, p))
        rec('stateless', parser.__dict__ == before)
        if flags[2] or idx % 5 == 0:
            r = capture(SequenceParameters, sequenceFile=p)
            if r[0] == 'ok':
                rec('SP', flags, idx, 'ok', r[1].get_sequence(), r[1].get_length(), r[3])
            else:
                rec('SP', flags, idx, r)
bt.HUSH_WARNINGS, bt.HUSH_STATUS, bt.HUSH_ALL = saved
rec('methods', sorted(n for n in vars(SequenceFileParser) if not n.startswith('__')))
shutil.rmtree(WORK, ignore_errors=True)

blob = "\n".join(out)
print(len(out), hashlib.sha256(blob.encode('utf-8', 'backslashreplace')).hexdigest())
print('parser exceptions:', sum('SequenceFileParserException' in o for o in out), 'other exceptions:', sum(("('exc'" in o) and ('SequenceFileParserException' not in o) for o in out))
for line in out[:2] + out[-2:]:
    print(line[:200].encode('ascii', 'backslashreplace').decode())
