import os, sys; sys.path.insert(0, os.getcwd())
# Differential script for R1 (SequenceParameters.show_phaseDiagramPlot / show_uverskyPlot).
# Run once with cwd=/tmp/seed/R43 (changed) and once with cwd=/repo (unchanged); output must match.
os.environ["MPLBACKEND"] = "Agg"
import hashlib
import inspect
import warnings
warnings.filterwarnings("ignore")
import logging
logging.disable(logging.CRITICAL)

import numpy as np
import matplotlib
matplotlib.use("Agg")
import matplotlib.pyplot as plt

import localcider
assert os.path.dirname(os.path.abspath(localcider.__file__)) == os.path.join(os.getcwd(), "localcider"), localcider.__file__
from localcider.sequenceParameters import SequenceParameters
from localcider.backend import plotting as backend

RESULTS = []
EVENTS = []


# ---------------------------------------------------------------- helpers
class FlipFlop(object):
    """truth value alternates on every evaluation; records how often it was asked"""
    def __init__(self, first):
        self.state = first
        self.asked = 0

    def __bool__(self):
        self.asked += 1
        val = self.state
        self.state = not self.state
        return val

    def __repr__(self):
        return "FlipFlop"


class BadBool(object):
    def __bool__(self):
        raise RuntimeError("no truth value")

    def __repr__(self):
        return "BadBool"


def norm(x):
    if x is plt:
        return "<pyplot>"
    if isinstance(x, float):
        return round(x, 9)
    if isinstance(x, np.ndarray):
        return ("ndarray", x.shape, [norm(float(v)) for v in x.ravel()])
    if isinstance(x, (list, tuple)):
        return (type(x).__name__, [norm(v) for v in x])
    if isinstance(x, dict):
        return sorted((repr(k), norm(v)) for k, v in x.items())
    if isinstance(x, (FlipFlop, BadBool)):
        return repr(x)
    if inspect.isfunction(x) or inspect.ismodule(x):
        return getattr(x, "__name__", "?")
    if hasattr(x, "__module__") and str(type(x).__module__).startswith("localcider"):
        return "<%s>" % type(x).__name__
    return repr(x)


def spy(modname, mod, fname):
    orig = getattr(mod, fname)
    sig = inspect.signature(orig)

    def wrapper(*a, **kw):
        try:
            bound = sig.bind(*a, **kw)
            bound.apply_defaults()
            EVENTS.append((fname, [(k, norm(v)) for k, v in bound.arguments.items()]))
        except TypeError as e:
            EVENTS.append((fname, "BIND-ERROR", str(e)))
        return orig(*a, **kw)
    setattr(mod, fname, wrapper)


for _n in ("show_single_phasePlot", "show_single_uverskyPlot", "show_multiple_phasePlot",
           "show_multiple_uverskyPlot", "show_linearComplexity", "show_linearplot"):
    spy("backend", backend, _n)


def _show(*a, **kw):
    EVENTS.append(("plt.show", len(plt.get_fignums())))


plt.show = _show


def fig_state():
    out = []
    for num in plt.get_fignums():
        fig = plt.figure(num)
        for ax in fig.axes:
            leg = ax.get_legend()
            out.append({
                "title": ax.get_title(),
                "xlabel": ax.get_xlabel(),
                "ylabel": ax.get_ylabel(),
                "xlim": [round(float(v), 6) for v in ax.get_xlim()],
                "ylim": [round(float(v), 6) for v in ax.get_ylim()],
                "texts": [(t.get_text(), [round(float(v), 6) for v in getattr(t, "xy", t.get_position())],
                           round(float(t.get_fontsize()), 3)) for t in ax.texts],
                "points": [[[round(float(c), 6) for c in xy] for xy in coll.get_offsets()]
                           for coll in ax.collections],
                "npatches": len(ax.patches),
                "nlines": len(ax.lines),
                "legend": None if leg is None else [t.get_text() for t in leg.get_texts()],
            })
    return out


def run(tag, fn, *a, **kw):
    plt.close("all")
    del EVENTS[:]
    try:
        r = fn(*a, **kw)
        outcome = ("ret", norm(r))
    except Exception as e:   # noqa
        outcome = ("exc", type(e).__name__, str(e))
    state = fig_state()
    flips = [(k, v.asked, v.state) for k, v in sorted(kw.items()) if isinstance(v, FlipFlop)]
    RESULTS.append((tag, outcome, list(EVENTS), state, flips))
    plt.close("all")


# ---------------------------------------------------------------- inputs
SEQS = [
    "A",
    "EK",
    "KKKKKKKKKK",
    "EEEEEDDDDD",
    "GSGSGSGSGSGSGS",
    "MEEPQSDPSVEPPLSQETFSDLWKLLPENNVLSPLPSQAMDDLMLSPDDIEQWFTEDPGPDEAPRMPEAAPPVAPAPAAPTPAAPAPAPSWPL",
    "RKRKRKRKRKRKEDEDEDEDEDWWFFYYLLIIVVMMAACCHHQQNNSSTTGGPP",
    "EKEKEKEKEKEKEKEKEKEKEKEKEKEKEKEKEKEKEKEKEKEKEKEKEK",
    "mkd lpe\tqqr",
]

GETFIGS = [False, True, None, 0, 1, 2, "", "yes", [], [0], 0.0, 1.5]

LABELS = ["", "p53", "a-rather-long-label-for-the-point", " ", None, 7, ["x"]]


def sp_objects():
    objs = []
    for s in SEQS:
        try:
            objs.append(SequenceParameters(s))
        except Exception as e:   # noqa
            RESULTS.append(("construct", s, type(e).__name__, str(e)))
    return objs


OBJS = sp_objects()

for i, obj in enumerate(OBJS):
    for meth in ("show_phaseDiagramPlot", "show_uverskyPlot"):
        # defaults
        run((i, meth, "default"), getattr(obj, meth))
        # getFig alone, keyword and positional
        for g in GETFIGS:
            run((i, meth, "getFig-kw", repr(g)), getattr(obj, meth), getFig=g)
        run((i, meth, "positional-all"), getattr(obj, meth), "lab", "A title", False, 0.5, 0.7, 14, True)
        run((i, meth, "positional-all-noFig"), getattr(obj, meth), "lab", "A title", False, 0.5, 0.7, 14, False)
        # truth value that cannot be computed / that changes
        run((i, meth, "badbool"), getattr(obj, meth), getFig=BadBool())
        run((i, meth, "ndarray2"), getattr(obj, meth), getFig=np.array([1, 2]))
        run((i, meth, "ndarray1"), getattr(obj, meth), getFig=np.array([1]))
        run((i, meth, "flip-T"), getattr(obj, meth), getFig=FlipFlop(True))
        run((i, meth, "flip-F"), getattr(obj, meth), getFig=FlipFlop(False))
        # labels and the other options
        for lab in LABELS:
            for g in (True, False):
                run((i, meth, "label", repr(lab), g), getattr(obj, meth), label=lab, getFig=g)
        for g in (True, False):
            run((i, meth, "opts1", g), getattr(obj, meth), title="", legendOn=False, xLim=0.3, yLim=2, fontSize=4, getFig=g)
            run((i, meth, "opts2", g), getattr(obj, meth), title=None, legendOn=1, xLim=-1, yLim=0, fontSize="large", getFig=g)
            run((i, meth, "opts-bad", g), getattr(obj, meth), xLim="wide", getFig=g)
            run((i, meth, "opts-badfont", g), getattr(obj, meth), label="x", fontSize="nonsense", getFig=g)
        # unknown keyword / too many arguments
        run((i, meth, "unknown-kw"), getattr(obj, meth), figure=True)
        run((i, meth, "too-many"), getattr(obj, meth), "l", "t", True, 1, 1, 10, True, 5)

# repeated calls on the same object, mixing other methods in between
obj = OBJS[5]
for rep in range(3):
    run(("repeat", rep, "phase-T"), obj.show_phaseDiagramPlot, getFig=True)
    run(("repeat", rep, "uversky-F"), obj.show_uverskyPlot, getFig=False)
    RESULTS.append(("repeat-values", rep, norm(obj.get_fraction_positive()), norm(obj.get_fraction_negative()),
                    norm(obj.get_uversky_hydropathy()), norm(obj.get_mean_net_charge()), norm(obj.get_kappa())))
    obj.set_phosphosites([6]) if rep == 0 else None

# object state after plotting is untouched
for i, obj in enumerate(OBJS):
    RESULTS.append(("state", i, obj.get_sequence(), norm(obj.get_FCR()), norm(obj.get_NCPR()), sorted(vars(obj).keys())))

# signatures of the public methods are unchanged
for meth in ("show_phaseDiagramPlot", "show_uverskyPlot", "save_phaseDiagramPlot", "save_uverskyPlot"):
    RESULTS.append(("sig", meth, str(inspect.signature(getattr(SequenceParameters, meth)))))

blob = repr(RESULTS).encode("utf-8")
print("records:", len(RESULTS))
print("exceptions:", sum(1 for r in RESULTS if len(r) > 1 and isinstance(r[1], tuple) and r[1] and r[1][0] == "exc"))
print("returned-fig:", sum(1 for r in RESULTS if len(r) > 1 and r[1] == ("ret", "<pyplot>")))
print("digest:", hashlib.sha256(blob).hexdigest())
