# Common part of the differential scripts (copied verbatim into each equiv.py).
import os, sys, io, hashlib, contextlib
sys.path.insert(0, os.getcwd())
import numpy as np
import random as _random
import localcider.backend.sequence as S
from localcider.backend.sequence import Sequence

TRACE = []

class _FakeTime(object):
    """Deterministic replacement for the `time` module used for seeding."""
    def __init__(self):
        self.n = 0
    def time(self):
        self.n += 1
        TRACE.append(('time',))
        return 1000.0 + 0.37 * self.n

class _LoggedRandom(_random.Random):
    """random.Random that records every public call made on it."""
    def seed(self, *a, **k):
        TRACE.append(('seed', repr(a), repr(k)))
        return _random.Random.seed(self, *a, **k)
    def sample(self, population, k, **kw):
        TRACE.append(('sample', type(population).__name__, repr(list(population)), k))
        return _random.Random.sample(self, population, k, **kw)
    def shuffle(self, x, *a):
        TRACE.append(('shuffle', repr(list(x))))
        return _random.Random.shuffle(self, x, *a)
    def randint(self, a, b):
        TRACE.append(('randint', repr(a), repr(b)))
        return _random.Random.randint(self, a, b)

class _FakeRng(object):
    Random = _LoggedRandom

FT = _FakeTime()
S.time = FT
S.rng = _FakeRng()

def state(obj):
    if not isinstance(obj, Sequence):
        return ('NOTSEQ', repr(obj))
    cp_ = obj.chargePattern
    return (obj.seq, obj.len, repr(obj.dmax), type(cp_).__name__,
            repr(np.asarray(cp_, dtype=float).tolist()), repr(obj.seqDeltaMax), repr(obj.phosphosites))

RESULTS = []

def run(label, obj, fn):
    """Call fn(), record result / exception / stdout / rng trace / state of obj afterwards."""
    del TRACE[:]
    buf = io.StringIO()
    try:
        with contextlib.redirect_stdout(buf):
            r = fn()
        if r is obj:
            out = ('SELF',)
        else:
            out = ('OK', state(r))
    except BaseException as e:
        out = ('EXC', type(e).__name__, str(e))
    rec = (label, out, buf.getvalue(), tuple(TRACE), state(obj) if obj is not None else None)
    RESULTS.append(rec)

def finish():
    h = hashlib.sha256()
    nexc = 0
    nself = 0
    for rec in RESULTS:
        h.update(repr(rec).encode('utf8'))
        if isinstance(rec[1], tuple) and rec[1][0] == 'EXC':
            nexc += 1
        if isinstance(rec[1], tuple) and rec[1][0] == 'SELF':
            nself += 1
    print('cases', len(RESULTS), 'exceptions', nexc, 'returned-self', nself)
    print('digest', h.hexdigest())
    if '-v' in sys.argv:
        for rec in RESULTS:
            print(repr(rec)[:600])

# ---------------------------------------------------------------- R1: swapRes
SEQS = ["", "A", "KE", "AKE", "EEEKKK", "GSGSGS", "kEdRaAa", "MKKDEERRSTYPQ", "XBZ-K",
        "EKEKEKEKEKQQQQPPPGGG", "ßKE"]
IDX = [0, 1, 2, 5, 6, 7, -1, -2, -7, 19, 20, 100, -100, True, False,
       np.int64(1), np.int64(3), np.int32(-1), 1.0, 2.5, "1", None]

for s in SEQS:
    for dmax in (-1, 0.25):
        if s == "XBZ-K":
            # unusual residues only construct with an explicit charge pattern
            obj = Sequence(s, dmax, np.array([0.0, 0.0, 0.0, 0.0, 1.0]))
        else:
            obj = Sequence(s, dmax)
        for a in IDX:
            for b in IDX:
                run(('swapRes', s, dmax, repr(a), repr(b)), obj, lambda: obj.swapRes(a, b))

# user supplied / inconsistent charge patterns (short array, list, long array)
PATTERNS = [np.array([1.0]), np.array([1.0, -1.0]), [1, -1, 0], [1], np.array([1, 0, -1, 0, 1, 1, 1]),
            (1, -1, 0), np.array([[1, -1, 0]])]
for pat in PATTERNS:
    obj = Sequence("KEA", 0.5, pat)
    for a in (0, 1, 2, 3, 4, -1, -3, -4, 6, 7):
        for b in (0, 1, 2, 3, 4, -1, -3, -4, 6, 7):
            run(('swapRes-pat', repr(pat), a, b), obj, lambda: obj.swapRes(a, b))

# chained / repeated calls on one object, result must be independent objects
obj = Sequence("EKEKDDRRAAGG")
cur = obj
for k in range(30):
    i, j = (k * 7) % 12, (k * 5 + 3) % 12
    holder = cur
    run(('chain', k, i, j), holder, lambda: holder.swapRes(i, j))
    cur = holder.swapRes(i, j)
    RESULTS.append(('chain-state', k, state(cur), state(obj)))

# aliasing: the returned pattern must not alias the parent's
obj = Sequence("KEKE")
new = obj.swapRes(0, 1)
new.chargePattern[0] = 42
RESULTS.append(('alias', state(obj), state(new), new.chargePattern is obj.chargePattern))
same = obj.swapRes(2, 2)
RESULTS.append(('same', state(same), same is obj))

finish()
