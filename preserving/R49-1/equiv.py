import os, sys; sys.path.insert(0, os.getcwd())

import contextlib
import hashlib
import io
import itertools
import random
import shutil
import tempfile

import localcider
assert os.path.dirname(os.path.abspath(localcider.__file__)) == os.path.join(
    os.path.abspath(os.getcwd()), "localcider"), localcider.__file__

from localcider.backend.seqfileparser import SequenceFileParser
from localcider.sequenceParameters import SequenceParameters
from localcider.backend import backendtools

# the package ships with HUSH_ALL = True; un-hush so that status and warning
# messages are printed (and captured + compared) as well
backendtools.HUSH_ALL = False

RESULTS = []


def record(tag, fn, *args, **kwargs):
    """Run fn, capture stdout, record the value or the exception."""
    buf = io.StringIO()
    with contextlib.redirect_stdout(buf):
        try:
            out = ("ok", repr(fn(*args, **kwargs)))
        except BaseException as e:  # noqa
            out = ("exc", type(e).__name__, str(e))
    RESULTS.append((tag, out, buf.getvalue()))


FIXED = [
    b"",
    b"\n",
    b"\n\n\n",
    b"   \n\t\n",
    b">only a header\n",
    b">hdr\nACDEFGHIKLMNPQRSTVWY\n",
    b">hdr\nACDEFGHIKLMNPQRSTVWY",
    b"ACDEFGHIKLMNPQRSTVWY\n",
    b"ACDEF\nGHIKL\n\nMNPQR\n",
    b">hdr\r\nACDEF\r\nGHIKL\r\n",
    b">hdr\rACDEF\rGHIKL\r",
    b">a\nACD\n>b\nEFG\n",
    b">a\n>b\n",
    b"ACD\n>a\nEFG\n>b\nHIK\n",
    b"ACD\n>a\nEFG\n",
    b"  >indented header\n  ACD  \n",
    b"\t>tab header\n\tACD\t\n",
    b">hdr\n  1 ACDEF GHIKL\n 11 MNPQR STVWY\n",
    b">hdr\nACD EFG 10\nHIK 20\n",
    b">hdr\nACDEF*\n",
    b">hdr\nACDEF\n*\n",
    b">hdr\nACDEF\n  *  \n\n",
    b">hdr\nAC*DEF\n",
    b">hdr\n*ACDEF\n",
    b">hdr\nACDEF**\n",
    b">hdr\nAC*DEF*\n",
    b"*\n",
    b"**\n",
    b"* *\n",
    b">hdr\n*\n",
    b">hdr\nacdef\n",
    b">hdr\nACDXEF\n",
    b">hdr\nACD-EF\n",
    b">hdr\nACD\tEF\n",
    b">hdr\nACD>EF\n",
    b"ACD>EF\n>hdr\n",
    b">hdr\nACD\x0cEF\n",
    b">hdr\nACD\x0bEF\n",
    b">hdr\nACD\x1cEF\n",
    b"\x0c\n>hdr\nACD\n",
    b">hdr\nACD\n\x0c\nEFG\n",
    b">hdr\nB\n",
    b">hdr\nACD\nEFZ\nGHI\n>second\n",
    b">hdr\nACD\n>second\nEFZ\n",
    b"123\n",
    b"1 2 3\n",
    b"0123456789\n",
    b"A1C2D3\n",
    b">hdr\n\xc2\xb2ACD\n",            # superscript two (isdigit but not 0-9)
    b">hdr\n\xd9\xa1ACD\n",            # arabic-indic digit one
    b">hdr\nACD\xc2\xa0EFG\n",         # nbsp inside
    b">hdr\n\xc2\xa0ACD\xc2\xa0\n",    # nbsp stripped at the ends
    b">hdr\nACD\xe2\x80\xa8EFG\n",     # line separator U+2028
    b"\xef\xbb\xbf>hdr\nACD\n",        # BOM before the header
    b"\xef\xbb\xbfACD\n",
    b">hdr\nACD\xff\xfeEFG\n",         # undecodable in utf-8
    b"ACDX\n\xff\n",                   # decode error beats parse error
    b">",
    b">\n>\n",
    b"> \nA\n",
    b"A",
    b"P" * 50,
    b">hdr\n" + b"ACDEFGHIKLMNPQRSTVWY\n" * 40,
    b">hdr\n" + b"ACDEFGHIKL MNPQRSTVWY 20\n" * 5 + b"*\n",
]


def random_files(n, seed):
    rnd = random.Random(seed)
    alphabet = list("ACDEFGHIKLMNPQRSTVWY" * 3 + "  \t\n\n\r>*0123456789xB-")
    out = []
    for _ in range(n):
        k = rnd.randint(0, 40)
        out.append("".join(rnd.choice(alphabet) for _ in range(k)).encode())
    # mostly well formed ones
    for _ in range(n):
        lines = []
        if rnd.random() < 0.7:
            lines.append(">sp|P%05d| something" % rnd.randint(0, 99999))
        for j in range(rnd.randint(0, 6)):
            body = "".join(rnd.choice("ACDEFGHIKLMNPQRSTVWY") for _ in range(rnd.randint(0, 30)))
            r = rnd.random()
            if r < 0.2:
                body = "%4d %s" % (j * 10 + 1, " ".join(body[i:i + 10] for i in range(0, len(body), 10)))
            elif r < 0.3:
                body = body + "*"
            elif r < 0.35:
                body = ""
            elif r < 0.4:
                body = ">" + body
            lines.append(body)
        if rnd.random() < 0.3:
            lines.append("*")
        out.append(rnd.choice(["\n", "\r\n"]).join(lines).encode())
    return out


def main():
    tmp = tempfile.mkdtemp(prefix="equiv_R1_")
    try:
        parser = SequenceFileParser()
        contents = FIXED + random_files(150, 4242)
        for idx, blob in enumerate(contents):
            path = os.path.join(tmp, "f%04d.fasta" % idx)
            with open(path, "wb") as fh:
                fh.write(blob)
            record(("silent", idx), parser.parseSeqFile, path, True)
            record(("loud", idx), parser.parseSeqFile, path)
            record(("kw", idx), parser.parseSeqFile, filename=path, silent=False)
            # repeated call on the same (stateless) object
            record(("again", idx), parser.parseSeqFile, path, silent=True)
            # a fresh parser
            record(("fresh", idx), SequenceFileParser().parseSeqFile, path, 0)

            def via_params(p=path):
                obj = SequenceParameters(sequenceFile=p)
                return (obj.get_sequence(), obj.get_length())
            if idx % 3 == 0:
                record(("SequenceParameters", idx), via_params)

        # missing file / directory / bad argument types
        record("missing", parser.parseSeqFile, os.path.join(tmp, "does_not_exist.fasta"))
        record("dir", parser.parseSeqFile, "/")
        record("none", parser.parseSeqFile, None)
        record("noargs", parser.parseSeqFile)

        # the private helpers, called directly through their mangled names
        valid = parser._SequenceFileParser__validSeq
        final = parser._SequenceFileParser__final_validation
        pieces = ["", " ", "A", "*", "1", "AC DE", "AC*", "*AC", "A*C", "**", "A**", "*A*",
                  "ACDEFGHIKLMNPQRSTVWY", "acd", "A1C2", "A-C", "A\tC", "²A", "A١",
                  "AXC", "  A  ", "12 34", "A B C * "]
        for s in pieces:
            record(("validSeq", s), valid, s)
            record(("final", s), final, s)
        for tup in itertools.product("AP* 1x", repeat=4):
            s = "".join(tup)
            record(("validSeq4", s), valid, s)
            record(("final4", s), final, s)
    finally:
        shutil.rmtree(tmp, ignore_errors=True)

    digest = hashlib.sha256()
    for item in RESULTS:
        digest.update(repr(item).replace(tmp, "<TMP>").encode("utf-8", "backslashreplace"))
    n_exc = sum(1 for r in RESULTS if r[1][0] == "exc")
    n_out = sum(1 for r in RESULTS if r[2])
    print("cases", len(RESULTS), "exceptions", n_exc, "with_output", n_out)
    kinds = sorted(set(r[1][1] for r in RESULTS if r[1][0] == "exc"))
    print("exception kinds", kinds)
    print("digest", digest.hexdigest())


if __name__ == "__main__":
    main()
