import os, sys; sys.path.insert(0, os.getcwd())
# Differential script for R3 (localcider.plots: show/save_multiple_phasePlot2, show/save_multiple_uverskyPlot2).
# Run once with cwd=/tmp/seed/R43 (changed) and once with cwd=/repo (unchanged); output must match.
os.environ["MPLBACKEND"] = "Agg"
os.environ["SOURCE_DATE_EPOCH"] = "946684800"   # reproducible pdf/ps/svg output
import contextlib
import hashlib
import shutil
import tempfile
import io
import inspect
import warnings
warnings.filterwarnings("ignore")
import logging
logging.disable(logging.CRITICAL)

import numpy as np
import matplotlib
matplotlib.use("Agg")
matplotlib.rcParams["svg.hashsalt"] = "equiv"
import matplotlib.pyplot as plt

import localcider
assert os.path.dirname(os.path.abspath(localcider.__file__)) == os.path.join(os.getcwd(), "localcider"), localcider.__file__
from localcider.sequenceParameters import SequenceParameters
from localcider.backend import plotting as backend
from localcider import plots

TMP = tempfile.mkdtemp(prefix='r43equiv')

RESULTS = []
EVENTS = []


# ---------------------------------------------------------------- helpers
class FlipFlop(object):
    """truth value alternates on every evaluation; records how often it was asked"""
    def __init__(self, first):
        self.state = first
        self.asked = 0

    def __bool__(self):
        self.asked += 1
        val = self.state
        self.state = not self.state
        return val

    def __repr__(self):
        return "FlipFlop"


class BadBool(object):
    def __bool__(self):
        raise RuntimeError("no truth value")

    def __repr__(self):
        return "BadBool"


def norm(x):
    if x is plt:
        return "<pyplot>"
    if isinstance(x, float):
        return round(x, 9)
    if isinstance(x, np.ndarray):
        return ("ndarray", x.shape, [norm(float(v)) for v in x.ravel()])
    if isinstance(x, (list, tuple)):
        return (type(x).__name__, [norm(v) for v in x])
    if isinstance(x, dict):
        return sorted((repr(k), norm(v)) for k, v in x.items())
    if isinstance(x, (FlipFlop, BadBool)):
        return repr(x)
    if isinstance(x, str) and x.startswith(TMP):
        return "<TMP>" + x[len(TMP):]
    if inspect.isgenerator(x):
        return "<generator>"
    if inspect.isfunction(x) or inspect.ismodule(x):
        return getattr(x, "__name__", "?")
    if hasattr(x, "__module__") and str(type(x).__module__).startswith("localcider"):
        return "<%s>" % type(x).__name__
    return repr(x)


def spy(modname, mod, fname):
    orig = getattr(mod, fname)
    sig = inspect.signature(orig)

    def wrapper(*a, **kw):
        try:
            bound = sig.bind(*a, **kw)
            bound.apply_defaults()
            EVENTS.append((fname, [(k, norm(v)) for k, v in bound.arguments.items()]))
        except TypeError as e:
            EVENTS.append((fname, "BIND-ERROR", str(e)))
        return orig(*a, **kw)
    setattr(mod, fname, wrapper)


for _n in ("show_single_phasePlot", "show_single_uverskyPlot", "show_multiple_phasePlot",
           "show_multiple_uverskyPlot", "save_single_phasePlot", "save_single_uverskyPlot",
           "save_multiple_phasePlot", "save_multiple_uverskyPlot", "multiple_plot", "single_plot"):
    spy("backend", backend, _n)


def _show(*a, **kw):
    EVENTS.append(("plt.show", len(plt.get_fignums())))


plt.show = _show


def fig_state():
    out = []
    for num in plt.get_fignums():
        fig = plt.figure(num)
        for ax in fig.axes:
            leg = ax.get_legend()
            out.append({
                "title": ax.get_title(),
                "xlabel": ax.get_xlabel(),
                "ylabel": ax.get_ylabel(),
                "xlim": [round(float(v), 6) for v in ax.get_xlim()],
                "ylim": [round(float(v), 6) for v in ax.get_ylim()],
                "texts": [(t.get_text(), [round(float(v), 6) for v in getattr(t, "xy", t.get_position())],
                           round(float(t.get_fontsize()), 3)) for t in ax.texts],
                "points": [[[round(float(c), 6) for c in xy] for xy in coll.get_offsets()]
                           for coll in ax.collections],
                "npatches": len(ax.patches),
                "bars": [(round(float(p.get_x()), 6), round(float(p.get_height()), 6),
                          [round(float(c), 4) for c in p.get_facecolor()], round(float(p.get_linewidth()), 4))
                         for p in ax.patches if hasattr(p, "get_height")],
                "nlines": len(ax.lines),
                "legend": None if leg is None else [t.get_text() for t in leg.get_texts()],
            })
    return out


def run(tag, fn, *a, **kw):
    plt.close("all")
    del EVENTS[:]
    buf = io.StringIO()
    try:
        with contextlib.redirect_stdout(buf):
            r = fn(*a, **kw)
        outcome = ("ret", norm(r), buf.getvalue())
    except Exception as e:   # noqa
        outcome = ("exc", type(e).__name__, str(e).replace(TMP, "<TMP>"), buf.getvalue())
    state = fig_state()
    files = []
    for nm in sorted(os.listdir(TMP)):
        full = os.path.join(TMP, nm)
        with open(full, "rb") as fh:
            data = fh.read()
        files.append((nm, len(data), data[:8], hashlib.sha256(data).hexdigest()))
        os.remove(full)
    outcome = outcome + (files,)
    flips = [(k, v.asked, v.state) for k, v in sorted(kw.items()) if isinstance(v, FlipFlop)]
    RESULTS.append((tag, outcome, list(EVENTS), state, flips))
    plt.close("all")


# ---------------------------------------------------------------- inputs
SEQS = [
    "A",
    "EK",
    "KKKKKKKKKK",
    "EEEEEDDDDD",
    "GSGSGSGSGSGSGS",
    "MEEPQSDPSVEPPLSQETFSDLWKLLPENNVLSPLPSQAMDDLMLSPDDIEQWFTEDPGPDEAPRMPEAAPPVAPAPAAPTPAAPAPAPSWPL",
    "RKRKRKRKRKRKEDEDEDEDEDWWFFYYLLIIVVMMAACCHHQQNNSSTTGGPP",
    "EKEKEKEKEKEKEKEKEKEKEKEKEKEKEKEKEKEKEKEKEKEKEKEKEK",
]
OBJS = [SequenceParameters(s) for s in SEQS]

CALLS = []


class Duck(object):
    """stand-in for a SequenceParameters object; logs the order in which it is queried"""
    def __init__(self, name, fp=0.1, fn=0.2, hy=0.4, mnc=0.3, missing=(), boom=()):
        self.name = name
        self.vals = {"get_fraction_positive": fp, "get_fraction_negative": fn,
                     "get_uversky_hydropathy": hy, "get_mean_net_charge": mnc}
        self.missing = missing
        self.boom = boom

    def __getattr__(self, attr):
        if attr in ("get_fraction_positive", "get_fraction_negative", "get_uversky_hydropathy", "get_mean_net_charge"):
            if attr in self.missing:
                raise AttributeError("%s has no %s" % (self.name, attr))

            def getter():
                CALLS.append((self.name, attr))
                if attr in self.boom:
                    raise KeyError("%s.%s exploded" % (self.name, attr))
                return self.vals[attr]
            return getter
        raise AttributeError(attr)

    def __repr__(self):
        return "Duck(%s)" % self.name


def one_shot(items):
    for it in items:
        yield it


def listings():
    """fresh SeqParam_list arguments (some are single-use iterators)"""
    return [
        ("empty", lambda: []),
        ("one", lambda: [OBJS[5]]),
        ("two", lambda: [OBJS[2], OBJS[3]]),
        ("all", lambda: list(OBJS)),
        ("tuple", lambda: tuple(OBJS[:3])),
        ("same-twice", lambda: [OBJS[6], OBJS[6]]),
        ("generator", lambda: one_shot(OBJS[1:5])),
        ("iter", lambda: iter(OBJS[:2])),
        ("ducks", lambda: [Duck("a"), Duck("b", fp=0.9, fn=0.05, hy=0.95, mnc=0.85)]),
        ("duck-out-of-range", lambda: [Duck("a"), Duck("b", fp=1.5, hy=3)]),
        ("duck-strings", lambda: [Duck("a", fp="0.3", fn="0.1", hy="0.5", mnc="0.2")]),
        ("duck-bad-string", lambda: [Duck("a", fp="abc", hy="abc")]),
        ("duck-none", lambda: [Duck("a", fp=None, fn=None, hy=None, mnc=None)]),
        # first element lacks only the second getter, second element lacks both
        ("missing-order", lambda: [Duck("a", missing=("get_fraction_negative", "get_mean_net_charge")),
                                   Duck("b", missing=("get_fraction_positive", "get_fraction_negative",
                                                      "get_uversky_hydropathy", "get_mean_net_charge"))]),
        ("boom-second-getter", lambda: [Duck("a"), Duck("b", boom=("get_fraction_negative", "get_mean_net_charge")), Duck("c")]),
        ("boom-first-getter", lambda: [Duck("a"), Duck("b", boom=("get_fraction_positive", "get_uversky_hydropathy")), Duck("c")]),
        ("not-a-seqparam", lambda: [OBJS[0], "EKEK"]),
        ("string", lambda: "EK"),
        ("none", lambda: None),
        ("int", lambda: 5),
        ("dict", lambda: {"k": OBJS[1]}),
    ]


GETFIGS = [False, True, None, 0, 1, "", "yes", [], [0]]
LABELS = [None, [], (), [""], ["a"], ["a", "b"], ("a", "b"), "ab", ["one", "two", "three"],
          ["l%d" % k for k in range(len(OBJS))], [1, 2], [None, None]]
# the first entry (None) means "do not pass label_list"; explicit None is tried separately


def call(tag, fn, *a, **kw):
    del CALLS[:]
    run(tag, fn, *a, **kw)
    RESULTS.append(("calls", tag, list(CALLS)))


SHOW = (("phase2", plots.show_multiple_phasePlot2), ("uversky2", plots.show_multiple_uverskyPlot2))
SAVE = (("phase2", plots.save_multiple_phasePlot2), ("uversky2", plots.save_multiple_uverskyPlot2))

for fname, f in SHOW:
    for lname, mk in listings():
        call((fname, lname, "default"), f, mk())
        for g in (True, False):
            call((fname, lname, "getFig", g), f, mk(), getFig=g)
            for lab in LABELS[1:]:
                call((fname, lname, "labels", repr(lab), g), f, mk(), lab, getFig=g)
            call((fname, lname, "labels-None", g), f, mk(), label_list=None, getFig=g)
            call((fname, lname, "labels-gen", g), f, mk(), label_list=one_shot(["a", "b"]), getFig=g)
    for g in GETFIGS:
        call((fname, "getFig-values", repr(g)), f, list(OBJS), getFig=g)
        call((fname, "getFig-values-empty", repr(g)), f, [], getFig=g)
    call((fname, "badbool"), f, list(OBJS), getFig=BadBool())
    call((fname, "ndarray2"), f, list(OBJS), getFig=np.array([1, 2]))
    call((fname, "flip-T"), f, list(OBJS), getFig=FlipFlop(True))
    call((fname, "flip-F"), f, list(OBJS), getFig=FlipFlop(False))
    call((fname, "positional-all"), f, OBJS[:2], ["x", "y"], "A title", False, 0.5, 0.7, 14, True)
    call((fname, "positional-all-noFig"), f, OBJS[:2], ["x", "y"], "A title", False, 0.5, 0.7, 14, False)
    for g in (True, False):
        call((fname, "opts1", g), f, OBJS[:3], title="", legendOn=False, xLim=0.3, yLim=2, fontSize=4, getFig=g)
        call((fname, "opts2", g), f, OBJS[:3], title=None, legendOn=1, xLim=-1, yLim=0, fontSize="large", getFig=g)
        call((fname, "opts-bad", g), f, OBJS[:3], xLim="wide", getFig=g)
        call((fname, "opts-badfont", g), f, OBJS[:3], fontSize="nonsense", getFig=g)
    call((fname, "unknown-kw"), f, OBJS[:2], figure=True)
    call((fname, "label-kw-wrong-name"), f, OBJS[:2], label=["a", "b"])
    call((fname, "too-many"), f, OBJS[:2], [], "t", True, 1, 1, 10, True, 5)
    call((fname, "no-args"), f)
    call((fname, "kw-only"), f, SeqParam_list=OBJS[:2], label_list=["p", "q"], getFig=True)

for fname, f in SAVE:
    for lname, mk in listings():
        call((fname, "save", lname, "default"), f, mk(), os.path.join(TMP, "out1"))
        for lab in ([], ["a", "b"], "ab", None):
            call((fname, "save", lname, "labels", repr(lab)), f, mk(), os.path.join(TMP, "out2"), lab)
    for fmt in ("png", "pdf", "svg", "ps", "jpg", "nonsense", None, 3):
        call((fname, "save", "fmt-kw", repr(fmt)), f, OBJS[:3], os.path.join(TMP, "fmt_out"), saveFormat=fmt)
        call((fname, "save", "fmt-pos", repr(fmt)), f, OBJS[:3], os.path.join(TMP, "fmt_out.dat"), ["a", "b", "c"], "T", False, 0.6, 0.8, 12, fmt)
    call((fname, "save", "bad-dir"), f, OBJS[:3], os.path.join(TMP, "no_such_dir", "x.png"))
    call((fname, "save", "filename-None"), f, OBJS[:3], None)
    call((fname, "save", "opts"), f, OBJS[:3], os.path.join(TMP, "opts.png"), title="", legendOn=False, xLim=0.3, yLim=2, fontSize=4)
    call((fname, "save", "kw-only"), f, SeqParam_list=OBJS[:2], filename=os.path.join(TMP, "kw.png"), label_list=["p", "q"])
    call((fname, "save", "unknown-kw"), f, OBJS[:2], os.path.join(TMP, "u.png"), getFig=True)
    call((fname, "save", "too-many"), f, OBJS[:2], os.path.join(TMP, "u.png"), [], "t", True, 1, 1, 10, "png", 1)
    call((fname, "save", "no-filename"), f, OBJS[:2])
    # overwrite an existing file
    with open(os.path.join(TMP, "exists.png"), "w") as fh:
        fh.write("old content")
    call((fname, "save", "overwrite"), f, OBJS[:2], os.path.join(TMP, "exists.png"))

# SequenceParameters objects are not modified by being plotted
for i, obj in enumerate(OBJS):
    RESULTS.append(("state", i, obj.get_sequence(), norm(obj.get_FCR()), norm(obj.get_NCPR()), sorted(vars(obj).keys())))

for nm in ("show_multiple_phasePlot2", "save_multiple_phasePlot2", "show_multiple_uverskyPlot2", "save_multiple_uverskyPlot2",
           "show_multiple_phasePlot", "save_multiple_phasePlot", "show_multiple_uverskyPlot", "save_multiple_uverskyPlot"):
    fobj = getattr(plots, nm)
    RESULTS.append(("sig", nm, str(inspect.signature(fobj)), repr(fobj.__defaults__)))

shutil.rmtree(TMP, ignore_errors=True)

blob = repr(RESULTS).encode("utf-8")
print("records:", len(RESULTS))
print("exceptions:", sum(1 for r in RESULTS if len(r) > 1 and isinstance(r[1], tuple) and r[1] and r[1][0] == "exc"))
print("returned-fig:", sum(1 for r in RESULTS if len(r) > 1 and isinstance(r[1], tuple) and r[1][:2] == ("ret", "<pyplot>")))
print("files-written:", sum(len(r[1][-1]) for r in RESULTS if len(r) > 1 and isinstance(r[1], tuple) and r[1] and r[1][0] in ("ret", "exc")))
print("digest:", hashlib.sha256(blob).hexdigest())
