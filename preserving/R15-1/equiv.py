"""
Differential script: run once with cwd=/tmp/seed/R15 (changed tree) and once
with cwd=/repo (unchanged tree); the printed output must be identical.

    cd /tmp/seed/R15 && /venv/bin/python /tmp/seed/R15_out/RX/equiv.py > /tmp/new.txt
    cd /repo         && /venv/bin/python /tmp/seed/R15_out/RX/equiv.py > /tmp/old.txt
    diff /tmp/old.txt /tmp/new.txt
"""
import os
import sys
sys.path.insert(0, os.getcwd())
sys.dont_write_bytecode = True

import io
import random
import hashlib
import contextlib

import numpy as np

from localcider.backend.sequenceComplexity import SequenceComplexity
from localcider.backend.sequence import Sequence
from localcider.sequenceParameters import SequenceParameters

AAS = 'RHKDESTNQCGPAILMFWYV'
SIZES = [2, 3, 4, 5, 6, 8, 10, 11, 12, 15, 18, 20]

H = hashlib.sha256()
NREC = [0]


def canon(v):
    """deterministic, type-preserving text form of a result"""
    if isinstance(v, np.ndarray):
        return 'ndarray(%s,%s,%s)' % (v.dtype, v.shape, [canon(x) for x in v.ravel().tolist()])
    if isinstance(v, (np.floating, np.integer)):
        return '%s:%r' % (type(v).__name__, v.item())
    if isinstance(v, float):
        return 'float:%s' % v.hex()
    if isinstance(v, bool):
        return 'bool:%r' % v
    if isinstance(v, int):
        return 'int:%r' % v
    if isinstance(v, str):
        return 'str:%r' % v
    if isinstance(v, tuple):
        return 'tuple(' + ','.join(canon(x) for x in v) + ')'
    if isinstance(v, list):
        return 'list[' + ','.join(canon(x) for x in v) + ']'
    if v is None:
        return 'None'
    return '%s:%r' % (type(v).__name__, v)


def rec(label, fn, *args, **kwargs):
    """call fn, record its result or the exception type (+ message for the
    library's own exceptions), and everything it printed"""
    out = io.StringIO()
    try:
        with contextlib.redirect_stdout(out):
            r = fn(*args, **kwargs)
        res = 'OK ' + canon(r)
    except Exception as e:
        name = type(e).__name__
        if name in ('SequenceException', 'SequenceComplexityException'):
            res = 'EXC %s %s' % (name, e)
        else:
            res = 'EXC %s' % name
    line = '%s => %s | stdout=%r' % (label, res, out.getvalue())
    H.update(line.encode('utf8'))
    H.update(b'\n')
    NREC[0] += 1
    return line


def section(name, lines, show=3):
    h = hashlib.sha256('\n'.join(lines).encode('utf8')).hexdigest()
    print('%-28s n=%5d  %s' % (name, len(lines), h))
    for l in lines[:show]:
        print('    ' + l[:160])


rng = random.Random(20240615)


def rseq(n, letters=AAS):
    return ''.join(rng.choice(letters) for _ in range(n))


SEQS = ['', 'A', 'K', 'AK', 'AAAAAAAAAAAA', 'GGGGGSSSSS', 'EKEKEKEKEKEKEKEK', AAS, AAS * 3,
        rseq(7), rseq(15), rseq(40), rseq(101), rseq(30, 'AG'), rseq(33, 'DEKR'),
        rseq(25, 'LVIMC'), rseq(50, 'HPC'), rseq(24, 'STNQ')]
ODD = ['XBZ', 'AXKB', 'akde', 'A-K E', 'ACDEFGHIKLMNPQRSTVWYXBZUOJ*', 'lvimHP', 'H' * 12, 'P' * 12, 'éAK']

SC = SequenceComplexity()

# ---------------------------------------------------------------- reduce_alphabet
lines = []
for s in SEQS + ODD:
    for a in SIZES + [1, 7, 0, -2, 21, '5', '8', ' 12 ', 'x', '', 2.0, 5.9, True, None, [2], (3,)]:
        lines.append(rec('reduce(%r,%r)' % (s, a), SC.reduce_alphabet, s, a))
    lines.append(rec('reduce(%r)' % s, SC.reduce_alphabet, s))
# list / tuple input of one-letter strings (and some multi-letter / empty items)
for s in [list('AKDEHPLV'), tuple(AAS), ['A', 'KK', 'H', ''], ['', 'P', 'H'], []]:
    for a in SIZES:
        lines.append(rec('reduce(%r,%r)' % (s, a), SC.reduce_alphabet, s, a))
# returned alphabet must be a fresh list every time (caller may mutate it)
for a in SIZES:
    def fresh(a=a):
        r1 = SC.reduce_alphabet(AAS, a)
        r1[1].append('?')
        r1[1][0] = '!'
        r2 = SequenceComplexity().reduce_alphabet(AAS, a)
        r3 = SC.reduce_alphabet(AAS, a)
        return (r1, r2, r3, r2[1] is r3[1])
    lines.append(rec('reduce-fresh(%r)' % a, fresh))
# user alphabets
UA_ok = dict((x, 'A' if x in 'LVIMCAGSTP' else 'E') for x in AAS)
UA_id = dict((x, x) for x in AAS)
UA_missing = dict((x, 'A') for x in AAS[:-1])
UA_badval = dict(UA_ok, K='k')
UA_extra = dict(UA_ok, X='A')
for ua in [UA_ok, UA_id, UA_missing, UA_badval, UA_extra, {}, [1], ['A'], 'AB', (), None, 5]:
    for s in ['', AAS, 'AKX', rseq(20)]:
        for a in [20, 5, 7, 'q']:
            lines.append(rec('reduce-ua(%r,%r,%s)' % (s, a, sorted(ua.items()) if isinstance(ua, dict) else repr(ua)),
                             SC.reduce_alphabet, s, a, ua))
section('reduce_alphabet', lines)

# ---------------------------------------------------------------- CWF / LC / LZW (direct)
ALPHS = [list(AAS), ['L', 'E'], ['L', 'A', 'F', 'E', 'K'], ['A'], [], ('L', 'E', 'K'), 'LE', ['AK', 'E'], ['L', 'L', 'E']]
WIN = [1, 2, 3, 5, 10, 11, 40, 41, 0, -1, -3]
STEP = [1, 2, 3, 7, 50]
lines = []
for s in SEQS[:14] + ['XBZXBZ', list('AKAKDDEE'), ['L', 'E', 'LE', 'E']]:
    for al in ALPHS:
        for w in WIN:
            for st in STEP:
                lines.append(rec('CWF(%r,%r,%r,%r)' % (s, al, w, st), SC.CWF, s, al, w, st))
for bad in [(AAS, ['L', 'E'], 2.0, 1), (AAS, ['L', 'E'], None, 1), (AAS, None, 3, 1), (AAS, 5, 3, 1), (None, ['L'], 3, 1),
            (AAS, ['L', 'E'], 3, 1.5), (AAS, ['L', 'E'], np.int64(4), np.int64(2)), (AAS, iter(['L', 'E']), 50, 1),
            (AAS, iter(['L', 'E']), 5, 1), (AAS, ['L', 5], 5, 1), (AAS, 5, 50, 1), (AAS, [], 0, 1), ('', [], 0, 1)]:
    lines.append(rec('CWF-bad%r' % (bad[:1] + bad[2:],), SC.CWF, *bad))
section('CWF', lines)

lines = []
for s in SEQS[:14] + ['XBZXBZ', list('AKAKDDEE'), ['L', 'E', 'LE', 'E']]:
    for al in ALPHS[:7]:
        for w in WIN:
            for st in [1, 2, 7, 50]:
                for ws in [1, 2, 3, 5, 10, 0, -1, -4]:
                    lines.append(rec('LC(%r,%r,%r,%r,%r)' % (s, al, w, st, ws), SC.LC, s, al, w, st, ws))
for bad in [(AAS, ['L', 'E'], 2.0, 1, 3), (AAS, ['L', 'E'], None, 1, 3), (AAS, None, 3, 1, 3), (AAS, None, 30, 1, 3), (None, ['L'], 3, 1, 3),
            (AAS, ['L', 'E'], 5, 1, None), (AAS, ['L', 'E'], 50, 1, None), (AAS, ['L', 'E'], 5, 1, 2.0), (AAS, ['L', 'E'], 5, 1, 1.5),
            (AAS, [], 5, 1, -1), (AAS, [], 50, 1, -1), (AAS, [], 5, 1, 0), (AAS, ['A'], 1, 1, 0), (AAS, ['A'], 0, 1, 1),
            (AAS, ['A', 'B'], -1, 1, 1), (AAS, ['A', 'B'], -1, 1, 2), (AAS, ['L', 'E'], np.int64(6), np.int64(2), np.int64(2)),
            (AAS, 7, 5, 1, 2), (AAS, 7, 50, 1, 2), (AAS, ['L', 'E'], 5, 1, 'a'), (AAS, ['L', 'E'], 50, 1, 'a'),
            (AAS, ['L', 'E'], 2, 1.5, 3), (AAS, ['L', 'E'], 4, 1.5, 3), (AAS, ['L', 'E'], 4, 2.0, 2), (AAS, [], 5, 1, -1.5),
            (AAS, [], 50, 1, -1.5), (set(AAS), [], 5, 1, -1), (set(AAS), ['L'], 5, 1, 2), ([1, 2, 3, 4], ['L', 'E'], 3, 1, 1),
            (AAS, ['L', 'E'], 5, 1, 5.0), (AAS, ['L', 'E'], 5.0, 1, 2), (AAS, ['L', 'E'], 5.0, 1, 2.0)]:
    lines.append(rec('LC-bad%r' % (bad[1:],), SC.LC, *bad))
section('LC', lines)

lines = []
for s in SEQS[:14] + ['XBZXBZ', list('AKAKDDEE'), ['L', 'E', 'LE', 'E']]:
    for al in [list(AAS), [], None]:
        for w in WIN:
            for st in STEP:
                lines.append(rec('LZW(%r,%r,%r,%r)' % (s, al, w, st), SC.LZW, s, al, w, st))
for bad in [(AAS, [], 2.0, 1), (AAS, [], None, 1), (None, [], 3, 1), (AAS, [], 3, 1.5), (AAS, [], -1.5, 1), ([1, 2, 3], [], 2, 1),
            (AAS, [], 0, 1.5), (AAS, [], -2, 2.5), (AAS, [], np.int64(4), np.int64(3)), (set(AAS), [], 3, 1), (['AK', 'A', 'K', 'AK', 'A', 'K'], [], 4, 1)]:
    lines.append(rec('LZW-bad%r' % (bad[1:],), SC.LZW, *bad))
section('LZW', lines)

# ---------------------------------------------------------------- get_*_complexity on SequenceComplexity
lines = []
for rep in range(2):            # twice: repeated calls (warm caches) must agree with cold ones
    for s in SEQS + ODD[:4]:
        for a in [2, 5, 8, 12, 20, 7, '4', 3.0, None]:
            for w in [1, 3, 10, 25]:
                for st in [1, 3]:
                    lines.append(rec('SC.WF(%r,%r,%r,%r)#%d' % (s, a, w, st, rep), SC.get_WF_complexity, s, a, {}, w, st))
                    lines.append(rec('SC.LZW(%r,%r,%r,%r)#%d' % (s, a, w, st, rep), SC.get_LZW_complexity, s, a, {}, w, st))
                    for ws in [1, 3]:
                        lines.append(rec('SC.LC(%r,%r,%r,%r,%r)#%d' % (s, a, w, st, ws, rep), SC.get_LC_complexity, s, a, {}, w, st, ws))
    for ua in [UA_ok, UA_id, UA_missing, UA_badval, [1], 'AB', None]:
        for s in [AAS, rseq(30), 'AKX']:
            lines.append(rec('SC.WF-ua#%d' % rep, SC.get_WF_complexity, s, 20, ua, 5, 1))
            lines.append(rec('SC.LC-ua#%d' % rep, SC.get_LC_complexity, s, 20, ua, 5, 1, 2))
            lines.append(rec('SC.LZW-ua#%d' % rep, SC.get_LZW_complexity, s, 20, ua, 5, 1))
    # a user alphabet that is mutated between calls
    ua = dict(UA_ok)
    lines.append(rec('SC.WF-mut-a#%d' % rep, SC.get_WF_complexity, AAS * 2, 20, ua, 6, 1))
    ua['L'] = 'E'
    lines.append(rec('SC.WF-mut-b#%d' % rep, SC.get_WF_complexity, AAS * 2, 20, ua, 6, 1))
    # list input, defaults
    lines.append(rec('SC.WF-list#%d' % rep, SC.get_WF_complexity, list(AAS), 5, {}, 4, 1))
    lines.append(rec('SC.WF-defaults#%d' % rep, SC.get_WF_complexity, AAS * 2))
    lines.append(rec('SC.LC-defaults#%d' % rep, SC.get_LC_complexity, AAS * 2))
    lines.append(rec('SC.LZW-defaults#%d' % rep, SC.get_LZW_complexity, AAS * 2))
    lines.append(rec('SC.LZW-kw#%d' % rep, SC.get_LZW_complexity, sequence=AAS * 2, stepSize=2, windowSize=7, alphabetSize=6))
# many distinct sequences (exercise any bounded cache) then revisit the early ones
many = [rseq(12 + (i % 9)) for i in range(700)]
for s in many + many[:50]:
    lines.append(rec('SC.many(%r)' % s, SC.get_WF_complexity, s, 4, {}, 5, 2))
    lines.append(rec('SC.many-r(%r)' % s, SC.reduce_alphabet, s, 4))
section('SC.get_*_complexity', lines)

lines = []
for cv, n in [([0.5, 0.25], 10), ([1], 1), ([], 5), ([0.1] * 7, 7), ([0.1] * 3, 11), ([0.1] * 4, 11), ([1, 2, 3], 2), ([1.0], 0),
              (np.array([0.5, 1.5]), 9), ([0.1] * 3, 10.5), ((1, 2), 5)]:
    lines.append(rec('indexed(%r,%r)' % (cv, n), SC.get_indexed_complexity_vector, cv, n))
section('get_indexed_complexity_vector', lines)

# ---------------------------------------------------------------- Sequence / SequenceParameters
lines = []
for s in [x for x in SEQS if x] + ['akdeLVIM', 'AXKBZ']:
    for make in ('Sequence', 'SequenceParameters'):
        try:
            with contextlib.redirect_stdout(io.StringIO()):
                obj = Sequence(s) if make == 'Sequence' else SequenceParameters(s)
        except Exception as e:
            lines.append('%s(%r) ctor EXC %s' % (make, s, type(e).__name__))
            continue
        for rep in range(2):
            if make == 'Sequence':
                for a in SIZES + [7, '5', 'zz', None]:
                    lines.append(rec('S.reduced(%r,%r)#%d' % (s, a, rep), obj.get_reducedAlphabetSequence, a))
                lines.append(rec('S.reduced-ua(%r)#%d' % (s, rep), obj.get_reducedAlphabetSequence, 20, UA_ok))
                lines.append(rec('S.reduced-default(%r)#%d' % (s, rep), obj.get_reducedAlphabetSequence))
                for a in [2, 6, 20, 9]:
                    for w in [1, 4, 10, 16, 200]:
                        for st in [1, 4]:
                            lines.append(rec('S.WF(%r,%r,%r,%r)#%d' % (s, a, w, st, rep), obj.get_linear_WF_complexity, a, {}, w, st))
                            lines.append(rec('S.LZW(%r,%r,%r,%r)#%d' % (s, a, w, st, rep), obj.get_linear_LZW_complexity, a, {}, w, st))
                            for ws in [2, 3, 12]:
                                lines.append(rec('S.LC(%r,%r,%r,%r,%r)#%d' % (s, a, w, st, ws, rep), obj.get_linear_LC_complexity, a, {}, w, st, ws))
                lines.append(rec('S.WF-default(%r)#%d' % (s, rep), obj.get_linear_WF_complexity))
                lines.append(rec('S.LC-default(%r)#%d' % (s, rep), obj.get_linear_LC_complexity))
                lines.append(rec('S.LZW-default(%r)#%d' % (s, rep), obj.get_linear_LZW_complexity))
                lines.append(rec('S.WF-ua(%r)#%d' % (s, rep), obj.get_linear_WF_complexity, 20, UA_ok, 3, 1))
                lines.append(rec('S.state(%r)#%d' % (s, rep), lambda o=obj: (o.seq, o.len, sorted(k for k in vars(o) if not k.startswith('_')))))
            else:
                for a in SIZES + [7, '5', 'zz']:
                    lines.append(rec('SP.reduced(%r,%r)#%d' % (s, a, rep), obj.get_reduced_alphabet_sequence, a))
                lines.append(rec('SP.reduced-ua(%r)#%d' % (s, rep), obj.get_reduced_alphabet_sequence, userAlphabet=UA_ok))
                for ct in ['WF', 'LC', 'LZW', 'wf', 'lc', 'Lzw', 'RHP', 'XX', None, 5, '']:
                    for a in [20, 5]:
                        for w in [10, 3, 300]:
                            for st in [1, 3]:
                                for ws in [3, 2]:
                                    lines.append(rec('SP.lin(%r,%r,%r,%r,%r,%r)#%d' % (s, ct, a, w, st, ws, rep), obj.get_linear_complexity,
                                                     complexityType=ct, alphabetSize=a, blobLen=w, stepSize=st, wordSize=ws))
                lines.append(rec('SP.lin-default(%r)#%d' % (s, rep), obj.get_linear_complexity))
                lines.append(rec('SP.lin-ua(%r)#%d' % (s, rep), obj.get_linear_complexity, 'LC', 20, UA_ok, 4, 1, 2))
                lines.append(rec('SP.lin-badua(%r)#%d' % (s, rep), obj.get_linear_complexity, 'WF', 20, UA_missing, 4, 1, 3))
# two different objects with the same / different sequence must not interfere
a1, a2, a3 = Sequence('AKDEAKDELLVVHHPP'), Sequence('AKDEAKDELLVVHHPP'), Sequence('LLVVHHPPAKDEAKDE')
for o, nm in ((a1, 'a1'), (a2, 'a2'), (a3, 'a3'), (a1, 'a1')):
    for a in [3, 8, 20]:
        lines.append(rec('multi %s reduced %r' % (nm, a), o.get_reducedAlphabetSequence, a))
        lines.append(rec('multi %s WF %r' % (nm, a), o.get_linear_WF_complexity, a, {}, 5, 1))
        lines.append(rec('multi %s LC %r' % (nm, a), o.get_linear_LC_complexity, a, {}, 6, 2, 2))
        lines.append(rec('multi %s LZW %r' % (nm, a), o.get_linear_LZW_complexity, a, {}, 6, 2))
section('Sequence/SequenceParameters', lines)

print('records', NREC[0])
print('DIGEST', H.hexdigest())
