"""
Differential check for the sequence.py profile/SCD refactorings.

Run once with cwd=/tmp/seed/R13 (changed tree) and once with cwd=/repo
(unchanged tree); the printed output must be identical.

    cd /tmp/seed/R13 && /venv/bin/python /tmp/seed/R13_out/RX/equiv.py > new.txt
    cd /repo         && /venv/bin/python /tmp/seed/R13_out/RX/equiv.py > old.txt
"""
import os
import sys

sys.path.insert(0, os.getcwd())

import contextlib
import hashlib
import io
import random
import warnings

import numpy as np

warnings.simplefilter("ignore")

from localcider.backend.sequence import Sequence
from localcider.sequenceParameters import SequenceParameters

AAS = "ACDEFGHIKLMNPQRSTVWY"

RECORDS = []
SECTION = {}


def describe(val):
    """Deterministic, type-sensitive description of a result."""
    if isinstance(val, np.ndarray) and val.dtype == object:
        return "ndarray(object,%s,%r)" % (val.shape, val.tolist())
    if isinstance(val, np.ndarray):
        return "ndarray(%s,%s,%s)" % (val.dtype, val.shape,
                                      hashlib.sha256(np.ascontiguousarray(val).tobytes()).hexdigest()[:20])
    if isinstance(val, (tuple, list)):
        return "%s[%s]" % (type(val).__name__, ",".join(describe(v) for v in val))
    if isinstance(val, dict):
        return "dict{%s}" % ",".join("%r:%s" % (k, describe(val[k])) for k in sorted(val))
    if isinstance(val, (float, np.floating)):
        return "%s(%s)" % (type(val).__name__, float(val).hex() if val == val else "nan")
    return "%s(%r)" % (type(val).__name__, val)


def state(obj):
    """Public state of a Sequence object."""
    if isinstance(obj, SequenceParameters):
        obj = obj.SeqObj
    return "seq=%r len=%r dmax=%r cp=%s phos=%r" % (
        obj.seq, obj.len, obj.dmax, describe(obj.chargePattern), obj.phosphosites)


def call(section, label, fn, *args, **kwargs):
    out = io.StringIO()
    try:
        with contextlib.redirect_stdout(out):
            res = fn(*args, **kwargs)
        desc = "OK " + describe(res)
    except Exception as e:  # noqa
        desc = "EXC %s: %s" % (type(e).__name__, e)
    line = "%s | %s | %s | out=%r" % (section, label, desc, out.getvalue())
    RECORDS.append(line)
    SECTION.setdefault(section, hashlib.sha256()).update(line.encode("utf-8", "backslashreplace"))
    return desc


def note(section, label, text):
    line = "%s | %s | %s" % (section, label, text)
    RECORDS.append(line)
    SECTION.setdefault(section, hashlib.sha256()).update(line.encode("utf-8", "backslashreplace"))


# --------------------------------------------------------------------------
# inputs
# --------------------------------------------------------------------------
rnd = random.Random(1313)

seqs = ["", "A", "K", "E", "KE", "EK", "AG", "GGGGGGGGGG", "KKKKKKKK", "EEEEEEEE",
        "EKEKEKEKEKEKEKEK", "EEEEEEEEKKKKKKKK", "kkeeddrr", "MdErKsT",
        "AAAAAKAAAAA", "PPPPPPPPPPPPPPPPPPPP",
        "MEEPQSDPSVEPPLSQETFSDLWKLLPENNVLSPLPSQAMDDLMLSPDDIEQWFTEDPGPDEAPRMPEAAPPVAPAPAAPTPAAPAPAPSWPL",
        "AXA", "BZJ", "GK*EA", "A A", "ßA", "ß", "KU", "AK-E", "1234"]
for n in (2, 3, 4, 5, 6, 7, 9, 10, 11, 17, 30, 41, 64):
    seqs.append("".join(rnd.choice(AAS) for _ in range(n)))
    seqs.append("".join(rnd.choice("GSNQAP") for _ in range(n)))       # all neutral
    seqs.append("".join(rnd.choice("KRDE") for _ in range(n)))         # all charged
    seqs.append("".join(rnd.choice("KRDEGS") for _ in range(n)))


def windows(n):
    ws = [-3, -2, -1, 0, 1, 2, 3, 4, 5, 6, 7, 10, n - 2, n - 1, n, n + 1, n + 2, n + 7, 2 * n]
    seen = []
    for w in ws:
        if w not in seen:
            seen.append(w)
    return seen + [5.0, 2.5, np.int64(3), np.int32(2), True, False, None, "3", [2]]


targets = [['E', 'D'], ['R', 'K'], ('R', 'K', 'E', 'D'), {'Q', 'N', 'S', 'T', 'G', 'H', 'C'},
           "AILMV", ['F', 'Y', 'W'], ['P'], [], "", ['X'], ['e', 'd'], frozenset("KR"),
           {'K': 1}, [['K']], ['KE'], "KE", 5, None, ['A', 'A', 'A'], list(AAS)]

groups = [None, [], [['E', 'D'], ['R', 'K']], [['e', 'd'], ['r', 'k'], ['p']], [['P']],
          ["ED", "RK", "QNST"], [['E', 'D'], ['X']], [['E', 1]], [[1, 2]], [5], ["", "A"],
          [[]], [['A'], []], ('ED',), [set("ED"), frozenset("KR")], 5]

# --------------------------------------------------------------------------
# 1. per-sequence sweeps on backend Sequence objects
# --------------------------------------------------------------------------
for s in seqs:
    try:
        obj = Sequence(s)
    except Exception as e:  # noqa
        note("ctor", repr(s), "EXC %s: %s" % (type(e).__name__, e))
        continue
    tag = repr(s)
    note("ctor", tag, state(obj))

    # SCD, repeatedly on the same object
    for rep in range(3):
        call("scd", "%s#%d" % (tag, rep), obj.sequence_charge_decoration)

    for w in windows(len(s)):
        wl = "%s w=%r" % (tag, w)
        call("ncpr", wl, obj.linearDistOfNCPR, w)
        call("fcr", wl, obj.linearDistOfFCR, w)
        call("sigma", wl, obj.linearDistOfSigma, w)
        call("hydro", wl, obj.linearDistOfHydropathy, w)
        call("hydro2", wl, obj.linearDistOfHydropathy_2, w)
        # repeated call must give the same thing
        call("ncpr", wl + " again", obj.linearDistOfNCPR, w)
        call("hydro", wl + " again", obj.linearDistOfHydropathy, w)

    for w in (-1, 0, 1, 2, 3, 5, len(s), len(s) + 1, 4.0):
        for t in targets:
            call("dens", "%s w=%r t=%r" % (tag, w, t if not isinstance(t, (set, frozenset)) else sorted(t)),
                 obj.linearDenistyOfAAs, w, t)

    for w in (0, 1, 2, 5, len(s), len(s) + 1):
        for g in groups:
            gl = "%s w=%r g=%r" % (tag, w, g if not isinstance(g, list) or not any(isinstance(x, (set, frozenset)) for x in g) else "sets")
            if g is None:
                # default (mutable!) argument, called twice
                call("comp", gl + " default", obj.linearCompositions, w)
                call("comp", gl + " default2", obj.linearCompositions, w)
            else:
                import copy
                gg = copy.deepcopy(g)
                call("comp", gl, obj.linearCompositions, w, gg)
                note("comp", gl + " arg-after", repr(gg) if "sets" not in gl else "sets")

    note("state", tag, state(obj))
    note("state-keys", tag, repr(sorted(k for k in vars(obj) if not k.startswith("_"))))

# --------------------------------------------------------------------------
# 2. user supplied charge patterns (arrays, lists, wrong lengths, odd values),
#    in-place mutation between calls, attribute reassignment
# --------------------------------------------------------------------------
base = "EKGSEDKRAAPGKE"
n = len(base)
patterns = {
    "int-array": np.array([-1, 1, 0, 0, -1, -1, 1, 1, 0, 0, 0, 0, 1, -1]),
    "float-array": np.array([-1., 1, 0, 0, -1, -1, 1, 1, 0, 0, 0, 0, 1, -1]),
    "float32": np.array([-1., 1, 0, 0, -1, -1, 1, 1, 0, 0, 0, 0, 1, -1], dtype=np.float32),
    "frac": np.array([-0.5, 0.25, 0, 0, -1, -0.1, 0.3, 1, 0, 0, 1e-3, 0, 0.9, -1]),
    "int8": np.array([-1, 1, 0, 0, -1, -1, 1, 1, 0, 0, 0, 0, 1, -1], dtype=np.int8),
    "bool": np.array([1, 1, 0, 0, 1, 1, 1, 1, 0, 0, 0, 0, 1, 1], dtype=bool),
    "zeros": np.zeros(n),
    "negzeros": -np.zeros(n),
    "izeros": np.zeros(n, dtype=int),
    "ones": np.ones(n),
    "nan": np.array([-1., 1, 0, np.nan, -1, -1, 1, 1, 0, 0, 0, 0, 1, -1]),
    "inf": np.array([-1., 1, 0, np.inf, -1, -1, 1, 1, 0, 0, 0, 0, 1, 0]),
    "big": np.array([1e200, -1e200, 0, 0, 1e-200, -1e-200, 1, 1, 0, 0, 0, 0, 1, -1]),
    "short": np.array([-1, 1, 0, 0, -1]),
    "one": np.array([1]),
    "long": np.array([-1, 1, 0, 0, -1, -1, 1, 1, 0, 0, 0, 0, 1, -1, 1, 1, -1, 1]),
    "list": [-1, 1, 0, 0, -1, -1, 1, 1, 0, 0, 0, 0, 1, -1],
    "flist": [-1., 1., 0., 0., -1., -1., 1., 1., 0., 0., 0., 0., 1., -1.],
    "tuple": (-1, 1, 0, 0, -1, -1, 1, 1, 0, 0, 0, 0, 1, -1),
    "shortlist": [1, -1],
    "strlist": ['-1', '1', '0', '0', '-1', '-1', '1', '1', '0', '0', '0', '0', '1', '-1'],
    "badlist": [None, 'x', 0, 0, -1, -1, 1, 1, 0, 0, 0, 0, 1, -1],
    "objarr": np.array([-1, 1, 0, 0, -1, -1, 1, 1, 0, 0, 0, 0, 1, None], dtype=object),
    "strarr": np.array(['-1', '1', '0', '0', '-1', '-1', '1', '1', '0', '0', '0', '0', '1', '-1']),
    "2d": np.array([[-1, 1, 0, 0, -1, -1, 1], [1, 0, 0, 0, 0, 1, -1]]),
    "2d-14": np.vstack([np.arange(2) - 0.5] * 14),
    "complex": np.array([-1, 1, 0, 0, -1, -1, 1, 1, 0, 0, 0, 0, 1, -1], dtype=complex),
}
for name in patterns:
    pat = patterns[name]
    try:
        obj = Sequence(base, -1, pat)
    except Exception as e:  # noqa
        note("pat-ctor", name, "EXC %s: %s" % (type(e).__name__, e))
        continue
    note("pat-ctor", name, state(obj))
    for rep in range(2):
        call("pat-scd", "%s#%d" % (name, rep), obj.sequence_charge_decoration)
    for w in (-1, 0, 1, 2, 3, 5, 6, n - 1, n, n + 1):
        call("pat-ncpr", "%s w=%d" % (name, w), obj.linearDistOfNCPR, w)
        call("pat-fcr", "%s w=%d" % (name, w), obj.linearDistOfFCR, w)
        call("pat-sigma", "%s w=%d" % (name, w), obj.linearDistOfSigma, w)
        call("pat-dens", "%s w=%d" % (name, w), obj.linearDenistyOfAAs, w, ['E', 'K'])
        call("pat-hydro", "%s w=%d" % (name, w), obj.linearDistOfHydropathy, w)
    note("pat-state", name, state(obj))

# unusual residues only get past the constructor with a supplied pattern
for s in ("AXKEB", "xkeZ*", "A KE\n", "KEU", "ßKE", "K.E-A"):
    for pat in (np.array([0, 0, 1, -1, 0]), np.array([0, 1, -1]), np.zeros(len(s.upper()))):
        tag = "%r/%d" % (s, len(pat))
        try:
            obj = Sequence(s, -1, pat)
        except Exception as e:  # noqa
            note("odd-ctor", tag, "EXC %s: %s" % (type(e).__name__, e))
            continue
        note("odd-ctor", tag, state(obj))
        call("odd", tag + " scd", obj.sequence_charge_decoration)
        for w in (0, 1, 2, 3, 4, 5, 6, 7):
            call("odd", tag + " ncpr %d" % w, obj.linearDistOfNCPR, w)
            call("odd", tag + " fcr %d" % w, obj.linearDistOfFCR, w)
            call("odd", tag + " sigma %d" % w, obj.linearDistOfSigma, w)
            call("odd", tag + " hydro %d" % w, obj.linearDistOfHydropathy, w)
            call("odd", tag + " dens %d" % w, obj.linearDenistyOfAAs, w, ['X', 'K', '*', ' '])
            call("odd", tag + " comp %d" % w, obj.linearCompositions, w, [['K'], ['E', 'A']])
            call("odd", tag + " comp default %d" % w, obj.linearCompositions, w)

# in-place mutation / reassignment between SCD calls
obj = Sequence("EKEKGGGGDDRRKKEE")
call("mut", "0", obj.sequence_charge_decoration)
obj.chargePattern[3] = 1
call("mut", "1 cp[3]=1", obj.sequence_charge_decoration)
call("mut", "1 ncpr", obj.linearDistOfNCPR, 4)
call("mut", "1 sigma", obj.linearDistOfSigma, 4)
obj.chargePattern[3] = 0
call("mut", "2 cp[3]=0", obj.sequence_charge_decoration)
obj.chargePattern[0] = 0.0
call("mut", "3 cp[0]=0", obj.sequence_charge_decoration)
obj.chargePattern = obj.chargePattern.astype(np.float32)
call("mut", "4 float32", obj.sequence_charge_decoration)
obj.chargePattern = obj.chargePattern.astype(int)
call("mut", "5 int", obj.sequence_charge_decoration)
obj.chargePattern = -obj.chargePattern
call("mut", "6 negated", obj.sequence_charge_decoration)
obj.chargePattern = obj.chargePattern[::-1]
call("mut", "7 reversed view", obj.sequence_charge_decoration)
obj.chargePattern = obj.chargePattern * 0.5
call("mut", "8 halves", obj.sequence_charge_decoration)
obj.len = 8
call("mut", "9 len=8", obj.sequence_charge_decoration)
call("mut", "9 ncpr", obj.linearDistOfNCPR, 3)
call("mut", "9 fcr", obj.linearDistOfFCR, 3)
call("mut", "9 sigma", obj.linearDistOfSigma, 3)
call("mut", "9 dens", obj.linearDenistyOfAAs, 3, "EK")
call("mut", "9 hydro", obj.linearDistOfHydropathy, 3)
obj.len = 16
obj.seq = "GGGGGGGGGGGGGGGG"
call("mut", "10 seq=G16", obj.sequence_charge_decoration)
call("mut", "10 dens", obj.linearDenistyOfAAs, 3, "G")
call("mut", "10 hydro", obj.linearDistOfHydropathy, 3)
call("mut", "10 comp", obj.linearCompositions, 3, [['G'], ['E']])
obj.seq = "GGGGGGGG"
call("mut", "11 seq=G8 (len 16)", obj.linearDenistyOfAAs, 3, "G")
call("mut", "11 hydro", obj.linearDistOfHydropathy, 3)
call("mut", "11 ncpr", obj.linearDistOfNCPR, 3)
obj.seq = "GGGGGGGGGGGGGGGGGGGGGGGG"
call("mut", "12 seq=G24 (len 16)", obj.linearDenistyOfAAs, 3, "G")
call("mut", "12 dens w=20", obj.linearDenistyOfAAs, 20, "G")
call("mut", "12 dens w=17", obj.linearDenistyOfAAs, 17, "G")
call("mut", "12 hydro", obj.linearDistOfHydropathy, 3)
call("mut", "12 hydro w=20", obj.linearDistOfHydropathy, 20)
call("mut", "12 ncpr w=20", obj.linearDistOfNCPR, 20)
call("mut", "12 fcr w=17", obj.linearDistOfFCR, 17)
call("mut", "12 sigma w=18", obj.linearDistOfSigma, 18)
note("mut", "state", state(obj))

# two distinct objects with same / different patterns, interleaved
a = Sequence("EEEEKKKK")
b = Sequence("EKEKEKEK")
c = Sequence("EEEEKKKK")
for rep in range(2):
    call("inter", "a%d" % rep, a.sequence_charge_decoration)
    call("inter", "b%d" % rep, b.sequence_charge_decoration)
    call("inter", "c%d" % rep, c.sequence_charge_decoration)
# results handed out must be independent objects: mutate one, ask again
r1 = a.linearDistOfNCPR(3)
r1[1][:] = 99
call("inter", "ncpr after mutating earlier result", a.linearDistOfNCPR, 3)
r2 = a.linearDenistyOfAAs(3, "E")
r2[:] = 7
call("inter", "dens after mutating earlier result", a.linearDenistyOfAAs, 3, "E")
r3 = a.linearDistOfHydropathy(3)
r3[:] = 7
call("inter", "hydro after mutating earlier result", a.linearDistOfHydropathy, 3)
r4 = a.linearCompositions(3, [["E"], ["K"]])
r4[1][:] = 5
call("inter", "comp after mutating earlier result", a.linearCompositions, 3, [["E"], ["K"]])

# many random patterns through SCD (cache churn)
for i in range(300):
    ln = rnd.choice((2, 3, 5, 8, 13))
    s = "".join(rnd.choice("KEG") for _ in range(ln))
    call("churn", "%d %s" % (i, s), Sequence(s).sequence_charge_decoration)

# --------------------------------------------------------------------------
# 3. SequenceParameters wrappers
# --------------------------------------------------------------------------
for s in ["A", "EK", "EKEKEKEKGGSSPPEKRD", "GGGGGGGG", seqs[16], "MdErKsT", "AXA", "A A K"]:
    for wrap in (False, True):
        tag = "%r wrap=%r" % (s, wrap)
        try:
            out = io.StringIO()
            with contextlib.redirect_stdout(out):
                if wrap:
                    sp = SequenceParameters(SeqObj=Sequence(s))
                else:
                    sp = SequenceParameters(s)
        except Exception as e:  # noqa
            note("sp-ctor", tag, "EXC %s: %s" % (type(e).__name__, e))
            continue
        note("sp-ctor", tag, state(sp) + " out=%r" % out.getvalue())
        call("sp", tag + " SCD", sp.get_SCD)
        call("sp", tag + " SCD again", sp.get_SCD)
        call("sp", tag + " ncpr()", sp.get_linear_NCPR)
        call("sp", tag + " fcr()", sp.get_linear_FCR)
        call("sp", tag + " sigma()", sp.get_linear_sigma)
        call("sp", tag + " hydro()", sp.get_linear_hydropathy)
        call("sp", tag + " comp()", sp.get_linear_sequence_composition)
        call("sp", tag + " comp() again", sp.get_linear_sequence_composition)
        for w in (0, 1, 2, 7, len(s), len(s) + 1):
            call("sp", tag + " ncpr %d" % w, sp.get_linear_NCPR, w)
            call("sp", tag + " ncpr kw %d" % w, sp.get_linear_NCPR, blobLen=w)
            call("sp", tag + " fcr %d" % w, sp.get_linear_FCR, w)
            call("sp", tag + " sigma %d" % w, sp.get_linear_sigma, w)
            call("sp", tag + " hydro %d" % w, sp.get_linear_hydropathy, w)
            call("sp", tag + " comp %d" % w, sp.get_linear_sequence_composition, w, [['E', 'D'], ['k', 'r'], ['G']])
            call("sp", tag + " comp kw %d" % w, sp.get_linear_sequence_composition, blobLen=w, grps=[['P']])
        # other public things that lean on the same state, after all the calls
        call("sp", tag + " kappa", sp.get_kappa)
        call("sp", tag + " NCPR", sp.get_NCPR)
        call("sp", tag + " FCR", sp.get_FCR)
        call("sp", tag + " uversky", sp.get_uversky_hydropathy)
        call("sp", tag + " meanH", sp.get_mean_hydropathy)
        note("sp-state", tag, state(sp))

# --------------------------------------------------------------------------
# report
# --------------------------------------------------------------------------
full = hashlib.sha256()
for line in RECORDS:
    full.update(line.encode("utf-8", "backslashreplace"))
print("records:", len(RECORDS))
for sec in sorted(SECTION):
    print("%-12s %s" % (sec, SECTION[sec].hexdigest()))
print("TOTAL        %s" % full.hexdigest())
nexc = sum(1 for l in RECORDS if "| EXC " in l)
print("ok:", sum(1 for l in RECORDS if "| OK " in l), "exc:", nexc)
if "--dump" in sys.argv:
    for line in RECORDS:
        print(line.encode("ascii", "backslashreplace").decode())
