"""
Differential check for the sequence-file parser / constructors.

Run once with cwd=<changed tree> and once with cwd=/repo (unchanged) and
compare the printed output (a per-section digest plus a total digest).
"""
import os
import sys
sys.path.insert(0, os.getcwd())

import io
import hashlib
import random
import tempfile
import contextlib

import numpy as np

import localcider
from localcider.backend.seqfileparser import SequenceFileParser
from localcider.backend.sequence import Sequence
from localcider.sequenceParameters import SequenceParameters

assert os.path.abspath(localcider.__file__).startswith(os.path.abspath(os.getcwd())), localcider.__file__

AAS = "ACDEFGHIKLMNPQRSTVWY"
TMPDIR = tempfile.mkdtemp(prefix="r16equiv_")
TOTAL = hashlib.sha256()
SECTION = {}


def describe(v):
    """deterministic, type-aware description of a value"""
    if isinstance(v, np.ndarray):
        return "ndarray(%s,%s,%s)" % (v.dtype, v.shape, v.tolist())
    if isinstance(v, (list, tuple)):
        return type(v).__name__ + "[" + ",".join(describe(x) for x in v) + "]"
    if isinstance(v, Sequence):
        return "Sequence(" + describe_seqobj(v) + ")"
    return type(v).__name__ + ":" + repr(v)


def describe_seqobj(s):
    return "|".join([describe(s.seq), describe(s.len), describe(s.chargePattern),
                     describe(s.dmax), describe(s.seqDeltaMax), describe(s.phosphosites),
                     type(s.ComplexityObject).__name__])


def record(section, label, fn):
    out = io.StringIO()
    try:
        with contextlib.redirect_stdout(out):
            r = fn()
        res = "OK " + describe(r)
    except OSError as e:
        # message holds a temp path - only keep the type
        res = "EXC " + type(e).__name__
    except BaseException as e:
        res = "EXC " + type(e).__name__ + " " + repr(str(e))
    line = "%s :: %s :: %s :: stdout=%r\n" % (section, label, res, out.getvalue())
    h = SECTION.setdefault(section, [hashlib.sha256(), 0])
    h[0].update(line.encode("utf-8", "backslashreplace"))
    h[1] += 1
    TOTAL.update(line.encode("utf-8", "backslashreplace"))
    if os.environ.get("EQUIV_VERBOSE"):
        sys.stdout.write(line)


_counter = [0]


def mkfile(content, newline=None):
    _counter[0] += 1
    path = os.path.join(TMPDIR, "f%05d.fasta" % _counter[0])
    with open(path, "w", newline=newline) as fh:
        fh.write(content)
    return path


# ------------------------------------------------------------------ inputs
rnd = random.Random(20160516)


def rand_line(alphabet, n):
    return "".join(rnd.choice(alphabet) for _ in range(n))


LINES = [
    "", "A", "ACDEFGHIKLMNPQRSTVWY", "ACDEFGHIKLMNPQRSTVWY" * 20,
    "AC DE FG", "  ACD  ", "1 MKKL 11 EEDD 21", "0123456789", "A1C2D3E4",
    "ACD*", "*", "**", "A*C", "AC**", "*ACD", "A C*", "ACD *", "ACD* ",
    "acd", "ACDe", "ACDX", "ACDB", "ACDZ", "ACDU", "ACDO", "ACDJ", "AC-D", "AC.D",
    "AC\tD", "AC D", "ACßD", "AC١D", "AC²D", "AC１D", "AC>D",
    "A>", "ACD;", "ACD,EFG", "ACD\x0bEFG", "ACD\x0cEFG", "5", " ", "   ", "9 9",
    "X", "1X", "X1", " X", "1*1", "* *", "ACD 1 * ", "ACDEFGHIKLMNPQRSTVWY*",
    "ΑCD",  # greek capital alpha
    "ÁC",  # combining accent
]
for _ in range(60):
    LINES.append(rand_line(AAS, rnd.randint(1, 120)))
for _ in range(60):
    LINES.append(rand_line(AAS + "  11234567890", rnd.randint(1, 80)))
for _ in range(40):
    LINES.append(rand_line(AAS * 3 + " 19*", rnd.randint(1, 40)))
for _ in range(40):
    LINES.append(rand_line(AAS * 5 + " 7*xXbZ-\t", rnd.randint(1, 30)))

FILES = [
    "", "\n", "\n\n\n", ">header\n", ">header", ">h1\n>h2\n", ">h1\nACD\n>h2\nEFG\n",
    "ACD\n>h1\nEFG\n", "ACD\n>h1\nEFG\n>h2\n", ">h\nACDEFG\nHIKLMN\n", "ACDEFG\nHIKLMN",
    "ACDEFG\r\nHIKLMN\r\n", ">h\n\n\nACD\n\n EFG \n\n", ">h\n1 ACDEF GHIKL\n11 MNPQR STVWY\n",
    ">h\nACD*\n", ">h\nACD\n*\n", ">h\nACD*\nEFG\n", ">h\nACD*\nEFG*\n", ">h\n*\n", "*", "**", "*\n*",
    ">h\nAC*D\n", ">h\n*ACD\n", ">h\nACD\n* \n\n", " >h\nACD\n", "\t>h\nACD\n", "ACD>h\n", "ACD\n >h\n",
    ">h\nacd\n", ">h\nACD\nEFX\n", ">h\n123\n", ">h\n1 2 3\n", "   \n \t \n", ">h\n   \n",
    ">\n", ">>\nA", "A\n>\n>\n", ">h\nACD\n\x0c\nEFG\n", ">h\nACD\x0b\nEFG\n", ">h\nA C\n",
    ">h\nACD\n1X\n", ">h\n1ACD\n2X\n3*\n", ">h\nACD*\n>h2\n", ">h\nAC*D*\n>h2\n",
    ">h\n" + "\n".join(rand_line(AAS, 60) for _ in range(50)) + "\n",
    ">h\n" + "\n".join("%d %s" % (i * 60 + 1, " ".join(rand_line(AAS, 10) for _ in range(6))) for i in range(30)) + "\n*\n",
    "ACD\rEFG\rHIK",
]
for _ in range(80):
    n = rnd.randint(0, 6)
    pieces = []
    for _ in range(n):
        k = rnd.random()
        if k < 0.15:
            pieces.append(">" + rand_line(AAS + " |_", rnd.randint(0, 10)))
        elif k < 0.25:
            pieces.append("")
        elif k < 0.35:
            pieces.append(rand_line(" \t", rnd.randint(1, 3)))
        else:
            pieces.append(rnd.choice(LINES[3:]).replace("\x0b", "").replace("\x0c", ""))
    FILES.append("\n".join(pieces) + rnd.choice(["", "\n", "\n\n"]))

SEQS = [
    "", "A", "E", "K", "P", "EK", "EKEKEKEK", "KKKKEEEE", "GGGGGG", "ACDEFGHIKLMNPQRSTVWY",
    "acdefghiklmnpqrstvwy", "AcDe", "A C D", " ACD ", "A\tC\nD", "\n", " ", "  \t ", "ACDX", "X", "acdx",
    "ACD1", "AC*", "*", "+-0", "+", "-", "0", "+-0A", "A+K-E0", "PPPP", "PPPPAAAAAAAAAAAAAAAAAAAAAA",
    "PPPAAAAAAAAAAAAAAAAA", "PPPPAAAAAAAAAAAAAAAAAAAAAAA", "ACßD", "ß", "ßEK", "EKß",
    "ﬁ", "Eﬁ", "ŉK", "AC D", "AC D", "AıC", "ı", "eık",
    "MEEPQSDPSVEPPLSQETFSDLWKLLPENNVLSPLPSQAMDDLMLSPDDIEQWFTEDPGPDEAPRMPEAAPPVAPAPAAPTPAAPAPAPSWPLSSSVPSQKTYQGSYGFRLGFLHSGTAKSVTCTYSPALNKMFCQLAKTCPVQLWVDSTPPPGTRVRAMAIYKQSQHMTEVVRRCPHHERCSDSDGLAPPQHLIRVEGNLRVEYLDDRNTFRHSVVVPYEPPEVGSDCTTIHYNYMCNSSCMGGMNRRPILTIITLEDSSGNLLGRNSFEVRVCACPGRDRRTEEENLRKKGEPHHELPPGSTKRALPNNTSSSPQPKKKPLDGEYFTLQIRGRERFEMFRELNEALELKDAQAGKEPGGSRAHSSHLKSKKGQSTSRHKKLMFKTEGPDSD",
]
for _ in range(60):
    SEQS.append(rand_line(AAS, rnd.randint(1, 150)))
for _ in range(30):
    SEQS.append(rand_line("EKDRH" + AAS, rnd.randint(1, 60)))
for _ in range(30):
    SEQS.append(rand_line(AAS.lower() + AAS + " \t", rnd.randint(1, 40)))
for _ in range(20):
    SEQS.append(rand_line(AAS * 4 + "xB1*-", rnd.randint(1, 30)))
for _ in range(20):
    SEQS.append(rand_line("+-0", rnd.randint(1, 30)))
for _ in range(10):
    SEQS.append(rand_line("+-0" + AAS, rnd.randint(1, 30)))

NONSTR = [None, 0, 1, 1.5, [], ["A"], ("A",), b"ACD", {"A": 1}, np.array(["A"]), np.array(["A", "C"]), np.str_("ACD"), True, False, object]

CHARGEPATS = [
    [], (), [1], [1, -1, 0], (0, 0), [0.0, 1.0], np.array([]), np.array([], dtype=int), np.array([], dtype=np.int8),
    np.array([], dtype=np.uint64), np.array([], dtype=bool), np.array([], dtype=np.float32), np.array([], dtype=object),
    np.array([], dtype=complex), np.zeros((0, 3)), np.zeros((2, 0), dtype=int),
    np.array([1, -1, 0]), np.array([1.0, -1.0]), np.array([[1, 0], [0, -1]]), "", "abc", [None], range(0), range(3),
]

# ------------------------------------------------------------------ 1. private line validator
P = SequenceFileParser()
validSeq = getattr(P, "_SequenceFileParser__validSeq")
finalVal = getattr(P, "_SequenceFileParser__final_validation")
for l in LINES:
    record("validSeq", repr(l), lambda l=l: validSeq(l))
    record("validSeq-stripped", repr(l), lambda l=l: validSeq(l.strip()))

# ------------------------------------------------------------------ 2. final validation
for l in LINES + ["ACD" * 50 + "*", "*" + "ACD" * 50, "ACD" * 20 + "*" + "ACD" * 20, "A*" * 10]:
    record("finalVal", repr(l), lambda l=l: finalVal(l))

# ------------------------------------------------------------------ 3. parseSeqFile
for idx, content in enumerate(FILES):
    for newline in (None, ""):
        try:
            path = mkfile(content, newline)
        except Exception:
            continue
        record("parseSeqFile", "%d/%r" % (idx, newline), lambda: P.parseSeqFile(path))
        record("parseSeqFile-silent", "%d/%r" % (idx, newline), lambda: P.parseSeqFile(path, silent=True))
        record("parseSeqFile-silentpos", "%d/%r" % (idx, newline), lambda: P.parseSeqFile(path, True))
        # repeated call on the same (stateless) object and on a fresh one
        record("parseSeqFile-again", "%d/%r" % (idx, newline), lambda: P.parseSeqFile(path, silent=False))
        record("parseSeqFile-fresh", "%d/%r" % (idx, newline), lambda: SequenceFileParser().parseSeqFile(path))
# each line of LINES as its own file
for l in LINES:
    if "\r" in l:
        continue
    path = mkfile(">hdr\n" + l + "\n")
    record("parseSeqFile-line", repr(l), lambda: P.parseSeqFile(path))
    path = mkfile(l + "\n" + l)
    record("parseSeqFile-line2", repr(l), lambda: P.parseSeqFile(path))
record("parseSeqFile-missing", "missing", lambda: P.parseSeqFile(os.path.join(TMPDIR, "does_not_exist")))
record("parseSeqFile-dir", "dir", lambda: P.parseSeqFile(TMPDIR))
record("parseSeqFile-none", "none", lambda: P.parseSeqFile(None))
record("parseSeqFile-emptyname", "empty", lambda: P.parseSeqFile(""))
binpath = os.path.join(TMPDIR, "bin.fasta")
with open(binpath, "wb") as fh:
    fh.write(b">h\nACD\n1 2 EFG\n\xff\xfe\nXX\n")
record("parseSeqFile-undecodable", "bin", lambda: P.parseSeqFile(binpath))

# ------------------------------------------------------------------ 4. Sequence.__init__
for s in SEQS:
    record("Sequence", repr(s), lambda: Sequence(s))
    record("Sequence-validate", repr(s), lambda: Sequence(s, validateSeq=True))
    record("Sequence-dmax", repr(s), lambda: Sequence(s, 0.25))
    record("Sequence-poskw", repr(s), lambda: Sequence(s, -1, [], True))
for s in NONSTR:
    record("Sequence-nonstr", repr(s), lambda: Sequence(s))
    record("Sequence-nonstr-validate", repr(s), lambda: Sequence(s, validateSeq=True))
for s in ["", "A", "EKP", "EKEKEKGGPP", "+-0", "AX", "ßEK", "ek"]:
    for ci, cp in enumerate(CHARGEPATS):
        record("Sequence-chargepat", "%r/%d" % (s, ci), lambda: Sequence(s, -1, cp))
        record("Sequence-chargepat-kw", "%r/%d" % (s, ci), lambda: Sequence(s, chargePattern=cp, validateSeq=False))


def empty_default_is_shared():
    # the empty-sequence case leaves the (shared, mutable) default list in place
    a = Sequence("")
    b = Sequence("")
    return [type(a.chargePattern).__name__, a.chargePattern is b.chargePattern, len(a.chargePattern)]


record("Sequence-empty-default", "shared", empty_default_is_shared)


def passed_pattern_identity():
    res = []
    for cp in ([1, 0], np.array([1.0, 0.0]), (1, 0)):
        s = Sequence("KA", -1, cp)
        res.append(s.chargePattern is cp)
    e = np.array([])
    s = Sequence("", -1, e)
    res.append(s.chargePattern is e)
    s = Sequence("KA", -1, e)
    res.append(s.chargePattern is e)
    res.append(describe(e))
    l = []
    s = Sequence("KAE", -1, l)
    res.append(describe(l))
    res.append(describe(s.chargePattern))
    return res


record("Sequence-pattern-identity", "ident", passed_pattern_identity)


def downstream(s):
    so = Sequence(s)
    # (cheap) consumers of the charge pattern built by the constructor
    return [so.FCR(), so.NCPR(), so.countPos(), so.countNeg(),
            describe(so.linearDistOfNCPR(5)) if len(s) > 6 else None, str(so)]


for s in SEQS:
    record("Sequence-downstream", repr(s), lambda: downstream(s))

# ------------------------------------------------------------------ 5. SequenceParameters.__init__
def sp_desc(sp):
    return describe(sp.SeqObj)


for s in SEQS:
    record("SP-string", repr(s), lambda: sp_desc(SequenceParameters(s)))
    record("SP-string-kw", repr(s), lambda: sp_desc(SequenceParameters(sequence=s)))
for s in NONSTR:
    record("SP-nonstr", repr(s), lambda: sp_desc(SequenceParameters(s)))
    if not isinstance(s, (int, bool)):
        # (an int would be taken as a file descriptor by open())
        record("SP-nonstr-file", repr(s), lambda: sp_desc(SequenceParameters(sequenceFile=s)))
    record("SP-nonstr-seqobj", repr(s), lambda: sp_desc(SequenceParameters(SeqObj=s)))
    record("SP-nonstr-seqobj+seq", repr(s), lambda: sp_desc(SequenceParameters("EKEK", SeqObj=s)))
record("SP-empty", "noargs", lambda: sp_desc(SequenceParameters()))
record("SP-empty", "emptyboth", lambda: sp_desc(SequenceParameters("", "")))
record("SP-empty", "emptyseq-nonefile", lambda: sp_desc(SequenceParameters("", None)))
record("SP-empty", "noneseq-emptyfile", lambda: sp_desc(SequenceParameters(None, "")))

for idx, content in enumerate(FILES):
    path = mkfile(content)
    record("SP-file", str(idx), lambda: sp_desc(SequenceParameters(sequenceFile=path)))
    record("SP-file-pos", str(idx), lambda: sp_desc(SequenceParameters("", path)))
    # both given: the string wins and the file is never opened
    record("SP-both", str(idx), lambda: sp_desc(SequenceParameters("EKEKPP", path)))
record("SP-file-missing", "missing", lambda: sp_desc(SequenceParameters(sequenceFile=os.path.join(TMPDIR, "nope"))))
record("SP-both-missing", "missing", lambda: sp_desc(SequenceParameters("EKEKPP", os.path.join(TMPDIR, "nope"))))


def sp_from_seqobj():
    so = Sequence("EKEKEKPPGG", 0.3)
    sp = SequenceParameters(SeqObj=so)
    sp2 = SequenceParameters("ignored!!", "ignored-file", so)
    return [sp.SeqObj is so, sp2.SeqObj is so, sp_desc(sp), sp.get_sequence(), sp.get_length()]


record("SP-seqobj", "good", sp_from_seqobj)


class FakeNoModule(object):
    def __getattribute__(self, name):
        if name == "__module__":
            raise AttributeError(name)
        return object.__getattribute__(self, name)


class Falsy(object):
    def __bool__(self):
        return False


class FakeSeq(object):
    pass


FakeSeq.__module__ = "localcider.backend.sequence"


def sp_fake():
    f = FakeSeq()
    sp = SequenceParameters(SeqObj=f)
    return sp.SeqObj is f


record("SP-seqobj", "nomodule", lambda: sp_desc(SequenceParameters(SeqObj=FakeNoModule())))
record("SP-seqobj", "falsy-then-empty", lambda: sp_desc(SequenceParameters(SeqObj=Falsy())))
record("SP-seqobj", "falsy-then-seq", lambda: sp_desc(SequenceParameters("EKEK", SeqObj=Falsy())))
record("SP-seqobj", "fake-right-module", sp_fake)
record("SP-seqobj", "sp-as-seqobj", lambda: sp_desc(SequenceParameters(SeqObj=SequenceParameters("EKEKEK"))))
record("SP-seqobj", "empty-seq-object", lambda: sp_desc(SequenceParameters(SeqObj=Sequence(""))))


def sp_repeat():
    # many constructions in a row (string + file) - any shared helper must not leak state between calls
    out = []
    p1 = mkfile(">a\nEKEK 12\nPPGG*\n")
    p2 = mkfile(">a\nEK*EK\n")
    p3 = mkfile(">a\nGGSS\n")
    for p in (p1, p2, p3, p1, p3, p2, p3):
        try:
            out.append(sp_desc(SequenceParameters(sequenceFile=p)))
        except Exception as e:
            out.append(type(e).__name__ + str(e))
    return out


record("SP-repeat", "repeat", sp_repeat)

# ------------------------------------------------------------------ report
for k in sorted(SECTION):
    print("%-28s n=%-5d %s" % (k, SECTION[k][1], SECTION[k][0].hexdigest()[:32]))
print("TOTAL", TOTAL.hexdigest())

import shutil
shutil.rmtree(TMPDIR, ignore_errors=True)
