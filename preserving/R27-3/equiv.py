"""Differential check for WangLandauMachine.run_normal_WL / __run_flatcheck.

Run once with cwd=/tmp/seed/R27 (changed tree) and once with cwd=/repo
(unchanged tree); the printed output must be identical.

What is compared for every case: captured stdout (status text, dots),
every file written into the output directory, the returned value (array
bytes / tuples, with types), the exception (type + message), recorded
warnings, the state of the machine afterwards and the complete trace of
random-number consumption (every seed, random() and getrandbits() call of
every random.Random instance created) and the number of time.time() calls.
time.time is replaced by a deterministic counter so that all RNG seeds are
reproducible; the counter can also abort a run after a number of calls so
that non-converging runs are compared over a bounded prefix.
"""
import os
import sys

sys.path.insert(0, os.getcwd())

import hashlib
import io
import random
import shutil
import signal
import tempfile
import time
import warnings

import numpy as np

# ----------------------------------------------------------------------
# deterministic clock
# ----------------------------------------------------------------------


class StopRun(Exception):
    pass


class Hang(BaseException):
    pass


def _on_alarm(signum, frame):
    raise Hang("case exceeded the time limit")


signal.signal(signal.SIGALRM, _on_alarm)
CASE_TIMEOUT = int(os.environ.get("EQUIV_TIMEOUT", "300"))


class Clock(object):
    def __init__(self):
        self.reset(None)

    def reset(self, limit):
        self.n = 0
        self.limit = limit

    def __call__(self):
        self.n += 1
        if self.limit is not None and self.n > self.limit:
            raise StopRun("clock limit %d reached" % self.limit)
        return 1000.0 + 0.25 * self.n


CLOCK = Clock()
time.time = CLOCK

# ----------------------------------------------------------------------
# traced RNG
# ----------------------------------------------------------------------
TRACE = []
_BaseRandom = random.Random
_COUNTER = [0]


class TracedRandom(_BaseRandom):
    def __init__(self, x=None):
        _COUNTER[0] += 1
        self._id = _COUNTER[0]
        TRACE.append(("new", self._id))
        _BaseRandom.__init__(self, x)

    def seed(self, a=None, version=2):
        TRACE.append(("seed", getattr(self, "_id", -1), repr(a)))
        if a is None:
            a = 12345
        return _BaseRandom.seed(self, a, version)

    def random(self):
        v = _BaseRandom.random(self)
        TRACE.append(("random", self._id, repr(v)))
        return v

    def getrandbits(self, k):
        v = _BaseRandom.getrandbits(self, k)
        TRACE.append(("bits", self._id, k, v))
        return v


random.Random = TracedRandom

from localcider.backend import wang_landau  # noqa: E402
from localcider.backend.wang_landau import WangLandauMachine  # noqa: E402
from localcider.backend.sequence import Sequence  # noqa: E402

FLATCHECK = "_WangLandauMachine__run_flatcheck"

# ----------------------------------------------------------------------
# canonical description of values
# ----------------------------------------------------------------------


def canon(v):
    if isinstance(v, np.ndarray):
        return ("ndarray", str(v.dtype), v.shape,
                hashlib.sha1(np.ascontiguousarray(v).tobytes()).hexdigest()
                if v.dtype != object else repr(v.tolist()))
    if isinstance(v, (list, tuple)):
        return (type(v).__name__, [canon(x) for x in v])
    if isinstance(v, (set, frozenset)):
        return (type(v).__name__, sorted(repr(x) for x in v))
    if isinstance(v, dict):
        return ("dict", sorted((repr(k), canon(x)) for k, x in v.items()))
    if isinstance(v, Sequence):
        return ("Sequence", v.seq)
    return (type(v).__name__, repr(v))


def machine_state(m):
    out = {}
    for k, v in sorted(vars(m).items()):
        out[k] = canon(v)
    return out


def dir_contents(d):
    out = {}
    if d is None or not os.path.isdir(d):
        return out
    for root, _dirs, files in os.walk(d):
        for fn in sorted(files):
            p = os.path.join(root, fn)
            with open(p, "rb") as fh:
                out[os.path.relpath(p, d)] = fh.read()
    return out


def digest(obj):
    return hashlib.sha1(repr(obj).encode("utf-8")).hexdigest()[:16]


# ----------------------------------------------------------------------
# generic runner
# ----------------------------------------------------------------------
ALL = []


def run_case(name, fn, limit=None, keep_dir=None):
    """fn(tmpdir) -> result.  Everything observable is digested."""
    tmp = keep_dir or tempfile.mkdtemp(prefix="wl_eq_")
    del TRACE[:]
    _COUNTER[0] = 0
    CLOCK.reset(limit)
    old_stdout = sys.stdout
    buf = io.StringIO()
    sys.stdout = buf
    result = None
    exc = None
    machines = []
    with warnings.catch_warnings(record=True) as wlist:
        warnings.simplefilter("always")
        try:
            signal.alarm(CASE_TIMEOUT)
            try:
                result = fn(tmp, machines)
            except BaseException as e:  # noqa
                exc = (type(e).__name__, str(e).replace(tmp, "<TMP>"))
            finally:
                signal.alarm(0)
        finally:
            sys.stdout = old_stdout
    out = buf.getvalue().replace(os.path.abspath(tmp), "<TMP>").replace(tmp, "<TMP>")
    files = dir_contents(tmp)
    # ResourceWarning (unclosed file objects, ignored by default and tied to
    # garbage collection) is not part of the behaviour that is compared.
    warn = [(w.category.__name__, str(w.message).replace(tmp, "<TMP>"))
            for w in wlist if not issubclass(w.category, ResourceWarning)]
    states = [machine_state(m) for m in machines]
    for st in states:
        if "writeDir" in st:
            st["writeDir"] = "<TMP>"
    rec = {
        "stdout": out,
        "files": sorted((k, v) for k, v in files.items()),
        "result": canon(result),
        "exc": exc,
        "warnings": warn,
        "state": states,
        "trace": list(TRACE),
        "clock": CLOCK.n,
    }
    if keep_dir is None:
        shutil.rmtree(tmp, ignore_errors=True)
    ALL.append((name, rec))
    print("%-34s out=%s files=%s(%d) res=%s exc=%s warn=%s(%d) state=%s rng=%s(%d) clk=%d" % (
        name, digest(rec["stdout"]), digest(rec["files"]), len(files),
        digest(rec["result"]), exc, digest(warn), len(warn), digest(rec["state"]),
        digest(rec["trace"]), len(TRACE), CLOCK.n))
    return rec


def make(seq, tmp, machines, **kw):
    m = WangLandauMachine(seq, tmp, **kw)
    machines.append(m)
    return m


# ----------------------------------------------------------------------
# 1. direct calls of __run_flatcheck
# ----------------------------------------------------------------------
SEQ_A = "EKEKEKEKGGSSGGKEKE"
SEQ_B = "DDDDDKKKKKAAAAAEEEERRRR"
SEQ_C = "MEEEKKKPPSSTTDDRRQQNNGGEEKK"
SEQ_D = "EEEEEEEEKKKKKKKK"
SEQ_N = "GGGSSSAAAQQQNNN"       # no charged residues
SEQ_1 = "EK"


def flatcheck_case(seq, mk, H, Hlocal, niter, f, g, logs="ok", twice=False, preexist=True):
    def fn(tmp, machines):
        m = make(seq, tmp, machines, **mk)
        if logs == "ok":
            hlog = os.path.join(tmp, "hlog.txt")
            glog = os.path.join(tmp, "glog.txt")
            if preexist:
                m.mklog(hlog, "H-HEAD\n")
                m.mklog(glog, "G-HEAD\n")
        elif logs == "badg":
            hlog = os.path.join(tmp, "hlog.txt")
            glog = os.path.join(tmp, "nodir", "glog.txt")
        elif logs == "badh":
            hlog = os.path.join(tmp, "nodir", "hlog.txt")
            glog = os.path.join(tmp, "glog.txt")
        else:
            hlog = None
            glog = None
        fc = getattr(m, FLATCHECK)
        Hin = H() if callable(H) else H
        Hl = Hlocal() if callable(Hlocal) else Hlocal
        gin = g() if callable(g) else g
        r = fc(Hin, Hl, niter, f, hlog, glog, gin)
        out = [r, ("same_H", r[0] is Hin), ("Hin", Hin), ("g", gin), ("Hl", Hl)]
        if twice:
            r2 = fc(r[0], Hl, r[2], r[1], hlog, glog, gin)
            out.append(r2)
            out.append(("same_H2", r2[0] is r[0]))
        return out
    return fn


def flatcheck_cases():
    base = dict(nbins=5, binmin=0.0, binmax=1.0, flatchk=50, flatcrit=0.7, convergence=1.2)
    e = np.exp(1)
    cases = []
    # flat, with lists
    cases.append(("fc_flat_list", flatcheck_case(SEQ_A, base, [10, 10, 10, 10, 10], [10, 10, 10, 10, 10], 0, e, [1.0, 2.0, 3.0, 4.0, 5.0])))
    cases.append(("fc_flat_twice", flatcheck_case(SEQ_A, base, [10, 10, 10, 10, 10], [10, 10, 10, 10, 10], 0, e, [1.0, 2.0, 3.0, 4.0, 5.0], twice=True)))
    cases.append(("fc_flat_nofile", flatcheck_case(SEQ_A, base, [10, 10, 10, 10, 10], [10, 10, 10, 10, 10], 0, e, [1.0, 2.0, 3.0, 4.0, 5.0], preexist=False)))
    # not flat
    cases.append(("fc_notflat", flatcheck_case(SEQ_A, base, [1, 10, 10, 10, 30], [1, 10, 10, 10, 30], 3, e, [0, 0, 0.5, 0, 0])))
    # borderline: exactly at criterion
    cases.append(("fc_border", flatcheck_case(SEQ_A, base, [7, 10, 10, 10, 13], [7, 10, 10, 10, 13], 1, 1.5, [0.1] * 5)))
    cases.append(("fc_border_below", flatcheck_case(SEQ_A, dict(base, flatcrit=0.7000001), [7, 10, 10, 10, 13], [7, 10, 10, 10, 13], 1, 1.5, [0.1] * 5)))
    # all zeros -> division by zero, nan
    cases.append(("fc_zeros", flatcheck_case(SEQ_A, base, [0] * 5, [0] * 5, 0, e, [0] * 5)))
    # empty Hlocal
    cases.append(("fc_empty", flatcheck_case(SEQ_A, base, [0] * 5, [], 0, e, [0] * 5)))
    # nbins target 0 with empty Hlocal: "flat" vacuously?
    cases.append(("fc_flatcrit0_zeros", flatcheck_case(SEQ_A, dict(base, flatcrit=0.0), [0] * 5, [0] * 5, 0, e, [0] * 5)))
    cases.append(("fc_flatcrit_neg", flatcheck_case(SEQ_A, dict(base, flatcrit=-1.0), [0, 1, 2, 3, 4], [0, 1, 2, 3, 4], 0, e, [0] * 5)))
    # numpy inputs
    cases.append(("fc_numpy", flatcheck_case(SEQ_A, base, lambda: np.array([5, 5, 5, 5, 5]), lambda: np.array([5, 5, 5, 5, 5]), 2, np.float64(1.3), lambda: np.array([0.5, 1.5, 2.5, 3.5, 4.5]))))
    cases.append(("fc_numpy_float", flatcheck_case(SEQ_A, base, lambda: np.array([5.5, 5, 5, 5, 5]), lambda: np.array([5.5, 5, 5, 5, 1]), 2, 1.3, lambda: [0.5, 1.5, 2.5, 3.5, 4.5])))
    # tuple inputs
    cases.append(("fc_tuple", flatcheck_case(SEQ_A, base, (4, 4, 4, 4, 4), [4, 4, 4, 4, 4], 0, 2.0, (1, 2, 3, 4, 5))))
    # Hlocal tuple -> TypeError
    cases.append(("fc_tuple_local", flatcheck_case(SEQ_A, base, (4, 4, 4, 4, 4), (4, 4, 4, 4, 4), 0, 2.0, (1, 2, 3, 4, 5))))
    # python float f, int f, f below convergence after sqrt, f exactly
    cases.append(("fc_f_float", flatcheck_case(SEQ_A, base, [3] * 5, [3] * 5, 7, 2.0, [1.25] * 5)))
    cases.append(("fc_f_int", flatcheck_case(SEQ_A, base, [3] * 5, [3] * 5, 7, 4, [1.25] * 5)))
    cases.append(("fc_f_conv_equal", flatcheck_case(SEQ_A, dict(base, convergence=1.5), [3] * 5, [3] * 5, 7, 2.25, [1.25] * 5)))
    cases.append(("fc_f_negative", flatcheck_case(SEQ_A, base, [3] * 5, [3] * 5, 7, -4.0, [1.25] * 5)))
    cases.append(("fc_f_npneg", flatcheck_case(SEQ_A, base, [3] * 5, [3] * 5, 7, np.float64(-4.0), [1.25] * 5)))
    cases.append(("fc_f_string", flatcheck_case(SEQ_A, base, [3] * 5, [3] * 5, 7, "x", [1.25] * 5)))
    cases.append(("fc_niter_str", flatcheck_case(SEQ_A, base, [3] * 5, [3] * 5, "a", 2.0, [1.25] * 5)))
    cases.append(("fc_niter_float", flatcheck_case(SEQ_A, base, [3] * 5, [3] * 5, 1.5, 2.0, [1.25] * 5)))
    cases.append(("fc_niter_none_notflat", flatcheck_case(SEQ_A, base, [3] * 5, [3, 3, 3, 3, 0], None, 2.0, [1.25] * 5)))
    # g with odd content -> formatting error after prints
    cases.append(("fc_g_strings", flatcheck_case(SEQ_A, base, [3] * 5, [3] * 5, 0, 2.0, ["a", "b"])))
    cases.append(("fc_g_empty", flatcheck_case(SEQ_A, base, [3] * 5, [3] * 5, 0, 2.0, [])))
    cases.append(("fc_g_none", flatcheck_case(SEQ_A, base, [3] * 5, [3] * 5, 0, 2.0, None)))
    # log problems
    cases.append(("fc_bad_glog", flatcheck_case(SEQ_A, base, [3] * 5, [3] * 5, 0, 2.0, [0.0] * 5, logs="badg")))
    cases.append(("fc_bad_hlog", flatcheck_case(SEQ_A, base, [3] * 5, [3] * 5, 0, 2.0, [0.0] * 5, logs="badh")))
    cases.append(("fc_bad_hlog_conv", flatcheck_case(SEQ_A, dict(base, convergence=1.5), [3] * 5, [3] * 5, 0, 2.0, [0.0] * 5, logs="badh")))
    cases.append(("fc_none_logs_notflat", flatcheck_case(SEQ_A, base, [3] * 5, [3, 0, 0, 0, 0], 0, 2.0, [0.0] * 5, logs="none")))
    cases.append(("fc_none_logs_flat", flatcheck_case(SEQ_A, base, [3] * 5, [3] * 5, 0, 2.0, [0.0] * 5, logs="none")))
    # Hlocal of the wrong length (more / fewer than target)
    cases.append(("fc_long_local", flatcheck_case(SEQ_A, base, [3] * 8, [3] * 8, 0, 2.0, [0.0] * 8)))
    cases.append(("fc_short_local", flatcheck_case(SEQ_A, base, [3] * 5, [3] * 3, 0, 2.0, [0.0] * 5)))
    cases.append(("fc_long_local_partial", flatcheck_case(SEQ_A, base, [3] * 8, [9, 9, 9, 9, 9, 0, 0, 0], 0, 2.0, [0.0] * 8)))
    # 2-D Hlocal, scalar Hlocal, None, strings, nested
    cases.append(("fc_2d", flatcheck_case(SEQ_A, base, [3] * 5, lambda: np.ones((5, 2)), 0, 2.0, [0.0] * 5)))
    cases.append(("fc_2d_b", flatcheck_case(SEQ_A, base, [3] * 5, lambda: np.array([[1, 1, 1, 1, 1]]), 0, 2.0, [0.0] * 5)))
    cases.append(("fc_scalar", flatcheck_case(SEQ_A, base, [3] * 5, 5, 0, 2.0, [0.0] * 5)))
    cases.append(("fc_npscalar", flatcheck_case(SEQ_A, dict(base, nbins=1), [3] * 5, lambda: np.array(5), 0, 2.0, [0.0] * 5)))
    cases.append(("fc_none_local", flatcheck_case(SEQ_A, base, [3] * 5, None, 0, 2.0, [0.0] * 5)))
    cases.append(("fc_str_local", flatcheck_case(SEQ_A, base, [3] * 5, ["a", "b"], 0, 2.0, [0.0] * 5)))
    cases.append(("fc_nan_local", flatcheck_case(SEQ_A, base, [3] * 5, [float("nan"), 1, 1, 1, 1], 0, 2.0, [0.0] * 5)))
    cases.append(("fc_inf_local", flatcheck_case(SEQ_A, base, [3] * 5, [float("inf"), 1, 1, 1, 1], 0, 2.0, [0.0] * 5)))
    cases.append(("fc_negative_local", flatcheck_case(SEQ_A, base, [3] * 5, [-1, -1, -1, -1, -1], 0, 2.0, [0.0] * 5)))
    cases.append(("fc_bool_local", flatcheck_case(SEQ_A, base, [3] * 5, [True] * 5, 0, 2.0, [0.0] * 5)))
    # window region out of range: IndexError while printing bin regions
    cases.append(("fc_region_oob", flatcheck_case(SEQ_A, dict(base, binmin=0.6, binmax=1.6), [3] * 5, [3] * 5, 0, 2.0, [0.0] * 5)))
    # sub-range machine
    cases.append(("fc_subrange", flatcheck_case(SEQ_B, dict(nbins=4, binmin=0.2, binmax=0.6, flatchk=10, flatcrit=0.5, convergence=1.01), [0, 0, 6, 7, 8, 9, 0, 0, 0, 0], [6, 7, 8, 9], 4, 1.02, [0.0, 0.1, 0.2, 0.3, 0.4, 0.5, 0.6, 0.7, 0.8, 0.9], twice=True)))
    return cases


def flatcheck_mutated_state(tmp, machines):
    """change attributes between calls (repeated calls on one object)."""
    m = make(SEQ_A, tmp, machines, nbins=5, flatchk=20, flatcrit=0.7, convergence=1.2)
    hlog = m.mklog(os.path.join(tmp, "hlog.txt"))
    glog = m.mklog(os.path.join(tmp, "glog.txt"))
    fc = getattr(m, FLATCHECK)
    out = []
    H = [2, 2, 2, 2, 2]
    g = [0.5, 0.25, 0.125, 1.0, 2.0]
    r = fc(H, H[0:5], 0, np.exp(1), hlog, glog, g)
    out.append(r)
    m.nbins_target = 3
    m.relevant_min = 1
    m.relevant_max = 3
    r = fc(r[0], [5, 6, 7], r[2], r[1], hlog, glog, g)
    out.append(r)
    m.nbins_actual = 8
    r = fc(r[0], [5, 6, 7], r[2], r[1], hlog, glog, g)
    out.append(r)
    m.nbins_actual = 0
    try:
        out.append(fc(r[0], [5, 6, 7], r[2], r[1], hlog, glog, g))
    except Exception as e:
        out.append((type(e).__name__, str(e)))
    m.nbins_actual = 5
    m.flatcrit = 2.0
    out.append(fc(r[0], [5, 6, 7], r[2], r[1], hlog, glog, g))
    m.flatcrit = "x"
    try:
        out.append(fc(r[0], [5, 6, 7], r[2], r[1], hlog, glog, g))
    except Exception as e:
        out.append((type(e).__name__, str(e)))
    return out


# ----------------------------------------------------------------------
# 2. run_normal_WL
# ----------------------------------------------------------------------


def wl_case(seq, mk, runs=1, via="direct", pre=None):
    def fn(tmp, machines):
        if via == "permutants":
            from localcider.sequencePermutants import SequencePermutants
            sp = SequencePermutants(seq)
            args = dict(mk)
            if "flatchk" in args:
                args["flatchck"] = args.pop("flatchk")
            if "frozenResidues" in args:
                args["frozen"] = args.pop("frozenResidues")
            sp.initializeWangLandauParameters(tmp, **args)
            m = sp.WLM
            machines.append(m)
        else:
            m = make(seq, tmp, machines, **mk)
        if pre is not None:
            pre(m, tmp)
        out = []
        for _ in range(runs):
            try:
                if via == "run":
                    out.append(m.run())
                elif via == "zoom":
                    out.append(m.run_histogramZoomWL())
                else:
                    out.append(m.run_normal_WL())
            except StopRun as e:
                out.append(("StopRun", str(e)))
                CLOCK.n = 0
        return out
    return fn


def rm_dir(m, tmp):
    shutil.rmtree(tmp)


def set_bad_dir(m, tmp):
    m.writeDir = os.path.join(tmp, "does", "not", "exist")


def ro_seqlog(m, tmp):
    # make seqlog.txt a directory so that creating it fails after hlog/glog
    os.mkdir(os.path.join(tmp, "seqlog.txt"))


def ro_hblog(m, tmp):
    os.mkdir(os.path.join(tmp, "histogram_bins.txt"))


def dos_is_dir(m, tmp):
    os.mkdir(os.path.join(tmp, "DOS.txt"))


def dos_local_is_dir(m, tmp):
    os.mkdir(os.path.join(tmp, "DOS_local.txt"))


def widen(m, tmp):
    m.relevant_min = 0
    m.relevant_max = m.nbins_actual + 3


def zero_flat(m, tmp):
    m.nflatchk = 0


def zero_dot(m, tmp):
    m.dotdotfreq = 0


def none_frozen(m, tmp):
    m.frozen = None


def empty_region(m, tmp):
    m.relevant_max = m.relevant_min - 1


def empty_region_target0(m, tmp):
    m.relevant_max = m.relevant_min - 1
    m.nbins_target = 0


def wl_cases():
    cases = []
    quick = dict(nbins=2, binmin=0.0, binmax=1.0, flatchk=40, flatcrit=0.05, convergence=1.5)
    # converging runs
    cases.append(("wl_quick_A", wl_case(SEQ_A, quick), 4000))
    cases.append(("wl_quick_B", wl_case(SEQ_B, quick), 4000))
    cases.append(("wl_quick_C_frozen", wl_case(SEQ_C, dict(quick, frozenResidues=[0, 1, 2, 3])), 4000))
    cases.append(("wl_quick_D", wl_case(SEQ_D, dict(quick, flatchk=25, convergence=1.2)), 4000))
    cases.append(("wl_quick_twice", wl_case(SEQ_A, dict(quick, flatchk=30), runs=2), 4000))
    cases.append(("wl_via_run", wl_case(SEQ_B, dict(quick, flatchk=33), via="run"), 4000))
    cases.append(("wl_via_permutants", wl_case(SEQ_C, dict(quick, flatchk=21), via="permutants"), 4000))
    cases.append(("wl_seqobj", wl_case(Sequence(SEQ_A), dict(quick, flatchk=17, convergence=1.3)), 4000))
    cases.append(("wl_3bins", wl_case(SEQ_B, dict(nbins=3, binmin=0.0, binmax=1.0, flatchk=60, flatcrit=0.01, convergence=1.5)), 6000))
    cases.append(("wl_subrange", wl_case(SEQ_B, dict(nbins=2, binmin=0.0, binmax=0.5, flatchk=50, flatcrit=0.05, convergence=1.5)), 6000))
    cases.append(("wl_subrange_hi", wl_case(SEQ_D, dict(nbins=3, binmin=0.1, binmax=0.4, flatchk=50, flatcrit=0.05, convergence=1.6)), 3000))
    cases.append(("wl_flatchk1", wl_case(SEQ_A, dict(quick, flatchk=1, flatcrit=0.0, convergence=1.1)), 2000))
    cases.append(("wl_flatcrit0", wl_case(SEQ_A, dict(quick, flatcrit=0.0, convergence=1.01, flatchk=7)), 3000))
    cases.append(("wl_flatcrit_neg_10bins", wl_case(SEQ_C, dict(nbins=10, flatchk=11, flatcrit=-1, convergence=1.05)), 3000))
    # loop never runs: convergence >= e
    cases.append(("wl_noloop", wl_case(SEQ_A, dict(quick, convergence=3.0)), None))
    cases.append(("wl_noloop_exact", wl_case(SEQ_A, dict(quick, convergence=np.exp(1))), None))
    cases.append(("wl_noloop_oob", wl_case(SEQ_A, dict(nbins=10, binmin=0.5, binmax=1.5, flatchk=10, convergence=3.0)), None))
    cases.append(("wl_noloop_widen", wl_case(SEQ_A, dict(quick, convergence=3.0), pre=widen), None))
    cases.append(("wl_noloop_twice", wl_case(SEQ_B, dict(quick, convergence=5), runs=3), None))
    # never converging within the clock limit (non-flat): bounded prefix
    cases.append(("wl_prefix_10bins", wl_case(SEQ_B, dict(nbins=10, flatchk=25, flatcrit=0.9)), 900))
    cases.append(("wl_prefix_20bins_frozen", wl_case(SEQ_C, dict(nbins=20, flatchk=15, flatcrit=0.7, frozenResidues=set([5, 6, 7, 20]))), 700))
    cases.append(("wl_prefix_oob_region", wl_case(SEQ_B, dict(nbins=10, binmin=0.5, binmax=1.5, flatchk=20)), 500))
    cases.append(("wl_prefix_narrow", wl_case(SEQ_D, dict(nbins=2, binmin=0.8, binmax=1.0, flatchk=13)), 600))
    cases.append(("wl_prefix_runs2", wl_case(SEQ_A, dict(nbins=10, flatchk=9, flatcrit=0.99), runs=2), 300))
    cases.append(("wl_prefix_bigflat", wl_case(SEQ_A, dict(nbins=4, flatchk=100000)), 500))
    cases.append(("wl_prefix_short", wl_case("EKEKGSEK", dict(nbins=2, flatchk=5, flatcrit=0.99)), 300))
    cases.append(("wl_prefix_long", wl_case(SEQ_C * 3, dict(nbins=5, flatchk=6, flatcrit=0.99)), 200))
    for lim in (1, 2, 3, 4, 5, 6, 7, 8, 9, 10, 11, 12):
        cases.append(("wl_clock_%02d" % lim, wl_case(SEQ_A, dict(nbins=3, flatchk=2, flatcrit=0.0, convergence=1.3)), lim))
    # error paths
    cases.append(("wl_nodir", wl_case(SEQ_A, quick, pre=set_bad_dir), 500))
    cases.append(("wl_rmdir", wl_case(SEQ_A, quick, pre=rm_dir), 500))
    cases.append(("wl_seqlog_dir", wl_case(SEQ_A, quick, pre=ro_seqlog), 500))
    cases.append(("wl_hblog_dir", wl_case(SEQ_A, quick, pre=ro_hblog), 500))
    cases.append(("wl_dos_dir", wl_case(SEQ_A, quick, pre=dos_is_dir), 4000))
    cases.append(("wl_dos_local_dir", wl_case(SEQ_A, quick, pre=dos_local_is_dir), 4000))
    cases.append(("wl_dos_dir_noloop", wl_case(SEQ_A, dict(quick, convergence=3), pre=dos_is_dir), 500))
    cases.append(("wl_zero_flatchk", wl_case(SEQ_A, quick, pre=zero_flat), 500))
    cases.append(("wl_zero_dot", wl_case(SEQ_A, quick, pre=zero_dot), 500))
    cases.append(("wl_none_frozen", wl_case(SEQ_A, quick, pre=none_frozen), 500))
    cases.append(("wl_neutral_seq", wl_case(SEQ_N, quick), 500))
    cases.append(("wl_two_res", wl_case(SEQ_1, quick), 500))
    cases.append(("wl_one_charge_type", wl_case("KKKKGGGGSSSS", quick), 500))
    cases.append(("wl_all_frozen", wl_case(SEQ_A, dict(quick, frozenResidues=range(len(SEQ_A)))), 300))
    cases.append(("wl_frozen_oob", wl_case(SEQ_A, dict(quick, frozenResidues=[100, -3])), 600))
    cases.append(("wl_unusual_res", wl_case("EKEKXXEKEKBZ", quick), 500))
    cases.append(("wl_empty_seq", wl_case("", quick), 500))
    cases.append(("wl_lower", wl_case("ekekekggsskkee", quick), 800))
    cases.append(("wl_nbins1", wl_case(SEQ_A, dict(nbins=1, flatchk=5, flatcrit=0.5, convergence=1.2)), 800))
    cases.append(("wl_conv_nan", wl_case(SEQ_A, dict(quick, convergence=float("nan"))), 200))
    cases.append(("wl_conv_neg", wl_case(SEQ_A, dict(quick, convergence=-1.0, flatchk=3)), 120))
    cases.append(("wl_empty_region", wl_case(SEQ_A, dict(nbins=3, flatchk=6), pre=empty_region), 200))
    cases.append(("wl_empty_region_t0", wl_case(SEQ_A, dict(nbins=3, flatchk=6, convergence=1.1), pre=empty_region_target0), 400))
    # the other caller of __run_flatcheck
    cases.append(("zoom_prefix", wl_case(SEQ_B, dict(nbins=4, flatchk=10, flatcrit=0.3, convergence=1.5, WL_type="ZOOM"), via="zoom"), 700))
    cases.append(("zoom_quick", wl_case(SEQ_A, dict(nbins=2, flatchk=30, flatcrit=0.01, convergence=1.5, WL_type="ZOOM"), via="zoom"), 3000))
    cases.append(("run_zoom_attr", wl_case(SEQ_A, dict(nbins=2, flatchk=30, WL_type="ZOOM"), via="run"), 100))
    return cases


def constructor_errors(tmp, machines):
    out = []
    for kw in (dict(nbins=0), dict(binmin=1, binmax=1), dict(nbins=-2, convergence=3.0)):
        try:
            m = make(SEQ_A, tmp, machines, **kw)
            out.append(m.run_normal_WL())
        except StopRun as e:
            out.append(("StopRun", str(e)))
        except Exception as e:
            out.append((type(e).__name__, str(e)))
    return out


def main():
    np.seterr(all="warn")
    for name, fn in flatcheck_cases():
        run_case(name, fn)
    run_case("fc_mutated_state", flatcheck_mutated_state)
    for name, fn, lim in wl_cases():
        run_case(name, fn, limit=lim)
    run_case("ctor_errors", constructor_errors, limit=300)
    print("TOTAL cases=%d digest=%s" % (len(ALL), hashlib.sha1(repr(ALL).encode("utf-8")).hexdigest()))
    if os.environ.get("EQUIV_DUMP"):
        with open(os.environ["EQUIV_DUMP"], "w") as fh:
            for name, rec in ALL:
                fh.write("=== %s\n" % name)
                for k in sorted(rec):
                    fh.write("--- %s\n%s\n" % (k, rec[k] if k == "stdout" else repr(rec[k])))


if __name__ == "__main__":
    main()
