"""Differential check for R4 (backend.plotting: phaseplot_validate, build_*_plot). Run with cwd=/tmp/seed/R40 and cwd=/repo; stdout must match."""
import os, sys, io, hashlib, contextlib, random, shutil, decimal, fractions
os.environ['MPLBACKEND'] = 'Agg'
sys.path.insert(0, os.getcwd())
sys.dont_write_bytecode = True
import warnings
warnings.simplefilter('ignore')

import numpy as np
import matplotlib
matplotlib.use('Agg')
import matplotlib.pyplot as mplt
import logging
logging.getLogger('matplotlib').setLevel(logging.CRITICAL)
import localcider
from localcider.backend import plotting
from localcider import plots
from localcider.backend.sequence import Sequence
from localcider.backend.localciderExceptions import PlottingException
from localcider.sequenceParameters import SequenceParameters

assert os.path.realpath(plotting.__file__).startswith(os.path.realpath(os.getcwd())), plotting.__file__

out = []
def rec(*a):
    out.append(repr(a))

def capture(_callee, *a, **k):
    buf = io.StringIO()
    try:
        with contextlib.redirect_stdout(buf):
            r = _callee(*a, **k)
        res = ('ok', r)
    except BaseException as e:
        res = ('exc', type(e).__name__, str(e), type(e.__context__).__name__, str(e.__context__))
    return res + (buf.getvalue(),)

def rnd(x):
    return [round(float(v), 9) for v in x]

def describe_figure():
    """Deterministic description of the current pyplot figure(s), then close them."""
    d = []
    for num in mplt.get_fignums():
        fig = mplt.figure(num)
        for ax in fig.axes:
            d.append(('title', ax.get_title(), 'xl', ax.get_xlabel(), 'yl', ax.get_ylabel(),
                      'xlim', rnd(ax.get_xlim()), 'ylim', rnd(ax.get_ylim())))
            d.append(('patches', [(round(p.get_x(), 6), round(p.get_height(), 9), round(p.get_width(), 6),
                                   round(p.get_linewidth(), 6),
                                   matplotlib.colors.to_hex(p.get_facecolor()), matplotlib.colors.to_hex(p.get_edgecolor()))
                                  for p in ax.patches if hasattr(p, 'get_height')]))
            d.append(('lines', [(rnd(l.get_xdata()), rnd(l.get_ydata()), l.get_linestyle(), l.get_linewidth(),
                                 matplotlib.colors.to_hex(l.get_color())) for l in ax.lines]))
            d.append(('texts', [t.get_text() for t in ax.texts], 'ncoll', len(ax.collections)))
            leg = ax.get_legend()
            d.append(('legend', [t.get_text() for t in leg.get_texts()] if leg else None))
    d.append(('font', matplotlib.rcParams['font.size'], matplotlib.rcParams['font.weight']))
    mplt.close('all')
    return d

# ------------------------------------------------------------------ phaseplot_validate
class FloatRaisesValue(object):
    def __float__(self): raise ValueError("custom")
    def __str__(self): return "<FRV>"
class FloatRaisesType(object):
    def __float__(self): raise TypeError("custom type")
class FloatOK(object):
    def __init__(self, v): self.v = v
    def __float__(self): return self.v
    def __str__(self): return "FloatOK(%r)" % self.v
class StrRaises(object):
    def __float__(self): raise ValueError("x")
    def __str__(self): raise RuntimeError("str failed")
vals = [0, 1, 0.0, 1.0, 0.5, -0.0, -1e-12, 1 + 1e-12, -1, 2, 1e308, -1e308, float('inf'), float('-inf'), float('nan'),
        True, False, "0.3", " 0.3 ", "1e-3", "nan", "inf", "-inf", "abc", "", " ", "1,2", "0x10", "1_0", "٠.٥", b"0.5", b"zz",
        bytearray(b"0.25"), None, [], [0.5], (0.5,), {}, 1j, np.float64(0.4), np.float32(0.4), np.int64(1), np.array(0.3),
        np.array([0.3]), np.array([0.3, 0.4]), np.nan, decimal.Decimal("0.2"), decimal.Decimal("7"), fractions.Fraction(1, 3),
        fractions.Fraction(4, 3), FloatRaisesValue(), FloatRaisesType(), FloatOK(0.5), FloatOK(3.0), FloatOK(float('nan')),
        StrRaises(), 10 ** 400, -10 ** 400, "1" * 400, object]
for i, a in enumerate(vals):
    for j, b in enumerate(vals):
        r = capture(plotting.phaseplot_validate, a, b)
        rec('ppv', i, j, r[:5] if r[0] == 'exc' else r)
rec('ppv-kw', capture(plotting.phaseplot_validate, fn="x", fp="y"))
rec('ppv-kw2', capture(plotting.phaseplot_validate, fn=3, fp=0.1))
rec('ppv-arity', capture(plotting.phaseplot_validate, 1)[:2], capture(plotting.phaseplot_validate, 1, 2, 3)[:2])

# through the public plotting entry points (figure returned, described, closed)
pairs = [(0.1, 0.2), (0.5, 0.5), ("0.3", "0.1"), (0, 0), (1, 1), (1.2, 0.1), (0.1, -3), ("a", 0.1), (0.1, "b"), ("a", "b"),
         (None, 0.1), (float('nan'), 0.2), (2, "q"), ("q", 2), (0.7, 0.6)]
for fp, fn in pairs:
    r = capture(plotting.show_single_phasePlot, fp, fn, label="L", getFig=True)
    rec('ssp', fp, fn, r[0], r[1:] if r[0] == 'exc' else None, describe_figure())
    r = capture(plots.show_single_phasePlot, fp, fn, getFig=True) if 'getFig' in plots.show_single_phasePlot.__code__.co_varnames else ('skip',)
    rec('plots.ssp', fp, fn, r[0], r[1:] if r[0] == 'exc' else None, describe_figure())
for fps, fns in [([0.1, 0.2], [0.3, 0.1]), ([0.1, "x"], [0.3, 0.1]), ([0.1, 0.2], [1.3, "y"]), ([], []), ([0.1], [0.2, 0.3]), (["z", 5], ["w", 7])]:
    r = capture(plotting.show_multiple_phasePlot, fps, fns, getFig=True) if 'getFig' in plotting.show_multiple_phasePlot.__code__.co_varnames else capture(plotting.phaseplot_validate, 0, 0)
    rec('smp', fps, fns, r[0], r[1:] if r[0] == 'exc' else None, describe_figure())

# ------------------------------------------------------------------ build_*_plot
rng = random.Random(4044)
AA = "ACDEFGHIKLMNPQRSTVWY"
seqs = ["ACDEFGHIKLMNPQRSTVWY", "EEEEEKKKKKEEEEEKKKKK", "DDDDDDDDDD", "KKKKKRRRRR", "GGGGGGGGGGGG", "A", "AC", "EK",
        "".join(rng.choice(AA) for _ in range(60)), "".join(rng.choice("EKDRGS") for _ in range(130)),
        "".join(rng.choice(AA) for _ in range(230)), "".join(rng.choice("EEKG") for _ in range(115))]

class NoMethods(object):
    pass
class RaisesPlotting(object):
    def __getattr__(self, name):
        if name.startswith('linearDistOf'):
            def f(b):
                raise PlottingException("inner " + name)
            return f
        raise AttributeError(name)
class RaisesAttr(object):
    def __getattr__(self, name):
        if name.startswith('linearDistOf'):
            def f(b):
                raise AttributeError("inner attr " + name)
            return f
        raise AttributeError(name)
class RaisesValue(object):
    def linearDistOfNCPR(self, b): raise ValueError("v-ncpr")
    def linearDistOfFCR(self, b): raise ValueError("v-fcr")
    def linearDistOfSigma(self, b): raise ValueError("v-sigma")
    def linearDistOfHydropathy(self, b): raise ValueError("v-hyd")
class ReturnsJunk(object):
    def __init__(self, junk): self.junk = junk
    def linearDistOfNCPR(self, b): return self.junk
    linearDistOfFCR = linearDistOfSigma = linearDistOfHydropathy = linearDistOfNCPR
class Order(object):
    """records the order in which the builder touches its arguments"""
    log = []
    def __getattr__(self, name):
        Order.log.append('getattr ' + name)
        if name.startswith('linearDistOf'):
            def f(b):
                Order.log.append('call ' + name)
                return np.vstack(([1, 2, 3], [0.1, -0.2, 0.3]))
            return f
        raise AttributeError(name)
class Blob(object):
    def __init__(self, v, fail=None): self.v = v; self.fail = fail
    def __int__(self):
        Order.log.append('int(blob)')
        if self.fail: raise self.fail("int failed")
        return self.v
    def __index__(self): return self.v

builders = [('NCPR', plotting.build_NCPR_plot), ('FCR', plotting.build_FCR_plot),
            ('sigma', plotting.build_sigma_plot), ('hydro', plotting.build_hydropathy_plot)]
bloblens = [1, 2, 5, 5.0, 5.7, "5", "x", None, 0, -1, 1000, True, np.int64(3), [5], 3 + 0j]
objs = [Sequence(s) for s in seqs]
for name, b in builders:
    for si, o in enumerate(objs):
        for bl in bloblens:
            r = capture(b, o, bl)
            rec('build', name, si, bl, r[0], r[1:] if r[0] == 'exc' else (r[1] is plotting.plt), describe_figure())
            rec('state', o.seq, o.len, sorted(k for k in o.__dict__))
    for oi, o in enumerate([None, "ACDEFG", 5, NoMethods(), RaisesPlotting(), RaisesAttr(), RaisesValue(), ReturnsJunk(None),
                            ReturnsJunk([1, 2, 3]), ReturnsJunk(np.zeros((2, 0))), ReturnsJunk(np.vstack(([1, 2], [0.5, -0.5]))),
                            ReturnsJunk(np.array([1.0, 2.0])), ReturnsJunk("str"), SequenceParameters("ACDEFGHIKL")]):
        for bl in [5, "x", None, 2.5]:
            r = capture(b, o, bl)
            rec('build-odd', name, oi, bl, r[0], r[1:] if r[0] == 'exc' else (r[1] is plotting.plt), describe_figure())
    for blob in [Blob(4), Blob(4, ValueError), Blob(4, AttributeError), Blob(4, PlottingException), Blob(4, TypeError)]:
        Order.log = []
        r = capture(b, Order(), blob)
        rec('order', name, r[0], r[1:] if r[0] == 'exc' else None, list(Order.log), describe_figure())
    rec('kw', name, capture(b, SeqObj=objs[0], blobLen=4)[0], describe_figure())
    rec('arity', name, capture(b, objs[0])[:2], capture(b)[:2])

# show_linearplot / show_linear* wrappers and SequenceParameters front-ends
for name, b in builders:
    for o in [objs[0], objs[8], None]:
        r = capture(plotting.show_linearplot, b, o, 5, True)
        rec('show_linearplot', name, r[0], r[1:] if r[0] == 'exc' else None, describe_figure())
for fname in ['show_linearNCPR', 'show_linearFCR', 'show_linearSigma', 'show_linearHydropathy']:
    for o in [objs[1], "notseq"]:
        r = capture(getattr(plotting, fname), o, 5, True)
        rec(fname, r[0], r[1:] if r[0] == 'exc' else None, describe_figure())
SP = SequenceParameters(seqs[8])
for m in ['show_linearNCPR', 'show_linearFCR', 'show_linearSigma', 'show_linearHydropathy']:
    for bl in [5, 7, 100, "q"]:
        r = capture(getattr(SP, m), bl, True) if hasattr(SP, m) else ('missing',)
        rec('SP.' + m, bl, r[0], r[1:] if r[0] == 'exc' else None, describe_figure())

# saving to files: compare the bytes written
WORK = '/tmp/seed/R40_out/R4/_files'
shutil.rmtree(WORK, ignore_errors=True)
os.makedirs(WORK)
for name, b in builders:
    for o, tag in [(objs[0], 'a'), (objs[9], 'b'), (None, 'n')]:
        p = os.path.join(WORK, '%s_%s.png' % (name, tag))
        r = capture(plotting.save_linearplot, b, o, 5, p, 'png')
        digest = hashlib.sha256(open(p, 'rb').read()).hexdigest() if os.path.exists(p) else None
        rec('save', name, tag, r[0], r[1:] if r[0] == 'exc' else None, digest, sorted(os.listdir(WORK)))
        mplt.close('all')
for m in ['save_linearNCPR', 'save_linearFCR', 'save_linearSigma', 'save_linearHydropathy']:
    p = os.path.join(WORK, 'SP_' + m)
    r = capture(getattr(SP, m), p, 5) if hasattr(SP, m) else ('missing',)
    files = sorted(os.listdir(WORK))
    rec('SP.' + m, r[0], r[1:] if r[0] == 'exc' else None, files,
        [hashlib.sha256(open(os.path.join(WORK, f), 'rb').read()).hexdigest() for f in files if f.startswith('SP_' + m)])
    mplt.close('all')
shutil.rmtree(WORK, ignore_errors=True)

rec('public', sorted(n for n in vars(plotting) if n.startswith(('build_', 'show_', 'save_', 'phaseplot'))))

blob = "\n".join(out)
print(len(out), hashlib.sha256(blob.encode('utf-8', 'backslashreplace')).hexdigest())
print('ok records:', sum("'ok'" in o for o in out), 'PlottingException records:', sum('PlottingException' in o for o in out))
for line in out[:2] + out[-2:]:
    print(line[:200].encode('ascii', 'backslashreplace').decode())
