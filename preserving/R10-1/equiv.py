"""
Differential script for the WangLandauMachine refactorings.

Run once with cwd=<changed tree> and once with cwd=/repo (unchanged) and
compare the printed output: it must be byte-identical.

    cd /tmp/seed/R10 && /venv/bin/python equiv.py > new.txt
    cd /repo         && /venv/bin/python equiv.py > old.txt

All random number generators in the library are seeded from time.time(), so
time.time is replaced by a deterministic counter.  Because the seed depends on
how many times the clock was read, any change in the order/number of clock or
RNG consumption shows up as a different digest.
"""
import os
import sys
sys.path.insert(0, os.getcwd())

import contextlib
import hashlib
import io
import shutil
import tempfile
import time
import warnings

import numpy as np

# ResourceWarning ("unclosed file", emitted by the garbage collector and hidden
# by default) is recorded unless this is set
IGNORE_RESOURCE_WARNINGS = False

_clock = [1000.0]
_budget = [0]
BUDGET = 6000      # clock reads allowed per recorded call (deterministic "timeout")


class BudgetExceeded(Exception):
    pass


def _fake_time():
    _clock[0] += 0.37
    _budget[0] += 1
    if _budget[0] > BUDGET:
        _budget[0] = 0
        raise BudgetExceeded("more than %d clock reads" % BUDGET)
    return _clock[0]


time.time = _fake_time

warnings.simplefilter("ignore", SyntaxWarning)
from localcider.backend import wang_landau as wl          # noqa: E402
from localcider.backend.sequence import Sequence          # noqa: E402

sys.stderr.write("library under test: %s\n" % wl.__file__)
WLM = wl.WangLandauMachine
LINES = []


def emit(tag, value):
    text = repr(value)
    LINES.append("%s :: %s" % (tag, text))


def canon(x):
    """deterministic, type-revealing representation"""
    if isinstance(x, np.ndarray):
        return ("ndarray", str(x.dtype), x.shape, x.tobytes().hex() if x.dtype != object else repr(x.tolist()))
    if isinstance(x, np.generic):
        return (type(x).__name__, repr(x.item()))
    if isinstance(x, (list, tuple)):
        return (type(x).__name__, [canon(i) for i in x])
    if isinstance(x, (set, frozenset)):
        return (type(x).__name__, sorted(repr(canon(i)) for i in x))
    if isinstance(x, dict):
        return ("dict", sorted((repr(k), canon(v)) for k, v in x.items()))
    if isinstance(x, Sequence):
        return ("Sequence", x.seq)
    if isinstance(x, float):
        return ("float", repr(x))
    return (type(x).__name__, repr(x))


def state(m):
    return canon(dict(vars(m)))


def call(tag, fn, *a, **k):
    """Run fn, record stdout, warnings, result or exception (type + message)."""
    buf = io.StringIO()
    _budget[0] = 0
    if "--trace" in sys.argv:
        sys.stderr.write(tag + "\n")
    with warnings.catch_warnings(record=True) as w:
        warnings.simplefilter("always")
        with contextlib.redirect_stdout(buf):
            try:
                res = ("ok", canon(fn(*a, **k)))
            except BaseException as e:      # noqa
                res = ("exc", type(e).__name__, str(e))
    out = buf.getvalue()
    for d in _DIRS:
        out = out.replace(d, "<DIR>")
        res = eval(repr(res).replace(d, "<DIR>"), {"nan": float("nan"), "inf": float("inf")}) if d in repr(res) else res
    emit(tag, (res, out, sorted((x.category.__name__, str(x.message)) for x in w
                                if not (IGNORE_RESOURCE_WARNINGS and x.category is ResourceWarning))))
    return res


_DIRS = []


def newdir():
    d = tempfile.mkdtemp(prefix="wlequiv_")
    _DIRS.append(d)
    return d


def dirdigest(d):
    res = []
    for f in sorted(os.listdir(d)):
        with open(os.path.join(d, f), "rb") as fh:
            data = fh.read()
        res.append((f, len(data), hashlib.sha1(data).hexdigest()))
    return res


def quiet_machine(*a, **k):
    _budget[0] = 0
    with contextlib.redirect_stdout(io.StringIO()):
        return WLM(*a, **k)


# ---------------------------------------------------------------------------
# 1. __init__
# ---------------------------------------------------------------------------
def section_init():
    d = newdir()
    longseq = "EKEKEKEKAAGGEEKKDDRRSTSTQQNNGGPPEEKKEEKK"
    cases = [
        dict(seq="EKEKEKEKAAGGEEKK", writedir=d),
        dict(seq=longseq, writedir=d),
        dict(seq=longseq[:30], writedir=d),
        dict(seq=longseq[:31], writedir=d),
        dict(seq=Sequence("EEEEKKKKAAAA"), writedir=d),
        dict(seq="EKEKEKEKAAGGEEKK", writedir=d, frozenResidues=set([1, 2, 3])),
        dict(seq="EKEKEKEKAAGGEEKK", writedir=d, frozenResidues=[4, 4, 5]),
        dict(seq="EKEKEKEKAAGGEEKK", writedir=d, frozenResidues=()),
        dict(seq="EKEKEKEKAAGGEEKK", writedir=d, frozenResidues=None),
        dict(seq="EKEKEKEKAAGGEEKK", writedir=d, frozenResidues=5),
        dict(seq="EKEKEKEKAAGGEEKK", writedir=d, nbins=5, binmin=0.2, binmax=0.6),
        dict(seq="EKEKEKEKAAGGEEKK", writedir=d, nbins=7, binmin=0.1, binmax=0.45),
        dict(seq="EKEKEKEKAAGGEEKK", writedir=d, nbins=3, binmin=0.9, binmax=1.0),
        dict(seq="EKEKEKEKAAGGEEKK", writedir=d, nbins=3, binmin=0.6, binmax=0.2),
        dict(seq="EKEKEKEKAAGGEEKK", writedir=d, nbins=0),
        dict(seq="EKEKEKEKAAGGEEKK", writedir=d, nbins=-4),
        dict(seq="EKEKEKEKAAGGEEKK", writedir=d, nbins=4.9),
        dict(seq="EKEKEKEKAAGGEEKK", writedir=d, nbins="6"),
        dict(seq="EKEKEKEKAAGGEEKK", writedir=d, nbins="six"),
        dict(seq="EKEKEKEKAAGGEEKK", writedir=d, nbins=None),
        dict(seq="EKEKEKEKAAGGEEKK", writedir=d, binmin=0.5, binmax=0.5),
        dict(seq="EKEKEKEKAAGGEEKK", writedir=d, binmin="0.25", binmax="0.75"),
        dict(seq="EKEKEKEKAAGGEEKK", writedir=d, binmin="a"),
        dict(seq="EKEKEKEKAAGGEEKK", writedir=d, binmax=None),
        dict(seq="EKEKEKEKAAGGEEKK", writedir=d, binmin=0, binmax=1e-9, nbins=1),
        dict(seq="EKEKEKEKAAGGEEKK", writedir=d, binmin=0, binmax=3, nbins=2),
        dict(seq="EKEKEKEKAAGGEEKK", writedir=d, binmin=0, binmax=float("nan")),
        dict(seq="EKEKEKEKAAGGEEKK", writedir=d, binmin=0, binmax=float("inf")),
        dict(seq="EKEKEKEKAAGGEEKK", writedir=d, flatchk=5),
        dict(seq="EKEKEKEKAAGGEEKK", writedir=d, flatchk=0),
        dict(seq="EKEKEKEKAAGGEEKK", writedir=d, flatchk=39.9),
        dict(seq="EKEKEKEKAAGGEEKK", writedir=d, flatchk="x"),
        dict(seq="EKEKEKEKAAGGEEKK", writedir=d, flatcrit="x"),
        dict(seq="EKEKEKEKAAGGEEKK", writedir=d, flatcrit=1),
        dict(seq="EKEKEKEKAAGGEEKK", writedir=d, convergence="x"),
        dict(seq="EKEKEKEKAAGGEEKK", writedir=d, convergence=2),
        dict(seq="EKEKEKEKAAGGEEKK", writedir=d, WL_type="ZOOM"),
        dict(seq="EKEKEKEKAAGGEEKK", writedir=d, WL_type="ZOOM", nbins=17, binmin=0.3, binmax=0.4),
        dict(seq="EKEKEKEKAAGGEEKK", writedir=d, WL_type="ZOOM", nbins="q"),
        dict(seq="EKEKEKEKAAGGEEKK", writedir=d, WL_type="ZOOM", nbins=3.7),
        dict(seq="EKEKEKEKAAGGEEKK", writedir=d, WL_type="zoom"),
        dict(seq="EKEKEKEKAAGGEEKK", writedir=d, WL_type=None),
        dict(seq="EKEKEKEKAAGGEEKK", writedir=d, WL_type=3, nbins=4),
        dict(seq="", writedir=d),
        dict(seq="A", writedir=d),
        dict(seq="EKXZ", writedir=d),
        dict(seq="ek ek", writedir=d),
        dict(seq=None, writedir=d),
        dict(seq=12345, writedir=d),
        dict(seq=["E", "K"], writedir=d),
        dict(seq="EKEKEKEKAAGGEEKK", writedir=None),
        dict(seq="EKEKEKEKAAGGEEKK", writedir=17),
        dict(seq="EKEKEKEKAAGGEEKK", writedir="relative/dir"),
        dict(seq="EKEKEKEKAAGGEEKK", writedir=""),
        # several bad things at once -> which one is reported first?
        dict(seq=None, writedir=None, nbins="x", flatchk="y"),
        dict(seq="EKEK", writedir=None, nbins="x", flatchk="y", flatcrit="z"),
        dict(seq="EKEK", writedir=None, nbins=0, binmin="p", WL_type="ZOOM"),
        dict(seq="EKEK", writedir=None, nbins=0, binmin="p"),
        dict(seq="EKEK", writedir=None, nbins=2, binmin=0.5, binmax=0.5, frozenResidues=5),
    ]
    cwd = os.getcwd()
    for i, kw in enumerate(cases):
        holder = {}

        def build():
            holder["m"] = WLM(**kw)
            return state(holder["m"])
        res = call("init[%d]" % i, build)
        # positional form as used by sequencePermutants
        if i % 5 == 0:
            order = ["seq", "writedir", "frozenResidues", "nbins", "binmin", "binmax",
                     "flatchk", "flatcrit", "convergence", "WL_type"]
            defaults = dict(frozenResidues=set([]), nbins=10, binmin=0, binmax=1, flatchk=10000,
                            flatcrit=.7, convergence=np.exp(.000001), WL_type="NORMAL")
            args = [kw.get(n, defaults.get(n)) for n in order]
            call("init-pos[%d]" % i, lambda: state(WLM(*args)))
    # print of abspath depends on cwd for relative dirs: normalise
    for j, l in enumerate(LINES):
        LINES[j] = l.replace(cwd, "<CWD>")

    # default-argument sharing: frozenResidues default must not be shared/mutated
    a = quiet_machine("EKEKEK", d)
    a.frozen.add(3)
    b = quiet_machine("EKEKEK", d)
    emit("init-default-shared", (canon(a.frozen), canon(b.frozen)))
    fz = set([1])
    c = quiet_machine("EKEKEK", d, frozenResidues=fz)
    c.frozen.add(2)
    emit("init-frozen-copy", (canon(fz), canon(c.frozen), c.frozen is fz))
    s = Sequence("EKEKEK")
    e = quiet_machine(s, d)
    emit("init-seq-identity", e.seq is s)

    class Sequence2(object):           # same class *name*, different class
        seq = "EKEK"
    Sequence2.__name__ = "Sequence"
    obj = Sequence2()
    call("init-lookalike", lambda: WLM(obj, d).seq is obj)

    class SubSeq(Sequence):
        pass
    call("init-subclass", lambda: state(WLM(SubSeq("EKEKAA"), d)))


# ---------------------------------------------------------------------------
# 2. small accessors
# ---------------------------------------------------------------------------
def section_accessors():
    d = newdir()
    m = quiet_machine("EKEKEKEKAAGGEEKK", d, nbins=5, binmin=0.2, binmax=0.6)
    for nb in [1, 2, 3, 7, 10, 13, 100, 0, -3, 2.5, 0.5, np.int64(6), np.float64(4.0), "4", None, True,
               float("nan"), float("inf")]:
        m.nbins_actual = nb
        call("getBinSize[%r]" % (nb,), m.getBinSize)
        call("getBinCenters[%r]" % (nb,), m.getBinCenters)
        emit("state-after-accessor[%r]" % (nb,), state(m))
    m = quiet_machine("EKEKEKEKAAGGEEKK", d, nbins=5, binmin=0.2, binmax=0.6)
    idxs = [-1, 0, 1, 2, 3, 5, 6, 7, 8, 100, np.int64(3), np.int64(7), np.int32(2), 2.0, 6.5, 1.999,
            float("nan"), float("inf"), -float("inf"), True, False, None, "3", b"3", [3], (3,),
            np.array(3), np.array([3]), np.array([1, 3]), np.array([]), 3 + 0j, np.float64("nan")]
    bounds = [(None, None), (0, 0), (3, 2), (2, 2), (np.int64(1), np.int64(4)), (1.5, 6.5), ("a", "b"),
              (None, 4), (2, None), (float("nan"), 5), (0, float("nan")), (np.array([1, 2]), 5),
              (1, np.array([5, 6]))]
    for lo, hi in bounds:
        if lo is not None or hi is not None:
            m.relevant_min, m.relevant_max = lo, hi
        for idx in idxs:
            call("inside[%r,%r][%r]" % (lo, hi, idx), m.indexInsideRelevantRegion, idx)

    # custom objects reveal evaluation order / number of comparisons
    log = []

    class Spy(object):
        def __init__(self, v, name):
            self.v, self.name = v, name

        def __le__(self, o):
            log.append((self.name, "le")); return self.v <= getattr(o, "v", o)

        def __ge__(self, o):
            log.append((self.name, "ge")); return self.v >= getattr(o, "v", o)

        def __lt__(self, o):
            log.append((self.name, "lt")); return self.v < getattr(o, "v", o)

        def __gt__(self, o):
            log.append((self.name, "gt")); return self.v > getattr(o, "v", o)

        def __bool__(self):
            log.append((self.name, "bool")); return bool(self.v)
    for lo, hi, v in [(1, 4, 2), (1, 4, 0), (1, 4, 9), (3, 3, 3)]:
        m.relevant_min, m.relevant_max = lo, hi
        del log[:]
        call("inside-spy-idx[%r]" % ((lo, hi, v),), m.indexInsideRelevantRegion, Spy(v, "idx"))
        emit("inside-spy-idx-log[%r]" % ((lo, hi, v),), list(log))
        m.relevant_min, m.relevant_max = Spy(lo, "lo"), Spy(hi, "hi")
        del log[:]
        call("inside-spy-bounds[%r]" % ((lo, hi, v),), m.indexInsideRelevantRegion, v)
        emit("inside-spy-bounds-log[%r]" % ((lo, hi, v),), list(log))

    class Weird(object):
        def __le__(self, o):
            return "yes"

        def __ge__(self, o):
            return []
    m.relevant_min, m.relevant_max = 1, 4
    call("inside-weird", m.indexInsideRelevantRegion, Weird())

    class Weird2(object):
        def __le__(self, o):
            return "yes"

        def __ge__(self, o):
            return "also"
    call("inside-weird2", m.indexInsideRelevantRegion, Weird2())


# ---------------------------------------------------------------------------
# 3. run / run_normal_WL
# ---------------------------------------------------------------------------
def section_run():
    runs = [
        dict(seq="EKEKEKEKAAGGEEKK", nbins=5, binmin=0.0, binmax=1.0, flatchk=200, flatcrit=0.3,
             convergence=np.exp(0.3)),
        dict(seq="EKEKEKEKAAGGEEKK", nbins=4, binmin=0.1, binmax=0.5, flatchk=150, flatcrit=0.2,
             convergence=np.exp(0.3)),
        dict(seq="EEEEKKKKAAAAGGGGSSSS", nbins=3, binmin=0.2, binmax=0.8, flatchk=120, flatcrit=0.2,
             convergence=np.exp(0.26), frozenResidues=set([0, 1, 19])),
        dict(seq="EKEKEKEKAAGGEEKKDDRRSTSTQQNNGGPPEEKKEEKK", nbins=4, binmin=0.0, binmax=0.4, flatchk=60,
             flatcrit=0.1, convergence=np.exp(0.51)),
        # convergence already satisfied: loop body never runs
        dict(seq="EKEKEKEKAAGGEEKK", nbins=5, flatchk=50, convergence=3.0),
        dict(seq="EKEKEKEKAAGGEEKK", nbins=5, flatchk=50, convergence=np.exp(1)),
        # flatchk 1: a flat check after every single step
        dict(seq="EKEKEKEKAAGG", nbins=2, binmin=0.0, binmax=1.0, flatchk=1, flatcrit=0.0,
             convergence=np.exp(0.2)),
        dict(seq="EKEKEKEKAAGG", nbins=2, binmin=0.0, binmax=1.0, flatchk=3, flatcrit=0.01,
             convergence=np.exp(0.2)),
        # unusual residues / single charge type
        dict(seq="EEEEEEAAAAAA", nbins=2, binmin=0.0, binmax=1.0, flatchk=40, flatcrit=0.0,
             convergence=np.exp(0.4)),
        # no charges at all -> kappa is -1
        dict(seq="GGGGSSSSAAAA", nbins=2, binmin=0.0, binmax=1.0, flatchk=40, flatcrit=0.0,
             convergence=np.exp(0.4)),
        # short sequence, shorter than kappa blob
        dict(seq="EK", nbins=2, flatchk=10, flatcrit=0.0, convergence=np.exp(0.4)),
        dict(seq="", nbins=2, flatchk=10, flatcrit=0.0, convergence=np.exp(0.4)),
        # flatchk 0 -> modulo by zero
        dict(seq="EKEKEKEKAAGG", nbins=2, flatchk=0, flatcrit=0.0, convergence=np.exp(0.4)),
        # everything frozen
        dict(seq="EKEKEKAAGG", nbins=2, flatchk=20, flatcrit=0.0, convergence=np.exp(0.4),
             frozenResidues=set(range(10))),
    ]
    for i, kw in enumerate(runs):
        for entry in ("run", "run_normal_WL"):
            d = newdir()
            _clock[0] = 5000.0 + 11 * i
            holder = {}

            def go():
                holder["m"] = WLM(writedir=d, **kw)
                return getattr(holder["m"], entry)()
            call("%s[%d]" % (entry, i), go)
            emit("%s-files[%d]" % (entry, i), dirdigest(d))
            if "m" in holder:
                emit("%s-state[%d]" % (entry, i), state(holder["m"]))
                if i in (0, 1, 4, 6):
                    # repeated call on the same object
                    call("%s-again[%d]" % (entry, i), getattr(holder["m"], entry))
                    emit("%s-again-files[%d]" % (entry, i), dirdigest(d))
                    emit("%s-again-state[%d]" % (entry, i), state(holder["m"]))

    # output directory problems
    d = newdir()
    m = quiet_machine("EKEKEKEKAAGG", os.path.join(d, "does", "not", "exist"), nbins=2, flatchk=10,
                      flatcrit=0.0, convergence=np.exp(0.4))
    call("run-missing-dir", m.run)
    emit("run-missing-dir-files", dirdigest(d))
    m = quiet_machine("EKEKEKEKAAGG", d, nbins=2, flatchk=10, flatcrit=0.0, convergence=np.exp(0.4))
    m.writeDir = None
    call("run-None-dir", m.run)

    # dispatch on WL_type
    for typ in ["NORMAL", "ZOOM", "normal", "", None, 0, "HISTOGRAMZOOM"]:
        d = newdir()
        _clock[0] = 7000.0
        m = quiet_machine("EKEKEKEKAAGG", d, nbins=2, flatchk=10, flatcrit=0.0, convergence=np.exp(0.4),
                          WL_type=typ)
        call("run-type[%r]" % (typ,), m.run)
        emit("run-type-files[%r]" % (typ,), dirdigest(d))
        # type changed after construction
        m = quiet_machine("EKEKEKEKAAGG", d, nbins=2, flatchk=10, flatcrit=0.0, convergence=np.exp(0.4))
        m.WL_type = typ
        _clock[0] = 7100.0
        call("run-type-late[%r]" % (typ,), m.run)
        emit("run-type-late-files[%r]" % (typ,), dirdigest(d))

    # tampered state
    d = newdir()
    m = quiet_machine("EKEKEKEKAAGG", d, nbins=4, binmin=0.0, binmax=1.0, flatchk=25, flatcrit=0.0,
                      convergence=np.exp(0.4))
    m.relevant_min, m.relevant_max = 1, 2
    _clock[0] = 7300.0
    call("run-tampered-region", m.run)
    emit("run-tampered-region-files", dirdigest(d))
    m.relevant_min, m.relevant_max = 3, 9          # beyond histogram
    _clock[0] = 7400.0
    call("run-tampered-region2", m.run)
    emit("run-tampered-region2-files", dirdigest(d))
    # main loop never entered (already converged) but the local DOS region is
    # partly / completely outside the histogram, or uses negative indices
    for lo, hi in [(2, 9), (7, 9), (3, 1), (-2, 1), (-9, 1), (0, 3), (1.0, 2), (None, 2)]:
        d2 = newdir()
        m = quiet_machine("EKEKEKEKAAGG", d2, nbins=4, flatchk=25, flatcrit=0.0, convergence=3.0)
        m.relevant_min, m.relevant_max = lo, hi
        call("run-dos-region[%r,%r]" % (lo, hi), m.run)
        emit("run-dos-region-files[%r,%r]" % (lo, hi),
             [(n, open(os.path.join(d2, n)).read()) for n in sorted(os.listdir(d2))])
    # DOS files cannot be created (target names are directories)
    d2 = newdir()
    os.mkdir(os.path.join(d2, "DOS_local.txt"))
    m = quiet_machine("EKEKEKEKAAGG", d2, nbins=4, flatchk=25, flatcrit=0.0, convergence=3.0)
    call("run-dos-local-isdir", m.run)
    emit("run-dos-local-isdir-files", sorted(os.listdir(d2)))
    emit("run-dos-local-isdir-DOS", open(os.path.join(d2, "DOS.txt")).read())
    os.rmdir(os.path.join(d2, "DOS_local.txt"))
    os.remove(os.path.join(d2, "DOS.txt"))
    os.mkdir(os.path.join(d2, "DOS.txt"))
    call("run-dos-isdir", m.run)
    emit("run-dos-isdir-files", sorted(os.listdir(d2)))
    os.rmdir(os.path.join(d2, "DOS.txt"))
    m = quiet_machine("EKEKEKEKAAGG", d, nbins=4, flatchk=25, flatcrit=0.0, convergence=np.exp(0.4))
    m.dotdotfreq = 0
    call("run-dotfreq0", m.run)
    m = quiet_machine("EKEKEKEKAAGG", d, nbins=4, flatchk=25, flatcrit=0.0, convergence=np.exp(0.4))
    m.nbins_actual = 0
    call("run-nbins0", m.run)
    m = quiet_machine("EKEKEKEKAAGG", d, nbins=4, flatchk=25, flatcrit=0.0, convergence=np.exp(0.4))
    m.frozen = None
    _clock[0] = 7500.0
    call("run-frozen-None", m.run)


# ---------------------------------------------------------------------------
# 4. __run_flatcheck
# ---------------------------------------------------------------------------
def section_flatcheck():
    fc_name = "_WangLandauMachine__run_flatcheck"
    e = np.exp(1)
    cases = [
        # (nbins, binmin, binmax, H, rel slice or explicit Hlocal, niter, f, g, convergence, flatcrit)
        (4, 0.0, 1.0, [5, 5, 5, 5], None, 0, e, [1.0, 2.0, 3.0, 4.0], np.exp(0.3), 0.7),
        (4, 0.0, 1.0, [5, 5, 5, 1], None, 0, e, [1.0, 2.0, 3.0, 4.0], np.exp(0.3), 0.7),
        (4, 0.0, 1.0, [0, 0, 0, 0], None, 2, e, [0, 0, 0, 0], np.exp(0.3), 0.7),
        (4, 0.0, 1.0, [0, 0, 0, 0], None, 2, e, [0, 0, 0, 0], np.exp(0.3), 0.0),
        (4, 0.0, 1.0, [7, 8, 9, 10], None, 3, e ** 0.5, [np.float64(1.5), 2, 3, 4], np.exp(0.3), 0.1),
        (4, 0.0, 1.0, [7, 8, 9, 10], None, 3, np.exp(0.6), [1, 2, 3, 4], np.exp(0.3), 0.1),
        (4, 0.0, 1.0, [7, 8, 9, 10], None, 3, np.exp(0.6000001), [1, 2, 3, 4], np.exp(0.3), 0.1),
        (4, 0.0, 1.0, [7, 8, 9, 10], None, 3, 4.0, [1, 2, 3, 4], 2.0, 0.1),
        (4, 0.0, 1.0, [7, 8, 9, 10], None, 3, 4, [1, 2, 3, 4], 2.0, 0.1),
        (4, 0.0, 1.0, [7, 8, 9, 10], None, 3, -4.0, [1, 2, 3, 4], 2.0, 0.1),
        (4, 0.0, 1.0, [7, 8, 9, 10], None, 3, "x", [1, 2, 3, 4], 2.0, 0.1),
        (4, 0.0, 1.0, [7, 8, 9, 10], None, None, e, [1, 2, 3, 4], 2.0, 0.1),
        (4, 0.0, 1.0, [7, 8, 9, 10], None, 1.5, e, [1, 2, 3, 4], 2.0, 0.1),
        (4, 0.0, 1.0, [7, 8, 9, 10], None, 1, e, ["a", 2, 3, 4], 2.0, 0.1),
        (4, 0.0, 1.0, [7, 8, 9, 10], None, 1, e, [], 2.0, 0.1),
        (4, 0.0, 1.0, [7, 8, 9, 10], None, 1, e, None, 2.0, 0.1),
        (5, 0.2, 0.6, [0, 0, 3, 4, 5, 6, 7, 0, 0, 0, 0, 0], None, 0, e, list(range(12)), np.exp(0.3), 0.5),
        (5, 0.2, 0.6, [0, 0, 3, 4, 5, 6, 70, 0, 0, 0, 0, 0], None, 0, e, list(range(12)), np.exp(0.3), 0.5),
        (5, 0.2, 0.6, [0] * 12, [], 0, e, list(range(12)), np.exp(0.3), 0.5),
        (5, 0.2, 0.6, [0] * 12, [1, 1, 1, 1, 1, 1], 0, e, list(range(12)), np.exp(0.3), 0.5),
        (5, 0.2, 0.6, [0] * 12, [1, 1, 1, 1], 0, e, list(range(12)), np.exp(0.3), 0.5),
        (5, 0.2, 0.6, [0] * 12, np.array([1, 1, 1, 1, 1]), 0, e, list(range(12)), np.exp(0.3), 0.5),
        (5, 0.2, 0.6, [0] * 12, np.array([[1, 1, 1, 1, 1]]), 0, e, list(range(12)), np.exp(0.3), 0.5),
        (5, 0.2, 0.6, [0] * 12, np.array([[1, 1], [1, 1], [1, 0]]), 0, e, list(range(12)), np.exp(0.3), 0.5),
        (5, 0.2, 0.6, [0] * 12, np.array([[3, 3], [3, 3], [3, 0]]), 0, e, list(range(12)), np.exp(0.3), 0.5),
        (5, 0.2, 0.6, [0] * 12, [-1, -1, -1, -1, -1], 0, e, list(range(12)), np.exp(0.3), 0.5),
        (5, 0.2, 0.6, [0] * 12, [1.0, float("nan"), 1, 1, 1], 0, e, list(range(12)), np.exp(0.3), 0.5),
        (5, 0.2, 0.6, [0] * 12, ["a", "b"], 0, e, list(range(12)), np.exp(0.3), 0.5),
        (5, 0.2, 0.6, [0] * 12, None, 0, e, list(range(12)), np.exp(0.3), "x"),
        (5, 0.2, 0.6, None, [2, 2, 2, 2, 2], 0, e, list(range(12)), np.exp(0.3), 0.5),
        (5, 0.2, 0.6, "Hstring", 5, 0, e, list(range(12)), np.exp(0.3), 0.5),
        (5, 0.2, 0.6, "Hstring", None, 0, e, list(range(12)), np.exp(0.3), 0.5),
    ]
    for i, (nb, lo, hi, H, Hlocal, niter, f, g, conv, crit) in enumerate(cases):
        d = newdir()
        m = quiet_machine("EKEKEKEKAAGG", d, nbins=nb, binmin=lo, binmax=hi, convergence=conv)
        m.flatcrit = crit
        if Hlocal is None and H is not None:
            Hlocal = H[m.relevant_min:m.relevant_max + 1]
        hlog = m.mklog(os.path.join(d, "hlog.txt"))
        glog = m.mklog(os.path.join(d, "glog.txt"))
        Hid = id(H)
        call("flatcheck[%d]" % i, getattr(m, fc_name), H, Hlocal, niter, f, hlog, glog, g)
        emit("flatcheck-files[%d]" % i, [(n, open(os.path.join(d, n)).read()) for n in sorted(os.listdir(d))])
        emit("flatcheck-state[%d]" % i, state(m))
        emit("flatcheck-args-untouched[%d]" % i, (canon(H), canon(Hlocal), canon(g)))

    # identity of returned H when not flat / flat
    d = newdir()
    m = quiet_machine("EKEKEKEKAAGG", d, nbins=4, convergence=np.exp(0.3))
    hlog = m.mklog(os.path.join(d, "hlog.txt"))
    glog = m.mklog(os.path.join(d, "glog.txt"))
    H = [9, 9, 9, 0]
    with contextlib.redirect_stdout(io.StringIO()):
        r = getattr(m, fc_name)(H, H[:], 0, e, hlog, glog, [0, 0, 0, 0])
    emit("flatcheck-identity-notflat", (r[0] is H, type(r).__name__, len(r), type(r[3]).__name__, type(r[1]).__name__))
    H = [9, 9, 9, 9]
    with contextlib.redirect_stdout(io.StringIO()):
        r = getattr(m, fc_name)(H, H[:], 0, e, hlog, glog, [0, 0, 0, 0])
    emit("flatcheck-identity-flat", (r[0] is H, canon(H), type(r).__name__, len(r), type(r[3]).__name__, type(r[1]).__name__))
    # tampered machine
    m.nbins_actual = 0
    call("flatcheck-nbins0", getattr(m, fc_name), H, H[:], 0, e, hlog, glog, [0, 0, 0, 0])
    m.nbins_actual = 4
    m.relevant_max = 11
    call("flatcheck-relmax-out", getattr(m, fc_name), H, H[:], 0, e, hlog, glog, [0, 0, 0, 0])
    m.relevant_max = 3
    m.relevant_min = -1
    call("flatcheck-relmin-neg", getattr(m, fc_name), H, H[:], 0, e, hlog, glog, [0, 0, 0, 0])
    m.relevant_min = 0
    call("flatcheck-badlog", getattr(m, fc_name), H, H[:], 0, e, os.path.join(d, "no", "h"), os.path.join(d, "no", "g"), [0, 0, 0, 0])
    call("flatcheck-badlog2", getattr(m, fc_name), H, H[:], 0, e, None, None, [0, 0, 0, 0])
    call("flatcheck-badhlog-converged", getattr(m, fc_name), H, H[:], 0, 1.0, None, glog, [0, 0, 0, 0])
    call("flatcheck-badhlog-notconverged", getattr(m, fc_name), H, H[:], 0, e, None, glog, [0, 0, 0, 0])
    emit("flatcheck-final-files", [(n, open(os.path.join(d, n)).read()) for n in sorted(os.listdir(d))])


# ---------------------------------------------------------------------------
# 5. log writers
# ---------------------------------------------------------------------------
def section_logs():
    d = newdir()
    m = quiet_machine("EKEKEKEKAAGG", d, nbins=4)

    def gen(vals):
        for v in vals:
            yield v

    vectors = [
        [], [0], [1, 2, 3], (4, 5), [1.5, 2.49999, -0.00004], [np.float64(3.25), np.int64(7)],
        np.arange(4), np.arange(4) / 3.0, np.array([]), np.array([[1, 2], [3, 4]]), np.array(5),
        [float("nan")], [float("inf"), -float("inf")], [True, False], [None], ["a"], ["1"], "12", "",
        b"ab", None, 7, 7.5, {3: 1, 4: 2}, set([5]), [1, "x", 3], [[1]], [(1,)], [(1, 2)], [10 ** 30],
        [1e300], [-0.0], [1 + 2j], range(3), {"k": 1},
    ]
    for name in ("fprintHVector", "fprintGVector", "fprintVertVector"):
        for i, v in enumerate(vectors):
            call("%s[%d]" % (name, i), getattr(m, name), v)
        call("%s[gen]" % name, lambda: getattr(m, name)(gen([1, 2.5, 3])))
        call("%s[gen-bad]" % name, lambda: getattr(m, name)(gen([1, "q", 3])))
        # a generator that is only partly consumed on error must be left at the same point
        g = gen([1, "q", 3, 4])
        call("%s[gen-partial]" % name, getattr(m, name), g)
        emit("%s[gen-partial-rest]" % name, list(g))

    # mklog / writeLog
    p = os.path.join(d, "a.txt")
    call("mklog-basic", m.mklog, p)
    emit("mklog-basic-content", open(p).read())
    call("mklog-initial", m.mklog, p, "hello\n")
    emit("mklog-initial-content", open(p).read())
    call("mklog-initial-kw", m.mklog, logfile=p, initial="kw\n")
    emit("mklog-initial-kw-content", open(p).read())
    call("writeLog-1", m.writeLog, p, "more\n")
    call("writeLog-2", m.writeLog, p, "")
    call("writeLog-kw", m.writeLog, logfile=p, output="x")
    emit("writeLog-content", open(p).read())
    call("mklog-truncates", m.mklog, p)
    emit("mklog-truncates-content", open(p).read())
    call("mklog-bad-initial", m.mklog, p, 5)
    emit("mklog-bad-initial-content", open(p).read())
    call("mklog-bad-initial-None", m.mklog, p, None)
    call("mklog-bytes-initial", m.mklog, p, b"xx")
    call("writeLog-bad-output", m.writeLog, p, 5)
    call("writeLog-None-output", m.writeLog, p, None)
    emit("after-bad-content", open(p).read())
    q = os.path.join(d, "fresh.txt")
    call("writeLog-creates", m.writeLog, q, "created\n")
    emit("writeLog-creates-content", open(q).read())
    q2 = os.path.join(d, "fresh2.txt")
    call("writeLog-bad-creates", m.writeLog, q2, 12)
    emit("writeLog-bad-creates-exists", (os.path.exists(q2), os.path.exists(q2) and open(q2).read()))
    q3 = os.path.join(d, "fresh3.txt")
    call("mklog-bad-creates", m.mklog, q3, 12)
    emit("mklog-bad-creates-exists", (os.path.exists(q3), os.path.exists(q3) and open(q3).read()))
    call("mklog-missing-dir", m.mklog, os.path.join(d, "nope", "a.txt"))
    call("writeLog-missing-dir", m.writeLog, os.path.join(d, "nope", "a.txt"), "x")
    call("mklog-dir", m.mklog, d)
    call("writeLog-dir", m.writeLog, d, "x")
    call("mklog-None", m.mklog, None)
    call("writeLog-None", m.writeLog, None, "x")
    call("mklog-empty", m.mklog, "")
    call("mklog-unicode", m.mklog, os.path.join(d, "u.txt"), u"κ=0.5\n")
    call("writeLog-unicode", m.writeLog, os.path.join(d, "u.txt"), u"δ\n")
    emit("unicode-content", open(os.path.join(d, "u.txt"), "rb").read())
    call("writeLog-newlines", m.writeLog, os.path.join(d, "n.txt"), "a\r\nb\rc\n")
    emit("newlines-content", open(os.path.join(d, "n.txt"), "rb").read())
    emit("logs-dir", dirdigest(d))
    emit("logs-state", state(m))
    # open file handles must not leak in either version for the good path
    import gc
    gc.collect()


def main():
    section_init()
    section_accessors()
    section_run()
    section_flatcheck()
    section_logs()
    for d in _DIRS:
        shutil.rmtree(d, ignore_errors=True)
    blob = "\n".join(LINES)
    for d in _DIRS:
        blob = blob.replace(d, "<DIR>")
    verbose = "-v" in sys.argv
    if verbose:
        print(blob)
    print("cases  :", len(LINES))
    print("digest :", hashlib.sha256(blob.encode("utf-8", "backslashreplace")).hexdigest())
    # per-section digests help to localise a difference
    groups = {}
    for l in blob.split("\n"):
        key = l.split("[")[0].split(" ::")[0].split("-")[0]
        groups.setdefault(key, hashlib.sha256()).update(l.encode("utf-8", "backslashreplace"))
    for k in sorted(groups):
        print("  %-28s %s" % (k, groups[k].hexdigest()[:16]))


if __name__ == "__main__":
    main()
