import os, sys; sys.path.insert(0, os.getcwd())
# Differential script for R2 (SequenceParameters.show_linearComplexity, show_linearNCPR/FCR/Sigma/Hydropathy).
# Run once with cwd=/tmp/seed/R43 (changed) and once with cwd=/repo (unchanged); output must match.
os.environ["MPLBACKEND"] = "Agg"
import contextlib
import hashlib
import io
import inspect
import warnings
warnings.filterwarnings("ignore")
import logging
logging.disable(logging.CRITICAL)

import numpy as np
import matplotlib
matplotlib.use("Agg")
import matplotlib.pyplot as plt

import localcider
assert os.path.dirname(os.path.abspath(localcider.__file__)) == os.path.join(os.getcwd(), "localcider"), localcider.__file__
from localcider.sequenceParameters import SequenceParameters
from localcider.backend import plotting as backend

RESULTS = []
EVENTS = []


# ---------------------------------------------------------------- helpers
class FlipFlop(object):
    """truth value alternates on every evaluation; records how often it was asked"""
    def __init__(self, first):
        self.state = first
        self.asked = 0

    def __bool__(self):
        self.asked += 1
        val = self.state
        self.state = not self.state
        return val

    def __repr__(self):
        return "FlipFlop"


class BadBool(object):
    def __bool__(self):
        raise RuntimeError("no truth value")

    def __repr__(self):
        return "BadBool"


def norm(x):
    if x is plt:
        return "<pyplot>"
    if isinstance(x, float):
        return round(x, 9)
    if isinstance(x, np.ndarray):
        return ("ndarray", x.shape, [norm(float(v)) for v in x.ravel()])
    if isinstance(x, (list, tuple)):
        return (type(x).__name__, [norm(v) for v in x])
    if isinstance(x, dict):
        return sorted((repr(k), norm(v)) for k, v in x.items())
    if isinstance(x, (FlipFlop, BadBool)):
        return repr(x)
    if inspect.isfunction(x) or inspect.ismodule(x):
        return getattr(x, "__name__", "?")
    if hasattr(x, "__module__") and str(type(x).__module__).startswith("localcider"):
        return "<%s>" % type(x).__name__
    return repr(x)


def spy(modname, mod, fname):
    orig = getattr(mod, fname)
    sig = inspect.signature(orig)

    def wrapper(*a, **kw):
        try:
            bound = sig.bind(*a, **kw)
            bound.apply_defaults()
            EVENTS.append((fname, [(k, norm(v)) for k, v in bound.arguments.items()]))
        except TypeError as e:
            EVENTS.append((fname, "BIND-ERROR", str(e)))
        return orig(*a, **kw)
    setattr(mod, fname, wrapper)


for _n in ("show_single_phasePlot", "show_single_uverskyPlot", "show_multiple_phasePlot",
           "show_multiple_uverskyPlot", "show_linearComplexity", "show_linearplot"):
    spy("backend", backend, _n)


def _show(*a, **kw):
    EVENTS.append(("plt.show", len(plt.get_fignums())))


plt.show = _show


def fig_state():
    out = []
    for num in plt.get_fignums():
        fig = plt.figure(num)
        for ax in fig.axes:
            leg = ax.get_legend()
            out.append({
                "title": ax.get_title(),
                "xlabel": ax.get_xlabel(),
                "ylabel": ax.get_ylabel(),
                "xlim": [round(float(v), 6) for v in ax.get_xlim()],
                "ylim": [round(float(v), 6) for v in ax.get_ylim()],
                "texts": [(t.get_text(), [round(float(v), 6) for v in getattr(t, "xy", t.get_position())],
                           round(float(t.get_fontsize()), 3)) for t in ax.texts],
                "points": [[[round(float(c), 6) for c in xy] for xy in coll.get_offsets()]
                           for coll in ax.collections],
                "npatches": len(ax.patches),
                "bars": [(round(float(p.get_x()), 6), round(float(p.get_height()), 6),
                          [round(float(c), 4) for c in p.get_facecolor()], round(float(p.get_linewidth()), 4))
                         for p in ax.patches if hasattr(p, "get_height")],
                "nlines": len(ax.lines),
                "legend": None if leg is None else [t.get_text() for t in leg.get_texts()],
            })
    return out


def run(tag, fn, *a, **kw):
    plt.close("all")
    del EVENTS[:]
    buf = io.StringIO()
    try:
        with contextlib.redirect_stdout(buf):
            r = fn(*a, **kw)
        outcome = ("ret", norm(r), buf.getvalue())
    except Exception as e:   # noqa
        outcome = ("exc", type(e).__name__, str(e), buf.getvalue())
    state = fig_state()
    flips = [(k, v.asked, v.state) for k, v in sorted(kw.items()) if isinstance(v, FlipFlop)]
    RESULTS.append((tag, outcome, list(EVENTS), state, flips))
    plt.close("all")


# ---------------------------------------------------------------- inputs
SEQS = [
    "A",
    "KKKKKKKKKK",
    "GSGSGSGSGSGSGS",
    "MEEPQSDPSVEPPLSQETFSDLWKLLPENNVLSPLPSQAMDDLMLSPDDIEQWFTEDPGPDEAPRMPEAAPPVAPAPAAPTPAAPAPAPSWPL",
    "RKRKRKRKRKRKEDEDEDEDEDWWFFYYLLIIVVMMAACCHHQQNNSSTTGGPP",
    "EKEKEKEKEKEKEKEKEKEKEKEKEKEKEKEKEKEKEKEKEKEKEKEKEK" * 3,
]

GETFIGS = [False, True, None, 0, 1, "", "yes", [], [0], 0.0]

OBJS = [SequenceParameters(s) for s in SEQS]

IDENTITY20 = dict((a, a) for a in "ACDEFGHIKLMNPQRSTVWY")
TWO = dict((a, "L") for a in "LVIMCAGSTPFYW")
TWO.update(dict((a, "E") for a in "EDNQKRH"))
INCOMPLETE = {"A": "A"}

LINEAR = ("show_linearNCPR", "show_linearFCR", "show_linearSigma", "show_linearHydropathy")

for i, obj in enumerate(OBJS):
    # ---- the four sliding-window plots
    for meth in LINEAR:
        f = getattr(obj, meth)
        run((i, meth, "default"), f)
        for g in GETFIGS:
            run((i, meth, "getFig", repr(g)), f, getFig=g)
        for bl in (1, 2, 5, 7, 10, 50, 1000, 0, -3, 2.0, 2.5, "5", None, True):
            run((i, meth, "blobLen-kw", repr(bl), "T"), f, blobLen=bl, getFig=True)
            run((i, meth, "blobLen-pos", repr(bl), "F"), f, bl)
            run((i, meth, "blobLen-pos2", repr(bl)), f, bl, 1)
        run((i, meth, "badbool"), f, getFig=BadBool())
        run((i, meth, "ndarray2"), f, 3, np.array([1, 2]))
        run((i, meth, "flip-T"), f, getFig=FlipFlop(True))
        run((i, meth, "flip-F"), f, getFig=FlipFlop(False))
        run((i, meth, "unknown-kw"), f, window=3)
        run((i, meth, "too-many"), f, 5, True, 1)

    # ---- complexity
    f = obj.show_linearComplexity
    run((i, "cplx", "default"), f)
    for g in GETFIGS:
        run((i, "cplx", "getFig", repr(g)), f, getFig=g)
    for ct in ("WF", "LC", "LZW", "wf", "XX", None, 3):
        for g in (True, False):
            run((i, "cplx", "type", repr(ct), g), f, complexityType=ct, getFig=g)
            run((i, "cplx", "type-pos", repr(ct), g), f, ct, 20, {}, 10, 1, 3, g)
    for asz in (2, 3, 4, 5, 6, 8, 10, 11, 12, 15, 18, 20, 7, 0, "20", None):
        run((i, "cplx", "alphabetSize", repr(asz), "T"), f, alphabetSize=asz, getFig=True)
        run((i, "cplx", "alphabetSize", repr(asz), "F"), f, "LC", asz)
    for nm, ua in (("identity", IDENTITY20), ("two", TWO), ("incomplete", INCOMPLETE), ("list", ["A"]), ("none", None)):
        for g in (True, False):
            run((i, "cplx", "userAlphabet", nm, g), f, userAlphabet=ua, getFig=g)
            run((i, "cplx", "userAlphabet+size", nm, g), f, "LZW", 4, ua, 5, getFig=g)
    for bl in (1, 2, 3, 10, 40, 1000, 0, -1, 2.5, "3"):
        for ct in ("WF", "LC", "LZW"):
            run((i, "cplx", "blobLen", repr(bl), ct), f, complexityType=ct, blobLen=bl, getFig=True)
            run((i, "cplx", "blobLen-noFig", repr(bl), ct), f, complexityType=ct, blobLen=bl)
    for st in (1, 2, 3, 100, 1.5):   # 0 and negative steps never terminate (old and new alike)
        run((i, "cplx", "stepSize", repr(st), "T"), f, stepSize=st, getFig=True)
        run((i, "cplx", "stepSize", repr(st), "F"), f, stepSize=st, blobLen=4)
    for ws in (1, 2, 3, 5, 20, 0, -1):
        run((i, "cplx", "wordSize", repr(ws), "T"), f, complexityType="LC", wordSize=ws, getFig=True)
        run((i, "cplx", "wordSize", repr(ws), "F"), f, "LC", 20, {}, 6, 1, ws)
    run((i, "cplx", "badbool"), f, getFig=BadBool())
    run((i, "cplx", "badbool+badtype"), f, complexityType="XX", getFig=BadBool())
    run((i, "cplx", "ndarray2"), f, getFig=np.array([1, 2]))
    run((i, "cplx", "flip-T"), f, getFig=FlipFlop(True))
    run((i, "cplx", "flip-F"), f, getFig=FlipFlop(False))
    run((i, "cplx", "unknown-kw"), f, window=3)
    run((i, "cplx", "too-many"), f, "WF", 20, {}, 10, 1, 3, True, 1)

# repeated calls on one object interleaved with state changes
obj = OBJS[3]
for rep in range(3):
    run(("repeat", rep, "cplx-T"), obj.show_linearComplexity, getFig=True)
    run(("repeat", rep, "cplx-F"), obj.show_linearComplexity, "LZW", 8)
    run(("repeat", rep, "ncpr"), obj.show_linearNCPR, 5, True)
    run(("repeat", rep, "sigma"), obj.show_linearSigma, 7)
    RESULTS.append(("repeat-values", rep, norm(obj.get_linear_complexity()), norm(obj.get_linear_NCPR(5)), norm(obj.get_kappa())))
    if rep == 0:
        obj.set_phosphosites([6, 9])

# default userAlphabet dictionaries must not have been polluted
RESULTS.append(("defaults", repr(SequenceParameters.show_linearComplexity.__defaults__),
                repr(SequenceParameters.get_linear_complexity.__defaults__)))

for i, obj in enumerate(OBJS):
    RESULTS.append(("state", i, obj.get_sequence(), norm(obj.get_FCR()), norm(obj.get_NCPR()), sorted(vars(obj).keys())))

for meth in LINEAR + ("show_linearComplexity", "save_linearComplexity", "get_linear_complexity"):
    RESULTS.append(("sig", meth, str(inspect.signature(getattr(SequenceParameters, meth)))))

blob = repr(RESULTS).encode("utf-8")
print("records:", len(RESULTS))
print("exceptions:", sum(1 for r in RESULTS if len(r) > 1 and isinstance(r[1], tuple) and r[1] and r[1][0] == "exc"))
print("returned-fig:", sum(1 for r in RESULTS if len(r) > 1 and isinstance(r[1], tuple) and r[1][:2] == ("ret", "<pyplot>")))
print("digest:", hashlib.sha256(blob).hexdigest())
